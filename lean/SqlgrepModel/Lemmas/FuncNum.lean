import SqlgrepModel.Model.Eval
/-
Integer powers against the i64 range: what `i64::checked_pow` (modelled in `callFunction … .pow` with the special
cases 0, ±1 and "exponent above 64") needs to be the mathematical power.
-/
namespace Sqlgrep

/-! ### integer powers against the i64 range -/

theorem inI64_iff (n : Int) : inI64 n = true ↔ -9223372036854775808 ≤ n ∧ n ≤ 9223372036854775807 := by
  unfold inI64 i64Min i64Max
  simp only [Bool.and_eq_true, decide_eq_true_eq]

theorem neg_one_pow (k : Nat) : (-1 : Int) ^ k = if k % 2 = 0 then 1 else -1 := by
  induction k with
  | zero => rfl
  | succ k ih =>
    rw [Int.pow_succ, ih]
    by_cases h : k % 2 = 0
    · have : ¬ (k + 1) % 2 = 0 := by omega
      simp only [h, this, if_true, if_false]; rfl
    · have : (k + 1) % 2 = 0 := by omega
      simp only [h, this, if_true, if_false]; rfl

theorem zero_pow_int (k : Nat) : (0 : Int) ^ k = if k = 0 then 1 else 0 := by
  cases k with
  | zero => rfl
  | succ k => rw [Int.pow_succ]; simp

/-- a base of magnitude ≥ 2 raised to more than 64 leaves the i64 range (so `checked_pow` overflows) -/
theorem pow_overflows (x : Int) (k : Nat) (hx : 2 ≤ x.natAbs) (hk : 64 < k) : inI64 (x ^ k) = false := by
  cases h : inI64 (x ^ k) with
  | false => rfl
  | true =>
    rw [inI64_iff] at h
    have h1 : (x ^ k).natAbs = x.natAbs ^ k := Int.natAbs_pow x k
    have h2 : 2 ^ k ≤ x.natAbs ^ k := Nat.pow_le_pow_left hx k
    have h3 : 2 ^ 65 ≤ 2 ^ k := Nat.pow_le_pow_right (by decide) (by omega)
    have h4 : (x ^ k).natAbs ≤ 9223372036854775808 := by omega
    have h5 : (2 : Nat) ^ 65 = 36893488147419103232 := by decide
    omega

end Sqlgrep
