import SqlgrepModel.Model.Eval
import SqlgrepModel.Lemmas.ValueOrder
/-
`array_unique`: `uniqueValues xs` (`BTreeSet::from_iter(xs).into_iter().collect()`) is the strictly ascending
list of the FIRST occurrences of the order's equality classes of `xs`.
-/
namespace Sqlgrep
namespace Unique
open Value

/-- strictly ascending in the derived order -/
def Sorted (l : List Value) : Prop := l.Pairwise (fun a b => cmp a b = .lt)

theorem cmp_eq_symm {a b : Value} (h : cmp a b = .eq) : cmp b a = .eq := by
  rw [cmp_swap a b, h]; rfl

theorem cmp_eq_trans {a b c : Value} (h1 : cmp a b = .eq) (h2 : cmp b c = .eq) : cmp a c = .eq := by
  rw [(cmp_T a b c).2.1 h1]; exact h2

theorem cmp_lt_trans {a b c : Value} (h1 : cmp a b = .lt) (h2 : cmp b c = .lt) : cmp a c = .lt :=
  (cmp_T a b c).1 h1 h2

theorem mem_insertUnique_of_mem (v u : Value) : ∀ (l : List Value), u ∈ l → u ∈ insertUnique v l
  | [], h => by simp at h
  | x :: xs, h => by
    unfold insertUnique
    cases hc : cmp v x <;> simp only
    · exact List.mem_cons_of_mem _ h
    · exact h
    · rcases List.mem_cons.1 h with h | h
      · rw [h]; exact List.mem_cons_self
      · exact List.mem_cons_of_mem _ (mem_insertUnique_of_mem v u xs h)

theorem mem_of_mem_insertUnique (v u : Value) : ∀ (l : List Value), u ∈ insertUnique v l → u = v ∨ u ∈ l
  | [], h => by simp [insertUnique] at h; exact Or.inl h
  | x :: xs, h => by
    unfold insertUnique at h
    cases hc : cmp v x <;> rw [hc] at h <;> simp only at h
    · rcases List.mem_cons.1 h with h | h
      · exact Or.inl h
      · exact Or.inr h
    · exact Or.inr h
    · rcases List.mem_cons.1 h with h | h
      · exact Or.inr (by rw [h]; exact List.mem_cons_self)
      · rcases mem_of_mem_insertUnique v u xs h with h | h
        · exact Or.inl h
        · exact Or.inr (List.mem_cons_of_mem _ h)

/-- a value with no equal in the set is inserted -/
theorem mem_insertUnique_self (v : Value) : ∀ (l : List Value), (∀ w ∈ l, cmp v w ≠ .eq) → v ∈ insertUnique v l
  | [], _ => by simp [insertUnique]
  | x :: xs, h => by
    unfold insertUnique
    cases hc : cmp v x <;> simp only
    · exact List.mem_cons_self
    · exact absurd hc (h x List.mem_cons_self)
    · exact List.mem_cons_of_mem _ (mem_insertUnique_self v xs (fun w hw => h w (List.mem_cons_of_mem _ hw)))

/-- a value equal to a member leaves the (sorted) set unchanged: the member first inserted stays -/
theorem insertUnique_of_eq (v : Value) : ∀ (l : List Value), Sorted l → (∃ w ∈ l, cmp v w = .eq) → insertUnique v l = l
  | [], _, h => by obtain ⟨w, hw, _⟩ := h; simp at hw
  | x :: xs, hs, h => by
    obtain ⟨w, hw, he⟩ := h
    have hs' := List.pairwise_cons.1 hs
    unfold insertUnique
    cases hc : cmp v x <;> simp only
    · exfalso
      rcases List.mem_cons.1 hw with hw | hw
      · rw [hw, hc] at he; exact absurd he (by decide)
      · have := cmp_lt_trans hc (hs'.1 w hw)
        rw [this] at he; exact absurd he (by decide)
    · rcases List.mem_cons.1 hw with hw | hw
      · rw [hw, hc] at he; exact absurd he (by decide)
      · rw [insertUnique_of_eq v xs hs'.2 ⟨w, hw, he⟩]

theorem sorted_insertUnique (v : Value) : ∀ (l : List Value), Sorted l → Sorted (insertUnique v l)
  | [], _ => by simp [insertUnique, Sorted]
  | x :: xs, hs => by
    have hs' := List.pairwise_cons.1 hs
    unfold insertUnique
    cases hc : cmp v x <;> simp only
    · refine List.pairwise_cons.2 ⟨fun y hy => ?_, hs⟩
      rcases List.mem_cons.1 hy with hy | hy
      · rw [hy]; exact hc
      · exact cmp_lt_trans hc (hs'.1 y hy)
    · exact hs
    · refine List.pairwise_cons.2 ⟨fun y hy => ?_, sorted_insertUnique v xs hs'.2⟩
      rcases mem_of_mem_insertUnique v y xs hy with hy | hy
      · rw [hy, cmp_swap v x, hc]; rfl
      · exact hs'.1 y hy

theorem mem_insertUnique_iff (v u : Value) (l : List Value) (hs : Sorted l) :
    u ∈ insertUnique v l ↔ u ∈ l ∨ (u = v ∧ ∀ w ∈ l, cmp v w ≠ .eq) := by
  constructor
  · intro h
    by_cases he : ∃ w ∈ l, cmp v w = .eq
    · rw [insertUnique_of_eq v l hs he] at h; exact Or.inl h
    · rcases mem_of_mem_insertUnique v u l h with h | h
      · exact Or.inr ⟨h, fun w hw hc => he ⟨w, hw, hc⟩⟩
      · exact Or.inl h
  · rintro (h | ⟨h, hn⟩)
    · exact mem_insertUnique_of_mem v u l h
    · rw [h]; exact mem_insertUnique_self v l hn

/-- the fold of `uniqueValues` started from any sorted set -/
def run (acc xs : List Value) : List Value := xs.foldl (fun acc v => insertUnique v acc) acc

theorem run_cons (acc : List Value) (x : Value) (xs : List Value) : run acc (x :: xs) = run (insertUnique x acc) xs := rfl

theorem sorted_run : ∀ (xs acc : List Value), Sorted acc → Sorted (run acc xs)
  | [], _, h => h
  | x :: xs, acc, h => by rw [run_cons]; exact sorted_run xs _ (sorted_insertUnique x acc h)

/-- `v` occurs in `xs` at a position before which no equal value occurs -/
def FirstOcc (v : Value) (xs : List Value) : Prop :=
  ∃ pre post, xs = pre ++ v :: post ∧ ∀ u ∈ pre, cmp u v ≠ .eq

theorem mem_run_iff : ∀ (xs acc : List Value), Sorted acc → ∀ (v : Value),
    (v ∈ run acc xs ↔ v ∈ acc ∨ ((∀ u ∈ acc, cmp u v ≠ .eq) ∧ FirstOcc v xs))
  | [], acc, _, v => by
    simp only [run, List.foldl_nil, FirstOcc]
    constructor
    · exact Or.inl
    · rintro (h | ⟨_, pre, post, h, _⟩)
      · exact h
      · cases pre <;> simp at h
  | x :: xs, acc, hs, v => by
    rw [run_cons, mem_run_iff xs _ (sorted_insertUnique x acc hs) v]
    constructor
    · rintro (h | ⟨hn, pre, post, hx, hp⟩)
      · rcases (mem_insertUnique_iff x v acc hs).1 h with h | ⟨h, hn⟩
        · exact Or.inl h
        · subst h
          exact Or.inr ⟨fun u hu hc => hn u hu (cmp_eq_symm hc), [], xs, rfl, by simp⟩
      · refine Or.inr ⟨fun u hu => hn u (mem_insertUnique_of_mem x u acc hu), x :: pre, post, by rw [hx]; rfl, ?_⟩
        intro u hu
        rcases List.mem_cons.1 hu with hu | hu
        · subst hu
          intro hc
          by_cases he : ∃ w ∈ acc, cmp u w = .eq
          · obtain ⟨w, hw, hwe⟩ := he
            exact hn w (mem_insertUnique_of_mem u w acc hw) (cmp_eq_trans (cmp_eq_symm hwe) hc)
          · exact hn u (mem_insertUnique_self u acc (fun w hw hce => he ⟨w, hw, hce⟩)) hc
        · exact hp u hu
    · rintro (h | ⟨hn, pre, post, hx, hp⟩)
      · exact Or.inl (mem_insertUnique_of_mem x v acc h)
      · cases pre with
        | nil =>
          simp only [List.nil_append, List.cons.injEq] at hx
          obtain ⟨hx1, _⟩ := hx
          subst hx1
          exact Or.inl ((mem_insertUnique_iff x x acc hs).2 (Or.inr ⟨rfl, fun w hw hc => hn w hw (cmp_eq_symm hc)⟩))
        | cons p pre =>
          simp only [List.cons_append, List.cons.injEq] at hx
          obtain ⟨hx1, hx2⟩ := hx
          subst hx1
          refine Or.inr ⟨fun u hu => ?_, pre, post, hx2, fun u hu => hp u (List.mem_cons_of_mem _ hu)⟩
          rcases (mem_insertUnique_iff x u acc hs).1 hu with hu | ⟨hu, _⟩
          · exact hn u hu
          · rw [hu]; exact hp x List.mem_cons_self

theorem uniqueValues_eq_run (xs : List Value) : uniqueValues xs = run [] xs := rfl

theorem sorted_uniqueValues (xs : List Value) : Sorted (uniqueValues xs) :=
  sorted_run xs [] List.Pairwise.nil

theorem mem_uniqueValues_iff (xs : List Value) (v : Value) : v ∈ uniqueValues xs ↔ FirstOcc v xs := by
  rw [uniqueValues_eq_run, mem_run_iff xs [] List.Pairwise.nil v]
  simp

/-- every element has a first equal occurrence -/
theorem exists_firstOcc : ∀ (xs : List Value) (x : Value), x ∈ xs → ∃ u, cmp u x = .eq ∧ FirstOcc u xs
  | [], _, h => by simp at h
  | y :: ys, x, h => by
    by_cases hy : cmp y x = .eq
    · exact ⟨y, hy, [], ys, rfl, by simp⟩
    · have hx : x ∈ ys := by
        rcases List.mem_cons.1 h with h | h
        · subst h; exact absurd (cmp_refl x) hy
        · exact h
      obtain ⟨u, hu, pre, post, he, hp⟩ := exists_firstOcc ys x hx
      refine ⟨u, hu, y :: pre, post, by rw [he]; rfl, fun w hw => ?_⟩
      rcases List.mem_cons.1 hw with hw | hw
      · subst hw
        intro hc; exact hy (cmp_eq_trans hc hu)
      · exact hp w hw

theorem pairwise_mem {R : Value → Value → Prop} : ∀ {l : List Value}, l.Pairwise R → ∀ {a b : Value}, a ∈ l → b ∈ l →
    a = b ∨ R a b ∨ R b a
  | [], _, _, _, h, _ => by simp at h
  | x :: xs, hp, a, b, ha, hb => by
    have hp' := List.pairwise_cons.1 hp
    rcases List.mem_cons.1 ha with ha | ha <;> rcases List.mem_cons.1 hb with hb | hb
    · exact Or.inl (by rw [ha, hb])
    · exact Or.inr (Or.inl (by rw [ha]; exact hp'.1 b hb))
    · exact Or.inr (Or.inr (by rw [hb]; exact hp'.1 a ha))
    · exact pairwise_mem hp'.2 ha hb

end Unique
end Sqlgrep
