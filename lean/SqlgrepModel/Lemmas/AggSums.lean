import SqlgrepModel.Lemmas.AggKinds
/-
SUM, AVG, STDDEV/VARIANCE: the running sums of the engine against the specification, generic in the numeric
argument type (INT and INTERVAL with range checks, REAL through the opaque `F64.*` primitives).
-/
set_option linter.unusedSimpArgs false
namespace Sqlgrep
open Value Spec.Agg

/-! ### SUM / AVG / STDDEV: numeric argument types -/

/-- an argument type `α` the running sums accept: how `add_to_sum` acts on it -/
structure NumLike {α : Type} (inj : α → Value) (plus : α → α → α) (okp : α → Bool) (zero : α) : Prop where
  add : ∀ s y, addToSum (inj s) (inj y) = if okp (plus s y) then .ok (inj (plus s y)) else .error .undefinedOperation
  addNull : ∀ y, addToSum .null (inj y) = .ok (inj y)
  notNull : ∀ y, (inj y).isNull = false
  dflt : ∀ y, defaultOf (inj y) = inj zero

theorem numLike_int : NumLike Value.int (· + ·) inI64 0 where
  add := by
    intro s y
    simp only [addToSum, checked]
    by_cases h : inI64 (s + y) = true <;> simp [h]
  addNull := fun _ => rfl
  notNull := fun _ => rfl
  dflt := fun _ => rfl

theorem numLike_real : NumLike Value.real F64.add (fun _ => true) F64.zero where
  add := fun s y => by simp [addToSum]
  addNull := fun _ => rfl
  notNull := fun _ => rfl
  dflt := fun _ => rfl

theorem numLike_interval : NumLike Value.interval (· + ·) inIv 0 where
  add := fun s y => by simp only [addToSum]
  addNull := fun _ => rfl
  notNull := fun _ => rfl
  dflt := fun _ => rfl

/-- every partial sum passes the range check -/
def psOk {α : Type} (plus : α → α → α) (okp : α → Bool) : α → List α → Bool
  | _, [] => true
  | acc, x :: xs => okp (plus acc x) && psOk plus okp (plus acc x) xs

theorem psOk_int (ok : Int → Bool) (acc : Int) (xs : List Int) : psOk (· + ·) ok acc xs = partialSumsOk ok acc xs := by
  induction xs generalizing acc with
  | nil => rfl
  | cons x xs ih => simp [psOk, partialSumsOk, ih]

theorem psOk_true {α : Type} (plus : α → α → α) (acc : α) (xs : List α) : psOk plus (fun _ => true) acc xs = true := by
  induction xs generalizing acc with
  | nil => rfl
  | cons x xs ih => simp [psOk, ih]

theorem isNull_null : Value.null.isNull = true := rfl

/-- the sum reached from a NULL start: the first addend is adopted as it is -/
def sumFromNull {α : Type} (inj : α → Value) (plus : α → α → α) : List α → Value
  | [] => .null
  | y :: ys' => inj (ys'.foldl plus y)

def sumCell (s : Value) : Cell := { agg := some (.sum s), val := some s }

theorem aggUpdate_sum (s v : Value) :
    aggUpdate (.sum s) v = (addToSum s v).bind (fun s' => .ok (.sum s', some s')) := rfl

theorem map_cons_inv {α : Type} {inj : α → Value} {v : Value} {xs : List Value} {ys : List α}
    (h : v :: xs = ys.map inj) : ∃ y ys', ys = y :: ys' ∧ v = inj y ∧ xs = ys'.map inj := by
  cases ys with
  | nil => simp at h
  | cons y ys' => simp at h; exact ⟨y, ys', rfl, h.1, h.2⟩

theorem isNull_eq_true {v : Value} (h : v.isNull = true) : v = .null := by
  cases v <;> simp [isNull] at h; rfl

theorem foldV_sum_num {α : Type} {inj : α → Value} {plus : α → α → α} {okp : α → Bool} {zero : α}
    (N : NumLike inj plus okp zero) (e : Expr) (vs : List Value) (s : α) (ys : List α)
    (hys : nonNull vs = ys.map inj) (hok : psOk plus okp s ys = true) :
    foldV (.sum e) vs (sumCell (inj s)) = .ok (sumCell (inj (ys.foldl plus s))) := by
  induction vs generalizing s ys with
  | nil => simp [nonNull] at hys; cases ys <;> simp at hys; rfl
  | cons v vs ih =>
    cases hv : v.isNull
    · rw [nonNull_cons_of_not_null hv] at hys
      obtain ⟨y, ys', rfl, rfl, hys'⟩ := map_cons_inv hys
      simp only [psOk, Bool.and_eq_true] at hok
      simp only [foldV, stepV, sumCell, Option.getD, hv, Bool.not_false, if_true, aggUpdate_sum, N.add, hok.1, bind,
        Outcome.bind, pure, List.foldl_cons]
      exact ih (plus s y) ys' hys' hok.2
    · have := isNull_eq_true hv; subst this
      rw [nonNull_cons_null] at hys
      simp only [foldV, stepV, sumCell, Option.getD, isNull_null, Bool.not_true, Bool.false_eq_true, if_false, aggIsNull, N.notNull,
        Outcome.bind]
      exact ih s ys hys hok

theorem foldV_sum_null {α : Type} {inj : α → Value} {plus : α → α → α} {okp : α → Bool} {zero : α}
    (N : NumLike inj plus okp zero) (e : Expr) (vs : List Value) (ys : List α)
    (hys : nonNull vs = ys.map inj) (hok : ∀ y ys', ys = y :: ys' → psOk plus okp y ys' = true) :
    foldV (.sum e) vs (sumCell .null) = .ok (sumCell (sumFromNull inj plus ys)) := by
  induction vs generalizing ys with
  | nil => simp [nonNull] at hys; cases ys <;> simp at hys; rfl
  | cons v vs ih =>
    cases hv : v.isNull
    · rw [nonNull_cons_of_not_null hv] at hys
      obtain ⟨y, ys', rfl, rfl, hys'⟩ := map_cons_inv hys
      simp only [foldV, stepV, sumCell, Option.getD, hv, Bool.not_false, if_true, aggUpdate_sum, N.addNull, bind,
        Outcome.bind, pure]
      exact foldV_sum_num N e vs y ys' hys' (hok y ys' rfl)
    · have := isNull_eq_true hv; subst this
      rw [nonNull_cons_null] at hys
      simp only [foldV, stepV, sumCell, Option.getD, isNull_null, Bool.not_true, Bool.false_eq_true, if_false, aggIsNull,
        Outcome.bind, if_true]
      exact ih ys hys hok

theorem foldV_sum_init (e : Expr) (v : Value) (vs : List Value) :
    foldV (.sum e) (v :: vs) {} = foldV (.sum e) (v :: vs) (sumCell (defaultOf v)) := by
  cases hv : v.isNull
  · simp only [foldV, stepV, sumCell, Option.getD, defaultAggregator, hv, Bool.not_false, if_true, aggUpdate_sum]
    cases addToSum (defaultOf v) v <;> rfl
  · have := isNull_eq_true hv; subst this
    simp only [foldV, stepV, sumCell, Option.getD, defaultAggregator, defaultOf, isNull_null, Bool.not_true, Bool.false_eq_true,
      if_false, aggIsNull, if_true]

/-- the specification's sum of a list of one numeric type: NULL for no addends -/
def sumResult {α : Type} (inj : α → Value) (plus : α → α → α) (zero : α) : List α → Value
  | [] => .null
  | y :: ys' => inj ((y :: ys').foldl plus zero)

theorem sum_num_cell {α : Type} {inj : α → Value} {plus : α → α → α} {okp : α → Bool} {zero : α}
    (N : NumLike inj plus okp zero) (e : Expr) (v : Value) (vs : List Value) (ys : List α)
    (hys : nonNull (v :: vs) = ys.map inj) (hok : psOk plus okp zero ys = true)
    (hz : ∀ y ys', ys = y :: ys' → plus zero y = y) :
    foldV (.sum e) (v :: vs) {} = .ok (sumCell (sumResult inj plus zero ys)) := by
  rw [foldV_sum_init]
  cases hv : v.isNull
  · have hys' := hys
    rw [nonNull_cons_of_not_null hv] at hys'
    obtain ⟨y, ys', rfl, rfl, _⟩ := map_cons_inv hys'
    rw [N.dflt]
    exact foldV_sum_num N e _ zero _ hys hok
  · have := isNull_eq_true hv; subst this
    simp only [defaultOf]
    rw [foldV_sum_null N e _ ys hys]
    · cases ys with
      | nil => rfl
      | cons y ys' => simp only [sumFromNull, sumResult, List.foldl_cons, hz y ys' rfl]
    · intro y ys' he
      subst he
      simp only [psOk, Bool.and_eq_true, hz y ys' rfl] at hok
      exact hok.2

theorem ints_eq {xs : List Value} {is : List Int} (h : ints xs = some is) : xs = is.map Value.int := by
  induction xs generalizing is with
  | nil => simp [ints, collect] at h; subst h; rfl
  | cons x xs ih =>
    cases hx : asInt x with
    | none => simp [ints, collect, hx] at h
    | some b =>
      simp only [ints, List.map_cons, hx] at h
      obtain ⟨l', h', hl⟩ := collect_eq_some_cons h
      subst hl
      have : x = Value.int b := by cases x <;> simp [asInt] at hx; rw [hx]
      rw [this, ih h']; rfl

theorem reals_eq {xs : List Value} {rs : List Nat} (h : reals xs = some rs) : xs = rs.map Value.real := by
  induction xs generalizing rs with
  | nil => simp [reals, collect] at h; subst h; rfl
  | cons x xs ih =>
    cases hx : asReal x with
    | none => simp [reals, collect, hx] at h
    | some b =>
      simp only [reals, List.map_cons, hx] at h
      obtain ⟨l', h', hl⟩ := collect_eq_some_cons h
      subst hl
      have : x = Value.real b := by cases x <;> simp [asReal] at hx; rw [hx]
      rw [this, ih h']; rfl

theorem intervals_eq {xs : List Value} {ns : List Int} (h : intervals xs = some ns) : xs = ns.map Value.interval := by
  induction xs generalizing ns with
  | nil => simp [intervals, collect] at h; subst h; rfl
  | cons x xs ih =>
    cases hx : asInterval x with
    | none => simp [intervals, collect, hx] at h
    | some b =>
      simp only [intervals, List.map_cons, hx] at h
      obtain ⟨l', h', hl⟩ := collect_eq_some_cons h
      subst hl
      have : x = Value.interval b := by cases x <;> simp [asInterval] at hx; rw [hx]
      rw [this, ih h']; rfl

theorem shown_sumCell (e : Expr) (r : Value) : shownValue (.sum e) (sumCell r) = r := rfl

theorem zeroNeutral_cons {y : Nat} {ys : List Nat} (h : zeroNeutral (y :: ys) = true) : F64.add F64.zero y = y := by
  simpa [zeroNeutral] using h

/-- SUM: the sum of the non-NULL arguments (NULL if there are none); an overflowing partial sum is an error -/
theorem sum_refines (e : Expr) (vs : List Value) (r : Value) (h : aggregate (.sum e) vs = some r) :
    ∃ c, foldV (.sum e) vs {} = .ok c ∧ shownValue (.sum e) c = r ∧
      (published c).isSome = createsEntry (.sum e) vs := by
  cases vs with
  | nil =>
    simp [aggregate, nonNull, sumOf] at h
    exact ⟨{}, rfl, by simp [shownValue, published, emptyGroupValue, h], rfl⟩
  | cons v vs =>
    suffices hs : foldV (.sum e) (v :: vs) {} = .ok (sumCell r) from ⟨_, hs, shown_sumCell e r, rfl⟩
    simp only [aggregate] at h
    cases hx : nonNull (v :: vs) with
    | nil =>
      simp only [hx, sumOf, Option.some.injEq] at h
      subst h
      exact sum_num_cell numLike_int e v vs [] (by simpa using hx) rfl (by simp)
    | cons x xs =>
      simp only [hx, sumOf] at h
      cases hi : ints (x :: xs) with
      | some is =>
        simp only [hi] at h
        split at h
        · simp only [Option.some.injEq] at h
          subst h
          rename_i hok
          have hm := ints_eq hi
          cases is with
          | nil => simp at hm
          | cons i is' =>
            exact sum_num_cell numLike_int e v vs (i :: is') (by rw [hx]; exact hm) (by rw [psOk_int]; exact hok)
              (by intro y ys' _; exact Int.zero_add y)
        · simp at h
      | none =>
        cases hr : reals (x :: xs) with
        | some rs =>
          simp only [hi, hr] at h
          split at h
          · simp only [Option.some.injEq] at h
            subst h
            rename_i hzn
            have hm := reals_eq hr
            cases rs with
            | nil => simp at hm
            | cons y rs' =>
              exact sum_num_cell numLike_real e v vs (y :: rs') (by rw [hx]; exact hm) (psOk_true _ _ _)
                (by intro y' ys' he; simp only [List.cons.injEq] at he; rw [← he.1]; exact zeroNeutral_cons hzn)
          · simp at h
        | none =>
          cases hn : intervals (x :: xs) with
          | some ns =>
            simp only [hi, hr, hn] at h
            split at h
            · simp only [Option.some.injEq] at h
              subst h
              rename_i hok
              have hm := intervals_eq hn
              cases ns with
              | nil => simp at hm
              | cons i ns' =>
                exact sum_num_cell numLike_interval e v vs (i :: ns') (by rw [hx]; exact hm) (by rw [psOk_int]; exact hok)
                  (by intro y ys' _; exact Int.zero_add y)
            · simp at h
          | none => simp [hi, hr, hn] at h

/-! ### AVG -/

/-- the average published after an update (`map_numeric` of the sum by the count) -/
def avgPub (s : Value) (c : Int) : Option Value :=
  match s with
  | .int x => some (.int (Int.tdiv x c))
  | .real x => some (.real (F64.div x (F64.ofInt c)))
  | .interval x => some (.interval (Int.tdiv x c))
  | _ => none

theorem aggUpdate_avg (s v : Value) (c : Int) :
    aggUpdate (.avg s c) v = (addToSum s v).bind (fun s' => .ok (.avg s' (c + 1), avgPub s' (c + 1))) := by
  simp only [aggUpdate, bind, pure]
  cases addToSum s v with
  | ok s' => cases s' <;> rfl
  | error k => rfl
  | panic k => rfl
  | oracleMissing k => rfl

def avgCell (s : Value) (n : Int) (x : Option Value) : Cell := { agg := some (.avg s n), val := x }

def avgLast {α : Type} (plus : α → α → α) (shw : α → Int → Value) (x : Option Value) (s : α) (n : Int) : List α → Option Value
  | [] => x
  | y :: ys => some (shw ((y :: ys).foldl plus s) (n + ((y :: ys).length : Nat)))

theorem foldV_avg_num {α : Type} {inj : α → Value} {plus : α → α → α} {okp : α → Bool} {zero : α}
    (N : NumLike inj plus okp zero) (shw : α → Int → Value) (hpub : ∀ s c, avgPub (inj s) c = some (shw s c))
    (e : Expr) (vs : List Value) (s : α) (n : Int) (x : Option Value) (ys : List α)
    (hys : nonNull vs = ys.map inj) (hok : psOk plus okp s ys = true) :
    foldV (.avg e) vs (avgCell (inj s) n x) =
      .ok (avgCell (inj (ys.foldl plus s)) (n + (ys.length : Nat)) (avgLast plus shw x s n ys)) := by
  induction vs generalizing s n x ys with
  | nil =>
    simp [nonNull] at hys; cases ys <;> simp at hys
    simp [foldV, avgLast]
  | cons v vs ih =>
    cases hv : v.isNull
    · rw [nonNull_cons_of_not_null hv] at hys
      obtain ⟨y, ys', rfl, rfl, hys'⟩ := map_cons_inv hys
      simp only [psOk, Bool.and_eq_true] at hok
      simp only [foldV, stepV, avgCell, Option.getD, hv, Bool.not_false, if_true, aggUpdate_avg, N.add, hok.1, bind,
        Outcome.bind, pure, hpub]
      have := ih (plus s y) (n + 1) (some (shw (plus s y) (n + 1))) ys' hys' hok.2
      simp only [avgCell] at this
      rw [this]
      have hlen : n + 1 + ((ys'.length : Nat) : Int) = n + (((y :: ys').length : Nat) : Int) := by
        simp only [List.length_cons]; omega
      simp only [List.foldl_cons, hlen]
      cases ys' with
      | nil => simp [avgLast]
      | cons y2 ys2 => simp only [avgLast, List.foldl_cons, hlen]
    · have := isNull_eq_true hv; subst this
      rw [nonNull_cons_null] at hys
      simp only [foldV, stepV, avgCell, Option.getD, isNull_null, Bool.not_true, Bool.false_eq_true, if_false, aggIsNull,
        N.notNull, Outcome.bind]
      exact ih s n x ys hys hok

/-- the value shown after a NULL start -/
def avgNullVal {α : Type} (plus : α → α → α) (shw : α → Int → Value) : List α → Value
  | [] => .null
  | y :: ys' => shw (ys'.foldl plus y) ((y :: ys').length : Nat)

theorem foldV_avg_null {α : Type} {inj : α → Value} {plus : α → α → α} {okp : α → Bool} {zero : α}
    (N : NumLike inj plus okp zero) (shw : α → Int → Value) (hpub : ∀ s c, avgPub (inj s) c = some (shw s c))
    (e : Expr) (vs : List Value) (ys : List α)
    (hys : nonNull vs = ys.map inj) (hok : ∀ y ys', ys = y :: ys' → psOk plus okp y ys' = true) :
    foldV (.avg e) vs (avgCell .null 0 (some .null)) =
      .ok (avgCell (sumFromNull inj plus ys) (ys.length : Nat) (some (avgNullVal plus shw ys))) := by
  induction vs generalizing ys with
  | nil =>
    simp [nonNull] at hys; cases ys <;> simp at hys
    rfl
  | cons v vs ih =>
    cases hv : v.isNull
    · rw [nonNull_cons_of_not_null hv] at hys
      obtain ⟨y, ys', rfl, rfl, hys'⟩ := map_cons_inv hys
      simp only [foldV, stepV, avgCell, Option.getD, hv, Bool.not_false, if_true, aggUpdate_avg, N.addNull, bind,
        Outcome.bind, pure, hpub]
      have := foldV_avg_num N shw hpub e vs y (0 + 1) (some (shw y (0 + 1))) ys' hys' (hok y ys' rfl)
      simp only [avgCell] at this
      rw [this]
      have hlen : (0 : Int) + 1 + ((ys'.length : Nat) : Int) = (((y :: ys').length : Nat) : Int) := by
        simp only [List.length_cons]; omega
      simp only [avgCell, sumFromNull, avgNullVal, hlen]
      cases ys' with
      | nil => simp [avgLast]
      | cons y2 ys2 => simp only [avgLast, hlen]
    · have := isNull_eq_true hv; subst this
      rw [nonNull_cons_null] at hys
      simp only [foldV, stepV, avgCell, Option.getD, isNull_null, Bool.not_true, Bool.false_eq_true, if_false, aggIsNull,
        Outcome.bind, if_true]
      exact ih ys hys hok

theorem foldV_avg_init (e : Expr) (v : Value) (vs : List Value) :
    foldV (.avg e) (v :: vs) {} = foldV (.avg e) (v :: vs) (avgCell (defaultOf v) 0 none) := by
  simp only [foldV, stepV, avgCell, Option.getD, defaultAggregator]
  rfl

/-- the specification's average of a list of one numeric type -/
def avgResult {α : Type} (plus : α → α → α) (zero : α) (shw : α → Int → Value) : List α → Value
  | [] => .null
  | y :: ys' => shw ((y :: ys').foldl plus zero) ((y :: ys').length : Nat)

theorem avg_num_cell {α : Type} {inj : α → Value} {plus : α → α → α} {okp : α → Bool} {zero : α}
    (N : NumLike inj plus okp zero) (shw : α → Int → Value) (hpub : ∀ s c, avgPub (inj s) c = some (shw s c))
    (e : Expr) (v : Value) (vs : List Value) (ys : List α)
    (hys : nonNull (v :: vs) = ys.map inj) (hok : psOk plus okp zero ys = true)
    (hz : ∀ y ys', ys = y :: ys' → plus zero y = y) :
    ∃ s n, foldV (.avg e) (v :: vs) {} = .ok (avgCell s n (some (avgResult plus zero shw ys))) := by
  rw [foldV_avg_init]
  cases hv : v.isNull
  · have hys' := hys
    rw [nonNull_cons_of_not_null hv] at hys'
    obtain ⟨y, ys', rfl, rfl, _⟩ := map_cons_inv hys'
    rw [N.dflt, foldV_avg_num N shw hpub e _ zero 0 none _ hys hok]
    simp only [avgLast, avgResult, Int.zero_add]
    exact ⟨_, _, rfl⟩
  · have := isNull_eq_true hv; subst this
    have h1 : foldV (.avg e) (Value.null :: vs) (avgCell (defaultOf .null) 0 none) =
        foldV (.avg e) vs (avgCell .null 0 (some .null)) := by
      simp only [foldV, stepV, avgCell, Option.getD, defaultOf, isNull_null, Bool.not_true, Bool.false_eq_true, if_false,
        aggIsNull, if_true, Outcome.bind]
    rw [h1, foldV_avg_null N shw hpub e vs ys (by rw [nonNull_cons_null] at hys; exact hys)]
    · have : avgNullVal plus shw ys = avgResult plus zero shw ys := by
        cases ys with
        | nil => rfl
        | cons y ys' => simp only [avgNullVal, avgResult, List.foldl_cons, hz y ys' rfl]
      rw [this]
      exact ⟨_, _, rfl⟩
    · intro y ys' he
      subst he
      simp only [psOk, Bool.and_eq_true, hz y ys' rfl] at hok
      exact hok.2

/-- AVG: sum of the non-NULL arguments divided by their number (INT: truncating), NULL if there are none -/
theorem avg_refines (e : Expr) (vs : List Value) (r : Value) (h : aggregate (.avg e) vs = some r) :
    ∃ c, foldV (.avg e) vs {} = .ok c ∧ shownValue (.avg e) c = r ∧
      (published c).isSome = createsEntry (.avg e) vs := by
  cases vs with
  | nil =>
    simp [aggregate, nonNull, avgOf] at h
    exact ⟨{}, rfl, by simp [shownValue, published, emptyGroupValue, h], rfl⟩
  | cons v vs =>
    suffices hs : ∃ s n, foldV (.avg e) (v :: vs) {} = .ok (avgCell s n (some r)) by
      obtain ⟨s, n, hs⟩ := hs
      exact ⟨_, hs, rfl, rfl⟩
    simp only [aggregate] at h
    cases hx : nonNull (v :: vs) with
    | nil =>
      simp only [hx, avgOf, Option.some.injEq] at h
      subst h
      exact avg_num_cell numLike_int (fun s c => .int (Int.tdiv s c)) (fun _ _ => rfl) e v vs [] (by simpa using hx) rfl (by simp)
    | cons x xs =>
      simp only [hx, avgOf] at h
      cases hi : ints (x :: xs) with
      | some is =>
        simp only [hi] at h
        split at h
        · simp only [Option.some.injEq] at h
          subst h
          rename_i hok
          have hm := ints_eq hi
          cases is with
          | nil => simp at hm
          | cons i is' =>
            exact avg_num_cell numLike_int (fun s c => .int (Int.tdiv s c)) (fun _ _ => rfl) e v vs (i :: is')
              (by rw [hx]; exact hm) (by rw [psOk_int]; exact hok) (by intro y ys' _; exact Int.zero_add y)
        · simp at h
      | none =>
        cases hr : reals (x :: xs) with
        | some rs =>
          simp only [hi, hr] at h
          split at h
          · simp only [Option.some.injEq] at h
            subst h
            rename_i hzn
            have hm := reals_eq hr
            cases rs with
            | nil => simp at hm
            | cons y rs' =>
              exact avg_num_cell numLike_real (fun s c => .real (F64.div s (F64.ofInt c))) (fun _ _ => rfl) e v vs (y :: rs')
                (by rw [hx]; exact hm) (psOk_true _ _ _)
                (by intro y' ys' he; simp only [List.cons.injEq] at he; rw [← he.1]; exact zeroNeutral_cons hzn)
          · simp at h
        | none =>
          cases hn : intervals (x :: xs) with
          | some ns =>
            simp only [hi, hr, hn] at h
            split at h
            · simp only [Option.some.injEq] at h
              subst h
              rename_i hok
              have hm := intervals_eq hn
              cases ns with
              | nil => simp at hm
              | cons i ns' =>
                exact avg_num_cell numLike_interval (fun s c => .interval (Int.tdiv s c)) (fun _ _ => rfl) e v vs (i :: ns')
                  (by rw [hx]; exact hm) (by rw [psOk_int]; exact hok) (by intro y ys' _; exact Int.zero_add y)
            · simp at h
          | none => simp [hi, hr, hn] at h

/-! ### STDDEV / VARIANCE -/

/-- the model's STDDEV / VARIANCE formula (`GroupAggregator::StandardDeviation`) is the specification's population
variance / its square root -/
theorem stddevCalc_eq_spread (n : Int) (isVar : Bool) (s q : Nat) : stddevCalc n isVar s q = Spec.Agg.spread n isVar s q := rfl
/-- … and for INT sums (exact numerator and denominator, two conversions, one division) -/
theorem stddevCalcInt_eq_spreadInt (n : Int) (isVar : Bool) (s q : Int) :
    stddevCalcInt n isVar s q = Spec.Agg.spreadInt n isVar s q := rfl

/-- squares and the published value for an argument type STDDEV accepts (INT, REAL); `fin` = the final calculation from
(count, Σx, Σx²) for that type -/
structure SqLike {α : Type} (inj : α → Value) (sq : α → α) (okSq : α → Bool) (fin : Int → Bool → α → α → Nat) : Prop where
  square : ∀ y, squareOf (inj y) = if okSq y then .ok (inj (sq y)) else .error .undefinedOperation
  value : ∀ s q c isVar, stddevValue (inj s) (inj q) c isVar = some (.real (fin c isVar s q))

theorem sqLike_int : SqLike Value.int (fun x => x * x) (fun x => inI64 (x * x)) stddevCalcInt where
  square := by
    intro y
    simp only [squareOf, checked]
    by_cases h : inI64 (y * y) = true <;> simp [h]
  value := fun _ _ _ _ => rfl

theorem sqLike_real : SqLike Value.real (fun x => F64.mul x x) (fun _ => true) stddevCalc where
  square := fun y => by simp [squareOf]
  value := fun _ _ _ _ => rfl

theorem aggUpdate_stddev (s q v : Value) (c : Int) (isVar : Bool) :
    aggUpdate (.stddev s q c isVar) v = (squareOf v).bind (fun sqv => (addToSum s v).bind (fun s' =>
      (addToSum q sqv).bind (fun q' => .ok (.stddev s' q' (c + 1) isVar, stddevValue s' q' (c + 1) isVar)))) := rfl

def sdCell (s q : Value) (n : Int) (isVar : Bool) (x : Option Value) : Cell :=
  { agg := some (.stddev s q n isVar), val := x }

def sdShow {α : Type} (toF : Int → Bool → α → α → Nat) (isVar : Bool) (s q : α) (n : Int) : Value :=
  .real (toF n isVar s q)

def sdLast {α : Type} (plus : α → α → α) (sq : α → α) (toF : Int → Bool → α → α → Nat) (isVar : Bool) (x : Option Value) (s q : α) (n : Int) :
    List α → Option Value
  | [] => x
  | y :: ys => some (sdShow toF isVar ((y :: ys).foldl plus s) (((y :: ys).map sq).foldl plus q) (n + ((y :: ys).length : Nat)))

theorem foldV_sd_num {α : Type} {inj : α → Value} {plus : α → α → α} {okp : α → Bool} {zero : α}
    {sq : α → α} {okSq : α → Bool} {toF : Int → Bool → α → α → Nat}
    (N : NumLike inj plus okp zero) (S : SqLike inj sq okSq toF)
    (e : Expr) (isVar : Bool) (vs : List Value) (s q : α) (n : Int) (x : Option Value) (ys : List α)
    (hys : nonNull vs = ys.map inj) (hsq : ys.all okSq = true) (hok : psOk plus okp s ys = true)
    (hokq : psOk plus okp q (ys.map sq) = true) :
    foldV (.stddev e isVar) vs (sdCell (inj s) (inj q) n isVar x) =
      .ok (sdCell (inj (ys.foldl plus s)) (inj ((ys.map sq).foldl plus q)) (n + (ys.length : Nat)) isVar
        (sdLast plus sq toF isVar x s q n ys)) := by
  induction vs generalizing s q n x ys with
  | nil =>
    simp [nonNull] at hys; cases ys <;> simp at hys
    simp [foldV, sdLast]
  | cons v vs ih =>
    cases hv : v.isNull
    · rw [nonNull_cons_of_not_null hv] at hys
      obtain ⟨y, ys', rfl, rfl, hys'⟩ := map_cons_inv hys
      simp only [psOk, Bool.and_eq_true, List.map_cons] at hok hokq
      simp only [List.all_cons, Bool.and_eq_true] at hsq
      simp only [foldV, stepV, sdCell, Option.getD, hv, Bool.not_false, if_true, aggUpdate_stddev, S.square, hsq.1, N.add, hok.1,
        hokq.1, bind, Outcome.bind, pure, S.value]
      have := ih (plus s y) (plus q (sq y)) (n + 1) (some (sdShow toF isVar (plus s y) (plus q (sq y)) (n + 1))) ys' hys' hsq.2
        hok.2 hokq.2
      simp only [sdCell, sdShow] at this
      rw [this]
      have hlen : n + 1 + ((ys'.length : Nat) : Int) = n + (((y :: ys').length : Nat) : Int) := by
        simp only [List.length_cons]; omega
      simp only [List.foldl_cons, List.map_cons, hlen]
      cases ys' with
      | nil => simp [sdLast, sdShow]
      | cons y2 ys2 => simp only [sdLast, sdShow, List.foldl_cons, List.map_cons, hlen]
    · have := isNull_eq_true hv; subst this
      rw [nonNull_cons_null] at hys
      simp only [foldV, stepV, sdCell, Option.getD, isNull_null, Bool.not_true, Bool.false_eq_true, if_false, aggIsNull,
        N.notNull, Bool.or_self, Outcome.bind]
      exact ih s q n x ys hys hsq hok hokq

/-- the value shown after a NULL start -/
def sdNullVal {α : Type} (plus : α → α → α) (sq : α → α) (toF : Int → Bool → α → α → Nat) (isVar : Bool) : List α → Value
  | [] => .null
  | y :: ys' => sdShow toF isVar (ys'.foldl plus y) ((ys'.map sq).foldl plus (sq y)) ((y :: ys').length : Nat)

theorem foldV_sd_null {α : Type} {inj : α → Value} {plus : α → α → α} {okp : α → Bool} {zero : α}
    {sq : α → α} {okSq : α → Bool} {toF : Int → Bool → α → α → Nat}
    (N : NumLike inj plus okp zero) (S : SqLike inj sq okSq toF)
    (e : Expr) (isVar : Bool) (vs : List Value) (ys : List α)
    (hys : nonNull vs = ys.map inj) (hsq : ys.all okSq = true)
    (hok : ∀ y ys', ys = y :: ys' → psOk plus okp y ys' = true ∧ psOk plus okp (sq y) (ys'.map sq) = true) :
    foldV (.stddev e isVar) vs (sdCell .null .null 0 isVar (some .null)) =
      .ok (sdCell (sumFromNull inj plus ys) (sumFromNull inj plus (ys.map sq)) (ys.length : Nat) isVar
        (some (sdNullVal plus sq toF isVar ys))) := by
  induction vs generalizing ys with
  | nil =>
    simp [nonNull] at hys; cases ys <;> simp at hys
    rfl
  | cons v vs ih =>
    cases hv : v.isNull
    · rw [nonNull_cons_of_not_null hv] at hys
      obtain ⟨y, ys', rfl, rfl, hys'⟩ := map_cons_inv hys
      simp only [List.all_cons, Bool.and_eq_true] at hsq
      simp only [foldV, stepV, sdCell, Option.getD, hv, Bool.not_false, if_true, aggUpdate_stddev, S.square, hsq.1, N.addNull,
        bind, Outcome.bind, pure, S.value]
      have := foldV_sd_num N S e isVar vs y (sq y) (0 + 1) (some (sdShow toF isVar y (sq y) (0 + 1))) ys' hys' hsq.2
        (hok y ys' rfl).1 (hok y ys' rfl).2
      simp only [sdCell, sdShow] at this
      rw [this]
      have hlen : (0 : Int) + 1 + ((ys'.length : Nat) : Int) = (((y :: ys').length : Nat) : Int) := by
        simp only [List.length_cons]; omega
      simp only [sdCell, sdNullVal, sdShow, hlen, sumFromNull, List.map_cons]
      cases ys' with
      | nil => simp [sdLast, sdShow]
      | cons y2 ys2 => simp only [sdLast, sdShow, hlen]
    · have := isNull_eq_true hv; subst this
      rw [nonNull_cons_null] at hys
      simp only [foldV, stepV, sdCell, Option.getD, isNull_null, Bool.not_true, Bool.false_eq_true, if_false, aggIsNull,
        Bool.or_self, Outcome.bind, if_true]
      exact ih ys hys hsq hok

theorem foldV_sd_init (e : Expr) (isVar : Bool) (v : Value) (vs : List Value) :
    foldV (.stddev e isVar) (v :: vs) {} =
      foldV (.stddev e isVar) (v :: vs) (sdCell (defaultOf v) (defaultOf v) 0 isVar none) := by
  simp only [foldV, stepV, sdCell, Option.getD, defaultAggregator]
  rfl

/-- the specification's STDDEV / VARIANCE of a list of one numeric type -/
def sdResult {α : Type} (plus : α → α → α) (zero : α) (sq : α → α) (toF : Int → Bool → α → α → Nat) (isVar : Bool) : List α → Value
  | [] => .null
  | y :: ys' => sdShow toF isVar ((y :: ys').foldl plus zero) (((y :: ys').map sq).foldl plus zero) ((y :: ys').length : Nat)

theorem sd_num_cell {α : Type} {inj : α → Value} {plus : α → α → α} {okp : α → Bool} {zero : α}
    {sq : α → α} {okSq : α → Bool} {toF : Int → Bool → α → α → Nat}
    (N : NumLike inj plus okp zero) (S : SqLike inj sq okSq toF)
    (e : Expr) (isVar : Bool) (v : Value) (vs : List Value) (ys : List α)
    (hys : nonNull (v :: vs) = ys.map inj) (hsq : ys.all okSq = true)
    (hok : psOk plus okp zero ys = true) (hokq : psOk plus okp zero (ys.map sq) = true)
    (hz : ∀ y ys', ys = y :: ys' → plus zero y = y ∧ plus zero (sq y) = sq y) :
    ∃ s q n, foldV (.stddev e isVar) (v :: vs) {} = .ok (sdCell s q n isVar (some (sdResult plus zero sq toF isVar ys))) := by
  rw [foldV_sd_init]
  cases hv : v.isNull
  · have hys' := hys
    rw [nonNull_cons_of_not_null hv] at hys'
    obtain ⟨y, ys', rfl, rfl, _⟩ := map_cons_inv hys'
    rw [N.dflt, foldV_sd_num N S e isVar _ zero zero 0 none _ hys hsq hok hokq]
    simp only [sdLast, sdResult, Int.zero_add]
    exact ⟨_, _, _, rfl⟩
  · have := isNull_eq_true hv; subst this
    have h1 : foldV (.stddev e isVar) (Value.null :: vs) (sdCell (defaultOf .null) (defaultOf .null) 0 isVar none) =
        foldV (.stddev e isVar) vs (sdCell .null .null 0 isVar (some .null)) := by
      simp only [foldV, stepV, sdCell, Option.getD, defaultOf, isNull_null, Bool.not_true, Bool.false_eq_true, if_false,
        aggIsNull, Bool.or_self, if_true, Outcome.bind]
    rw [h1]
    have hf := foldV_sd_null N S e isVar vs ys (by rw [nonNull_cons_null] at hys; exact hys) hsq (by
      intro y ys' he
      subst he
      simp only [psOk, Bool.and_eq_true, List.map_cons, (hz y ys' rfl).1, (hz y ys' rfl).2] at hok hokq
      exact ⟨hok.2, hokq.2⟩)
    rw [hf]
    have : sdNullVal plus sq toF isVar ys = sdResult plus zero sq toF isVar ys := by
      cases ys with
      | nil => rfl
      | cons y ys' => simp only [sdNullVal, sdResult, List.foldl_cons, List.map_cons, (hz y ys' rfl).1, (hz y ys' rfl).2]
    rw [this]
    exact ⟨_, _, _, rfl⟩

/-- STDDEV / VARIANCE: from Σx, Σx² and n over the non-NULL arguments (NULL if there are none) -/
theorem stddev_refines (e : Expr) (isVar : Bool) (vs : List Value) (r : Value) (h : aggregate (.stddev e isVar) vs = some r) :
    ∃ c, foldV (.stddev e isVar) vs {} = .ok c ∧ shownValue (.stddev e isVar) c = r ∧
      (published c).isSome = createsEntry (.stddev e isVar) vs := by
  cases vs with
  | nil =>
    simp [aggregate, nonNull, stddevOf] at h
    exact ⟨{}, rfl, by simp [shownValue, published, emptyGroupValue, h], rfl⟩
  | cons v vs =>
    suffices hs : ∃ s q n, foldV (.stddev e isVar) (v :: vs) {} = .ok (sdCell s q n isVar (some r)) by
      obtain ⟨s, q, n, hs⟩ := hs
      exact ⟨_, hs, rfl, rfl⟩
    simp only [aggregate] at h
    cases hx : nonNull (v :: vs) with
    | nil =>
      simp only [hx, stddevOf, Option.some.injEq] at h
      subst h
      exact sd_num_cell numLike_int sqLike_int e isVar v vs [] (by simpa using hx) rfl rfl rfl (by simp)
    | cons x xs =>
      simp only [hx, stddevOf] at h
      cases hi : ints (x :: xs) with
      | some is =>
        simp only [hi] at h
        split at h
        · simp only [Option.some.injEq] at h
          subst h
          rename_i hok
          simp only [Bool.and_eq_true] at hok
          have hm := ints_eq hi
          cases is with
          | nil => simp at hm
          | cons i is' =>
            exact sd_num_cell numLike_int sqLike_int e isVar v vs (i :: is') (by rw [hx]; exact hm)
              (by simpa [List.all_map] using hok.1.1) (by rw [psOk_int]; exact hok.1.2) (by rw [psOk_int]; exact hok.2)
              (by intro y ys' _; exact ⟨Int.zero_add y, Int.zero_add _⟩)
        · simp at h
      | none =>
        cases hr : reals (x :: xs) with
        | some rs =>
          simp only [hi, hr] at h
          split at h
          · simp only [Option.some.injEq] at h
            subst h
            rename_i hzn
            simp only [Bool.and_eq_true] at hzn
            have hm := reals_eq hr
            cases rs with
            | nil => simp at hm
            | cons y rs' =>
              exact sd_num_cell numLike_real sqLike_real e isVar v vs (y :: rs') (by rw [hx]; exact hm)
                (by simp) (psOk_true _ _ _) (psOk_true _ _ _)
                (by
                  intro y' ys' he
                  simp only [List.cons.injEq] at he
                  rw [← he.1]
                  exact ⟨zeroNeutral_cons hzn.1, zeroNeutral_cons (ys := rs'.map (fun x => F64.mul x x)) hzn.2⟩)
          · simp at h
        | none => simp [hi, hr] at h

end Sqlgrep
