import SqlgrepModel.Model.Engine
/-
`extract_result_rows_by_column` (`Model/Engine.lean` `aggColumn` / `aggColumns`): the result table of an aggregate
statement is computed COLUMN BY COLUMN (outer loop: the select list in order; inner loop: the groups in key order),
and only then assembled row by row (`resultRows` / `rowOf`).

* success does not depend on the order of the loops: the column pass answers iff every row has its cells
  (`aggColumns_ok_iff_rows`), so everything that is said about rows (`rowOf`) carries over;
* the rows assembled from the columns (`result_rows_by_column[column_index][row_index]`) are the rows `rowOf`
  computes (`aggColumns_ok_rowOf`) — which is why `resultRows` may evaluate the cells again;
* WHICH failure is reported does depend on the order: it is the failure of the first cell without a value in
  column-major order (`aggColumns_firstFail`).
-/
namespace Sqlgrep

/-- an outcome seen as a failure only (`ok` of anything becomes `ok ()`) -/
def Outcome.void {α : Type} : Outcome α → Outcome Unit
  | .ok _ => .ok ()
  | .error k => .error k
  | .panic s => .panic s
  | .oracleMissing w => .oracleMissing w

/-- the first outcome of the list that is no value, as a failure; `ok ()` when every outcome is a value -/
def firstFail {α : Type} : List (Outcome α) → Outcome Unit
  | [] => .ok ()
  | .ok _ :: rest => firstFail rest
  | .error k :: _ => .error k
  | .panic s :: _ => .panic s
  | .oracleMissing w :: _ => .oracleMissing w

theorem firstFail_append {α : Type} (a b : List (Outcome α)) :
    firstFail (a ++ b) = (firstFail a).bind (fun _ => firstFail b) := by
  induction a with
  | nil => rfl
  | cons x xs ih => cases x <;> simp [firstFail, ih, Outcome.bind]

theorem firstFail_ok_iff {α : Type} (l : List (Outcome α)) : firstFail l = .ok () ↔ ∀ x ∈ l, ∃ v, x = .ok v := by
  induction l with
  | nil => simp [firstFail]
  | cons x xs ih => cases x <;> simp [firstFail, ih]

/-- all outcomes before position `n` are values and the one at `n` is the error `k`: the first failure is `k` -/
theorem firstFail_error_at {α : Type} (pre : List (Outcome α)) (k : ErrKind) (post : List (Outcome α))
    (h : ∀ x ∈ pre, ∃ v, x = .ok v) : firstFail (pre ++ .error k :: post) = .error k := by
  rw [firstFail_append, (firstFail_ok_iff pre).mpr h]; rfl

/-! ### one column, one row -/

theorem aggColumn_void (O : Oracles) (q : AggStmt) (i : Nat) (item : AggItem) (V : List (List Value × List (Nat × Value))) :
    (aggColumn O q i item V).void = firstFail (V.map (fun g => cellOf O q i item g.1 g.2)) := by
  induction V with
  | nil => rfl
  | cons g rest ih =>
    obtain ⟨key, subs⟩ := g
    simp only [aggColumn, List.map_cons, bind]
    cases hc : cellOf O q i item key subs with
    | ok v =>
      simp only [Outcome.bind, firstFail]
      rw [← ih]
      cases aggColumn O q i item rest <;> rfl
    | error k => rfl
    | panic s => rfl
    | oracleMissing w => rfl

theorem void_ok_iff {α : Type} (x : Outcome α) : x.void = .ok () ↔ ∃ a, x = .ok a := by
  cases x <;> simp [Outcome.void]

theorem void_bind {α β : Type} (x : Outcome α) (f : α → Outcome β) :
    (x.bind f).void = x.void.bind (fun _ => match x with | .ok a => (f a).void | _ => .ok ()) := by
  cases x <;> rfl

theorem aggColumn_ok_iff (O : Oracles) (q : AggStmt) (i : Nat) (item : AggItem) (V : List (List Value × List (Nat × Value))) :
    (∃ c, aggColumn O q i item V = .ok c) ↔ ∀ g ∈ V, ∃ v, cellOf O q i item g.1 g.2 = .ok v := by
  rw [← void_ok_iff, aggColumn_void, firstFail_ok_iff]
  simp only [List.mem_map, forall_exists_index, and_imp, forall_apply_eq_imp_iff₂]

theorem rowOf_void (O : Oracles) (q : AggStmt) (key : List Value) (subs : List (Nat × Value)) (items : List (Nat × AggItem)) :
    (rowOf O q key subs items).void = firstFail (items.map (fun p => cellOf O q p.1 p.2 key subs)) := by
  induction items with
  | nil => rfl
  | cons p rest ih =>
    obtain ⟨i, item⟩ := p
    simp only [rowOf, List.map_cons, bind]
    cases hc : cellOf O q i item key subs with
    | ok v =>
      simp only [Outcome.bind, firstFail]
      rw [← ih]
      cases rowOf O q key subs rest <;> rfl
    | error k => rfl
    | panic s => rfl
    | oracleMissing w => rfl

theorem rowOf_ok_iff (O : Oracles) (q : AggStmt) (key : List Value) (subs : List (Nat × Value)) (items : List (Nat × AggItem)) :
    (∃ r, rowOf O q key subs items = .ok r) ↔ ∀ p ∈ items, ∃ v, cellOf O q p.1 p.2 key subs = .ok v := by
  rw [← void_ok_iff, rowOf_void, firstFail_ok_iff]
  simp only [List.mem_map, forall_exists_index, and_imp, forall_apply_eq_imp_iff₂]

/-! ### the column pass -/

/-- the cells of the table in the order the code evaluates them: column by column, each column over the groups in key
order -/
def cellsColumnMajor (O : Oracles) (q : AggStmt) (V : List (List Value × List (Nat × Value))) (items : List (Nat × AggItem)) :
    List (Outcome Value) :=
  items.flatMap (fun p => V.map (fun g => cellOf O q p.1 p.2 g.1 g.2))

/-- **which failure `extract_result_rows_by_column` reports**: that of the first cell without a value in column-major
order -/
theorem aggColumns_firstFail (O : Oracles) (q : AggStmt) (V : List (List Value × List (Nat × Value))) (items : List (Nat × AggItem)) :
    (aggColumns O q V items).void = firstFail (cellsColumnMajor O q V items) := by
  induction items with
  | nil => rfl
  | cons p rest ih =>
    obtain ⟨i, item⟩ := p
    simp only [aggColumns, cellsColumnMajor, List.flatMap_cons, bind]
    rw [firstFail_append, ← aggColumn_void]
    cases hc : aggColumn O q i item V with
    | ok c =>
      simp only [Outcome.bind, Outcome.void]
      unfold cellsColumnMajor at ih
      rw [← ih]
      cases aggColumns O q V rest <;> rfl
    | error k => rfl
    | panic s => rfl
    | oracleMissing w => rfl

theorem aggColumns_ok_iff (O : Oracles) (q : AggStmt) (V : List (List Value × List (Nat × Value))) (items : List (Nat × AggItem)) :
    (∃ cs, aggColumns O q V items = .ok cs) ↔ ∀ p ∈ items, ∀ g ∈ V, ∃ v, cellOf O q p.1 p.2 g.1 g.2 = .ok v := by
  rw [← void_ok_iff, aggColumns_firstFail, firstFail_ok_iff]
  simp only [cellsColumnMajor, List.mem_flatMap, List.mem_map, forall_exists_index, and_imp]
  constructor
  · intro h p hp g hg; exact h _ p hp g hg rfl
  · intro h x p hp g hg hx; rw [← hx]; exact h p hp g hg

/-- **success does not depend on the order of the loops**: the column pass answers iff every group has its row -/
theorem aggColumns_ok_iff_rows (O : Oracles) (q : AggStmt) (V : List (List Value × List (Nat × Value))) (items : List (Nat × AggItem)) :
    (∃ cs, aggColumns O q V items = .ok cs) ↔ ∀ g ∈ V, ∃ r, rowOf O q g.1 g.2 items = .ok r := by
  rw [aggColumns_ok_iff]
  constructor
  · intro h g hg; exact (rowOf_ok_iff O q g.1 g.2 items).mpr (fun p hp => h p hp g hg)
  · intro h p hp g hg; exact (rowOf_ok_iff O q g.1 g.2 items).mp (h g hg) p hp

theorem aggColumns_ok_of_rows {O : Oracles} {q : AggStmt} {V : List (List Value × List (Nat × Value))} {items : List (Nat × AggItem)}
    (h : ∀ g ∈ V, ∃ r, rowOf O q g.1 g.2 items = .ok r) : ∃ cs, aggColumns O q V items = .ok cs :=
  (aggColumns_ok_iff_rows O q V items).mpr h

theorem rows_ok_of_aggColumns {O : Oracles} {q : AggStmt} {V : List (List Value × List (Nat × Value))} {items : List (Nat × AggItem)}
    {cs : List (List Value)} (h : aggColumns O q V items = .ok cs) : ∀ g ∈ V, ∃ r, rowOf O q g.1 g.2 items = .ok r :=
  (aggColumns_ok_iff_rows O q V items).mp ⟨cs, h⟩

/-! ### the rows assembled from the columns -/

theorem aggColumn_ok_get {O : Oracles} {q : AggStmt} {i : Nat} {item : AggItem} :
    ∀ {V : List (List Value × List (Nat × Value))} {c : List Value}, aggColumn O q i item V = .ok c →
      ∀ (n : Nat) (g : List Value × List (Nat × Value)), V[n]? = some g → cellOf O q i item g.1 g.2 = .ok (c.getD n .null) := by
  intro V
  induction V with
  | nil => intro c _ n g hg; simp at hg
  | cons g0 rest ih =>
    intro c h n g hg
    obtain ⟨key, subs⟩ := g0
    simp only [aggColumn, bind] at h
    cases hc : cellOf O q i item key subs with
    | ok v =>
      rw [hc] at h
      simp only [Outcome.bind] at h
      cases hr : aggColumn O q i item rest with
      | ok c' =>
        rw [hr] at h
        simp only [pure, Outcome.ok.injEq] at h
        subst h
        cases n with
        | zero =>
          simp only [List.getElem?_cons_zero, Option.some.injEq] at hg
          subst hg
          simpa using hc
        | succ n =>
          simp only [List.getElem?_cons_succ] at hg
          simpa using ih hr n g hg
      | error k => rw [hr] at h; simp at h
      | panic s => rw [hr] at h; simp at h
      | oracleMissing w => rw [hr] at h; simp at h
    | error k => rw [hc] at h; simp [Outcome.bind] at h
    | panic s => rw [hc] at h; simp [Outcome.bind] at h
    | oracleMissing w => rw [hc] at h; simp [Outcome.bind] at h

/-- `result_columns.push(result_rows_by_column[column_index][row_index].clone())`: the row the code assembles for the
`n`-th group from the columns is the row `rowOf` computes for that group -/
theorem aggColumns_ok_rowOf {O : Oracles} {q : AggStmt} {V : List (List Value × List (Nat × Value))} :
    ∀ {items : List (Nat × AggItem)} {cs : List (List Value)}, aggColumns O q V items = .ok cs →
      ∀ (n : Nat) (g : List Value × List (Nat × Value)), V[n]? = some g →
        rowOf O q g.1 g.2 items = .ok (cs.map (fun c => c.getD n .null)) := by
  intro items
  induction items with
  | nil =>
    intro cs h n g _
    simp only [aggColumns, Outcome.ok.injEq] at h
    subst h; rfl
  | cons p rest ih =>
    intro cs h n g hg
    obtain ⟨i, item⟩ := p
    simp only [aggColumns, bind] at h
    cases hc : aggColumn O q i item V with
    | ok c =>
      rw [hc] at h
      simp only [Outcome.bind] at h
      cases hr : aggColumns O q V rest with
      | ok cs' =>
        rw [hr] at h
        simp only [pure, Outcome.ok.injEq] at h
        subst h
        simp only [rowOf, bind, aggColumn_ok_get hc n g hg, ih hr n g hg, Outcome.bind, List.map_cons]
        rfl
      | error k => rw [hr] at h; simp at h
      | panic s => rw [hr] at h; simp at h
      | oracleMissing w => rw [hr] at h; simp at h
    | error k => rw [hc] at h; simp [Outcome.bind] at h
    | panic s => rw [hc] at h; simp [Outcome.bind] at h
    | oracleMissing w => rw [hc] at h; simp [Outcome.bind] at h

/-! ### congruence: the pass only looks at the cells -/

theorem aggColumn_congr {O : Oracles} {q q' : AggStmt} {i : Nat} {item : AggItem} :
    ∀ {V V' : List (List Value × List (Nat × Value))}, V.length = V'.length →
      (∀ (n : Nat) (g g' : List Value × List (Nat × Value)), V[n]? = some g → V'[n]? = some g' →
        cellOf O q i item g.1 g.2 = cellOf O q' i item g'.1 g'.2) →
      aggColumn O q i item V = aggColumn O q' i item V' := by
  intro V
  induction V with
  | nil =>
    intro V' hl _
    cases V' with
    | nil => rfl
    | cons _ _ => simp at hl
  | cons g rest ih =>
    intro V' hl h
    cases V' with
    | nil => simp at hl
    | cons g' rest' =>
      obtain ⟨key, subs⟩ := g
      obtain ⟨key', subs'⟩ := g'
      have h0 := h 0 (key, subs) (key', subs') rfl rfl
      simp only at h0
      simp only [aggColumn, h0]
      rw [ih (by simpa using hl) (fun n a b ha hb => h (n + 1) a b (by simpa using ha) (by simpa using hb))]

theorem aggColumns_congr {O : Oracles} {q q' : AggStmt} {V V' : List (List Value × List (Nat × Value))} (hl : V.length = V'.length) :
    ∀ (items : List (Nat × AggItem)),
      (∀ p ∈ items, ∀ (n : Nat) (g g' : List Value × List (Nat × Value)), V[n]? = some g → V'[n]? = some g' →
        cellOf O q p.1 p.2 g.1 g.2 = cellOf O q' p.1 p.2 g'.1 g'.2) →
      aggColumns O q V items = aggColumns O q' V' items := by
  intro items
  induction items with
  | nil => intro _; rfl
  | cons p rest ih =>
    intro h
    obtain ⟨i, item⟩ := p
    simp only [aggColumns]
    rw [aggColumn_congr hl (h (i, item) List.mem_cons_self), ih (fun p hp => h p (List.mem_cons_of_mem _ hp))]

end Sqlgrep
