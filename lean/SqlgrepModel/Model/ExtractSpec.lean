import SqlgrepModel.Model.Extract
/-
The sentences of C01 / C02 written as functions (`specColumn`), independent of the control flow of
`ColumnParsing::extract`: every column value is a function of *its own* definition and of the texts of
the groups it references, converted position by position.

Where the property sentence leaves a choice ("NULL (or the declared DEFAULT)"), the function returns
what the code returns and says so; the Rust-side oracle (`harness/src/c01.rs::spec_column`) accepts both.
-/
namespace Sqlgrep
namespace Extract
open Lit

/-- did the referenced pattern take part (match / split) on this line -/
def patternPresent (inp : ParsingInput) (r : Ref) : Bool := (inp.regex.lookup r.pattern).isSome

/-- text of the referenced group / field; `none` when the pattern or the group did not take part -/
def groupText (inp : ParsingInput) (r : Ref) : Option Text :=
  match inp.regex.lookup r.pattern with
  | some res => res.group r.group
  | none => none

/-- "the text converted to the declared type; NULL when the text is not a literal of that type" -/
def literal (o : Oracles) (ty : VType) (t : Text) : Value :=
  match ty with
  | .int => match parseI64 t with | some n => .int n | none => .null
  | .real => match o.parseF64 t with | some b => .real b | none => .null
  | .bool => match parseBool t with | some b => .bool b | none => .null
  | .text => .text t
  | .array _ => .null
  | .timestamp => match parseTimestampLit t with | some v => v | none => .null
  | .interval => match parseInterval t with | some v => v | none => .null

/-- one referenced group as a value of type `ty`:
pattern absent ⇒ `dflt`; BOOLEAN ⇒ existence of the group; group absent ⇒ `dflt`; else the literal.
(The sentence does not order "pattern absent" against "BOOLEAN = existence"; the code's order is kept.) -/
def specScalar (o : Oracles) (ty : VType) (inp : ParsingInput) (r : Ref) (dflt : Value) : Value :=
  if !patternPresent inp r then dflt
  else if ty == .bool then .bool (groupText inp r).isSome
  else
    match groupText inp r with
    | none => dflt
    | some t => literal o ty t

/-- what one listed group contributes to a TIMESTAMP -/
inductive PartVal where
  | absent               -- pattern or group did not take part
  | notLit               -- text is neither an integer literal nor (at index 1) a month name
  | num (n : Int)        -- the integer it denotes
  deriving Repr, Inhabited, DecidableEq

def specPart (inp : ParsingInput) (idx : Nat) (r : Ref) : PartVal :=
  match groupText inp r with
  | none => .absent
  | some t =>
    match parseI64 t with
    | some n => .num n
    | none =>
      if idx == 1 then
        match monthOfName t with
        | some m => .num (m : Int)
        | none => .notLit
      else .notLit

/-- store the integer `n` of part `idx` in its field, provided it fits the field *as an integer*
(year: `i32`; others `u32`; the fraction is milliseconds unless MICROSECONDS, and must fit after scaling) -/
def setPart (micros : Bool) (idx : Nat) (n : Int) (p : TsParts) : Option TsParts :=
  if idx == 0 then (if fitsI32 n then some { p with year := n } else none)
  else if !fitsU32 n then none
  else
    match idx with
    | 1 => some { p with month := n.toNat }
    | 2 => some { p with day := n.toNat }
    | 3 => some { p with hour := n.toNat }
    | 4 => some { p with minute := n.toNat }
    | 5 => some { p with second := n.toNat }
    | 6 => if micros then some { p with micro := n.toNat }
           else if n.toNat * 1000 ≤ 4294967295 then some { p with micro := n.toNat * 1000 } else none
    | _ => some p

/-- TIMESTAMP from its parts, position by position: NULL at the first absent / non-literal part,
DEFAULT at the first part that does not fit its field and when the civil time is invalid.
(Which of NULL / DEFAULT is returned follows the code, leftmost offending part first; the sentence allows both.) -/
def specTsFrom (c : Column) : List PartVal → Nat → TsParts → Value
  | [], _, p =>
    match mkTimestamp p.year p.month p.day p.hour p.minute p.second p.micro with
    | some t => t
    | none => c.defaultValue
  | .absent :: _, _, _ => .null
  | .notLit :: _, _, _ => .null
  | .num n :: rest, idx, p =>
    match setPart c.options.microseconds idx n p with
    | some p' => specTsFrom c rest (idx + 1) p'
    | none => c.defaultValue

def specParts (inp : ParsingInput) : List Ref → Nat → List PartVal
  | [], _ => []
  | r :: rs, idx => specPart inp idx r :: specParts inp rs (idx + 1)

/-- conversion of a JSON value to the declared type *without coercion* -/
def noCoercion : VType → Json → Value
  | .int, .num (.posInt n _) => if n ≤ 9223372036854775807 then .int (n : Int) else .null
  | .int, .num (.negInt n _) => .int n
  | .real, .num (.posInt _ f) => .real f
  | .real, .num (.negInt _ f) => .real f
  | .real, .num (.float b) => .real b
  | .bool, .bool b => .bool b
  | .text, .str s => .text s
  | .array e, .arr xs => .array e (xs.map (noCoercion e))
  | _, _ => .null

/-- C01 + C02: the value of one column -/
def specColumn (o : Oracles) (c : Column) (inp : ParsingInput) : Value :=
  applyTrim c <|
    match c.parsing with
    | .regex r => specScalar o c.type inp r c.defaultValue
    | .multi rs =>
      match c.type with
      | .array e =>
        let vs := rs.map (fun r => specScalar o e inp r .null)
        if vs.all Value.isNull then c.defaultValue else .array e vs
      | .timestamp => specTsFrom c (specParts inp rs 0) 0 {}
      | _ => c.defaultValue
    | .json a =>
      match followPath a.steps inp.json with
      | none => c.defaultValue
      | some v =>
        if c.options.convert then
          match v with
          | .str s => literal o c.type s
          | _ => .null
        else noCoercion c.type v

/-- the row the property demands when no NOT NULL column is NULL -/
def specRow (o : Oracles) (d : TableDef) (inp : ParsingInput) : List Value :=
  d.columns.map (fun c => specColumn o c inp)

end Extract
end Sqlgrep
