import SqlgrepModel.Model.Value
/-
Output printing (`src/executor.rs` `OutputPrinter::print`, `src/model.rs` `impl Display for Value`
and `Value::json_value`, serde_json's compact serializer with `preserve_order`).

Everything is modelled on UTF-8 *bytes* (`Bytes = List Nat`): a printed line is the byte string
handed to `Printer::println`. All separators, escapes and digits are ASCII, TEXT payloads and column
names are copied byte for byte (serde_json escapes only bytes < 0x20, `"` and `\`, all ASCII, so the
byte-level description is exact for every UTF-8 string).

External oracle (`RealOracle`): the `{:.2}` rendering and the serde_json (ryu) rendering of a REAL
bit pattern. Non-finite REALs become JSON `null` in the model itself (the `fix:` commit).
-/
namespace Sqlgrep.Print
open Sqlgrep

abbrev Bytes := List Nat

/-- `[T]::join(sep)` on byte strings -/
def joinWith (sep : Bytes) : List Bytes → Bytes
  | [] => []
  | [x] => x
  | x :: y :: rest => x ++ sep ++ joinWith sep (y :: rest)

/-! ### integers -/

/-- decimal digits of a natural number (`Display for u64`, `itoa`) -/
def natDigits (n : Nat) : Bytes :=
  if n < 10 then [48 + n] else natDigits (n / 10) ++ [48 + n % 10]
termination_by n
decreasing_by omega

/-- `Display for i64` / serde_json integer numbers -/
def renderInt (i : Int) : Bytes :=
  if i < 0 then 45 :: natDigits i.natAbs else natDigits i.natAbs

/-- `{:F>W}`: explicit fill and right alignment; the fill goes in front of everything, sign included -/
def padLeft (fill width : Nat) (s : Bytes) : Bytes :=
  List.replicate (width - s.length) fill ++ s

/-! ### INTERVAL: `HH:MM:SS.mmm` from chrono's `num_seconds()`/`num_milliseconds()` (truncating) -/

def renderIntervalAbs (ns : Int) : Bytes :=
  let secs := ns.tdiv 1000000000            -- num_seconds(): truncated toward zero
  let sub := ns.tmod 1000000000             -- subsec_nanos(): same sign as the duration
  let seconds := secs.tmod 60
  let minutes := (secs.tdiv 60).tmod 60
  let hours := (secs.tdiv 60).tdiv 60
  let millis := sub.tdiv 1000000            -- num_milliseconds() - num_seconds() * 1000
  padLeft 48 2 (renderInt hours) ++ [58] ++ padLeft 48 2 (renderInt minutes) ++ [58]
    ++ padLeft 48 2 (renderInt seconds) ++ [46] ++ padLeft 48 3 (renderInt millis)

/-- a negative interval is the sign followed by the text of its magnitude (/repo bc60604) -/
def renderInterval (ns : Int) : Bytes :=
  if ns < 0 then 45 :: renderIntervalAbs (-ns) else renderIntervalAbs ns

/-! ### TIMESTAMP: `%Y-%m-%d %H:%M:%S.%3f` -/

/-- proleptic-Gregorian civil date (year, month, day) of chrono's `num_days_from_ce` (day 1 = 0001-01-01) -/
def civil (dce : Int) : Int × Int × Int :=
  let z := dce + 305                        -- days since 0000-03-01
  let era := z / 146097                     -- floor (divisor positive)
  let doe := z - era * 146097               -- [0, 146096]
  let yoe := (doe - doe / 1460 + doe / 36524 - doe / 146096) / 365
  let doy := doe - (365 * yoe + yoe / 4 - yoe / 100)
  let mp := (5 * doy + 2) / 153
  let d := doy - (153 * mp + 2) / 5 + 1
  let m := if mp < 10 then mp + 3 else mp - 9
  let y := yoe + era * 400 + (if m ≤ 2 then 1 else 0)
  (y, m, d)

/-- chrono `write_year`: 4 digits inside 0..=9999, otherwise an explicit sign and at least 4 digits -/
def renderYear (y : Int) : Bytes :=
  if 0 ≤ y ∧ y < 10000 then padLeft 48 4 (natDigits y.natAbs)
  else if y < 0 then 45 :: padLeft 48 4 (natDigits y.natAbs)
  else 43 :: padLeft 48 4 (natDigits y.natAbs)

def twoDigits (n : Int) : Bytes := padLeft 48 2 (natDigits n.natAbs)

def renderTimestamp (day sec frac : Int) : Bytes :=
  let (y, m, d) := civil day
  renderYear y ++ [45] ++ twoDigits m ++ [45] ++ twoDigits d ++ [32]
    ++ twoDigits (sec / 3600) ++ [58] ++ twoDigits (sec / 60 % 60) ++ [58]
    ++ twoDigits (sec % 60 + frac / 1000000000)          -- leap second prints as 60
    ++ [46] ++ padLeft 48 3 (natDigits (frac / 1000000 % 1000).natAbs)

/-! ### `Display for Value` -/

structure RealOracle where
  /-- `format!("{:.2}", f64::from_bits(bits))` -/
  fixed2 : Nat → Bytes
  /-- `serde_json::to_string(&f64::from_bits(bits))` for finite values (ryu) -/
  json : Nat → Bytes

def sNULL : Bytes := [78, 85, 76, 76]
def sTrue : Bytes := [116, 114, 117, 101]
def sFalse : Bytes := [102, 97, 108, 115, 101]
def sNull : Bytes := [110, 117, 108, 108]
def sInput : Bytes := [105, 110, 112, 117, 116]

def renderBool (b : Bool) : Bytes := if b then sTrue else sFalse

mutual
def displayValue (o : RealOracle) : Value → Bytes
  | .null => sNULL
  | .int i => renderInt i
  | .real b => o.fixed2 b
  | .bool b => renderBool b
  | .text s => 39 :: (s ++ [39])
  | .array _ xs => 123 :: (joinWith [44, 32] (displayAll o xs) ++ [125])
  | .timestamp d s f => renderTimestamp d s f
  | .interval n => renderInterval n
def displayAll (o : RealOracle) : List Value → List Bytes
  | [] => []
  | x :: xs => displayValue o x :: displayAll o xs
end

/-! ### JSON -/

/-- the JSON documents `Value::json_value` can produce for a cell (`num` carries the number token) -/
inductive Json where
  | null
  | bool (b : Bool)
  | num (tok : Bytes)
  | str (s : Bytes)
  | arr (xs : List Json)
  deriving Repr, Inhabited

def isFinite (bits : Nat) : Bool := decide (F64.mag bits < 0x7ff0000000000000)

mutual
def jsonValue (o : RealOracle) : Value → Json
  | .null => .null
  | .int i => .num (renderInt i)
  | .real b => if isFinite b then .num (o.json b) else .null
  | .bool b => .bool b
  | .text s => .str s
  | .array _ xs => .arr (jsonValues o xs)
  | .timestamp d s f => .str (renderTimestamp d s f)
  | .interval n => .str (renderInterval n)
def jsonValues (o : RealOracle) : List Value → List Json
  | [] => []
  | x :: xs => jsonValue o x :: jsonValues o xs
end

def hexDigit (n : Nat) : Nat := if n < 10 then 48 + n else 87 + n

/-- serde_json `format_escaped_str_contents`, byte by byte -/
def escapeByte (b : Nat) : Bytes :=
  if b = 34 then [92, 34]
  else if b = 92 then [92, 92]
  else if b = 8 then [92, 98]
  else if b = 9 then [92, 116]
  else if b = 10 then [92, 110]
  else if b = 12 then [92, 102]
  else if b = 13 then [92, 114]
  else if b < 32 then [92, 117, 48, 48, hexDigit (b / 16), hexDigit (b % 16)]
  else [b]

def jsonEscape (s : Bytes) : Bytes := s.flatMap escapeByte

def renderString (s : Bytes) : Bytes := 34 :: (jsonEscape s ++ [34])

mutual
/-- compact serialisation (`serde_json::to_string`) -/
def Json.render : Json → Bytes
  | .null => sNull
  | .bool b => renderBool b
  | .num t => t
  | .str s => renderString s
  | .arr [] => [91, 93]
  | .arr (x :: xs) => 91 :: (Json.render x ++ (Json.renderTail xs ++ [93]))
def Json.renderTail : List Json → Bytes
  | [] => []
  | x :: xs => 44 :: (Json.render x ++ Json.renderTail xs)
end

/-- `IndexMap::insert`: an existing key keeps its position and gets the new value -/
def insertKV (m : List (Bytes × Json)) (k : Bytes) (v : Json) : List (Bytes × Json) :=
  match m with
  | [] => [(k, v)]
  | (k', v') :: rest => if k' = k then (k', v) :: rest else (k', v') :: insertKV rest k v

/-- `serde_json::Map::from_iter` with `preserve_order` -/
def mapFromList (kvs : List (Bytes × Json)) : List (Bytes × Json) :=
  kvs.foldl (fun m kv => insertKV m kv.1 kv.2) []

def renderMember (kv : Bytes × Json) : Bytes := renderString kv.1 ++ (58 :: kv.2.render)

def renderMembersTail : List (Bytes × Json) → Bytes
  | [] => []
  | kv :: rest => 44 :: (renderMember kv ++ renderMembersTail rest)

def renderObject : List (Bytes × Json) → Bytes
  | [] => [123, 125]
  | kv :: rest => 123 :: (renderMember kv ++ (renderMembersTail rest ++ [125]))

/-! ### `OutputPrinter::print` -/

inductive Format where
  | text
  | json
  | csv (delimiter : Bytes)
  deriving Repr, DecidableEq, Inhabited

structure ResultRow where
  columns : List Bytes
  rows : List (List Value)

/-- which `println` of `OutputPrinter::print` emitted a line -/
inductive Line where
  | header (b : Bytes)
  | record (b : Bytes)
  | separator
  deriving Repr, DecidableEq, Inhabited

def Line.bytes : Line → Bytes
  | .header b => b
  | .record b => b
  | .separator => []

/-- `row.columns.len() == 1 && result_row.columns[0] == "input" && self.format == OutputFormat::Text` -/
def loneInput (fmt : Format) (columns : List Bytes) (row : List Value) : Bool :=
  row.length == 1 && columns.head? == some sInput && fmt == .text

/-- the indexing `result_row.columns[0]` (evaluated for every one-cell row) or `row.columns[projection_index]`
(evaluated unless the lone-`input` rule applies) panics -/
def rowPanics (fmt : Format) (columns : List Bytes) (row : List Value) : Bool :=
  (row.length == 1 && columns.isEmpty) || (!loneInput fmt columns row && row.length < columns.length)

/-- the record line of one row (cells paired with the column names by position) -/
def renderRecord (o : RealOracle) (fmt : Format) (columns : List Bytes) (row : List Value) : Bytes :=
  if loneInput fmt columns row then
    match row with
    | v :: _ => displayValue o v
    | [] => []
  else
    match fmt with
    | .text => joinWith [44, 32] ((columns.zip row).map fun nv => nv.1 ++ ([58, 32] ++ displayValue o nv.2))
    | .json => renderObject (mapFromList ((columns.zip row).map fun nv => (nv.1, jsonValue o nv.2)))
    | .csv d => joinWith d ((columns.zip row).map fun nv => displayValue o nv.2)

def headerLines (fmt : Format) (columns : List Bytes) (first : Bool) : List Line :=
  match fmt with
  | .csv d => if first then [.header (joinWith d columns)] else []
  | _ => []

/-- loop body for one row when `first_line = first` -/
def printRow (o : RealOracle) (fmt : Format) (columns : List Bytes) (first : Bool) (row : List Value) : List Line :=
  headerLines fmt columns first ++ [.record (renderRecord o fmt columns row)]

/-- the `for row in &result_row.data` loop; `first_line` is false after the first row -/
def printRows (o : RealOracle) (fmt : Format) (columns : List Bytes) : Bool → List (List Value) → List Line
  | _, [] => []
  | first, row :: rest => printRow o fmt columns first row ++ printRows o fmt columns false rest

def separatorLines (rows : List (List Value)) (single : Bool) : List Line :=
  if decide (rows.length > 1) && !single then [.separator] else []

/-- `OutputPrinter::print(result_row, single_result)` from state `first_line = first`:
the lines handed to `println`, and the new `first_line` -/
def printResult (o : RealOracle) (fmt : Format) (first : Bool) (r : ResultRow) (single : Bool) : List Line × Bool :=
  (printRows o fmt r.columns first r.rows ++ separatorLines r.rows single, first && r.rows.isEmpty)

/-- a sequence of `print` calls on one printer -/
def printAll (o : RealOracle) (fmt : Format) : Bool → List (ResultRow × Bool) → List Line
  | _, [] => []
  | first, (r, single) :: rest =>
    let (ls, first') := printResult o fmt first r single
    ls ++ printAll o fmt first' rest

def resultPanics (fmt : Format) (r : ResultRow) : Bool := r.rows.any (rowPanics fmt r.columns)

end Sqlgrep.Print
