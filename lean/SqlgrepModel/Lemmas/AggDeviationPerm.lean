import SqlgrepModel.Lemmas.AggTotal
/-
C15: the known deviation classes of C04 (`Spec.Agg.deviationClass`: D15 "ARRAY_AGG whose first value in a group is NULL",
D10 "a group in which no aggregate creates an entry") as a function of the MULTISET of the input rows.

* D15 looks at the FIRST argument value of ARRAY_AGG in a group — the arrival order. For a statement without ARRAY_AGG
  (in particular for the statements of C15: every aggregate order-insensitive) it is constantly false
  (`arrayAggFirstNull_false`).
* D10 asks, per group, whether some aggregate has an argument value at all / a non-NULL one: a property of the multiset
  of the group's rows (`groupVisible_perm`); and "some group is invisible" is a statement about the rows, not about the
  order in which the groups are listed (`groups_any_eq`) — no exactness of keys is needed.

Hence `deviationClass_perm`: for statements whose aggregates are order-insensitive the class of an input and of any
permutation of it are the same. With ARRAY_AGG it is false (`Props/C15.lean` has the kernel-evaluated witness).
-/
set_option linter.unusedSimpArgs false
namespace Sqlgrep
open Value Spec.Agg

theorem firstNull_false_of_orderInsensitive {k : AggKind} (hk : orderInsensitive k = true) (vs : List Value) :
    firstNull k vs = false := by
  cases k <;> cases vs <;> first | rfl | simp [orderInsensitive] at hk

/-- **D15 cannot arise without ARRAY_AGG** -/
theorem arrayAggFirstNull_false {O : Oracles} {q : AggStmt} (hOI : ∀ kind ∈ slotKinds q, orderInsensitive kind = true)
    (g : List Env) : arrayAggFirstNull O q g = false := by
  unfold arrayAggFirstNull
  apply List.any_eq_false.mpr
  intro k hk
  cases arguments O q k g with
  | none => simp
  | some vs => simp [firstNull_false_of_orderInsensitive (hOI k hk)]

theorem isEmpty_perm {α : Type} {l1 l2 : List α} (h : l1.Perm l2) : l1.isEmpty = l2.isEmpty := by
  cases l1 with
  | nil =>
    cases l2 with
    | nil => rfl
    | cons b l2 => exact absurd h.length_eq (by simp)
  | cons a l1 =>
    cases l2 with
    | nil => exact absurd h.length_eq (by simp)
    | cons b l2 => rfl

/-- whether an aggregate creates an entry for a group depends on the multiset of its argument values only -/
theorem createsEntry_perm (k : AggKind) {v1 v2 : List Value} (h : v1.Perm v2) : createsEntry k v1 = createsEntry k v2 := by
  have h1 := isEmpty_perm h
  have h2 := isEmpty_perm (h.filter (fun v => !v.isNull))
  cases k <;> simp only [createsEntry, nonNull, h1, h2]

/-- **D10 is a property of the multiset of a group's rows** -/
theorem groupVisible_perm (O : Oracles) (q : AggStmt) {g1 g2 : List Env} (h : g1.Perm g2) :
    groupVisible O q g1 = groupVisible O q g2 := by
  unfold groupVisible
  congr 1
  funext k
  have ha := arguments_perm O q k h
  cases h1 : arguments O q k g1 <;> cases h2 : arguments O q k g2 <;> rw [h1, h2] at ha <;> simp only [OptPerm] at ha
  · exact createsEntry_perm k ha

/-- "some group satisfies `P`" in terms of the rows: the order in which `groups` lists the groups, and which of several
equal keys stands for a group, do not matter -/
theorem groups_any_eq (P : List Env → Bool) (rows : List (List Value × Env)) :
    (groups rows).any (fun kg => P kg.2) = rows.any (fun r => P (rowsOfKey r.1 rows)) := by
  apply Bool.eq_iff_iff.mpr
  simp only [List.any_eq_true]
  constructor
  · rintro ⟨kg, hm, hP⟩
    simp only [groups, List.mem_map] at hm
    obtain ⟨k, hk, rfl⟩ := hm
    obtain ⟨r, hr, rfl⟩ := List.mem_map.mp (distinctKeys_sub _ k hk)
    exact ⟨r, hr, hP⟩
  · rintro ⟨r, hr, hP⟩
    obtain ⟨k', hk', he⟩ := distinctKeys_cover (rows.map (·.1)) r.1 (List.mem_map.mpr ⟨r, hr, rfl⟩)
    refine ⟨(k', rowsOfKey k' rows), List.mem_map.mpr ⟨k', hk', rfl⟩, ?_⟩
    simp only
    rw [rowsOfKey_congr he rows]
    exact hP

/-- … hence it is the same for every permutation of the rows, when `P` looks at the multiset of a group's rows only -/
theorem groups_any_perm {P : List Env → Bool} (hP : ∀ g1 g2 : List Env, g1.Perm g2 → P g1 = P g2)
    {r1 r2 : List (List Value × Env)} (h : r1.Perm r2) :
    (groups r1).any (fun kg => P kg.2) = (groups r2).any (fun kg => P kg.2) := by
  rw [groups_any_eq, groups_any_eq]
  have : r1.any (fun r => P (rowsOfKey r.1 r1)) = r1.any (fun r => P (rowsOfKey r.1 r2)) := by
    congr 1
    funext r
    exact hP _ _ (rowsOfKey_perm r.1 h)
  rw [this]
  exact h.any_eq

/-- **the deviation class (D10 / D15) of an input is the deviation class of every permutation of it**, for statements
whose aggregates are all order-insensitive (no ARRAY_AGG, whose D15 looks at the first value) — no hypothesis on keys,
values or sums -/
theorem deviationClass_perm {O : Oracles} {q : AggStmt} (hOI : ∀ kind ∈ slotKinds q, orderInsensitive kind = true)
    {e1 e2 : List Env} (h : e1.Perm e2) : deviationClass O q e1 = deviationClass O q e2 := by
  unfold deviationClass
  have hk := keyedRows_perm O q h
  cases h1 : keyedRows O q e1 with
  | none =>
    cases h2 : keyedRows O q e2 with
    | none => rfl
    | some _ => rw [h1, h2] at hk; simp [OptPerm] at hk
  | some r1 =>
    obtain ⟨r2, hr2, hp⟩ := optPerm_some_left (h1 ▸ hk)
    simp only [hr2]
    have hA : ∀ rows : List (List Value × Env),
        (groups rows).any (fun (x : List Value × List Env) => match x with | (_, g) => arrayAggFirstNull O q g) = false := by
      intro rows
      apply List.any_eq_false.mpr
      intro kg _
      simp [arrayAggFirstNull_false hOI]
    have hV : (groups r1).any (fun (x : List Value × List Env) => match x with | (_, g) => !groupVisible O q g) =
        (groups r2).any (fun (x : List Value × List Env) => match x with | (_, g) => !groupVisible O q g) :=
      groups_any_perm (P := fun g => !groupVisible O q g) (fun g1 g2 hg => by simp only [groupVisible_perm O q hg]) hp
    rw [hA, hA, hV]

/-- the admitted rows exist when the specification's table does -/
theorem keyedRows_of_table {O : Oracles} {q : AggStmt} {envs : List Env} {t : List (List Value)} (h : table O q envs = some t) :
    ∃ rows, keyedRows O q envs = some rows := by
  cases hr : keyedRows O q envs with
  | none => simp [table, hr] at h
  | some rows => exact ⟨rows, rfl⟩

end Sqlgrep
