import SqlgrepModel.Lemmas.ValueOrder
/-
C16 — value equality, ordering and hashing agree and form a total order.

Model: `Sqlgrep.Value.cmp` (what `#[derive(Ord)]` generates for `Value`, with `Float`'s
hand-written `Ord`), `Value.beq` (`#[derive(PartialEq)]`), `Value.hashRepr` (`#[derive(Hash)]`
stream). Group keys, DISTINCT tuples and PERCENTILE/array_unique use the same functions on
`Vec<Value>` (`cmpList`, `beqList`, `hashList`). All theorems quantify over *all* values:
every type, NULL, nested arrays, every one of the 2^64 REAL bit patterns (NaN payloads, ±0, ±inf).
Only this file states property theorems; helper lemmas live in `Lemmas/`.
-/
namespace Sqlgrep.Props.C16
open Sqlgrep Sqlgrep.Value

/-- exactly one of `a < b`, `a = b`, `a > b` holds, and `=` is the equality used for grouping -/
theorem trichotomy (a b : Value) :
    (cmp a b = .lt ∧ cmp b a = .gt ∧ beq a b = false) ∨
    (cmp a b = .eq ∧ cmp b a = .eq ∧ beq a b = true) ∨
    (cmp a b = .gt ∧ cmp b a = .lt ∧ beq a b = false) := by
  have hs := cmp_swap a b
  have he := cmp_eq_iff_beq a b
  cases h : cmp a b <;> rw [h] at hs he <;> simp [Ordering.swap] at hs he ⊢ <;> simp [hs, he]

/-- the order is transitive (strict part) -/
theorem lt_trans (a b c : Value) (h1 : cmp a b = .lt) (h2 : cmp b c = .lt) : cmp a c = .lt :=
  (cmp_T a b c).1 h1 h2

/-- the order is transitive (non-strict part) -/
theorem le_trans (a b c : Value) (h1 : cmp a b ≠ .gt) (h2 : cmp b c ≠ .gt) : cmp a c ≠ .gt := by
  have t := cmp_T a b c
  unfold T at t
  cases h : cmp a b <;> cases h' : cmp b c <;> simp_all

/-- equal values are indistinguishable by the order -/
theorem eq_congr (a b c : Value) (h : cmp a b = .eq) : cmp a c = cmp b c := (cmp_T a b c).2.1 h

/-- antisymmetry: neither smaller ⇒ equal (by `==`) -/
theorem antisymm (a b : Value) (h1 : cmp a b ≠ .gt) (h2 : cmp b a ≠ .gt) : beq a b = true := by
  rw [cmp_swap a b] at h2
  rw [← cmp_eq_iff_beq]
  cases h : cmp a b <;> simp_all [Ordering.swap]

/-- `==` is reflexive for every value, including NaN -/
theorem beq_refl (a : Value) : beq a a = true := (cmp_eq_iff_beq a a).1 (cmp_refl a)

/-- the order is consistent with equality -/
theorem cmp_eq_iff_eq (a b : Value) : cmp a b = .eq ↔ beq a b = true := cmp_eq_iff_beq a b

/-- equal values hash equally (they feed the same stream to the hasher) -/
theorem eq_hash (a b : Value) (h : beq a b = true) : hashRepr a = hashRepr b :=
  hashRepr_eq_of_beq a b h

/-- tuples (group keys, DISTINCT rows, join keys): same laws for `Vec<Value>` -/
theorem tuple_lt_trans (a b c : List Value) (h1 : cmpList a b = .lt) (h2 : cmpList b c = .lt) :
    cmpList a c = .lt := (cmpList_T a b c).1 h1 h2
theorem tuple_cmp_eq_iff_eq (a b : List Value) : cmpList a b = .eq ↔ beqList a b = true :=
  cmpList_eq_iff_beqList a b
theorem tuple_eq_hash (a b : List Value) (h : beqList a b = true) : hashList a = hashList b :=
  hashList_eq_of_beqList a b h

/-- any two values placed in one group (same B-tree key: `cmp = Equal`), deduplicated or joined
(same hash bucket and `==`) are equal -/
theorem grouped_are_equal (a b : List Value) (h : cmpList a b = .eq) : beqList a b = true :=
  (cmpList_eq_iff_beqList a b).1 h

/-! REAL special values do not break the laws (consequences, stated for visibility) -/
def nan : Value := .real 0x7ff8000000000000
def negZero : Value := .real 0x8000000000000000
def posZero : Value := .real 0
def posInf : Value := .real 0x7ff0000000000000
def negInf : Value := .real 0xfff0000000000000
def one : Value := .real 0x3ff0000000000000

example : cmp nan nan = .eq ∧ beq nan nan = true := by decide
example : cmp one nan = .lt ∧ cmp posInf nan = .lt ∧ cmp negInf one = .lt := by decide
example : beq negZero posZero = true ∧ hashRepr negZero = hashRepr posZero := by decide
-- non-vacuity of the transitivity hypotheses on a non-trivial triple
example : cmp negInf negZero = .lt ∧ cmp negZero one = .lt ∧ cmp negInf one = .lt := by decide
example : cmpList [.int 1, .null] [.int 1, .text [97]] = .lt := by decide

/-- KNOWN FINDING D45 (kept as a kernel-checked witness): in the *derived* order, used for GROUP BY
keys, MIN/MAX, PERCENTILE and array_unique, an INT and a REAL are ordered by their type, not by
value: `Int(5) < Float(1.0)`. (WHERE comparisons go through `compare_int_float`, see C03.) -/
theorem d45_int_real_ordered_by_type : cmp (.int 5) one = .lt := by decide

end Sqlgrep.Props.C16
