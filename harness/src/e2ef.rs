// END-TO-END correspondence for FOLLOW MODE (`sqlgrep --follow [--head]`): raw definition text, raw query text, the
// content of the file at start-up and a schedule of appends / interrupts go, on one side, through the real program
// (`parsing::parse` + `Tables::add_tables` + `ExecutionEngine::new` + `FollowFileExecutor` on a real growing temp file,
// stdout captured with the erase-display sequences) and, on the other, through the composed Lean model
// `Pipeline.followText` (driver kind `e2ef`). The only point at which a run of the real executor can be acted upon is
// the retry hook of `FollowFileIterator` (end of file without a complete line): per call the schedule says whether the
// `running` flag is cleared there and which bytes are appended; after the last action the hook ends the iteration.
// Oracle tables as in `e2e.rs`, for the texts and for the complete lines appended after the start offset, plus
// `String::from_utf8_lossy` of the lines that are not valid UTF-8.
// Property oracles on the implementation (Props/PipelineFollow.lean): the final screen of an aggregate statement /
// everything a non-aggregate statement prints is the batch output over the complete lines (C11); an interrupted run
// writes a prefix of what the uninterrupted run writes and reports no error (C19); complete lines that yield no row,
// inserted into the appended bytes, change nothing (C06).
use std::collections::BTreeSet;
use std::fs::{File, OpenOptions};
use std::io::Write;
use std::sync::atomic::{AtomicBool, Ordering};
use std::sync::Arc;

use sqlgrep::data_model::Tables;
use sqlgrep::execution::execution_engine::{ExecutionConfig, ExecutionEngine};
use sqlgrep::executor::{DisplayOptions, FollowFileExecutor, OutputFormat};
use sqlgrep::helpers::verif_hooks::set_follow_retry_hook;
use sqlgrep::Statement;

use crate::c10::complete_lines;
use crate::e2e::{self, Case};
use crate::engine_run::{exec_err_kind, prepare};
use crate::run::{Params, Run};
use crate::runq::{tmp_dir, tmp_file};
use crate::util::{catch, hex, hexs, Caught, Rng};

pub struct FCase {
    pub defs: String,
    pub query: String,
    pub format: OutputFormat,
    pub head: bool,
    pub initial: Vec<u8>,
    /// one entry per call of the retry hook: clear the `running` flag there?, the bytes appended there
    pub acts: Vec<(bool, Vec<u8>)>,
    pub family: &'static str,
}

const CLEAR: &[u8] = b"\x1B[2J\x1B[1;1H";

/// raw terminal output as items: `C` for the erase-display sequence the executor writes, `x…` per printed line
fn items_of(raw: &[u8]) -> Vec<String> {
    let mut items = Vec::new();
    let mut cur: Vec<u8> = Vec::new();
    let mut i = 0;
    while i < raw.len() {
        if raw[i..].starts_with(CLEAR) {
            if !cur.is_empty() { items.push(hex(&cur)); cur.clear(); }
            items.push("C".to_owned());
            i += CLEAR.len();
        } else if raw[i] == b'\n' {
            items.push(hex(&cur));
            cur.clear();
            i += 1;
        } else {
            cur.push(raw[i]);
            i += 1;
        }
    }
    if !cur.is_empty() { items.push(format!("partial:{}", hex(&cur))); }
    items
}

/// `sqlgrep -d <defs> -c <query> --format <f> --follow [--head] file` in-process; the answer in the form the driver prints
pub fn run_real(c: &FCase) -> String {
    let mut tables = Tables::new();
    let front = catch(|| -> Result<Statement, String> {
        match sqlgrep::parsing::parse(&c.defs) {
            Ok(stmt) => { if !tables.add_tables(stmt) { return Err("not-create-table".to_owned()); } }
            Err(e) => return Err(format!("rejected defs {}", e2e::parse_err(&e))),
        }
        let statement = match sqlgrep::parsing::parse(&c.query) {
            Ok(s) => s,
            Err(e) => return Err(format!("rejected query {}", e2e::parse_err(&e))),
        };
        match statement { Statement::Select(_) | Statement::Aggregate(_) => Ok(statement), _ => Err("not-a-query".to_owned()) }
    });
    let statement = match front { Caught::Done(Ok(s)) => s, Caught::Done(Err(a)) => return a, Caught::Panic(_) => return "panic".to_owned() };
    let path = tmp_file(&c.initial);
    let running = Arc::new(AtomicBool::new(true));
    {
        let (running, path, acts) = (running.clone(), path.clone(), c.acts.clone());
        let calls = std::cell::Cell::new(0usize);
        set_follow_retry_hook(Some(Box::new(move || {
            let n = calls.get();
            calls.set(n + 1);
            if n < acts.len() {
                if acts[n].0 { running.store(false, Ordering::SeqCst); }
                let mut f = OpenOptions::new().append(true).open(&path).unwrap();
                f.write_all(&acts[n].1).unwrap();
                true
            } else {
                false
            }
        })));
    }
    let mut status = String::new();
    let out = crate::c19::capture_stdout(|| {
        let res = catch(|| -> Result<(), String> {
            let file = File::open(&path).map_err(|_| "err:FailOpenFile".to_owned())?;
            let display = DisplayOptions { output_format: c.format.clone(), single_result: false, print_result: true };
            let engine = ExecutionEngine::new(&tables, &statement);
            let mut executor = FollowFileExecutor::new(running.clone(), file, c.head, display, engine).map_err(|_| "err:Io".to_owned())?;
            executor.execute().map_err(|e| format!("err:{}", exec_err_kind(&e)))
        });
        status = match res {
            Caught::Done(Ok(())) => "ok".to_owned(),
            Caught::Done(Err(e)) => e,
            Caught::Panic(_) => "panic".to_owned(),
        };
    });
    set_follow_retry_hook(None);
    let _ = std::fs::remove_file(path);
    if status == "panic" { return status; }
    format!("{} out={}", status, items_of(&out).join(","))
}

/// the complete lines appended after the start offset (what the iterator delivers), as bytes
pub fn delivered_lines(c: &FCase) -> Vec<Vec<u8>> {
    let mut whole = c.initial.clone();
    for (_, chunk) in &c.acts { whole.extend_from_slice(chunk); }
    let start = if c.head { 0 } else { c.initial.len() };
    complete_lines(&whole[start..]).0
}

pub fn case_line(c: &FCase) -> String {
    let lines = delivered_lines(c);
    let mut texts: Vec<String> = Vec::new();
    let mut lossy = String::from("(lossy");
    for l in &lines {
        let t = String::from_utf8_lossy(l).into_owned();
        if std::str::from_utf8(l).is_err() { lossy.push_str(&format!(" ({} {})", hex(l), hexs(&t))); }
        if !texts.contains(&t) { texts.push(t); }
    }
    lossy.push(')');
    let discover = |reals: &mut BTreeSet<u64>, strings: &mut BTreeSet<String>| {
        let _ = catch(|| {
            let mut tables = Tables::new();
            let stmt = match sqlgrep::parsing::parse(&c.defs) { Ok(s) => s, Err(_) => return };
            if !tables.add_tables(stmt) { return; }
            let statement = match sqlgrep::parsing::parse(&c.query) { Ok(s) => s, Err(_) => return };
            match statement { Statement::Select(_) | Statement::Aggregate(_) => {} _ => return }
            let mut engine = ExecutionEngine::new(&tables, &statement);
            if engine.is_join() { return; }
            for l in &lines {
                match engine.execute(String::from_utf8_lossy(l).into_owned(), &ExecutionConfig::default()) {
                    Ok(o) => e2e::collect_result(&o.result_row, reals, strings),
                    Err(_) => return,
                }
            }
        });
    };
    let facts = e2e::facts_sexp_with(&c.defs, &c.query, &texts, &discover);
    format!("e2ef {} {} {} {} {} (acts{}) {} {}", hexs(&c.defs), hexs(&c.query), e2e::format_sexp(&c.format), c.head as u8, hex(&c.initial),
        c.acts.iter().map(|(i, ch)| format!(" ({} {})", *i as u8, hex(ch))).collect::<String>(), facts, lossy)
}

fn show(c: &FCase) -> String {
    format!("e2ef defs={:?} query={:?} format={:?} head={} initial={:?} acts={:?}", c.defs, c.query, c.format, c.head,
        String::from_utf8_lossy(&c.initial), c.acts.iter().map(|(i, ch)| (*i, String::from_utf8_lossy(ch).to_string())).collect::<Vec<_>>())
}

/// cut a content into an initial part and appended chunks (anywhere: inside lines, inside multi-byte characters)
fn schedule(rng: &mut Rng, content: &[u8]) -> (Vec<u8>, Vec<Vec<u8>>) {
    let n = content.len();
    let k = rng.below(6);
    let mut cuts: Vec<usize> = (0..k).map(|_| rng.below(n + 1)).collect();
    cuts.sort();
    cuts.dedup();
    let mut parts = Vec::new();
    let mut last = 0;
    for c in cuts { parts.push(content[last..c].to_vec()); last = c; }
    parts.push(content[last..].to_vec());
    let initial = if rng.chance(2, 3) { parts.remove(0) } else { Vec::new() };
    (initial, parts)
}

fn status_of(answer: &str) -> &str { answer.split(' ').next().unwrap_or("") }
fn items(answer: &str) -> Vec<String> {
    match answer.split_once(" out=") { Some((_, o)) if !o.is_empty() => o.split(',').map(|s| s.to_owned()).collect(), _ => Vec::new() }
}
/// printed lines cut at line feeds inside them (what the captured byte stream of follow mode shows of such a line)
fn cut_at_nl(items: &[String]) -> Vec<String> {
    let mut out = Vec::new();
    for it in items {
        if it == "C" || !it.starts_with('x') { out.push(it.clone()); continue; }
        let bytes: Vec<u8> = (1..it.len()).step_by(2).filter_map(|i| u8::from_str_radix(&it[i..(i + 2).min(it.len())], 16).ok()).collect();
        for part in bytes.split(|b| *b == b'\n') { out.push(hex(part)); }
    }
    out
}
/// the screens of an answer: element 0 what precedes the first clear
fn screens(items: &[String]) -> Vec<Vec<String>> {
    let mut out = vec![Vec::new()];
    for it in items { if it == "C" { out.push(Vec::new()); } else { out.last_mut().unwrap().push(it.clone()); } }
    out
}

fn observe(run: &mut Run, c: &FCase, variant: &str) -> String {
    let answer = run_real(c);
    let kind = e2e::result_kind(&answer);
    run.count(&format!("e2ef:{}", c.family));
    run.count(&format!("e2ef:result:{}", kind));
    let tag = format!("e2ef:{}:{}:{}:{}:{}:{}", c.family, variant, e2e::format_tag(&c.format), e2e::shape(&c.query), kind, if c.head { "head" } else { "tail" });
    run.case_with_desc(case_line(c), answer.clone(), tag, show(c));
    answer
}

/// batch output (`sqlgrep -c … file`, same format, `single_result = false`) over a file holding exactly these lines
fn batch_over(c: &FCase, lines: &[Vec<u8>]) -> String {
    let mut bytes = Vec::new();
    for l in lines { bytes.extend_from_slice(l); bytes.push(b'\n'); }
    e2e::run_real(&Case { defs: c.defs.clone(), query: c.query.clone(), format: c.format.clone(), single: false, files: vec![bytes], joined: None, family: "e2ef-batch" })
}

/// the shared stream: `n` invocations, biased by `focus` as in `e2e::stream`
pub fn stream(run: &mut Run, rng: &mut Rng, n: usize, focus: &str) {
    let jp = tmp_dir().join("e2ef-no-such-joined.txt").display().to_string();
    for i in 0..n {
        let base: Case = match i % 10 {
            7 => match e2e::gen_def_case(rng, focus) { Some(c) => c, None => e2e::gen_schema_case(rng, focus, &jp) },
            9 => e2e::gen_seam_case(rng, focus, &jp),
            _ => e2e::gen_schema_case(rng, focus, &jp),
        };
        let mut content: Vec<u8> = base.files.concat();
        if !content.is_empty() && *content.last().unwrap() == b'\n' && rng.chance(1, 4) { content.extend_from_slice(b"a;1;2;tail"); }
        if rng.chance(1, 8) {
            // a line that is not valid UTF-8 (the iterator hands out `from_utf8_lossy`), at a line boundary
            let bad: Vec<u8> = (*rng.pick(&[&b"a;1;\xff;0.5;x;"[..], &b"\xc3;2;3;1.5;y;!"[..], &b"\xe2\x82"[..]])).to_vec();
            content = e2e::insert_at_line_boundaries(rng, &content, &[bad]);
        }
        let (initial, chunks) = schedule(rng, &content);
        let head = !rng.chance(1, 4);
        let intr_at = if rng.chance(1, 3) && !chunks.is_empty() { Some(rng.below(chunks.len())) } else { None };
        let acts: Vec<(bool, Vec<u8>)> = chunks.iter().enumerate().map(|(j, ch)| (intr_at == Some(j), ch.clone())).collect();
        let c = FCase { defs: base.defs.clone(), query: base.query.clone(), format: base.format.clone(), head, initial, acts, family: base.family };
        let a = observe(run, &c, if intr_at.is_some() { "intr" } else { "run" });

        // ---- property oracles on the implementation ----
        let plain = FCase { acts: c.acts.iter().map(|(_, ch)| (false, ch.clone())).collect(), defs: c.defs.clone(), query: c.query.clone(), format: c.format.clone(), head: c.head, initial: c.initial.clone(), family: c.family };
        let u = if intr_at.is_some() { run_real(&plain) } else { a.clone() };
        if !(u.starts_with("ok ") || u.starts_with("err:")) { continue; }
        // C19: the interrupted run writes a prefix of what the uninterrupted run writes and reports no error of its own
        if intr_at.is_some() {
            run.oracle_checks += 1;
            let (ia, iu) = (items(&a), items(&u));
            if a == "panic" { run.fail(show(&c), "e2ef-panic:interrupt", "the interrupted follow run panicked".to_owned()); }
            else if !(ia.len() <= iu.len() && ia[..] == iu[..ia.len()]) {
                run.fail(show(&c), "e2ef-interrupted-output-not-a-prefix", format!("interrupted: {}; uninterrupted: {}", a, u));
            } else if status_of(&a) != "ok" && status_of(&a) != status_of(&u) {
                run.fail(show(&c), "e2ef-interrupt-reports-error", format!("interrupted: {}; uninterrupted: {}", a, u));
            }
        }
        // C11: against the batch run over the complete lines (statements without LIMIT and join; lines that the batch
        // reader reads as the same text: valid UTF-8, no CR before the newline)
        let lines = delivered_lines(&c);
        let upper = c.query.to_uppercase();
        let same_text = lines.iter().all(|l| std::str::from_utf8(l).is_ok() && l.last() != Some(&b'\r'));
        if u.starts_with("ok ") && same_text && !upper.contains("LIMIT") && !upper.contains("JOIN") {
            if let Ok(p) = prepare(&c.defs, &c.query) {
                let b = batch_over(&c, &lines);
                if b.starts_with("ok ") {
                    run.oracle_checks += 1;
                    let want = cut_at_nl(&items(&e2e::without_total(&b)));
                    let sc = screens(&items(&u));
                    if matches!(p.statement, Statement::Aggregate(_)) {
                        let last = sc.last().unwrap().clone();
                        let refreshed = sc.len() > 1;
                        if refreshed && last != want {
                            run.fail(show(&c), "e2ef-final-screen-differs-from-batch", format!("final screen {:?}; batch output over the {} complete lines {:?}", last, lines.len(), want));
                        }
                        if !sc[0].is_empty() { run.fail(show(&c), "e2ef-output-before-first-clear", format!("{:?}", sc[0])); }
                    } else {
                        if sc.len() != 1 { run.fail(show(&c), "e2ef-select-clears-screen", format!("{}", u)); }
                        else if sc[0] != want { run.fail(show(&c), "e2ef-output-differs-from-batch", format!("follow mode printed {:?}; the batch run prints {:?}", sc[0], want)); }
                    }
                }
            }
        }
        // C06: complete lines that yield no row, inserted into the content, change nothing that is written
        if i % 3 == 0 && intr_at.is_none() && c.family != "seam" {
            if let Ok(p) = prepare(&c.defs, &c.query) {
                if let Some(td) = p.tables.get("t") {
                    let mut noise: Vec<Vec<u8>> = Vec::new();
                    for _ in 0..1 + rng.below(3) {
                        for _ in 0..8 { let l = *rng.pick(crate::c06::MAIN_NOISE); if !crate::c06::spec_admitted(td, l) { noise.push(l.as_bytes().to_vec()); break; } }
                    }
                    // line boundaries of the content as the follower sees it (whole content with --head)
                    if c.head && !noise.is_empty() {
                        let noisy_content = e2e::insert_at_line_boundaries_lf(rng, &content, &noise);
                        let (ini2, chunks2) = schedule(rng, &noisy_content);
                        let c2 = FCase { defs: c.defs.clone(), query: c.query.clone(), format: c.format.clone(), head: true, initial: ini2, acts: chunks2.into_iter().map(|ch| (false, ch)).collect(), family: "noise" };
                        let a2 = observe(run, &c2, "noise");
                        run.oracle_checks += 1;
                        if a2 != u {
                            run.fail(format!("{} ~~> content={:?}", show(&c), String::from_utf8_lossy(&noisy_content)), "e2ef-noise-visible", format!("without the lines: {}; with non-admitted complete lines inserted: {}", u, a2));
                        }
                    }
                }
            }
        }
    }
    run.notes.push(format!("e2ef stream ({}): {} invocations of follow mode from raw texts on a real growing file (content cut anywhere into an initial part and up to 6 appends performed at the retry hook, --head or not, 1 in 3 with the running flag cleared at one of the hook calls, 1 in 8 with a line that is not valid UTF-8, all output formats, seam cases) through parsing::parse + Tables + FollowFileExecutor with stdout captured vs Pipeline.followText; oracles on the implementation: final screen / printed records = batch output over the complete lines, interrupted output is a prefix without error, inserted non-admitted lines change nothing", focus, n));
}

/// the stream on its own
pub fn run(p: &Params) -> Run {
    let mut run = Run::new("E2EF");
    let mut rng = Rng::new(p.seed ^ 0xe2ef);
    let n = p.n(150, 3000);
    for focus in &["select", "group", "limit", "distinct", "print"] { stream(&mut run, &mut rng, n, focus); }
    run
}
