import SqlgrepModel.Lemmas.Lower
/-
Every `ConvertParserTreeError` is located at a node of the tree (or at the statement's own location):
`t.AllLoc P → (lowerStatement rv t).ErrAt P` for every predicate `P` on locations.
-/
namespace Sqlgrep

mutual
def Lower.XExpr.AllLoc (P : Loc → Prop) : Lower.XExpr → Prop
  | .plain e => PExpr.AllLoc P e
  | .hole => True
  | .binop l _ a b => P l ∧ Lower.XExpr.AllLoc P a ∧ Lower.XExpr.AllLoc P b
  | .boolop _ a b | .nullcmp _ a b | .index a b => Lower.XExpr.AllLoc P a ∧ Lower.XExpr.AllLoc P b
  | .unop l _ e => P l ∧ Lower.XExpr.AllLoc P e
  | .invert e | .cast e _ => Lower.XExpr.AllLoc P e
  | .call l _ args => P l ∧ Lower.XExpr.AllLocList P args
def Lower.XExpr.AllLocList (P : Loc → Prop) : List Lower.XExpr → Prop
  | [] => True
  | x :: xs => Lower.XExpr.AllLoc P x ∧ Lower.XExpr.AllLocList P xs
end

def Lower.Extracted.AllLoc (P : Loc → Prop) : Lower.Extracted → Prop
  | .column _ => True
  | .call _ args _ => PExpr.AllLocList P args

def PSelect.AllLoc (P : Loc → Prop) (q : PSelect) : Prop :=
  P q.loc ∧ (∀ p ∈ q.projections, PExpr.AllLoc P p.2) ∧ (∀ e, q.filter = some e → PExpr.AllLoc P e) ∧
  (∀ ks, q.groupBy = some ks → PExpr.AllLocList P ks) ∧ (∀ e, q.having = some e → PExpr.AllLoc P e)

def POp.AllLoc (P : Loc → Prop) : POp → Prop
  | .select q => q.AllLoc P
  | .createTable c => P c.loc
  | .multiple cs => ∀ c ∈ cs, P c.loc

namespace Lower

theorem errAt_ok {α : Type} {P : Loc → Prop} (a : α) : (LRes.ok a).ErrAt P := by intro e h; cases h
theorem errAt_panic {α : Type} {P : Loc → Prop} (s : String) : (LRes.panic s : LRes α).ErrAt P := by intro e h; cases h
theorem errAt_err {α : Type} {P : Loc → Prop} {e : CErr} (h : P e.loc) : (LRes.err e : LRes α).ErrAt P := by
  intro e' h'; cases h'; exact h

theorem allLoc_loc {P : Loc → Prop} : ∀ e : PExpr, e.AllLoc P → P (PExpr.loc e) := by
  intro e h
  cases e <;> simp only [PExpr.AllLoc, PExpr.loc] at * <;> first | exact h | exact h.1

theorem errAt_binop {P : Loc → Prop} {loc o l r} (h : P loc) : (lowerBinop loc o l r).ErrAt P := by
  unfold lowerBinop
  repeat' split
  all_goals first | exact errAt_ok _ | exact errAt_err h
theorem errAt_unop {P : Loc → Prop} {loc o e} (h : P loc) : (lowerUnop loc o e).ErrAt P := by
  unfold lowerUnop
  split <;> first | exact errAt_ok _ | exact errAt_err h
theorem errAt_call {P : Loc → Prop} {loc n a} (h : P loc) : (lowerCall loc n a).ErrAt P := by
  unfold lowerCall
  split <;> first | exact errAt_ok _ | exact errAt_err h

macro "eleaf" : tactic => `(tactic| first
  | exact errAt_ok _
  | exact errAt_panic _
  | (apply errAt_binop; simp_all [PExpr.AllLoc, XExpr.AllLoc]; done)
  | (apply errAt_unop; simp_all [PExpr.AllLoc, XExpr.AllLoc]; done)
  | (apply errAt_call; simp_all [PExpr.AllLoc, XExpr.AllLoc]; done)
  | (apply errAt_err; simp_all [PExpr.AllLoc, XExpr.AllLoc, LRes.ErrAt]; done)
  | (simp_all [PExpr.AllLoc, PExpr.AllLocList, PExpr.AllLocClauses, XExpr.AllLoc, XExpr.AllLocList, LRes.ErrAt]; done))

theorem lowerPlain_errAt_all (P : Loc → Prop) :
    (∀ e, PExpr.AllLoc P e → (lowerPlain e).ErrAt P) ∧ (∀ es, PExpr.AllLocList P es → (lowerPlainList es).ErrAt P) ∧
    (∀ cs, PExpr.AllLocClauses P cs → (lowerPlainClauses cs).ErrAt P) := by
  apply PExpr.induct3
  all_goals intros
  all_goals (first | rw [lowerPlain] | rw [lowerPlainList] | rw [lowerPlainClauses])
  all_goals (repeat' split)
  all_goals eleaf

theorem lowerPlain_errAt {P : Loc → Prop} {e : PExpr} (h : e.AllLoc P) : (lowerPlain e).ErrAt P :=
  (lowerPlain_errAt_all P).1 e h
theorem lowerPlainList_errAt {P : Loc → Prop} {es : List PExpr} (h : PExpr.AllLocList P es) :
    (lowerPlainList es).ErrAt P := (lowerPlain_errAt_all P).2.1 es h

theorem lowerCallAggregate_errAt {P : Loc → Prop} {loc name args distinct index} (hl : P loc)
    (ha : PExpr.AllLocList P args) : (lowerCallAggregate loc name args distinct index).ErrAt P := by
  have hp := @lowerPlain_errAt P
  have hloc := @allLoc_loc P
  unfold lowerCallAggregate
  dsimp only
  repeat' split
  all_goals first
    | exact errAt_ok _
    | exact errAt_panic _
    | exact errAt_err hl
    | (apply errAt_err; simp_all [PExpr.AllLocList]; done)
    | (simp_all [PExpr.AllLocList, LRes.ErrAt]; done)
    | (rename_i heq; intro e he; cases he; simp only [PExpr.AllLocList] at ha; exact hp ha.1 _ heq)
    | (rename_i heq _; intro e he; cases he; simp only [PExpr.AllLocList] at ha; exact hp ha.1 _ heq)
    | (rename_i heq; intro e he; cases he; simp only [PExpr.AllLocList] at ha; exact hp ha.2.1 _ heq)

theorem lowerHaving_errAt_all (P : Loc → Prop) :
    (∀ e st, PExpr.AllLoc P e → (lowerHaving e st).ErrAt P) ∧
    (∀ es st, PExpr.AllLocList P es → (lowerHavingList es st).ErrAt P) ∧
    (∀ cs st, PExpr.AllLocClauses P cs → (lowerHavingClauses cs st).ErrAt P) := by
  have hc := @lowerCallAggregate_errAt P
  apply PExpr.induct3
  all_goals intros
  all_goals (first | rw [lowerHaving] | rw [lowerHavingList] | rw [lowerHavingClauses])
  all_goals (repeat' split)
  all_goals first
    | eleaf
    | (have hb := @errAt_binop P; have hu := @errAt_unop P; have hcl := @errAt_call P
       simp only [PExpr.AllLoc, PExpr.AllLocList, PExpr.AllLocClauses] at *
       grind [LRes.ErrAt])

theorem lowerHaving_errAt {P : Loc → Prop} {e : PExpr} (st : HState) (h : e.AllLoc P) : (lowerHaving e st).ErrAt P :=
  (lowerHaving_errAt_all P).1 e st h

theorem holeOr_allLoc {P : Loc → Prop} {b : Bool} {x : XExpr} (h : XExpr.AllLoc P x) : XExpr.AllLoc P (holeOr b x) := by
  unfold holeOr; split <;> simp_all [XExpr.AllLoc]

theorem firstSome_allLoc {P : Loc → Prop} {a b : Option Extracted} (ha : ∀ x, a = some x → x.AllLoc P)
    (hb : ∀ x, b = some x → x.AllLoc P) : ∀ x, firstSome a b = some x → x.AllLoc P := by
  unfold firstSome; split <;> assumption

/-- `extract_aggregate` hands back sub-trees of the tree and leaves a tree made of its nodes -/
theorem extractAggregate_allLoc (P : Loc → Prop) :
    (∀ e, PExpr.AllLoc P e → (∀ x, (extractAggregate e).1 = some x → x.AllLoc P) ∧ XExpr.AllLoc P (extractAggregate e).2.2) ∧
    (∀ es, PExpr.AllLocList P es → ∀ acc, (∀ x, acc = some x → Extracted.AllLoc P x) →
        (∀ x, (extractArgs es acc).1 = some x → x.AllLoc P) ∧ XExpr.AllLocList P (extractArgs es acc).2) ∧
    (∀ _cs : List (PExpr × PExpr), True) := by
  have hh := @holeOr_allLoc P
  have hf := @firstSome_allLoc P
  apply PExpr.induct3
  case nil => intro _ acc hacc; rw [extractArgs]; exact ⟨hacc, trivial⟩
  case cons =>
    intro x xs ihx ihxs hall acc hacc
    simp only [PExpr.AllLocList] at hall
    have hx := ihx hall.1
    rw [extractArgs]
    dsimp only
    have := ihxs hall.2 (if (extractAggregate x).1.isSome then (extractAggregate x).1 else acc) (by
      split
      · exact hx.1
      · exact hacc)
    exact ⟨this.1, hh hx.2, this.2⟩
  case cnil => trivial
  case ccons => intros; trivial
  case call =>
    intro l n args d ih hall
    simp only [PExpr.AllLoc] at hall
    rw [extractAggregate]
    split
    · exact ⟨fun x hx => by cases hx; exact hall.2, by simp only [XExpr.AllLoc, PExpr.AllLoc]; exact hall⟩
    · have := ih hall.2 none (by intro x hx; cases hx)
      exact ⟨this.1, by simp only [XExpr.AllLoc]; exact ⟨hall.1, this.2⟩⟩
  all_goals intros
  all_goals (rw [extractAggregate])
  all_goals first
    | (simp_all [PExpr.AllLoc, XExpr.AllLoc, Extracted.AllLoc]; done)
    | (dsimp only; simp only [PExpr.AllLoc] at *; simp only [XExpr.AllLoc];
       refine ⟨?_, ?_⟩
       · first | (apply hf <;> simp_all) | simp_all
       · repeat' constructor
         all_goals first | (apply holeOr_allLoc; simp_all; done) | (simp_all; done))

theorem lowerX_errAt_all (P : Loc → Prop) :
    (∀ x, XExpr.AllLoc P x → (lowerX x).ErrAt P) ∧ (∀ xs, XExpr.AllLocList P xs → (lowerXList xs).ErrAt P) := by
  have hp := @lowerPlain_errAt P
  apply lowerX.mutual_induct
  all_goals intros
  all_goals (first | rw [lowerX] | rw [lowerXList])
  all_goals first
    | (apply hp; simp_all [XExpr.AllLoc]; done)
    | eleaf
    | (simp only [*]; eleaf)
    | (have hb := @errAt_binop P; have hu := @errAt_unop P; have hcl := @errAt_call P
       simp only [XExpr.AllLoc, XExpr.AllLocList] at *
       grind [LRes.ErrAt])

theorem lowerX_errAt {P : Loc → Prop} {x : XExpr} (h : XExpr.AllLoc P x) : (lowerX x).ErrAt P :=
  (lowerX_errAt_all P).1 x h

theorem lowerAggregate_errAt {P : Loc → Prop} {tree : PExpr} (index : Nat) (h : tree.AllLoc P) :
    (lowerAggregate tree index).ErrAt P := by
  have h1 := @lowerCallAggregate_errAt P
  have h2 := @lowerX_errAt P
  have h3 := @lowerPlain_errAt P
  have hl := allLoc_loc tree h
  have hx := (extractAggregate_allLoc P).1 tree h
  unfold lowerAggregate
  dsimp only
  repeat' split
  all_goals first
    | exact errAt_ok _
    | exact errAt_panic _
    | exact errAt_err hl
    | (intro e he; cases he
       have := hx.1 _ ‹(extractAggregate tree).1 = some _›
       simp only [Extracted.AllLoc] at this
       exact h1 hl this _ ‹lowerCallAggregate _ _ _ _ _ = LRes.err _›)
    | (intro e he; cases he; exact h2 hx.2 _ ‹lowerX _ = LRes.err _›)
    | (intro e he; cases he; exact h3 h _ ‹lowerPlain _ = LRes.err _›)

theorem lowerJoin_errAt {P : Loc → Prop} {loc f j} (h : P loc) : (lowerJoin loc f j).ErrAt P := by
  unfold lowerJoin
  repeat' split
  all_goals first | exact errAt_ok _ | exact errAt_err h

theorem lowerOpt_errAt {P : Loc → Prop} (o : Option PExpr) (h : ∀ e, o = some e → e.AllLoc P) :
    (lowerOpt lowerPlain o).ErrAt P := by
  unfold lowerOpt
  repeat' split
  all_goals first
    | exact errAt_ok _
    | exact errAt_panic _
    | (intro e he; cases he; exact lowerPlain_errAt (h _ rfl) _ (by assumption))

theorem lowerHavingOpt_errAt {P : Loc → Prop} (o : Option PExpr) (h : ∀ e, o = some e → e.AllLoc P) :
    (lowerHavingOpt o).ErrAt P := by
  unfold lowerHavingOpt
  repeat' split
  all_goals first
    | exact errAt_ok _
    | exact errAt_panic _
    | (intro e he; cases he; exact lowerHaving_errAt _ (h _ rfl) _ (by assumption))

theorem lowerGroupBy_errAt {P : Loc → Prop} (o : Option (List PExpr)) (h : ∀ ks, o = some ks → PExpr.AllLocList P ks) :
    (lowerGroupBy o).ErrAt P := by
  unfold lowerGroupBy
  repeat' split
  all_goals first
    | exact errAt_ok _
    | exact errAt_panic _
    | (intro e he; cases he; exact lowerPlainList_errAt (h _ rfl) _ (by assumption))

theorem lowerProjections_errAt {P : Loc → Prop} : ∀ (ps : List (Option (List Char) × PExpr)) (i : Nat),
    (∀ p ∈ ps, PExpr.AllLoc P p.2) → (lowerProjections ps i).ErrAt P := by
  intro ps
  induction ps with
  | nil => intro i _; rw [lowerProjections]; exact errAt_ok _
  | cons p rest ih =>
    intro i h
    obtain ⟨name, tree⟩ := p
    have h1 := lowerPlain_errAt (h (name, tree) (by simp))
    have h2 := ih (i + 1) (fun q hq => h q (by simp [hq]))
    rw [lowerProjections]
    repeat' split
    all_goals first
      | exact errAt_ok _
      | exact errAt_panic _
      | (intro e he; cases he; exact h1 _ (by assumption))
      | (intro e he; cases he; exact h2 _ (by assumption))

theorem lowerItems_errAt {P : Loc → Prop} : ∀ (ps : List (Option (List Char) × PExpr)) (i : Nat),
    (∀ p ∈ ps, PExpr.AllLoc P p.2) → (lowerItems ps i).ErrAt P := by
  intro ps
  induction ps with
  | nil => intro i _; rw [lowerItems]; exact errAt_ok _
  | cons p rest ih =>
    intro i h
    obtain ⟨name, tree⟩ := p
    have h1 := lowerAggregate_errAt i (h (name, tree) (by simp))
    have h2 := ih (i + 1) (fun q hq => h q (by simp [hq]))
    rw [lowerItems]
    repeat' split
    all_goals first
      | exact errAt_ok _
      | exact errAt_panic _
      | (intro e he; cases he; exact h1 _ (by assumption))
      | (intro e he; cases he; exact h2 _ (by assumption))

theorem lowerSelect_errAt {P : Loc → Prop} (q : PSelect) (h : q.AllLoc P) : (lowerSelect q).ErrAt P := by
  have h1 := lowerProjections_errAt q.projections 0 h.2.1
  have h2 := lowerOpt_errAt q.filter h.2.2.1
  have h3 := @lowerJoin_errAt P q.loc q.fromTable q.join h.1
  unfold lowerSelect
  repeat' split
  all_goals first
    | exact errAt_ok _
    | exact errAt_panic _
    | (intro e he; cases he; exact h1 _ (by assumption))
    | (intro e he; cases he; exact h2 _ (by assumption))
    | (intro e he; cases he; exact h3 _ (by assumption))

theorem lowerAggregateStmt_errAt {P : Loc → Prop} (q : PSelect) (h : q.AllLoc P) : (lowerAggregateStmt q).ErrAt P := by
  have h1 := lowerItems_errAt q.projections 0 h.2.1
  have h2 := lowerOpt_errAt q.filter h.2.2.1
  have h3 := @lowerJoin_errAt P q.loc q.fromTable q.join h.1
  have h4 := lowerHavingOpt_errAt q.having h.2.2.2.2
  have h5 := lowerGroupBy_errAt q.groupBy h.2.2.2.1
  unfold lowerAggregateStmt
  repeat' split
  all_goals first
    | exact errAt_ok _
    | exact errAt_panic _
    | (intro e he; cases he; exact h1 _ (by assumption))
    | (intro e he; cases he; exact h2 _ (by assumption))
    | (intro e he; cases he; exact h3 _ (by assumption))
    | (intro e he; cases he; exact h4 _ (by assumption))
    | (intro e he; cases he; exact h5 _ (by assumption))

theorem lowerCreate_errAt {P : Loc → Prop} (rv : List Char → Bool) (c : PCreate) (h : P c.loc) :
    (lowerCreate rv c).ErrAt P := by
  unfold lowerCreate
  repeat' split
  all_goals first
    | exact errAt_ok _
    | exact errAt_panic _
    | exact errAt_err h
    | (intro e he; cases he; exact absurd (by assumption) (lowerColumns_noErr _ _))

theorem lowerCreates_errAt {P : Loc → Prop} (rv : List Char → Bool) : ∀ cs : List PCreate, (∀ c ∈ cs, P c.loc) →
    (lowerCreates rv cs).ErrAt P := by
  intro cs
  induction cs with
  | nil => intro _; rw [lowerCreates]; exact errAt_ok _
  | cons c rest ih =>
    intro h
    have h1 := lowerCreate_errAt rv c (h c (by simp))
    have h2 := ih (fun c hc => h c (by simp [hc]))
    rw [lowerCreates]
    repeat' split
    all_goals first
      | exact errAt_ok _
      | exact errAt_panic _
      | (intro e he; cases he; exact h1 _ (by assumption))
      | (intro e he; cases he; exact h2 _ (by assumption))

/-- every conversion error is located at a node of the tree or at the statement's location -/
theorem lowerStatement_errAt {P : Loc → Prop} (rv : List Char → Bool) (t : POp) (h : t.AllLoc P) :
    (lowerStatement rv t).ErrAt P := by
  cases t with
  | select q =>
    have h1 := lowerSelect_errAt q h
    have h2 := lowerAggregateStmt_errAt q h
    simp only [lowerStatement]
    repeat' split
    all_goals first
      | exact h1
      | exact h2
      | exact errAt_err h.1
  | createTable c => exact lowerCreate_errAt rv c h
  | multiple cs =>
    have h1 := lowerCreates_errAt rv cs h
    simp only [lowerStatement]
    repeat' split
    all_goals first
      | exact errAt_ok _
      | exact errAt_panic _
      | (intro e he; cases he; exact h1 _ (by assumption))

end Lower
end Sqlgrep
