import SqlgrepModel.Spec.JsonGrammar
/-
The grammar of Rust's `f64::from_str` (`core::num::dec2flt`), as inductive predicates over lists of characters,
each rule carrying what the text denotes.  Written from the documentation of `impl FromStr for f64`:

```
Float  ::= Sign? ( 'inf' | 'infinity' | 'nan' | Number )
Number ::= ( Digit+ | Digit+ '.' Digit* | Digit* '.' Digit+ ) Exp?
Exp    ::= 'e' Sign? Digit+
Sign   ::= [+-]
Digit  ::= [0-9]
```
"All strings that adhere to this grammar result in an `Ok`", every other string — the empty string, a lone sign,
a lone `.`, surrounding whitespace, `_`, `0x…`, `infinit` — in an `Err`; `e`, `inf`, `infinity`, `nan` are
recognised in any letter case (`parse::parse_inf_nan` clears bit 0x20 of each byte and compares with `INF`,
`INFINITY`, `NAN`; `parse_partial_number` tests `c == b'e' || c == b'E'`).

This file imports nothing of the model (only `DIGIT` and `digitsVal` of `Spec/JsonGrammar.lean`).  The denotation of
a `Number` is the decimal `mant · 10^exp` (all digits before and after the point as one integer, the exponent less
the number of digits after the point); which REAL the decimal becomes (the nearest one, `DecFloat.decToF64`) is said in
`Lemmas/FloatGrammar.lean`, where `DecFloat.parseF64N` — the function the model executes for every number text —
is proved sound and complete for this grammar.
-/
namespace Sqlgrep.FloatGrammar
open Sqlgrep.JsonGrammar (Digit Digits Digits1 digitsVal)

/-- `Sign?` and whether it is a minus -/
inductive SignD : List Char → Bool → Prop
  | none : SignD [] false
  | plus : SignD ['+'] false
  | minus : SignD ['-'] true

/-- `Exp?` = `( 'e' Sign? Digit+ )?` with the exponent it denotes (absent: 0); `e` in either case -/
inductive ExpD : List Char → Int → Prop
  | none : ExpD [] 0
  | some {e : Char} {sg ds : List Char} {neg : Bool} : (e = 'e' ∨ e = 'E') → SignD sg neg → Digits1 ds →
      ExpD (e :: sg ++ ds) (if neg then -(digitsVal ds : Int) else (digitsVal ds : Int))

/-- `Number ::= ( Digit+ | Digit+ '.' Digit* | Digit* '.' Digit+ ) Exp?` denoting `mant · 10^exp` -/
inductive NumberD : List Char → Nat → Int → Prop
  /-- `Digit+ Exp?` -/
  | int {ip e : List Char} {ev : Int} : Digits1 ip → ExpD e ev → NumberD (ip ++ e) (digitsVal ip) ev
  /-- `Digit+ '.' Digit* Exp?` and `Digit* '.' Digit+ Exp?`: a digit on at least one side of the point -/
  | point {ip fp e : List Char} {ev : Int} : Digits ip → Digits fp → (ip ≠ [] ∨ fp ≠ []) → ExpD e ev →
      NumberD (ip ++ '.' :: fp ++ e) (digitsVal (ip ++ fp)) (ev - fp.length)

/-- one ASCII letter in either case: `c` is the lower-case letter `l` or the upper-case letter 32 code points below -/
def LetterCI (l c : Char) : Prop := c.toNat = l.toNat ∨ c.toNat + 32 = l.toNat

/-- a lower-case word `w` spelled in any mixture of letter cases -/
inductive WordCI : List Char → List Char → Prop
  | nil : WordCI [] []
  | cons {l c : Char} {w s : List Char} : LetterCI l c → WordCI w s → WordCI (l :: w) (c :: s)

/-- what a text denotes -/
inductive FVal where
  /-- the decimal number `(-1)^neg · mant · 10^exp` -/
  | dec (neg : Bool) (mant : Nat) (exp : Int)
  | inf (neg : Bool)
  | nan (neg : Bool)
  deriving DecidableEq, Repr

/-- `Float ::= Sign? ( 'inf' | 'infinity' | 'nan' | Number )` -/
inductive FloatD : List Char → FVal → Prop
  | number {sg body : List Char} {neg : Bool} {m : Nat} {e : Int} : SignD sg neg → NumberD body m e →
      FloatD (sg ++ body) (.dec neg m e)
  | inf {sg w : List Char} {neg : Bool} : SignD sg neg → WordCI ['i', 'n', 'f'] w → FloatD (sg ++ w) (.inf neg)
  | infinity {sg w : List Char} {neg : Bool} : SignD sg neg → WordCI ['i', 'n', 'f', 'i', 'n', 'i', 't', 'y'] w →
      FloatD (sg ++ w) (.inf neg)
  | nan {sg w : List Char} {neg : Bool} : SignD sg neg → WordCI ['n', 'a', 'n'] w → FloatD (sg ++ w) (.nan neg)

end Sqlgrep.FloatGrammar
