import SqlgrepModel.Lemmas.AggCell
/-
The update half of the aggregation engine over a whole input: after any sequence of rows the cell of aggregate
slot `i` in group `key` is the fold of that aggregate's `cellStep` over exactly the rows of that group (those that
passed WHERE and whose key equals `key`), in arrival order — the coupling relation `Coupled` between the engine
state (which does not remember rows) and the per-group row lists of the specification.
-/
set_option linter.unusedSimpArgs false
namespace Sqlgrep
open Value

/-! ### slots -/

/-- the (aggregate index, kind) pairs the HAVING walk updates, starting at index `j` -/
def visitSlots : List HavingRef → Nat → List (Nat × AggKind)
  | [], _ => []
  | .key _ :: rest, j => visitSlots rest j
  | .agg _ kind :: rest, j => (j, kind) :: visitSlots rest (j + 1)

/-- every (index, kind) `execute_update` touches for one row: the select list, then HAVING's own aggregates -/
def rowSlots (q : AggStmt) : List (Nat × AggKind) :=
  enumFrom 0 (q.items.map (·.kind)) ++
    (match q.having with
      | some _ => visitSlots q.havingVisit q.items.length
      | none => [])

theorem enumFrom_fst_ge {α : Type} (l : List α) (n : Nat) : ∀ p ∈ enumFrom n l, n ≤ p.1 ∧ p.1 < n + l.length := by
  induction l generalizing n with
  | nil => simp [enumFrom]
  | cons x xs ih =>
    intro p hp
    simp only [enumFrom, List.mem_cons] at hp
    rcases hp with hp | hp
    · subst hp; simp
    · have := ih (n + 1) p hp
      simp only [List.length_cons]; omega

theorem enumFrom_nodup {α : Type} (l : List α) (n : Nat) : ((enumFrom n l).map (·.1)).Nodup := by
  induction l generalizing n with
  | nil => simp [enumFrom]
  | cons x xs ih =>
    simp only [enumFrom, List.map_cons, List.nodup_cons]
    refine ⟨?_, ih (n + 1)⟩
    intro hmem
    obtain ⟨p, hp, hpe⟩ := List.mem_map.mp hmem
    have := (enumFrom_fst_ge xs (n + 1) p hp).1
    omega

theorem visitSlots_fst_ge (v : List HavingRef) (j : Nat) : ∀ p ∈ visitSlots v j, j ≤ p.1 := by
  induction v generalizing j with
  | nil => simp [visitSlots]
  | cons r rest ih =>
    intro p hp
    cases r with
    | key c => exact ih j p hp
    | agg id kind =>
      simp only [visitSlots, List.mem_cons] at hp
      rcases hp with hp | hp
      · subst hp; simp
      · have := ih (j + 1) p hp; omega

theorem visitSlots_nodup (v : List HavingRef) (j : Nat) : ((visitSlots v j).map (·.1)).Nodup := by
  induction v generalizing j with
  | nil => simp [visitSlots]
  | cons r rest ih =>
    cases r with
    | key c => exact ih j
    | agg id kind =>
      simp only [visitSlots, List.map_cons, List.nodup_cons]
      refine ⟨?_, ih (j + 1)⟩
      intro hmem
      obtain ⟨p, hp, hpe⟩ := List.mem_map.mp hmem
      have := visitSlots_fst_ge rest (j + 1) p hp
      omega

theorem rowSlots_nodup (q : AggStmt) : ((rowSlots q).map (·.1)).Nodup := by
  unfold rowSlots
  rw [List.map_append, List.nodup_append]
  refine ⟨enumFrom_nodup _ _, ?_, ?_⟩
  · cases q.having with
    | none => simp
    | some h => exact visitSlots_nodup _ _
  · intro a ha b hb
    obtain ⟨p, hp, hpe⟩ := List.mem_map.mp ha
    have h1 := (enumFrom_fst_ge _ 0 p hp).2
    simp only [List.length_map, Nat.zero_add] at h1
    cases hh : q.having with
    | none => simp [hh] at hb
    | some h =>
      simp only [hh] at hb
      obtain ⟨p', hp', hpe'⟩ := List.mem_map.mp hb
      have h2 := visitSlots_fst_ge _ _ p' hp'
      omega

/-! ### one row -/

theorem updateAggregates_cells {O : Oracles} {q : AggStmt} {env : Env} {key : List Value}
    (slots : List (Nat × AggKind)) (hnd : (slots.map (·.1)).Nodup) {st st' : AggState} (hs : AggSorted st)
    (h : updateAggregates O q env key slots st = .ok st') :
    AggSorted st' ∧
    (∀ i kind, (i, kind) ∈ slots → cellStep O q env kind (readCell st key i) = .ok (readCell st' key i)) ∧
    (∀ k' i', (cmpList key k' ≠ .eq ∨ i' ∉ slots.map (·.1)) → readCell st' k' i' = readCell st k' i') := by
  induction slots generalizing st with
  | nil =>
    simp only [updateAggregates, Outcome.ok.injEq] at h
    subst h
    exact ⟨hs, by simp, fun _ _ _ => rfl⟩
  | cons s rest ih =>
    obtain ⟨i, k⟩ := s
    simp only [updateAggregates] at h
    obtain ⟨st1, h1, h2⟩ := bind_ok h
    obtain ⟨hs1, c', hc', hread⟩ := updateAggregate_cells hs h1
    simp only [List.map_cons, List.nodup_cons] at hnd
    obtain ⟨hs', hin, hout⟩ := ih hnd.2 hs1 h2
    refine ⟨hs', ?_, ?_⟩
    · intro i2 kind hmem
      rcases List.mem_cons.mp hmem with hm | hm
      · simp only [Prod.mk.injEq] at hm
        obtain ⟨hi, hk⟩ := hm
        subst hi; subst hk
        rw [hout key i2 (Or.inr hnd.1), hread key i2]
        simp [cmpList_refl, hc']
      · have hne : i ≠ i2 := by
          intro he; subst he
          exact hnd.1 (List.mem_map.mpr ⟨(i, kind), hm, rfl⟩)
        have := hin i2 kind hm
        rw [hread key i2] at this
        simpa [hne] using this
    · intro k' i' hcond
      have hcond' : cmpList key k' ≠ .eq ∨ i' ∉ rest.map (·.1) := by
        rcases hcond with h | h
        · exact Or.inl h
        · exact Or.inr (fun hm => h (by simp [hm]))
      rw [hout k' i' hcond', hread k' i']
      have : ¬ (cmpList key k' = .eq ∧ i = i') := by
        rintro ⟨hk, hi⟩
        rcases hcond with h | h
        · exact h hk
        · exact h (by simp [hi])
      simp [this]

theorem updateAggregates_shape {O : Oracles} {q : AggStmt} {env : Env} {key : List Value}
    (slots : List (Nat × AggKind)) {st st' : AggState} {S : List (List Value)} (hsh : Shape st S) (hk : key ∈ S)
    (h : updateAggregates O q env key slots st = .ok st') : Shape st' S := by
  induction slots generalizing st with
  | nil => simp only [updateAggregates, Outcome.ok.injEq] at h; subst h; exact hsh
  | cons s rest ih =>
    obtain ⟨i, k⟩ := s
    simp only [updateAggregates] at h
    obtain ⟨st1, h1, h2⟩ := bind_ok h
    exact ih (updateAggregate_shape hsh hk h1) h2

theorem updateAggregates_append {O : Oracles} {q : AggStmt} {env : Env} {key : List Value}
    (a b : List (Nat × AggKind)) {s s1 s2 : AggState}
    (ha : updateAggregates O q env key a s = .ok s1) (hb : updateAggregates O q env key b s1 = .ok s2) :
    updateAggregates O q env key (a ++ b) s = .ok s2 := by
  induction a generalizing s with
  | nil => simp [updateAggregates] at ha; subst ha; simpa using hb
  | cons x xs ihx =>
    obtain ⟨i, k⟩ := x
    simp only [updateAggregates, List.cons_append] at ha ⊢
    obtain ⟨sm, hm1, hm2⟩ := bind_ok ha
    rw [hm1]
    exact ihx hm2

theorem havingUpdates_eq {O : Oracles} {q : AggStmt} {env : Env} {key : List Value} (visit : List HavingRef) (j : Nat)
    {st st' : AggState} (h : havingUpdates O q env key visit j st = .ok st') :
    updateAggregates O q env key (visitSlots visit (q.items.length + j)) st = .ok st' := by
  induction visit generalizing j st with
  | nil => simpa [havingUpdates, visitSlots, updateAggregates] using h
  | cons r rest ih =>
    cases r with
    | key c =>
      simp only [havingUpdates] at h
      obtain ⟨_, _, h2⟩ := bind_ok h
      exact ih j h2
    | agg id kind =>
      simp only [havingUpdates] at h
      obtain ⟨st1, h1, h2⟩ := bind_ok h
      simp only [visitSlots, updateAggregates]
      rw [h1]
      exact ih (j + 1) h2

/-- `execute_update` for one row: WHERE, then the key, then one pass of `update_aggregate` over `rowSlots q` -/
theorem aggUpdateRow_eq {O : Oracles} {q : AggStmt} {env : Env} {st st' : AggState} {u : Bool}
    (h : aggUpdateRow O q st env = .ok (st', u)) :
    Spec.Agg.passes O q env = some u ∧ (u = false → st' = st) ∧
    (u = true → ∃ key, Spec.Agg.keyOf O q env = some key ∧ updateAggregates O q env key (rowSlots q) st = .ok st') := by
  unfold aggUpdateRow at h
  obtain ⟨valid, hv, h⟩ := bind_ok h
  have hpass : Spec.Agg.passes O q env = some valid := by
    unfold Spec.Agg.passes
    cases hf : q.filter with
    | none => simp [hf, pure] at hv; simp [hv]
    | some f =>
      simp only [hf] at hv
      obtain ⟨v, hv1, hv2⟩ := bind_ok hv
      simp [hv1, Spec.Agg.okOf, hv2]
  cases valid with
  | false =>
    simp [pure] at h
    obtain ⟨h1, h2⟩ := h
    subst h1; subst h2
    exact ⟨hpass, fun _ => rfl, fun hh => by simp at hh⟩
  | true =>
    simp only [Bool.not_true, Bool.false_eq_true, if_false] at h
    obtain ⟨key, hkey, h⟩ := bind_ok h
    obtain ⟨st1, h1, h⟩ := bind_ok h
    obtain ⟨st2, h2, h⟩ := bind_ok h
    simp only [pure, Outcome.ok.injEq, Prod.mk.injEq] at h
    obtain ⟨he1, he2⟩ := h
    subst he1; subst he2
    have hkeyOf : Spec.Agg.keyOf O q env = some key := by
      unfold Spec.Agg.keyOf
      cases hg : q.groupBy with
      | none => simp [hg, pure] at hkey; simp [hkey]
      | some parts => simp only [hg] at hkey; simp [hkey, Spec.Agg.okOf]
    refine ⟨hpass, fun hh => by simp at hh, fun _ => ⟨key, hkeyOf, ?_⟩⟩
    unfold rowSlots
    apply updateAggregates_append _ _ h1
    cases hh : q.having with
    | none => simp [hh, pure] at h2; subst h2; simp [updateAggregates]
    | some hx =>
      simp only [hh] at h2
      have := havingUpdates_eq q.havingVisit 0 h2
      simpa using this

/-- what `execute_update` does for one row: nothing if WHERE rejects it; otherwise every slot of the row's own
group takes one `cellStep` with this row, and every other cell is untouched -/
theorem aggUpdateRow_cells {O : Oracles} {q : AggStmt} {env : Env} {st st' : AggState} {u : Bool} (hs : AggSorted st)
    (h : aggUpdateRow O q st env = .ok (st', u)) :
    AggSorted st' ∧ Spec.Agg.passes O q env = some u ∧ (u = false → st' = st) ∧
    (u = true → ∃ key, Spec.Agg.keyOf O q env = some key ∧
      (∀ i kind, (i, kind) ∈ rowSlots q → cellStep O q env kind (readCell st key i) = .ok (readCell st' key i)) ∧
      (∀ k' i', (cmpList key k' ≠ .eq ∨ i' ∉ (rowSlots q).map (·.1)) → readCell st' k' i' = readCell st k' i') ∧
      (∀ S, Shape st S → key ∈ S → Shape st' S)) := by
  obtain ⟨hpass, hfalse, htrue⟩ := aggUpdateRow_eq h
  cases u with
  | false =>
    rw [hfalse rfl]
    exact ⟨hs, hpass, fun _ => rfl, fun hh => by simp at hh⟩
  | true =>
    obtain ⟨key, hkeyOf, hall⟩ := htrue rfl
    obtain ⟨hs2, hin, hout⟩ := updateAggregates_cells (rowSlots q) (rowSlots_nodup q) hs hall
    exact ⟨hs2, hpass, fun hh => by simp at hh, fun _ => ⟨key, hkeyOf, hin, hout,
      fun S hsh hk => updateAggregates_shape (rowSlots q) hsh hk hall⟩⟩

/-! ### the whole input -/

/-- `execute_update` row after row (the batch loop of an aggregate statement, seen from the engine) -/
def aggRun (O : Oracles) (q : AggStmt) : List Env → AggState → Outcome AggState
  | [], st => .ok st
  | env :: rest, st => (aggUpdateRow O q st env).bind (fun p => aggRun O q rest p.1)

/-- the cell an aggregate reaches by folding its `cellStep` over a list of rows -/
def cellFold (O : Oracles) (q : AggStmt) (kind : AggKind) : List Env → Cell → Outcome Cell
  | [], c => .ok c
  | env :: rest, c => (cellStep O q env kind c).bind (cellFold O q kind rest)

theorem cellFold_append (O : Oracles) (q : AggStmt) (kind : AggKind) (g1 g2 : List Env) (c : Cell) :
    cellFold O q kind (g1 ++ g2) c = (cellFold O q kind g1 c).bind (cellFold O q kind g2) := by
  induction g1 generalizing c with
  | nil => rfl
  | cons e es ih =>
    simp only [List.cons_append, cellFold]
    cases cellStep O q e kind c <;> simp [Outcome.bind, ih]

/-- the coupling relation between the engine state and the per-group row lists: every slot's cell in every
group is the fold of its aggregate over that group's rows (and nothing else is stored) -/
structure Coupled (O : Oracles) (q : AggStmt) (st : AggState) (rows : List (List Value × Env)) : Prop where
  sorted : AggSorted st
  cells : ∀ key i kind, (i, kind) ∈ rowSlots q →
    cellFold O q kind (Spec.Agg.rowsOfKey key rows) {} = .ok (readCell st key i)
  others : ∀ key i, i ∉ (rowSlots q).map (·.1) → readCell st key i = {}
  shape : Shape st (rows.map (·.1))

theorem coupled_init (O : Oracles) (q : AggStmt) : Coupled O q {} [] :=
  ⟨aggSorted_init, fun _ _ _ _ => rfl, fun _ _ _ => rfl, shape_init _⟩

theorem rowsOfKey_append (key : List Value) (rows more : List (List Value × Env)) :
    Spec.Agg.rowsOfKey key (rows ++ more) = Spec.Agg.rowsOfKey key rows ++ Spec.Agg.rowsOfKey key more := by
  simp [Spec.Agg.rowsOfKey, List.filter_append]

/-- one admitted row keeps the coupling, with the row appended to its group -/
theorem coupled_step {O : Oracles} {q : AggStmt} {st st' : AggState} {rows : List (List Value × Env)} {env : Env} {u : Bool}
    (hc : Coupled O q st rows) (h : aggUpdateRow O q st env = .ok (st', u)) :
    Spec.Agg.passes O q env = some u ∧
    (u = false → Coupled O q st' rows) ∧
    (u = true → ∃ key, Spec.Agg.keyOf O q env = some key ∧ Coupled O q st' (rows ++ [(key, env)])) := by
  obtain ⟨hs', hpass, hfalse, htrue⟩ := aggUpdateRow_cells hc.sorted h
  refine ⟨hpass, ?_, ?_⟩
  · intro hu; rw [hfalse hu]; exact hc
  · intro hu
    obtain ⟨key, hkey, hin, hout, hshape⟩ := htrue hu
    refine ⟨key, hkey, hs', ?_, ?_, ?_⟩
    · intro k' i kind hmem
      rw [rowsOfKey_append, cellFold_append, hc.cells k' i kind hmem]
      simp only [Outcome.bind]
      by_cases hk : cmpList key k' = .eq
      · have : Spec.Agg.rowsOfKey k' [(key, env)] = [env] := by
          simp [Spec.Agg.rowsOfKey, Spec.Agg.sameKey, hk]
        rw [this]
        simp only [cellFold]
        rw [← readCell_congr st hk i, ← readCell_congr st' hk i, hin i kind hmem]
        rfl
      · have : Spec.Agg.rowsOfKey k' [(key, env)] = [] := by
          simp [Spec.Agg.rowsOfKey, Spec.Agg.sameKey, hk]
        rw [this, hout k' i (Or.inl hk)]
        rfl
    · intro k' i hi
      rw [hout k' i (Or.inr hi)]
      exact hc.others k' i hi
    · apply hshape
      · exact shape_mono hc.shape (fun k hk => by simp [hk])
      · simp

/-- **the update half of the refinement**: whatever rows were fed, the state is coupled to the rows that passed
WHERE, each with its key, in arrival order -/
theorem aggRun_coupled {O : Oracles} {q : AggStmt} (envs : List Env) {st st' : AggState} {rows : List (List Value × Env)}
    (hc : Coupled O q st rows) (h : aggRun O q envs st = .ok st') :
    ∃ more, Spec.Agg.keyedRows O q envs = some more ∧ Coupled O q st' (rows ++ more) := by
  induction envs generalizing st rows with
  | nil =>
    simp only [aggRun, Outcome.ok.injEq] at h
    subst h
    exact ⟨[], rfl, by simpa using hc⟩
  | cons env rest ih =>
    simp only [aggRun] at h
    obtain ⟨⟨st1, u⟩, h1, h2⟩ := obind_ok h
    obtain ⟨hpass, hfalse, htrue⟩ := coupled_step hc h1
    cases u with
    | false =>
      obtain ⟨more, hm, hcm⟩ := ih (hfalse rfl) h2
      exact ⟨more, by simp [Spec.Agg.keyedRows, hpass, hm], hcm⟩
    | true =>
      obtain ⟨key, hkey, hc1⟩ := htrue rfl
      obtain ⟨more, hm, hcm⟩ := ih hc1 h2
      refine ⟨(key, env) :: more, by simp [Spec.Agg.keyedRows, hpass, hkey, hm], ?_⟩
      simpa using hcm

end Sqlgrep
