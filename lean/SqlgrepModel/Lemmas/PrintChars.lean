import SqlgrepModel.Lemmas.PrintRecord
/- Which bytes can occur in a rendered cell: the bytes `Display` writes itself, the TEXT payloads, and
the oracle's REAL rendering. Used to express the CSV / text guard in terms of the TEXT values. -/
namespace Sqlgrep.Print

/-- bytes `impl Display for Value` writes by itself: digits, `- + : . space { } , '` and the letters of
`NULL`, `true`, `false` -/
def Structural (c : Nat) : Prop :=
  (48 ≤ c ∧ c ≤ 57) ∨ c ∈ [45, 43, 58, 46, 32, 123, 125, 44, 39, 78, 85, 76, 116, 114, 117, 101, 102, 97, 108, 115]

instance : DecidablePred Structural := fun c => by unfold Structural; infer_instance

/-- bytes of the numeric / temporal renderings: digits and `- + : . space` -/
def Plain (c : Nat) : Prop := (48 ≤ c ∧ c ≤ 57) ∨ c ∈ [45, 43, 58, 46, 32]

instance : DecidablePred Plain := fun c => by unfold Plain; infer_instance

theorem Plain.structural {c : Nat} (h : Plain c) : Structural c := by
  unfold Plain at h; unfold Structural
  simp only [List.mem_cons, List.not_mem_nil, or_false] at h ⊢
  omega

mutual
/-- all TEXT payloads of a value (the cell itself or array elements at any depth) -/
def allTexts : Value → List Bytes
  | .text s => [s]
  | .array _ xs => allTextsList xs
  | _ => []
def allTextsList : List Value → List Bytes
  | [] => []
  | x :: xs => allTexts x ++ allTextsList xs
end

theorem mem_natDigits {c n : Nat} (h : c ∈ natDigits n) : Plain c :=
  Or.inl (natDigits_digits n c h)

theorem mem_renderInt {c : Nat} {i : Int} (h : c ∈ renderInt i) : Plain c := by
  unfold renderInt at h
  split at h
  · simp only [List.mem_cons] at h
    cases h with
    | inl h => subst h; exact Or.inr (by simp)
    | inr h => exact mem_natDigits h
  · exact mem_natDigits h

theorem mem_padLeft {c w : Nat} {s : Bytes} (h : c ∈ padLeft 48 w s) : c = 48 ∨ c ∈ s := by
  simp only [padLeft, List.mem_append, List.mem_replicate] at h
  cases h with
  | inl h => exact Or.inl h.2
  | inr h => exact Or.inr h

theorem plain_48 : Plain 48 := Or.inl (by omega)

theorem mem_padInt {c w : Nat} {i : Int} (h : c ∈ padLeft 48 w (renderInt i)) : Plain c := by
  cases mem_padLeft h with
  | inl h => subst h; exact plain_48
  | inr h => exact mem_renderInt h

theorem mem_padNat {c w n : Nat} (h : c ∈ padLeft 48 w (natDigits n)) : Plain c := by
  cases mem_padLeft h with
  | inl h => subst h; exact plain_48
  | inr h => exact mem_natDigits h

theorem mem_renderIntervalAbs {c : Nat} {n : Int} (h : c ∈ renderIntervalAbs n) : Plain c := by
  simp only [renderIntervalAbs, List.mem_append, List.mem_singleton] at h
  rcases h with ((((((h | h) | h) | h) | h) | h) | h)
  · exact mem_padInt h
  · subst h; exact Or.inr (by simp)
  · exact mem_padInt h
  · subst h; exact Or.inr (by simp)
  · exact mem_padInt h
  · subst h; exact Or.inr (by simp)
  · exact mem_padInt h

theorem mem_renderInterval {c : Nat} {n : Int} (h : c ∈ renderInterval n) : Plain c := by
  unfold renderInterval at h
  split at h
  · rcases List.mem_cons.1 h with h | h
    · subst h; exact Or.inr (by simp)
    · exact mem_renderIntervalAbs h
  · exact mem_renderIntervalAbs h

theorem mem_renderYear {c : Nat} {y : Int} (h : c ∈ renderYear y) : Plain c := by
  unfold renderYear at h
  split at h
  · exact mem_padNat h
  · split at h
    · simp only [List.mem_cons] at h
      cases h with
      | inl h => subst h; exact Or.inr (by simp)
      | inr h => exact mem_padNat h
    · simp only [List.mem_cons] at h
      cases h with
      | inl h => subst h; exact Or.inr (by simp)
      | inr h => exact mem_padNat h

theorem mem_twoDigits {c : Nat} {n : Int} (h : c ∈ twoDigits n) : Plain c := mem_padNat h

theorem mem_renderTimestamp {c : Nat} {d s f : Int} (h : c ∈ renderTimestamp d s f) : Plain c := by
  unfold renderTimestamp at h
  generalize civil d = p at h
  obtain ⟨y, m, dd⟩ := p
  simp only [List.mem_append, List.mem_singleton] at h
  rcases h with ((((((((((((h | h) | h) | h) | h) | h) | h) | h) | h) | h) | h) | h) | h)
  · exact mem_renderYear h
  · subst h; exact Or.inr (by simp)
  · exact mem_twoDigits h
  · subst h; exact Or.inr (by simp)
  · exact mem_twoDigits h
  · subst h; exact Or.inr (by simp)
  · exact mem_twoDigits h
  · subst h; exact Or.inr (by simp)
  · exact mem_twoDigits h
  · subst h; exact Or.inr (by simp)
  · exact mem_twoDigits h
  · subst h; exact Or.inr (by simp)
  · exact mem_padNat h

theorem mem_joinWith {c : Nat} {sep : Bytes} {xs : List Bytes} (h : c ∈ joinWith sep xs) :
    c ∈ sep ∨ ∃ x ∈ xs, c ∈ x := by
  induction xs with
  | nil => simp [joinWith] at h
  | cons x rest ih =>
    cases rest with
    | nil => exact Or.inr ⟨x, by simp, by simpa [joinWith] using h⟩
    | cons y ys =>
      simp only [joinWith, List.mem_append] at h
      rcases h with ((h | h) | h)
      · exact Or.inr ⟨x, by simp, h⟩
      · exact Or.inl h
      · cases ih h with
        | inl h => exact Or.inl h
        | inr h => obtain ⟨z, hz, hc⟩ := h; exact Or.inr ⟨z, by simp [hz], hc⟩

/-- where a byte of a rendered value can come from -/
def Source (o : RealOracle) (texts : List Bytes) (c : Nat) : Prop :=
  Structural c ∨ (∃ s ∈ texts, c ∈ s) ∨ (∃ b, c ∈ o.fixed2 b)

theorem Source.mono {o : RealOracle} {t1 t2 : List Bytes} {c : Nat} (h : Source o t1 c)
    (hs : ∀ s ∈ t1, s ∈ t2) : Source o t2 c := by
  rcases h with (h | ⟨s, hs1, hc⟩ | h)
  · exact Or.inl h
  · exact Or.inr (Or.inl ⟨s, hs s hs1, hc⟩)
  · exact Or.inr (Or.inr h)

mutual
theorem mem_displayValue (o : RealOracle) : ∀ (v : Value) (c : Nat), c ∈ displayValue o v →
    Source o (allTexts v) c
  | .null, c, h => Or.inl (Or.inr (by simp only [displayValue, sNULL] at h; simp at h ⊢; omega))
  | .int i, c, h => Or.inl (mem_renderInt h).structural
  | .real b, c, h => Or.inr (Or.inr ⟨b, h⟩)
  | .bool b, c, h => Or.inl (Or.inr (by
      cases b <;> simp only [displayValue, renderBool, sTrue, sFalse] at h <;> simp at h ⊢ <;> omega))
  | .text s, c, h => by
    simp only [displayValue, List.mem_cons, List.mem_append, List.not_mem_nil, or_false] at h
    rcases h with (h | h | h)
    · subst h; exact Or.inl (Or.inr (by simp))
    · exact Or.inr (Or.inl ⟨s, by simp [allTexts], h⟩)
    · subst h; exact Or.inl (Or.inr (by simp))
  | .array _ xs, c, h => by
    simp only [displayValue, List.mem_cons, List.mem_append, List.not_mem_nil, or_false] at h
    rcases h with (h | h | h)
    · subst h; exact Or.inl (Or.inr (by simp))
    · cases mem_joinWith h with
      | inl h =>
        simp only [List.mem_cons, List.not_mem_nil, or_false] at h
        rcases h with (h | h) <;> subst h <;> exact Or.inl (Or.inr (by simp))
      | inr h =>
        obtain ⟨x, hx, hc⟩ := h
        simp only [allTexts]
        exact mem_displayAll o xs x hx c hc
    · subst h; exact Or.inl (Or.inr (by simp))
  | .timestamp _ _ _, c, h => Or.inl (mem_renderTimestamp h).structural
  | .interval _, c, h => Or.inl (mem_renderInterval h).structural
theorem mem_displayAll (o : RealOracle) : ∀ (xs : List Value) (x : Bytes), x ∈ displayAll o xs →
    ∀ c, c ∈ x → Source o (allTextsList xs) c
  | [], x, h, _, _ => by simp [displayAll] at h
  | v :: vs, x, h, c, hc => by
    simp only [displayAll, List.mem_cons] at h
    simp only [allTextsList]
    cases h with
    | inl h =>
      subst h
      exact (mem_displayValue o v c hc).mono (fun s hs => by simp [hs])
    | inr h =>
      exact (mem_displayAll o vs x h c hc).mono (fun s hs => by simp [hs])
end

/-- a byte that `Display` never writes by itself, that is in no TEXT payload of the value and in no
REAL rendering does not occur in the rendered value -/
theorem not_mem_displayValue (o : RealOracle) (d : Nat) (v : Value) (hd : ¬ Structural d)
    (ht : ∀ s ∈ allTexts v, d ∉ s) (ho : ∀ b, d ∉ o.fixed2 b) : d ∉ displayValue o v := by
  intro h
  rcases mem_displayValue o v d h with (h | ⟨s, hs, hc⟩ | ⟨b, hb⟩)
  · exact hd h
  · exact ht s hs hc
  · exact ho b hb

/-! ### text format -/

def spaced : List Bytes → List Bytes
  | [] => []
  | x :: rest => x :: rest.map (32 :: ·)

theorem joinWith_comma_space (xs : List Bytes) : joinWith [44, 32] xs = joinWith [44] (spaced xs) := by
  cases xs with
  | nil => rfl
  | cons x rest =>
    induction rest generalizing x with
    | nil => rfl
    | cons y ys ih =>
      have := ih y
      simp only [spaced, List.map_cons] at this ⊢
      cases ys with
      | nil => simp [joinWith]
      | cons z zs =>
        simp only [joinWith, List.map_cons, List.append_assoc, List.cons_append, List.nil_append] at this ⊢
        rw [this]

theorem zip_map_pairs (o : RealOracle) (cols : List Bytes) (row : List Value) :
    ∀ p ∈ (cols.zip row).map (fun nv => nv.1 ++ ([58, 32] ++ displayValue o nv.2)),
      ∃ n ∈ cols, ∃ v ∈ row, p = n ++ ([58, 32] ++ displayValue o v) := by
  intro p hp
  simp only [List.mem_map] at hp
  obtain ⟨nv, hnv, rfl⟩ := hp
  exact ⟨nv.1, (List.of_mem_zip hnv).1, nv.2, (List.of_mem_zip hnv).2, rfl⟩

/-- text format, names and rendered cells free of `,`: splitting the record at `,` gives the
`name: value` pairs in column order (every pair after the first preceded by one space) -/
theorem splitOn_text_record (o : RealOracle) (cols : List Bytes) (row : List Value)
    (hlone : loneInput .text cols row = false) (hne : cols ≠ []) (hl : cols.length ≤ row.length)
    (hnames : ∀ n ∈ cols, 44 ∉ n) (hfree : ∀ v ∈ row, 44 ∉ displayValue o v) :
    splitOn 44 (renderRecord o .text cols row)
      = spaced ((cols.zip row).map fun nv => nv.1 ++ ([58, 32] ++ displayValue o nv.2)) := by
  simp only [renderRecord, hlone, Bool.false_eq_true, if_false]
  rw [joinWith_comma_space]
  apply splitOn_joinWith
  · cases cols with
    | nil => exact absurd rfl hne
    | cons c cs =>
      cases row with
      | nil => simp at hl
      | cons v vs => simp [spaced]
  · have hp := zip_map_pairs o cols row
    generalize (cols.zip row).map (fun nv => nv.1 ++ ([58, 32] ++ displayValue o nv.2)) = ps at hp
    have hfreep : ∀ p ∈ ps, 44 ∉ p := by
      intro p hpm
      obtain ⟨n, hn, v, hv, rfl⟩ := hp p hpm
      simp only [List.mem_append, List.mem_cons, List.not_mem_nil, or_false, not_or]
      exact ⟨hnames n hn, ⟨by decide, by decide⟩, hfree v hv⟩
    intro c hc
    cases ps with
    | nil => simp [spaced] at hc
    | cons x rest =>
      simp only [spaced, List.mem_cons, List.mem_map] at hc
      rcases hc with (rfl | ⟨y, hy, rfl⟩)
      · exact hfreep _ (by simp)
      · simp only [List.mem_cons, not_or]
        exact ⟨by decide, hfreep y (by simp [hy])⟩

end Sqlgrep.Print
