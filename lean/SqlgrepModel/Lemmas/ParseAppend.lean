import SqlgrepModel.Model.ParseStmt
import Lean
/-
Appending tokens to the input does not change a successful run: for the six functions of the expression parser, the
loops of `parse_select` built on them and the small consuming functions, `F s = ok v s'` implies
`F (s with y appended) = ok v (s' with y appended)` (`Sim`). Errors are not preserved (the end of the token vector is
an error of its own).
-/
namespace Sqlgrep
namespace Parse

/-- the state with the tokens `y` appended behind the last token -/
def appSt (y : List PTok) (s : PSt) : PSt := ⟨s.cur, s.rest ++ y⟩

theorem appSt_cur (y : List PTok) (s : PSt) : (appSt y s).cur = s.cur := rfl

/-- a successful run stays the same run when tokens are appended to the input -/
def Sim {α : Type} (y : List PTok) (a b : PRes α) : Prop := ∀ v s', a = .ok v s' → b = .ok v (appSt y s')

theorem Sim.ok {α} (y : List PTok) (v : α) (s : PSt) : Sim y (.ok v s) (.ok v (appSt y s)) := by
  intro v' s' h; cases h; rfl
theorem Sim.err {α} (y : List PTok) (e : PErr) (s : PSt) (b : PRes α) : Sim y (.err e s) b := by
  intro v' s' h; cases h
theorem Sim.fuel {α} (y : List PTok) (b : PRes α) : Sim y .fuel b := by
  intro v' s' h; cases h
theorem Sim.mkErr {α} (y : List PTok) (s : PSt) (k : PErrKind) (b : PRes α) : Sim y (Parse.mkErr s k) b :=
  Sim.err y _ _ b

theorem next_app (y : List PTok) (s : PSt) : Sim y (next s) (next (appSt y s)) := by
  intro v s' h
  unfold next at h ⊢
  cases hr : s.rest with
  | nil => rw [hr] at h; cases h
  | cons t r =>
    rw [hr] at h
    cases h
    simp [appSt, hr]

theorem tokenPrecedence_app (T : PrecTables) (y : List PTok) (s : PSt) :
    Sim y (tokenPrecedence T s) (tokenPrecedence T (appSt y s)) := by
  intro v s' h
  unfold tokenPrecedence at h ⊢
  simp only [appSt_cur]
  split at h
  · rename_i o ho
    split at h
    · cases h; rfl
    · cases h
  · rename_i hno
    cases h
    rfl

theorem expectConsume_app (y : List PTok) (t : Tok) (k : PErrKind) (s : PSt) :
    Sim y (expectConsume t k s) (expectConsume t k (appSt y s)) := by
  unfold expectConsume
  simp only [appSt_cur]
  by_cases hc : s.cur.tok = t
  · simp only [hc, if_true]; exact next_app y s
  · simp only [hc, if_false]; exact Sim.mkErr y _ _ _

theorem bind_app {α β} (y : List PTok) {x x' : PRes α} (h : Sim y x x') (b : β) :
    Sim y (x.bind fun _ s => .ok b s) (x'.bind fun _ s => .ok b s) := by
  intro v s' hv
  cases x with
  | ok a s1 =>
    rw [h a s1 rfl]
    simp only [PRes.bind, PRes.ok.injEq] at hv ⊢
    obtain ⟨rfl, rfl⟩ := hv; exact ⟨rfl, rfl⟩
  | err e s1 => cases hv
  | fuel => cases hv

theorem consumeIdentifier_app (y : List PTok) (s : PSt) : Sim y (consumeIdentifier s) (consumeIdentifier (appSt y s)) := by
  unfold consumeIdentifier
  simp only [appSt_cur]
  split
  · exact bind_app y (next_app y s) _
  · exact Sim.mkErr y _ _ _

theorem consumeString_app (y : List PTok) (s : PSt) : Sim y (consumeString s) (consumeString (appSt y s)) := by
  unfold consumeString
  simp only [appSt_cur]
  split
  · exact bind_app y (next_app y s) _
  · exact Sim.mkErr y _ _ _

theorem consumeInt_app (y : List PTok) (s : PSt) : Sim y (consumeInt s) (consumeInt (appSt y s)) := by
  unfold consumeInt
  simp only [appSt_cur]
  split
  · exact bind_app y (next_app y s) _
  · exact Sim.mkErr y _ _ _


open Lean Elab Tactic Meta in
/-- goal `Sim y (match d with …) _`: case split on the scrutinee `d`; for a result `d` whose appended counterpart is
given by a hypothesis `∀ …, Sim y d _`, rewrite the other side in the successful case -/
elab "sim_cases" : tactic => withMainContext do
  let g ← getMainGoal
  let t := (← instantiateMVars (← g.getType)).consumeMData
  let args := t.getAppArgs
  unless t.isAppOf ``Sim && args.size == 4 do throwError "not a Sim goal"
  let lhs := args[2]!
  if lhs.isAppOf ``ite then
    let c ← Term.exprToSyntax lhs.getAppArgs[1]!
    evalTactic (← `(tactic| by_cases hc : $c <;> simp only [hc, if_true, if_false, and_self]))
    return
  unless lhs.getAppFn.isConst do throwError "left side is not a match"
  let some info ← getMatcherInfo? lhs.getAppFn.constName! | throwError "left side is not a match"
  let discr := lhs.getAppArgs[info.getFirstDiscrPos]!
  if discr.isAppOf ``ite then
    let c ← Term.exprToSyntax discr.getAppArgs[1]!
    evalTactic (← `(tactic| by_cases hc : $c <;> simp only [hc, if_true, if_false, and_self]))
    return
  let dty ← whnfR (← inferType discr)
  if dty.isAppOf ``Except then
    let d ← Term.exprToSyntax discr
    evalTactic (← `(tactic| (cases hd : $d <;> simp only [hd])))
    return
  unless dty.isAppOf ``PRes do throwError "scrutinee is not a result"
  if discr.getAppFn.isConstOf ``PRes.ok || discr.getAppFn.isConstOf ``PRes.err || discr.getAppFn.isConstOf ``PRes.fuel then
    throwError "scrutinee is a constructor"
  for ldecl in ← getLCtx do
    if ldecl.isImplementationDetail then continue
    let ty ← instantiateMVars ldecl.type
    let (mvars, _, concl) ← forallMetaTelescope ty
    if concl.isAppOf ``Sim && concl.getAppArgs.size == 4 then
      if ← withReducible (isDefEq concl.getAppArgs[2]! discr) then
        let pf ← instantiateMVars (mkAppN ldecl.toExpr mvars)
        let pfs ← Term.exprToSyntax pf
        let d ← Term.exprToSyntax discr
        evalTactic (← `(tactic| (have hsub := $pfs; cases hd : $d <;> first | (have h1 := hsub _ _ hd; simp only [h1]; clear hsub h1) | (clear hsub; try simp only []))))
        return
  throwError "no hypothesis for the scrutinee"

set_option hygiene false in
macro "sim_auto" : tactic => `(tactic| repeat' (first
   | with_reducible exact Sim.ok _ _ _
   | with_reducible exact Sim.err _ _ _ _
   | with_reducible exact Sim.fuel _ _
   | with_reducible exact Sim.mkErr _ _ _ _
   | with_reducible exact ihE _ | with_reducible exact ihR _ _ _ | with_reducible exact ihU _
   | with_reducible exact ihP _ | with_reducible exact ihC _ _ _ | with_reducible exact ihL _ _ _
   | dsimp +instances only [appSt_cur]
   | simp only [PRes.bind]
   | sim_cases
   | split))

/-- the induction hypotheses at one fuel value -/
structure AppIH (T : PrecTables) (y : List PTok) (n : Nat) : Prop where
  e : ∀ s, Sim y (parseExpr T n s) (parseExpr T n (appSt y s))
  r : ∀ p l s, Sim y (parseRhs T n p l s) (parseRhs T n p l (appSt y s))
  u : ∀ s, Sim y (parseUnary T n s) (parseUnary T n (appSt y s))
  p : ∀ s, Sim y (parsePrimary T n s) (parsePrimary T n (appSt y s))
  c : ∀ loc cl s, Sim y (parseCase T n loc cl s) (parseCase T n loc cl (appSt y s))
  l : ∀ c acc s, Sim y (parseList T n c acc s) (parseList T n c acc (appSt y s))

set_option hygiene false in
macro "app_setup" : tactic => `(tactic| (
  have ihE := ih.e; have ihR := ih.r; have ihU := ih.u; have ihP := ih.p; have ihC := ih.c; have ihL := ih.l
  have hN := next_app y; have hTP := tokenPrecedence_app T y; have hEC := expectConsume_app y
  have hCI := consumeIdentifier_app y))

variable {T : PrecTables} {y : List PTok} {n : Nat} (ih : AppIH T y n)
include ih

theorem app_step_expr (s : PSt) : Sim y (parseExpr T (n + 1) s) (parseExpr T (n + 1) (appSt y s)) := by
  app_setup
  rw [parseExpr, parseExpr]; sim_auto

theorem app_step_list (c : Tok) (acc : List PExpr) (s : PSt) :
    Sim y (parseList T (n + 1) c acc s) (parseList T (n + 1) c acc (appSt y s)) := by
  app_setup
  rw [parseList, parseList]; dsimp only; sim_auto


theorem app_step_rhs (p : Int) (l : PExpr) (s : PSt) :
    Sim y (parseRhs T (n + 1) p l s) (parseRhs T (n + 1) p l (appSt y s)) := by
  app_setup
  rw [parseRhs, parseRhs]; dsimp only; sim_auto

theorem app_step_unary (s : PSt) : Sim y (parseUnary T (n + 1) s) (parseUnary T (n + 1) (appSt y s)) := by
  app_setup
  rw [parseUnary, parseUnary]; dsimp only; sim_auto

theorem app_step_primary (s : PSt) : Sim y (parsePrimary T (n + 1) s) (parsePrimary T (n + 1) (appSt y s)) := by
  app_setup
  rw [parsePrimary, parsePrimary]; dsimp only; sim_auto

theorem app_step_case (loc : Loc) (cl : List (PExpr × PExpr)) (s : PSt) :
    Sim y (parseCase T (n + 1) loc cl s) (parseCase T (n + 1) loc cl (appSt y s)) := by
  app_setup
  rw [parseCase, parseCase]; dsimp only; sim_auto


omit ih in
theorem appIH_all (T : PrecTables) (y : List PTok) : ∀ n, AppIH T y n := by
  intro n
  induction n with
  | zero =>
    refine ⟨?_, ?_, ?_, ?_, ?_, ?_⟩ <;> intros
    · rw [parseExpr]; exact Sim.fuel _ _
    · rw [parseRhs]; exact Sim.fuel _ _
    · rw [parseUnary]; exact Sim.fuel _ _
    · rw [parsePrimary]; exact Sim.fuel _ _
    · rw [parseCase]; exact Sim.fuel _ _
    · rw [parseList]; exact Sim.fuel _ _
  | succ n ih =>
    exact ⟨app_step_expr ih, app_step_rhs ih, app_step_unary ih, app_step_primary ih, app_step_case ih, app_step_list ih⟩

omit ih in
/-- **appending tokens to the input does not change a successful run of the expression parser** -/
theorem parseExpr_app (T : PrecTables) (y : List PTok) (n : Nat) (s : PSt) :
    Sim y (parseExpr T n s) (parseExpr T n (appSt y s)) := (appIH_all T y n).e s

omit ih in
theorem groupKeysLoop_app (T : PrecTables) (y : List PTok) : ∀ (n : Nat) (acc : List PExpr) (s : PSt),
    Sim y (groupKeysLoop T n acc s) (groupKeysLoop T n acc (appSt y s)) := by
  intro n
  induction n with
  | zero => intro acc s; rw [groupKeysLoop]; exact Sim.fuel _ _
  | succ n ihLoop =>
    intro acc s
    have ihE := parseExpr_app T y n; have hN := next_app y
    have ihR := fun (_ _ : Nat) => hN; have ihU := ihE; have ihP := ihE
    have ihC := fun (_ _ : Nat) => hN; have ihL := fun (_ _ : Nat) => hN
    rw [groupKeysLoop, groupKeysLoop]; sim_auto
    all_goals exact ihLoop _ _

omit ih in
theorem optDistinct_app (y : List PTok) (s : PSt) : Sim y (optDistinct s) (optDistinct (appSt y s)) := by
  have hN := next_app y
  unfold optDistinct
  have ihE := hN; have ihR := fun (_ _ : Nat) => hN; have ihU := hN; have ihP := hN
  have ihC := fun (_ _ : Nat) => hN; have ihL := fun (_ _ : Nat) => hN
  sim_auto

omit ih in
theorem optAlias_app (y : List PTok) (s : PSt) : Sim y (optAlias s) (optAlias (appSt y s)) := by
  have hN := next_app y; have hCI := consumeIdentifier_app y
  unfold optAlias
  have ihE := hN; have ihR := fun (_ _ : Nat) => hN; have ihU := hN; have ihP := hN
  have ihC := fun (_ _ : Nat) => hN; have ihL := fun (_ _ : Nat) => hN
  sim_auto

omit ih in
theorem optFile_app (y : List PTok) (s : PSt) : Sim y (optFile s) (optFile (appSt y s)) := by
  have hN := next_app y; have hCS := consumeString_app y
  unfold optFile
  have ihE := hN; have ihR := fun (_ _ : Nat) => hN; have ihU := hN; have ihP := hN
  have ihC := fun (_ _ : Nat) => hN; have ihL := fun (_ _ : Nat) => hN
  sim_auto

omit ih in
theorem projLoop_app (T : PrecTables) (y : List PTok) : ∀ (n : Nat) (acc : List (Option (List Char) × PExpr)) (s : PSt),
    Sim y (projLoop T n acc s) (projLoop T n acc (appSt y s)) := by
  intro n
  induction n with
  | zero => intro acc s; rw [projLoop]; exact Sim.fuel _ _
  | succ n ihLoop =>
    intro acc s
    have ihE := parseExpr_app T y n; have hN := next_app y; have hOA := optAlias_app y
    have ihR := fun (_ _ : Nat) => hN; have ihU := ihE; have ihP := ihE
    have ihC := fun (_ _ : Nat) => hN; have ihL := fun (_ _ : Nat) => hN
    rw [projLoop, projLoop]; sim_auto
    all_goals exact ihLoop _ _

end Parse
end Sqlgrep
