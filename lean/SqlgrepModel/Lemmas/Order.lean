/- Helper lemmas: lawfulness of comparison results, closed under lexicographic composition. -/
namespace Sqlgrep

/-- The three results `o = c a b`, `p = c b d`, `q = c a d` of a comparison on a triple behave
like a total preorder: `<` is transitive and `=` is a congruence on both sides. -/
def T (o p q : Ordering) : Prop :=
  (o = .lt → p = .lt → q = .lt) ∧ (o = .eq → q = p) ∧ (p = .eq → q = o)

theorem T_then {o1 o2 p1 p2 q1 q2 : Ordering}
    (h1 : T o1 p1 q1) (h2 : o1 = .eq → p1 = .eq → T o2 p2 q2) :
    T (o1.then o2) (p1.then p2) (q1.then q2) := by
  unfold T at *
  cases o1 <;> cases p1 <;> cases o2 <;> cases p2 <;> simp_all [Ordering.then]

theorem T_int (a b c : Int) : T (compare a b) (compare b c) (compare a c) := by
  unfold T
  refine ⟨?_, ?_, ?_⟩
  · intro h1 h2
    rw [Int.compare_eq_lt] at *; omega
  · intro h1
    rw [Int.compare_eq_eq] at h1; subst h1; rfl
  · intro h1
    rw [Int.compare_eq_eq] at h1; subst h1; rfl

theorem T_nat (a b c : Nat) : T (compare a b) (compare b c) (compare a c) := by
  unfold T
  refine ⟨?_, ?_, ?_⟩
  · intro h1 h2
    rw [Nat.compare_eq_lt] at *; omega
  · intro h1
    rw [Nat.compare_eq_eq] at h1; subst h1; rfl
  · intro h1
    rw [Nat.compare_eq_eq] at h1; subst h1; rfl

theorem T_of_eq_eq {q : Ordering} (h : q = .eq) : T .eq .eq q := by
  subst h; unfold T; simp

end Sqlgrep
