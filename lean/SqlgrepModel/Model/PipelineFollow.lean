import SqlgrepModel.Model.Pipeline
/-
The END-TO-END model of FOLLOW MODE: `sqlgrep -d <definitions> -c <query> --format <fmt> --follow [--head] <file>`.

  definitions text ─ tokenize ─ parseTokens ─ lowerStatement ─ addTables ─┐
  query text       ─ tokenize ─ parseTokens ─ lowerStatement ─────────────┤
  the growing file ─ Reader.Follow (appends × polls) ─ delivered lines ───┤
        ─ from_utf8_lossy ─ Extract.extractRow (per delivered line) ──────┴─ runFollowAllT ─ termItems ─▶ terminal

Every box is a stage model with its own property, theorems and driver kind (`tok`, `pstmt`, `follow`/`followd`,
`extract`, `followi`, `print`); `Model/Pipeline.lean` has the same front half. What this file adds is the glue of
`FollowFileExecutor` (src/executor.rs) and `FollowFileIterator` (src/helpers.rs):

* `FollowOp`         what happens around the followed file: the writer appends, the reader polls (one round of
                     `read_until`'s loop, with a possibly short read), the user interrupts (the `running` flag is cleared)
* `deliveredBy`      the items `FollowFileIterator::next` has returned after the operations — `driveReader`: the steps
                     of `Model/Reader.lean` over the reader's share of the schedule (`BufReader::new` = capacity 8192,
                     start offset by `--head`), ended at the first retry point that finds the flag cleared
                     (`FollowFileIterator::with_running`, /repo caa9e23: D70)
* `interruptPoint`   how many lines had been delivered when the flag was cleared: the loop tests the flag when the
                     iterator hands it the next line, so that line and all later ones are not executed
* `lineText`         `String::from_utf8_lossy` (the identity on valid UTF-8; otherwise an external fact, `Facts.lossy`)
* `followStatement`  `FollowFileExecutor::execute`: `is_join()` → `JoinNotSupported` before anything; `reached_limit()`
                     before the loop; per delivered line the flag, `execute(line, default)`, and — only inside
                     `if let Some(result_row)` — the clear (iff `output.updated`), the print with
                     `single_result = output.updated`, the LIMIT break; a table that is not defined is asked for by the
                     first line that is executed (`TableNotFound`)
* `termItems`        what reaches the terminal: `ESC[2J ESC[1;1H` (`clear`) and the printer's lines; ONE `OutputPrinter`
                     for the whole run, told `start_table()` after every clear (a CSV header on every refreshed table)
-/
namespace Sqlgrep.Pipeline
open Sqlgrep Sqlgrep.Extract

/-- what happens around the followed file, in the order it happens -/
inductive FollowOp where
  | append (bs : List Nat)        -- the writer appends bytes
  | poll (k : Nat)                -- the reader: one round of `read_until`'s loop; the `read` returns at most `k+1` bytes
  | interrupt                     -- the `running` flag is cleared (it is never set again)
  deriving Repr, DecidableEq, Inhabited

/-- the reader's and the writer's share of a schedule -/
def readerOps : List FollowOp → List Reader.Op
  | [] => []
  | .append bs :: rest => .append bs :: readerOps rest
  | .poll k :: rest => .poll k :: readerOps rest
  | .interrupt :: rest => readerOps rest

/-- `BufReader::new(file)`: `DEFAULT_BUF_SIZE` -/
def followCap : Nat := 8192

/-- `FollowFileIterator::with_running` under a schedule (/repo caa9e23, the repair of D70): the writer's appends and the
reader's polls act on the reader state of `Model/Reader.lean`; an interrupt clears the flag; and a poll that ends at the
RETRY POINT (end of file without a complete line: `retries` goes up) with the flag cleared makes `next()` return `None` —
the iteration is over, whatever happens to the file afterwards. Lines that are complete are still handed out first
(a poll that completes a line is no retry point). Result: the reader state, and whether `next()` has returned `None`. -/
def driveReader : Reader.Follow → Bool → List FollowOp → Reader.Follow × Bool
  | s, _, [] => (s, false)
  | s, i, .append bs :: rest => driveReader (Reader.step s (.append bs)) i rest
  | s, _, .interrupt :: rest => driveReader s true rest
  | s, i, .poll k :: rest =>
    if i && decide (s.retries < (Reader.step s (.poll k)).retries) then (Reader.step s (.poll k), true)
    else driveReader (Reader.step s (.poll k)) i rest

/-- the items `FollowFileIterator::next` has returned when the operations have happened (bytes of each line) -/
def deliveredBy (head : Bool) (initial : List Nat) (ops : List FollowOp) : List (List Nat) :=
  (driveReader (Reader.Follow.init initial head followCap) false ops).1.delivered

/-- `next()` has returned `None`: the flag was found cleared while the iterator waited for a line to be completed -/
def iteratorEnded (head : Bool) (initial : List Nat) (ops : List FollowOp) : Bool :=
  (driveReader (Reader.Follow.init initial head followCap) false ops).2

/-- the operations before the first interrupt (`none`: the schedule has no interrupt) -/
def beforeInterrupt : List FollowOp → Option (List FollowOp)
  | [] => none
  | .interrupt :: _ => some []
  | op :: rest => (beforeInterrupt rest).map (op :: ·)

/-- the number of lines delivered before the flag was cleared: the loop of `execute` finds the flag cleared when it is
handed the next line -/
def interruptPoint (head : Bool) (initial : List Nat) (ops : List FollowOp) : Option Nat :=
  (beforeInterrupt ops).map (fun pre => (deliveredBy head initial pre).length)

/-- `FollowFileExecutor::execute` has returned because of the interrupt by the end of the schedule: the iterator ended
(`iteratorEnded`), or it handed over a line after the flag was cleared and the loop left at its flag test -/
def interruptedRunReturned (head : Bool) (initial : List Nat) (ops : List FollowOp) : Bool :=
  iteratorEnded head initial ops ||
    (match interruptPoint head initial ops with
     | some k => decide (k < (deliveredBy head initial ops).length)
     | none => false)

/-- `String::from_utf8_lossy(line)`: the line itself when it is valid UTF-8; else what the library makes of it -/
def lineText (F : Facts) (bs : List Nat) : Option (List Nat) :=
  if Reader.validUtf8 bs then some bs else F.lossy.lookup bs

/-- a delivered line as the engine sees it: its text and `TableDefinition::extract(text)`; `none` = a fact is missing -/
def mkFollowLine (F : Facts) (d : TableDef) (bs : List Nat) : Option Line :=
  match lineText F bs with
  | none => none
  | some t =>
    if factsCover F d t then
      some { text := t, row := extractRow (extractOracles F) d (lineOracle t ((F.lines.lookup t).getD {})) }
    else none

/-- a statement whose FROM table is not defined (no join): `reached_limit()` first; then the first line that is handed
over with the flag still set is executed and asks for the table -/
def followNoTable (stmt : Stmt) (fromTable : String) (delivered : Nat) (stopAt : Option Nat) : TraceOut :=
  let qy : Query := { stmt := stmt, table := { name := fromTable, columns := [] }, join := none }
  if reachedLimit qy {} then {}
  else if delivered = 0 || stopAt == some 0 then {}
  else { out := { totalLines := 1, error := some .tableNotFound } }

/-- the lines the loop is handed with the flag still set: only these are ever executed (and only they need facts) -/
def handedLines (delivered : List (List Nat)) : Option Nat → List (List Nat)
  | some k => delivered.take k
  | none => delivered

/-- how `FollowFileExecutor::execute` ends -/
inductive FollowRun where
  | joinNotSupported                 -- `Err(ExecutionError::JoinNotSupported)`, nothing read, nothing written
  | ran (t : TraceOut)
  deriving Inhabited

/-- `FollowFileExecutor::execute` for a lowered statement over the defined tables and the delivered lines; `none` = a
fact is missing -/
def followStatement (F : Facts) (tables : List Table) (stmt : Stmt) (fromTable : String) (join : Option LJoin)
    (delivered : List (List Nat)) (stopAt : Option Nat) : Option FollowRun :=
  match join with
  | some _ => some .joinNotSupported
  | none =>
    match getTable tables fromTable with
    | none => some (.ran (followNoTable stmt fromTable delivered.length stopAt))
    | some t => do
      let ls ← (handedLines delivered stopAt).mapM (mkFollowLine F t.defn)
      pure (.ran (runFollowAllT F.eval { stmt := stmt, table := t.info, join := none } stopAt ls))

/-! ### the terminal -/

/-- what is written to the terminal -/
inductive TermItem where
  | clear                          -- `print!("\x1B[2J\x1B[1;1H")`
  | line (bs : Print.Bytes)        -- one `println!` of the printer
  deriving Repr, DecidableEq, Inhabited

/-- the print calls of a follow run on the terminal: a call with `output.updated` clears the screen first and starts a
new table on the one `OutputPrinter` of the run (`start_table()`: `first_line = true`, so a CSV header precedes the
first record of every refreshed table — /repo e80a2b6, the repair of D65); between two clears the printer keeps its
`first_line` state -/
def termItems (o : Print.RealOracle) (fmt : Print.Format) : Bool → List PrintCall → List TermItem
  | _, [] => []
  | first, c :: rest =>
    let r := Print.printResult o fmt (c.final || first) (toResultRow c.result) c.final
    (if c.final then [TermItem.clear] else []) ++ r.1.map (fun l => TermItem.line l.bytes) ++ termItems o fmt r.2 rest

/-- the screens: what was written before the first clear, and then what each clear was followed by -/
def screens : List TermItem → List (List Print.Bytes)
  | [] => [[]]
  | .clear :: rest => [] :: screens rest
  | .line bs :: rest =>
    match screens rest with
    | s :: ss => (bs :: s) :: ss
    | [] => [[bs]]

/-- the lines written, the clears removed -/
def linesOf : List TermItem → List Print.Bytes
  | [] => []
  | .clear :: rest => linesOf rest
  | .line bs :: rest => bs :: linesOf rest

/-- what an invocation in follow mode comes to -/
inductive FollowAnswer where
  | rejected (w : Which) (p : Parsed)
  | notCreateTable
  | notAQuery
  /-- `FollowFileExecutor::execute` returned (`error = none`: `Ok(())`), having written `written` -/
  | ran (error : Option ErrKind) (written : List TermItem)
  | joinNotSupported
  | panic (site : String)
  | skip (what : String)
  deriving Repr, Inhabited

/-- the answer once the run of the statement is known -/
def followAnswerOf (F : Facts) (fmt : Print.Format) : Option FollowRun → FollowAnswer
  | none => .skip "line facts"
  | some .joinNotSupported => .joinNotSupported
  | some (.ran t) =>
    if t.out.skipped.isSome then .skip (t.out.skipped.getD "")
    else if t.out.panicked then .panic "engine"
    else if !realsCover F t.calls then .skip "REAL rendering"
    else if t.calls.any (fun c => Print.resultPanics fmt (toResultRow c.result)) then .panic "OutputPrinter::print index"
    else .ran t.out.error (termItems (realOracle F) fmt true t.calls)

/-- the part after both texts are lowered -/
def followLowered (F : Facts) (defs query : LStmt) (fmt : Print.Format) (delivered : List (List Nat))
    (stopAt : Option Nat) : FollowAnswer :=
  match addTables defs with
  | none => .notCreateTable
  | some tables =>
    match stmtOf query with
    | none => .notAQuery
    | some (stmt, fromTable, join) => followAnswerOf F fmt (followStatement F tables stmt fromTable join delivered stopAt)

/-- follow mode over the lines the iterator delivers, the flag found cleared after `stopAt` of them (`none`: never) -/
def followLines (F : Facts) (defsText queryText : List Char) (fmt : Print.Format) (delivered : List (List Nat))
    (stopAt : Option Nat) : FollowAnswer :=
  if !classesCover F defsText || !classesCover F queryText then .skip "character class"
  else
    match parseText (lexOracles F) (regexValidFn F) defsText with
    | .stmt defs =>
      if !(createPatterns defs).all (fun re => ((Utf8.decode re).bind (regexValidOf F)).isSome) then .skip "Regex::new"
      else
        match parseText (lexOracles F) (regexValidFn F) queryText with
        | .stmt query => followLowered F defs query fmt delivered stopAt
        | .missing w => .skip w
        | .panic site => .panic site
        | .fuel => .panic "fuel"
        | p => .rejected .query p
    | .missing w => .skip w
    | .panic site => .panic site
    | .fuel => .panic "fuel"
    | p => .rejected .definitions p

/-- **the end-to-end model of follow mode**: definitions text, query text, output format, `--head`, the content of the
file at start-up, what then happens around the file, and the facts about the outside world, to what is written to
the terminal and how the run ends -/
def followText (F : Facts) (defsText queryText : List Char) (fmt : Print.Format) (head : Bool) (initial : List Nat)
    (ops : List FollowOp) : FollowAnswer :=
  followLines F defsText queryText fmt (deliveredBy head initial ops) (interruptPoint head initial ops)

/-! ### schedules as the harness drives them -/

/-- the schedule of a run driven through the retry hook of `FollowFileIterator` (the only point at which the harness
can act): the reader polls (full reads) until it has delivered every complete line there is and retries; there the hook
— per call — clears the flag or not and appends the next chunk; after the last action it polls to the end again and the
hook ends the iteration. `n` polls are enough when `n` exceeds the number of bytes there will ever be
(`Props/C10.lean` `follow_progress`; more polls change nothing that is delivered). -/
def opsOfActs (n : Nat) : List (Bool × List Nat) → List FollowOp
  | [] => List.replicate n (.poll (followCap - 1))
  | (intr, chunk) :: rest =>
    List.replicate n (.poll (followCap - 1)) ++ (if intr then [.interrupt] else []) ++ .append chunk :: opsOfActs n rest

def followDriven (F : Facts) (defsText queryText : List Char) (fmt : Print.Format) (head : Bool) (initial : List Nat)
    (acts : List (Bool × List Nat)) : FollowAnswer :=
  followText F defsText queryText fmt head initial
    (opsOfActs (initial.length + (acts.map (fun a => a.2.length)).sum + 1) acts)

end Sqlgrep.Pipeline
