// END-TO-END correspondence: raw definition text, raw query text and raw file bytes go, on one side, through the real
// program (`parsing::parse` + `Tables::add_tables` + `ExecutionEngine::new` + `FileExecutor::with_output_printer` with a
// capturing printer, on real temp files) and, on the other, through the composed Lean model `Pipeline.runText`
// (tokenize → parse → lower → tables → lines → extract → run → print; driver kind `e2e`). Nothing the real program
// computes is handed to the model: the case carries only the texts, the bytes and the ORACLE TABLES, each computed here
// by calling the library directly (`std` Unicode classes / `f64::from_str`, `regex`, `serde_json`, `chrono`, `{:.2}`).
// Which keys the tables need (string literals, the REAL values that get printed) is found out with the help of the real
// tokenizer / engine; a key that is missing makes the model answer `skip` (counted), never a wrong answer.
use std::collections::BTreeSet;
use std::fs::File;
use std::io::BufRead;
use std::path::PathBuf;
use std::str::FromStr;
use std::sync::atomic::AtomicBool;
use std::sync::Arc;

use sqlgrep::data_model::Tables;
use sqlgrep::execution::execution_engine::{ExecutionConfig, ExecutionEngine};
use sqlgrep::execution::ResultRow;
use sqlgrep::executor::{DisplayOptions, FileExecutor, OutputFormat};
use sqlgrep::model::{Float, Value};
use sqlgrep::parsing::verif_hooks::Token;
use sqlgrep::parsing::CommonParserError;
use sqlgrep::Statement;

use crate::c04::gen_input;
use crate::engine_run::{exec_err_kind, prepare};
use crate::exprs::oracles_sexp;
use crate::extract::{gen_def, json_line, parse_def, regex_line, TEMPLATES};
use crate::lexcases::{class_table, number_table};
use crate::queries::*;
use crate::run::{Params, Run};
use crate::runq::{tmp_dir, tmp_file, CapturePrinter};
use crate::stmtcases::{convert_err_sexp, parser_err_sexp, tokenize_caught};
use crate::util::{catch, hex, hexs, Caught, Rng};

pub struct Case {
    pub defs: String,
    pub query: String,
    pub format: OutputFormat,
    pub single: bool,
    pub files: Vec<Vec<u8>>,
    /// the file the statement's JOIN names: path (inside the query text) and content, `None` = no such file
    pub joined: Option<(String, Option<Vec<u8>>)>,
    pub family: &'static str,
}

pub(crate) fn format_sexp(f: &OutputFormat) -> String {
    match f {
        OutputFormat::Text => "text".to_owned(),
        OutputFormat::Json => "json".to_owned(),
        OutputFormat::CSV(d) => format!("(csv {})", hexs(d)),
    }
}

pub(crate) fn format_tag(f: &OutputFormat) -> &'static str {
    match f { OutputFormat::Text => "text", OutputFormat::Json => "json", OutputFormat::CSV(_) => "csv" }
}

pub(crate) fn parse_err(e: &CommonParserError) -> String {
    match e {
        CommonParserError::ParserError(e) => format!("p{}", parser_err_sexp(e)),
        CommonParserError::ConvertParserTreeError(e) => convert_err_sexp(e),
    }
}

// ---------------------------------------------------------------------------------------------
// the real program
// ---------------------------------------------------------------------------------------------

/// `sqlgrep -d <defs> -c <query> --format <f> files…` in-process; the answer in the form the driver prints
pub fn run_real(c: &Case) -> String {
    let paths: Vec<PathBuf> = c.files.iter().map(|b| tmp_file(b)).collect();
    let r = catch(|| -> String {
        let mut tables = Tables::new();
        match sqlgrep::parsing::parse(&c.defs) {
            Ok(stmt) => { if !tables.add_tables(stmt) { return "not-create-table".to_owned(); } }
            Err(e) => return format!("rejected defs {}", parse_err(&e)),
        }
        let statement = match sqlgrep::parsing::parse(&c.query) {
            Ok(s) => s,
            Err(e) => return format!("rejected query {}", parse_err(&e)),
        };
        match statement { Statement::Select(_) | Statement::Aggregate(_) => {} _ => return "not-a-query".to_owned() }
        let mut fs = Vec::new();
        for p in &paths { fs.push(File::open(p).expect("temp file")); }
        let display = DisplayOptions { output_format: c.format.clone(), single_result: c.single, print_result: true };
        let engine = ExecutionEngine::new(&tables, &statement);
        let mut executor = FileExecutor::with_output_printer(Arc::new(AtomicBool::new(true)), fs, display, CapturePrinter::new(), engine).expect("executor");
        let r = executor.execute();
        let status = match r { Ok(()) => "ok".to_owned(), Err(e) => format!("err:{}", exec_err_kind(&e)) };
        let lines = &executor.output_printer().printer().lines;
        format!("{} total={} out={}", status, executor.statistics().total_lines, lines.iter().map(|l| hex(l.as_bytes())).collect::<Vec<_>>().join(","))
    });
    for p in paths { let _ = std::fs::remove_file(p); }
    match r { Caught::Done(s) => s, Caught::Panic(_) => "panic".to_owned() }
}

// ---------------------------------------------------------------------------------------------
// oracle tables
// ---------------------------------------------------------------------------------------------

fn string_tokens(text: &str, strings: &mut Vec<String>, floats: &mut Vec<u64>, ints: &mut Vec<String>) {
    if let Caught::Done(Ok(tokens)) = tokenize_caught(text) {
        for t in tokens {
            match t.token {
                Token::String(s) => { if !strings.contains(&s) { strings.push(s); } }
                Token::Float(f) => floats.push(f.to_bits()),
                Token::Int(i) => { let s = i.to_string(); if !ints.contains(&s) { ints.push(s); } }
                _ => {}
            }
        }
    }
}

fn valid_lines(bytes: &[u8], out: &mut Vec<String>) {
    for l in std::io::BufReader::new(bytes).lines() {
        if let Ok(l) = l { if !out.contains(&l) { out.push(l); } }
    }
}

fn json_sexp(v: &serde_json::Value, out: &mut String, strings: &mut BTreeSet<String>) {
    match v {
        serde_json::Value::Null => out.push_str("null"),
        serde_json::Value::Bool(b) => out.push_str(&format!("(b {})", *b as u8)),
        serde_json::Value::Number(n) => {
            let bits = n.as_f64().map(|f| f.to_bits()).unwrap_or(0);
            if let Some(u) = n.as_u64() { out.push_str(&format!("(pi {} {})", u, bits)); }
            else if let Some(i) = n.as_i64() { out.push_str(&format!("(ni {} {})", i, bits)); }
            else { out.push_str(&format!("(fl {})", bits)); }
        }
        serde_json::Value::String(s) => { strings.insert(s.clone()); out.push_str(&format!("(s {})", hexs(s))); }
        serde_json::Value::Array(xs) => {
            out.push_str("(a");
            for x in xs { out.push(' '); json_sexp(x, out, strings); }
            out.push(')');
        }
        serde_json::Value::Object(m) => {
            out.push_str("(o");
            for (k, x) in m { out.push_str(&format!(" ({} ", hexs(k))); json_sexp(x, out, strings); out.push(')'); }
            out.push(')');
        }
    }
}

fn collect_reals(v: &Value, out: &mut BTreeSet<u64>) {
    match v {
        Value::Float(Float(f)) => { out.insert(if f.is_nan() { 0x7ff8000000000000 } else { f.to_bits() }); }
        Value::Array(_, xs) => for x in xs { collect_reals(x, out); },
        _ => {}
    }
}

pub(crate) fn collect_result(r: &Option<ResultRow>, reals: &mut BTreeSet<u64>, strings: &mut BTreeSet<String>) {
    if let Some(r) = r {
        for row in &r.data { for v in &row.columns { collect_reals(v, reals); crate::exprs::collect_value_strings(v, strings); } }
    }
}

/// which REAL values reach the printer: found by letting the real engine run over the same input (only the KEYS of the
/// rendering table come from here; the renderings are computed by `std` / `serde_json` below)
fn discover_printed(c: &Case, reals: &mut BTreeSet<u64>, strings: &mut BTreeSet<String>) {
    let _ = catch(|| {
        let mut tables = Tables::new();
        let stmt = match sqlgrep::parsing::parse(&c.defs) { Ok(s) => s, Err(_) => return };
        if !tables.add_tables(stmt) { return; }
        let statement = match sqlgrep::parsing::parse(&c.query) { Ok(s) => s, Err(_) => return };
        match statement { Statement::Select(_) | Statement::Aggregate(_) => {} _ => return }
        let mut engine = ExecutionEngine::new(&tables, &statement);
        if engine.execute_joined_table(Arc::new(AtomicBool::new(true))).is_err() { return; }
        let config = engine.execution_config();
        'files: for f in &c.files {
            if engine.reached_limit() { break; }
            for line in std::io::BufReader::new(&f[..]).lines() {
                let line = match line { Ok(l) => l, Err(_) => break 'files };
                match engine.execute(line, &config) {
                    Ok(o) => { collect_result(&o.result_row, reals, strings); if o.reached_limit { break 'files; } }
                    Err(_) => return,
                }
            }
        }
        if engine.is_aggregate() {
            if let Ok(o) = engine.execute(String::new(), &ExecutionConfig::aggregate_result()) { collect_result(&o.result_row, reals, strings); }
        }
    });
}

/// every oracle table of the case, in the order the driver reads them (after `files` and `fs`)
pub fn facts_sexp(c: &Case) -> String {
    // the lines of every file
    let mut all_lines: Vec<String> = Vec::new();
    for f in &c.files { valid_lines(f, &mut all_lines); }
    if let Some((_, Some(j))) = &c.joined { valid_lines(j, &mut all_lines); }
    facts_sexp_with(&c.defs, &c.query, &all_lines, &|reals, strings| discover_printed(c, reals, strings))
}

/// the oracle tables for the two texts and the given line texts; `discover` finds the REALs / strings that get printed
pub fn facts_sexp_with(defs: &str, query: &str, all_lines: &[String], discover: &dyn Fn(&mut BTreeSet<u64>, &mut BTreeSet<String>)) -> String {
    struct Texts<'a> { defs: &'a str, query: &'a str }
    let c = Texts { defs, query };
    let both = format!("{}\n{}", c.defs, c.query);
    let mut def_strings: Vec<String> = Vec::new();
    let mut query_strings: Vec<String> = Vec::new();
    let mut floats: Vec<u64> = Vec::new();
    let mut ints: Vec<String> = Vec::new();
    string_tokens(&c.defs, &mut def_strings, &mut floats, &mut ints);
    string_tokens(&c.query, &mut query_strings, &mut floats, &mut ints);
    // `Regex::new` of every string literal
    let mut rx = String::from("(rx");
    let mut patterns: Vec<(String, regex::Regex)> = Vec::new();
    for s in def_strings.iter().chain(query_strings.iter()) {
        let re = regex::Regex::new(s);
        rx.push_str(&format!(" ({} {})", hexs(s), re.is_ok() as u8));
        if let Ok(re) = re { if def_strings.contains(s) && !patterns.iter().any(|p| &p.0 == s) { patterns.push((s.clone(), re)); } }
    }
    rx.push(')');
    let want_json = c.defs.contains('{');
    let want_f64 = c.defs.to_lowercase().contains("real");
    let mut texts: BTreeSet<String> = BTreeSet::new();   // everything a column value can be made of
    let ship_docs = crate::util::ship_facts(crate::util::SITE_E2E_DOC);
    let mut lines = String::from("(lines");
    for l in all_lines {
        texts.insert(l.clone());
        lines.push_str(&format!(" (l {} (caps", hexs(l)));
        for (src, re) in &patterns {
            match re.captures(l) {
                Some(cap) => {
                    lines.push_str(&format!(" ({} (", hexs(src)));
                    for i in 0..cap.len() {
                        if i > 0 { lines.push(' '); }
                        match cap.get(i) { Some(m) => { texts.insert(m.as_str().to_owned()); lines.push_str(&hexs(m.as_str())); } None => lines.push_str("none") }
                    }
                    lines.push_str("))");
                }
                None => lines.push_str(&format!(" ({} none)", hexs(src))),
            }
        }
        lines.push_str(") (splits");
        for (src, re) in &patterns {
            lines.push_str(&format!(" ({}", hexs(src)));
            for f in re.split(l) { texts.insert(f.to_owned()); lines.push(' '); lines.push_str(&hexs(f)); }
            lines.push(')');
        }
        lines.push_str(") ");
        // shipped (`(json J)` / `notjson`) for every second case, computed by the model (`compute`) for the others
        match (want_json, serde_json::from_str::<serde_json::Value>(l), ship_docs) {
            (true, Ok(j), true) => { lines.push_str("(json "); json_sexp(&j, &mut lines, &mut texts); lines.push(')'); }
            (true, Err(_), true) => lines.push_str("notjson"),
            (true, Ok(j), false) => { let mut sink = String::new(); json_sexp(&j, &mut sink, &mut texts); lines.push_str("compute"); }
            (true, Err(_), false) => lines.push_str("compute"),
            (false, _, _) => lines.push_str("nojson"),
        }
        lines.push(')');
    }
    lines.push(')');
    // `f64::from_str` of every text extraction may convert to REAL
    let mut f64s = String::from("(f64");
    let mut reals: BTreeSet<u64> = BTreeSet::new();
    reals.insert(0x7ff8000000000000);
    let ship = crate::util::ship_facts(crate::util::SITE_E2E_F64);
    if want_f64 {
        for t in &texts {
            match f64::from_str(t) {
                Ok(f) => { if ship { f64s.push_str(&format!(" ({} {})", hexs(t), f.to_bits())); } collect_reals(&Value::Float(Float(f)), &mut reals); }
                Err(_) => if ship { f64s.push_str(&format!(" ({} none)", hexs(t))) },
            }
        }
    }
    f64s.push(')');
    // the evaluator's tables: every string a value can be (column texts, their trimmed forms, literals, printed strings)
    let mut strings: BTreeSet<String> = texts.clone();
    for t in &texts { strings.insert(t.trim().to_owned()); }
    for s in def_strings.iter().chain(query_strings.iter()).chain(ints.iter()) { strings.insert(s.clone()); }
    // … and what `upper` / `lower` make of them (a value computed by a function can reach a cast or `regexp_matches`)
    for s in strings.clone() { strings.insert(s.to_uppercase()); strings.insert(s.to_lowercase()); }
    for b in floats { collect_reals(&Value::Float(Float(f64::from_bits(b))), &mut reals); }
    discover(&mut reals, &mut strings);
    let eval_patterns: BTreeSet<String> = query_strings.iter().cloned().collect();
    let oracles = oracles_sexp(&strings, &eval_patterns);
    // the renderings of the REALs that may be printed
    let mut rs = String::from("(reals");
    for bits in &reals {
        let f = f64::from_bits(*bits);
        let json = if f.is_finite() { serde_json::to_string(&f).unwrap() } else { "null".to_owned() };
        rs.push_str(&format!(" ({} {} {})", bits, hexs(&format!("{:.2}", f)), hexs(&json)));
    }
    rs.push(')');
    format!("{} {} {} {} {} {} {}", class_table(&both), number_table(&both), rx, lines, f64s, oracles, rs)
}

pub fn case_line(c: &Case) -> String {
    let fs = match &c.joined { Some((p, Some(b))) => format!("(fs ({} {}))", hexs(p), hex(b)), _ => "(fs)".to_owned() };
    format!("e2e {} {} {} {} (files{}) {} {}", hexs(&c.defs), hexs(&c.query), format_sexp(&c.format), c.single as u8,
        c.files.iter().map(|f| format!(" {}", hex(f))).collect::<String>(), fs, facts_sexp(c))
}

// ---------------------------------------------------------------------------------------------
// generators
// ---------------------------------------------------------------------------------------------

pub(crate) fn gen_format(rng: &mut Rng, focus: &str) -> OutputFormat {
    let k = if focus == "print" { rng.below(3) } else { rng.below(5) };
    match k {
        1 => OutputFormat::Json,
        2 => OutputFormat::CSV((*rng.pick(&[";", ";", ",", "\t", " | "])).to_owned()),
        _ => OutputFormat::Text,
    }
}

/// lines → 1..3 files; `\n` or `\r\n`, with or without the final newline, now and then an empty file
fn layout(rng: &mut Rng, lines: &[String]) -> Vec<Vec<u8>> {
    let k = 1 + rng.below(3);
    let mut cuts: Vec<usize> = (0..k - 1).map(|_| rng.below(lines.len() + 1)).collect();
    cuts.sort();
    cuts.push(lines.len());
    let mut files = Vec::new();
    let mut prev = 0;
    for cut in cuts {
        let eol = if rng.chance(1, 4) { "\r\n" } else { "\n" };
        let mut s = lines[prev..cut].join(eol);
        if cut > prev && !rng.chance(1, 4) { s.push_str(eol); }
        files.push(s.into_bytes());
        prev = cut;
    }
    files
}

const NAME_QUERIES: &[&str] = &[
    "SELECT k, k FROM t", "SELECT v, w AS v FROM t", "SELECT k, v + 1, v + 1 FROM t", "SELECT k AS p1, v + 1 FROM t", "SELECT v + 1, k AS p0 FROM t",
    "SELECT k AS a, s AS a, 1 FROM t", "SELECT t.k, k FROM t", "SELECT input, input FROM t", "SELECT input FROM t", "SELECT input AS line FROM t", "SELECT k AS input FROM t",
    "SELECT v, v, COUNT(*) FROM t GROUP BY v", "SELECT COUNT(*), COUNT(*) FROM t", "SELECT COUNT(*) AS n, SUM(v) AS n FROM t", "SELECT k, COUNT(*) AS k FROM t GROUP BY k",
    "SELECT MAX(v), MAX(v) + 1, MIN(w) AS p1 FROM t", "SELECT v + 1, COUNT(*) FROM t GROUP BY v + 1", "SELECT * FROM t", "SELECT DISTINCT k, k FROM t",
    "SELECT r, r * 2.5, r / 3.0 FROM t WHERE r IS NOT NULL", "SELECT AVG(r), SUM(r), STDDEV(v), VARIANCE(r) FROM t", "SELECT create_array(r, 0.1), k FROM t",
    // conditions that are not BOOLEAN (D69): the run reports an error on the first row / group where such a condition is evaluated and not NULL
    // `*` next to other items (a run-time error in the code: never silently the wildcard alone), qualified GROUP BY keys keep their
    // qualified names, an aliased item before an unnamed one (p<i> counts positions), `input` first among several items
    "SELECT *, k FROM t", "SELECT *, input FROM t", "SELECT *, nosuch FROM t", "SELECT k, * FROM t", "SELECT t.k, COUNT(*) AS n FROM t GROUP BY t.k", "SELECT t.k, t.v, SUM(w) FROM t GROUP BY t.k, t.v",
    "SELECT k AS n, v + 1 FROM t", "SELECT input, k FROM t", "SELECT input, v + w FROM t", "SELECT k AS input, v FROM t", "SELECT w AS v, v AS w, COUNT(*) FROM t GROUP BY v, w",
    "SELECT k FROM t WHERE v + 1", "SELECT k, v FROM t WHERE s", "SELECT k, (CASE WHEN v THEN 1 ELSE 0 END) AS c FROM t", "SELECT k, v AND w > 0 FROM t",
    "SELECT k, COUNT(*) FROM t GROUP BY k HAVING SUM(v)", "SELECT COUNT(*) FROM t WHERE w", "SELECT k, w > 0 OR v FROM t",
];

const WIDE: &[&str] = &[
    "SELECT * FROM t",
    "SELECT k, v, w, r, s, input FROM t",
    "SELECT k, w, COUNT(*), SUM(v), MIN(v), MAX(v), AVG(v), COUNT(DISTINCT v), PERCENTILE(v, 0.5) FROM t GROUP BY k, w",
    "SELECT v, COUNT(*), ARRAY_AGG(k), STRING_AGG(s, ',') FROM t GROUP BY v",
    "SELECT s, k, COUNT(DISTINCT w), BOOL_OR(v > 2), STDDEV(v) FROM t GROUP BY s, k HAVING COUNT(*) > 0 AND SUM(v) > -100",
    "SELECT DISTINCT k, w FROM t",
    "SELECT array_unique(create_array(v, w, 3, 1, 2)), k FROM t",
];

fn relayout_text(rng: &mut Rng, text: &str) -> String {
    // harmless layout: a trailing `;`, a comment, extra blanks / line breaks between words outside string literals
    let mut out = String::new();
    let mut in_str = false;
    let mut prev = ' ';
    for ch in text.chars() {
        if ch == '\'' && prev != '\\' { in_str = !in_str; }
        if ch == ' ' && !in_str && rng.chance(1, 6) { out.push_str(*rng.pick(&["  ", "\n", "\t", " -- c\n", "\r\n"])); } else { out.push(ch); }
        prev = ch;
    }
    if rng.chance(1, 4) && !out.trim_end().ends_with(';') { out.push(';'); }
    out
}

/// the schema of `queries.rs` (tables t and u), a generated statement, generated input
pub(crate) fn gen_schema_case(rng: &mut Rng, focus: &str, jpath: &str) -> Case {
    let sch = gen_schema(rng);
    let (agg, want): (Option<bool>, &str) = match focus {
        "select" => (Some(false), ""),
        "group" => (Some(true), ""),
        "join" => (None, "JOIN"),
        "limit" => (None, "LIMIT"),
        "distinct" => (None, "DISTINCT"),
        _ => (None, ""),
    };
    let opts = QueryOpts { allow_limit: true, allow_distinct: true, allow_join: true, aggregate: agg };
    let mut query = String::new();
    let family;
    match rng.below(10) {
        0 if want.is_empty() || want == "DISTINCT" => { query = (*rng.pick(WIDE)).to_owned(); family = "wide"; }
        1 | 2 => {
            // column naming (alias | column | p<i> | count<i> …, duplicates), under the clause the focus is about
            query = (*rng.pick(NAME_QUERIES)).to_owned();
            match want {
                "LIMIT" => query.push_str(&format!(" LIMIT {}", rng.below(5))),
                "DISTINCT" => { if !query.contains("DISTINCT") { query = query.replacen("SELECT ", "SELECT DISTINCT ", 1); } }
                "JOIN" => query.push_str(&format!(" {} JOIN u::'{}' ON t.k = u.k", if rng.chance(1, 3) { "OUTER" } else { "INNER" }, jpath)),
                _ => {}
            }
            family = "names";
        }
        _ => {
            for _ in 0..40 {
                query = gen_query(rng, &sch, &opts, jpath).text;
                if query.contains(want) { break; }
            }
            family = "gen";
        }
    }
    if rng.chance(1, 3) { query = relayout_text(rng, &query); }
    let n = rng.below(14);
    let extreme = rng.chance(1, 6);
    let lines = gen_input(rng, n, 15, extreme);
    let jn = rng.below(8);
    let jlines: Vec<String> = (0..jn).map(|_| gen_join_line(rng)).collect();
    let joined = if query.contains("JOIN") {
        let eol = if rng.chance(1, 5) { "\r\n" } else { "\n" };
        let mut body = jlines.join(eol);
        if jn > 0 && !rng.chance(1, 4) { body.push_str(eol); }
        Some((jpath.to_owned(), Some(body.into_bytes())))
    } else { None };
    let defs = if rng.chance(1, 4) { relayout_text(rng, &sch.defs) } else { sch.defs.clone() };
    Case { defs, query, format: gen_format(rng, focus), single: rng.chance(1, 2), files: layout(rng, &lines), joined, family }
}

fn tpl_index(re: &str) -> Option<usize> { TEMPLATES.iter().position(|t| t.re == re) }

/// a generated definition (every column kind, modifiers, JSON paths), lines made for it, a statement over c0..cn
pub(crate) fn gen_def_case(rng: &mut Rng, focus: &str) -> Option<Case> {
    let share = *rng.pick(&[0u64, 0, 3, 10]);
    let g = gen_def(rng, share);
    let defs = g.render(rng);
    let td = parse_def(&defs).ok()?;
    let any_json = g.cols.iter().any(|c| matches!(c.parsing, crate::extract::GParsing::Json(_)));
    let n = rng.below(9);
    let lines: Vec<String> = (0..n).map(|_| if any_json && !rng.chance(1, 6) { json_line(rng, &td).0 } else { regex_line(rng, &td, &tpl_index).0 }).collect();
    let ncols = g.cols.len();
    let col = |rng: &mut Rng| format!("c{}", rng.below(ncols));
    let query = match rng.below(8) {
        0 | 1 => "SELECT * FROM t".to_owned(),
        2 => format!("SELECT {}, {} AS x, input FROM t", col(rng), col(rng)),
        3 => format!("SELECT {c} FROM t WHERE {c} IS NOT NULL", c = col(rng)),
        4 => format!("SELECT COUNT(*), COUNT({}), MIN({}), MAX({}) FROM t", col(rng), col(rng), col(rng)),
        5 => format!("SELECT {c}, COUNT(*) FROM t GROUP BY {c}", c = col(rng)),
        6 => format!("SELECT DISTINCT {} FROM t LIMIT {}", col(rng), 1 + rng.below(4)),
        _ => format!("SELECT {}, {} FROM t LIMIT {}", col(rng), col(rng), rng.below(5)),
    };
    Some(Case { defs, query, format: gen_format(rng, focus), single: rng.chance(1, 2), files: layout(rng, &lines), joined: None, family: "def" })
}

/// the seams: rejected texts, wrong statement kinds, unknown tables and columns, a missing joined file, unreadable lines
pub(crate) fn gen_seam_case(rng: &mut Rng, focus: &str, jpath: &str) -> Case {
    let sch = gen_schema(rng);
    let nl = 1 + rng.below(6);
    let lines = gen_input(rng, nl, 10, false);
    let mut files = layout(rng, &lines);
    let mut defs = sch.defs.clone();
    let mut joined = None;
    let join = |on: &str| format!("SELECT t.k, y FROM t INNER JOIN u::'{}' ON {}", jpath, on);
    let query = match rng.below(16) {
        0 => "SELECT k FROM nosuch".to_owned(),
        1 => "SELECT COUNT(*) FROM nosuch".to_owned(),
        2 => { files = vec![Vec::new()]; "SELECT COUNT(*), MAX(v) FROM nosuch".to_owned() }
        3 => "SELECT k FROM nosuch LIMIT 0".to_owned(),
        4 => format!("SELECT k FROM nosuch INNER JOIN u::'{}' ON nosuch.k = u.k", jpath),
        5 => { defs = MAIN_DEF.to_owned(); joined = Some((jpath.to_owned(), Some(b"#a;1;x\n".to_vec()))); join("t.k = u.k") }
        6 => { joined = Some((jpath.to_owned(), Some(b"#a;1;x\n".to_vec()))); join("t.nocol = u.k") }
        7 => { joined = Some((jpath.to_owned(), Some(b"#a;1;x\n".to_vec()))); join("t.k = u.nocol") }
        8 => { joined = Some((format!("{}.missing", jpath), None)); format!("SELECT t.k, y FROM t OUTER JOIN u::'{}.missing' ON t.k = u.k", jpath) }
        9 => { joined = Some((jpath.to_owned(), Some(b"#a;1;x\n#b;\xff;y\n#c;2;z\n".to_vec()))); join("t.k = u.k") }
        10 => { files.push(b"a;1;2;0.5;x;\n\xff\xfe;;;;;\nb;2;3;1.5;y;!\n".to_vec()); "SELECT k, v FROM t".to_owned() }
        11 => "CREATE TABLE q(line = '(.*)', line[1] => x TEXT);".to_owned(),
        12 => { defs = "SELECT k FROM t".to_owned(); "SELECT k FROM t".to_owned() }
        13 => (*rng.pick(&["SELECT k FROM", "SELECT k, FROM t", "SELECT k FROM t WHERE", "SELECT 1.2.3 FROM t", "SELECT 99999999999999999999 FROM t", "SELECT k FROM t LIMIT x",
                          "SELECT nosuchfn(k) FROM t", "SELECT SUM(v, w) FROM t", "SELECT k FROM t HAVING v > 1", "SELECT k FROM t INNER JOIN u::'f' ON a.k = b.k", "SELECT (1, 2) FROM t", "SELEC k FROM t", ""])).to_owned(),
        14 => { defs = (*rng.pick(&["CREATE TABLE t(line = '(', line[1] => x TEXT);", "CREATE TABLE t(line = 'a', line[1] => x NOSUCH);", "CREATE TABLE t(line = 'a', line[1] => x INT TRIM);", "CREATE TABLE t(", "CREATE TABLE t(line = 'a' line[1] => x INT);"])).to_owned(); "SELECT * FROM t".to_owned() }
        _ => { defs = format!("{}\nCREATE TABLE t(line = '^([a-z]+)', line[1] => only TEXT);", sch.defs); "SELECT * FROM t".to_owned() }
    };
    Case { defs, query, format: gen_format(rng, focus), single: rng.chance(1, 2), files, joined, family: "seam" }
}

pub(crate) fn result_kind(answer: &str) -> String {
    let head = answer.split(' ').next().unwrap_or("");
    if head == "rejected" { answer.split(' ').take(3).collect::<Vec<_>>().join("-") } else { head.to_owned() }
}

pub(crate) fn shape(q: &str) -> String {
    let u = q.to_uppercase();
    let mut s = String::new();
    for (k, t) in &[("JOIN", "j"), ("GROUP BY", "g"), ("HAVING", "h"), ("DISTINCT", "d"), ("LIMIT", "l"), ("WHERE", "w")] {
        if u.contains(k) { s.push_str(t); }
    }
    if s.is_empty() { "plain".to_owned() } else { s }
}

/// the shared end-to-end stream: `n` cases, biased by `focus` (`select`, `group`, `join`, `limit`, `distinct`, `print`)
pub fn stream(run: &mut Run, rng: &mut Rng, n: usize, focus: &str) {
    let jpath = tmp_dir().join(format!("e2e-joined-{}.txt", focus));
    let jp = jpath.display().to_string();
    let mut skew = 0usize;
    for i in 0..n {
        let c = match i % 10 {
            7 => match gen_def_case(rng, focus) { Some(c) => c, None => { skew += 1; gen_schema_case(rng, focus, &jp) } },
            8 if i % 20 == 8 => match gen_def_case(rng, focus) { Some(c) => c, None => gen_schema_case(rng, focus, &jp) },
            9 => gen_seam_case(rng, focus, &jp),
            _ => gen_schema_case(rng, focus, &jp),
        };
        // the file system as the statement sees it: the joined file exists with this content, or does not exist
        let _ = std::fs::remove_file(&jpath);
        if let Some((p, content)) = &c.joined {
            if let Some(b) = content { std::fs::write(p, b).unwrap(); } else { let _ = std::fs::remove_file(p); }
        }
        let answer = run_real(&c);
        let line = case_line(&c);
        let tag = format!("e2e:{}:{}:{}:{}:f{}", c.family, format_tag(&c.format), shape(&c.query), result_kind(&answer), c.files.len());
        run.count(&format!("e2e:{}", c.family));
        run.count(&format!("e2e:format:{}", format_tag(&c.format)));
        run.count(&format!("e2e:result:{}", result_kind(&answer)));
        let desc = format!("e2e defs={:?} query={:?} format={:?} single={} files={:?} joined={:?}", c.defs, c.query, c.format, c.single,
            c.files.iter().map(|f| String::from_utf8_lossy(f).to_string()).collect::<Vec<_>>(),
            c.joined.as_ref().map(|(p, b)| (p.clone(), b.as_ref().map(|b| String::from_utf8_lossy(b).to_string()))));
        run.case_with_desc(line, answer, tag, desc);
    }
    let _ = std::fs::remove_file(&jpath);
    run.notes.push(format!("e2e stream ({}): {} cases from raw texts and raw file bytes through parsing::parse + Tables + FileExecutor (capturing printer) vs Pipeline.runText; {} generated definitions were rejected by the real parser and replaced", focus, n, skew));
}

// ---------------------------------------------------------------------------------------------
// relations between two runs of the whole program (Props/PipelineLines.lean), checked on the IMPLEMENTATION:
// raw texts, raw bytes, every output format, real files through `parsing::parse` + `FileExecutor`; both runs of every
// pair also go to the model as `e2e` cases
// ---------------------------------------------------------------------------------------------

impl Case {
    fn with_input(&self, files: Vec<Vec<u8>>, joined: Option<(String, Option<Vec<u8>>)>, family: &'static str) -> Case {
        Case { defs: self.defs.clone(), query: self.query.clone(), format: self.format.clone(), single: self.single, files, joined, family }
    }
}

/// the answer without the statistics counter (`Answer.output` of the model)
pub(crate) fn without_total(answer: &str) -> String {
    answer.split(' ').filter(|t| !t.starts_with("total=")).collect::<Vec<_>>().join(" ")
}

fn show_case(c: &Case) -> String {
    format!("e2e defs={:?} query={:?} format={:?} single={} files={:?} joined={:?}", c.defs, c.query, c.format, c.single,
        c.files.iter().map(|f| String::from_utf8_lossy(f).to_string()).collect::<Vec<_>>(),
        c.joined.as_ref().map(|(p, b)| (p.clone(), b.as_ref().map(|b| String::from_utf8_lossy(b).to_string()))))
}

/// one run of the real program on the case (the joined file put in place first); the case also goes to the model
fn observe(run: &mut Run, c: &Case, jpath: &std::path::Path, rel: &str, variant: &str) -> String {
    let _ = std::fs::remove_file(jpath);
    if let Some((p, Some(b))) = &c.joined { std::fs::write(p, b).unwrap(); }
    let answer = run_real(c);
    let tag = format!("e2e:{}:{}:{}:{}:{}", rel, variant, format_tag(&c.format), shape(&c.query), result_kind(&answer));
    run.count(&format!("e2e:{}", rel));
    run.case_with_desc(case_line(c), answer.clone(), tag, show_case(c));
    answer
}

/// whole lines inserted at line boundaries of a byte content: at the start or just after a `\n` — never after an
/// unterminated last line (that is not a line boundary: the bytes would continue that line); `\n` or `\r\n` ends
pub fn insert_at_line_boundaries(rng: &mut Rng, bytes: &[u8], lines: &[Vec<u8>]) -> Vec<u8> {
    let mut out = bytes.to_vec();
    for l in lines {
        let mut bounds: Vec<usize> = vec![0];
        for (i, b) in out.iter().enumerate() { if *b == b'\n' { bounds.push(i + 1); } }
        let pos = *rng.pick(&bounds);
        let mut ins = l.clone();
        ins.extend_from_slice(if rng.chance(1, 4) { b"\r\n" } else { b"\n" });
        out.splice(pos..pos, ins);
    }
    out
}

/// the same with `\n` ends only (follow mode keeps a `\r` before the newline as content)
pub fn insert_at_line_boundaries_lf(rng: &mut Rng, bytes: &[u8], lines: &[Vec<u8>]) -> Vec<u8> {
    let mut out = bytes.to_vec();
    for l in lines {
        let mut bounds: Vec<usize> = vec![0];
        for (i, b) in out.iter().enumerate() { if *b == b'\n' { bounds.push(i + 1); } }
        let pos = *rng.pick(&bounds);
        let mut ins = l.clone();
        ins.push(b'\n');
        out.splice(pos..pos, ins);
    }
    out
}

/// C06 at program level (`noise_block_invisible`, `joined_noise_block_invisible`): lines that yield no row for the table
/// they are read with (decided by `admitted`, the caller's restatement of the sentence), inserted at line boundaries of
/// the input files / of the joined file, leave the printed lines and the status unchanged, in every output format
pub fn noise_relation(run: &mut Run, rng: &mut Rng, n: usize, admitted: &dyn Fn(&sqlgrep::data_model::TableDefinition, &str) -> bool,
                      main_pool: &[&str], join_pool: &[&str]) {
    let jpath = tmp_dir().join("e2e-joined-noise.txt");
    let jp = jpath.display().to_string();
    for _ in 0..n {
        let focus = *rng.pick(&["select", "group", "join", "limit", "distinct", "print"]);
        let base = gen_schema_case(rng, focus, &jp);
        let prepared = match prepare(&base.defs, &base.query) { Ok(p) => p, Err(_) => { run.count("e2e:noise:rejected"); continue; } };
        let (main, jtab) = match (prepared.tables.get("t"), prepared.tables.get("u")) { (Some(a), Some(b)) => (a.clone(), b.clone()), _ => continue };
        let pick = |rng: &mut Rng, td: &sqlgrep::data_model::TableDefinition, pool: &[&str]| -> Vec<Vec<u8>> {
            let mut v = Vec::new();
            for _ in 0..1 + rng.below(3) {
                for _ in 0..8 { let c = *rng.pick(pool); if !admitted(td, c) { v.push(c.as_bytes().to_vec()); break; } }
            }
            v
        };
        let a0 = observe(run, &base, &jpath, "noise", "base");
        // noise in the input files
        let files: Vec<Vec<u8>> = base.files.iter().map(|f| { let ls = pick(rng, &main, main_pool); insert_at_line_boundaries(rng, f, &ls) }).collect();
        let noisy = base.with_input(files, base.joined.clone(), "noise");
        let a1 = observe(run, &noisy, &jpath, "noise", "main");
        run.oracle_checks += 1;
        if without_total(&a0) != without_total(&a1) {
            run.fail(format!("{} ~~> files={:?}", show_case(&base), noisy.files.iter().map(|f| String::from_utf8_lossy(f).to_string()).collect::<Vec<_>>()),
                "e2e-noise-visible:input-file", format!("program output over the input: {}; with non-admitted lines inserted: {}", a0, a1));
        }
        // noise in the joined file
        if let Some((p, Some(b))) = &base.joined {
            let ls = pick(rng, &jtab, join_pool);
            let nb = insert_at_line_boundaries(rng, b, &ls);
            let noisy_j = base.with_input(base.files.clone(), Some((p.clone(), Some(nb.clone()))), "noise");
            let a2 = observe(run, &noisy_j, &jpath, "noise", "joined");
            run.oracle_checks += 1;
            if a0 != a2 {
                run.fail(format!("{} ~~> joined={:?}", show_case(&base), String::from_utf8_lossy(&nb)),
                    "e2e-noise-visible:joined-file", format!("program answer over the input: {}; with non-admitted lines inserted into the joined file: {}", a0, a2));
            }
        }
    }
    let _ = std::fs::remove_file(&jpath);
    run.notes.push(format!("e2e noise relation: {} generated invocations (raw texts, all formats, 1-3 files, LF / CR LF, with and without final newline, joined file), each re-run with 1-3 non-admitted lines per file inserted at byte-level line boundaries, and with non-admitted lines inserted into the joined file; oracle on the implementation: same printed lines and status; every run also compared with Pipeline.runText", n));
}

/// does the content hold a line that is not valid UTF-8 (a chunk up to and including its `\n`, or the unterminated rest)?
fn has_invalid_line(bytes: &[u8]) -> bool {
    bytes.split_inclusive(|b| *b == b'\n').any(|chunk| std::str::from_utf8(chunk).is_err())
}

/// C12 at program level (`multi_file_eq_concat_program`, `invalid_utf8_never_ok`): the program over several
/// newline-terminated files answers exactly as over their concatenation (any texts, any statement, any format), and a
/// statement without LIMIT over input holding an invalid UTF-8 line never ends `ok`
pub fn concat_relation(run: &mut Run, rng: &mut Rng, n: usize) {
    let jpath = tmp_dir().join("e2e-joined-concat.txt");
    let jp = jpath.display().to_string();
    for i in 0..n {
        let focus = *rng.pick(&["select", "group", "join", "limit", "distinct", "print"]);
        let mut base = match i % 6 {
            4 => gen_seam_case(rng, focus, &jp),
            5 => match gen_def_case(rng, focus) { Some(c) => c, None => gen_schema_case(rng, focus, &jp) },
            _ => gen_schema_case(rng, focus, &jp),
        };
        if base.files.is_empty() { continue; }
        // now and then a line that is not valid UTF-8, at a line boundary of one of the files
        if rng.chance(1, 7) {
            let k = rng.below(base.files.len());
            let bad: Vec<u8> = (*rng.pick(&[&b"\xff\xfe"[..], &b"a;1;\xc3"[..], &b"\xe2\x82"[..]])).to_vec();
            base.files[k] = insert_at_line_boundaries(rng, &base.files[k], &[bad]);
        }
        // the hypothesis of the relation: all files but the last end with a newline (or are empty)
        let k = base.files.len();
        for f in base.files[..k - 1].iter_mut() { if !f.is_empty() && *f.last().unwrap() != b'\n' { f.push(b'\n'); } }
        let a0 = observe(run, &base, &jpath, "concat", &format!("files{}", k));
        let one = base.with_input(vec![base.files.concat()], base.joined.clone(), "concat");
        let a1 = observe(run, &one, &jpath, "concat", "one");
        run.oracle_checks += 1;
        if a0 != a1 {
            run.fail(show_case(&base), "e2e-multi-file-neq-concat", format!("program answer over the {} files: {}; over their concatenation: {}", k, a0, a1));
        }
        if base.files.iter().any(|f| has_invalid_line(f)) && !base.query.to_uppercase().contains("LIMIT") {
            run.oracle_checks += 1;
            run.count("e2e:concat:invalid-line");
            for a in [&a0, &a1] {
                if a.starts_with("ok ") {
                    run.fail(show_case(&base), "e2e-invalid-line-ends-ok", format!("an input file holds a line that is not valid UTF-8, the statement has no LIMIT, yet the program reported success: {}", a));
                }
            }
        }
    }
    let _ = std::fs::remove_file(&jpath);
    run.notes.push(format!("e2e concat relation: {} generated invocations (schema / generated-definition / seam cases: rejected texts, undefined tables, missing joined file; all formats; 1 in 7 with an invalid UTF-8 line) over 1-4 newline-terminated files vs the one concatenated file: identical program answer incl. total_lines; no `ok` when a file holds an invalid line and the statement has no LIMIT; every run also compared with Pipeline.runText", n));
}

/// like `layout`, but the files hold EXACTLY the given lines: the final newline is left out only after a non-empty last
/// line (an empty unterminated last line is no line at all for `BufRead::lines`)
fn layout_exact(rng: &mut Rng, lines: &[String]) -> Vec<Vec<u8>> {
    let k = 1 + rng.below(3);
    let mut cuts: Vec<usize> = (0..k - 1).map(|_| rng.below(lines.len() + 1)).collect();
    cuts.sort();
    cuts.push(lines.len());
    let mut files = Vec::new();
    let mut prev = 0;
    for cut in cuts {
        let eol = if rng.chance(1, 4) { "\r\n" } else { "\n" };
        let mut s = lines[prev..cut].join(eol);
        if cut > prev && (lines[cut - 1].is_empty() || !rng.chance(1, 4)) { s.push_str(eol); }
        files.push(s.into_bytes());
        prev = cut;
    }
    files
}

/// C15 at program level (`line_order_irrelevant`): for the caller's order-insensitive aggregate statements over `defs`,
/// permuting the input lines (and re-splitting them over files, other line ends) leaves the program's answer unchanged
pub fn perm_relation(run: &mut Run, rng: &mut Rng, n: usize, defs: &str, query: &dyn Fn(&mut Rng) -> String, input: &dyn Fn(&mut Rng) -> Vec<String>) {
    let jpath = tmp_dir().join("e2e-joined-perm.txt");
    for _ in 0..n {
        let q = query(rng);
        let lines = input(rng);
        let base = Case { defs: defs.to_owned(), query: q, format: gen_format(rng, "group"), single: rng.chance(1, 2), files: layout_exact(rng, &lines), joined: None, family: "perm" };
        let a0 = observe(run, &base, &jpath, "perm", "base");
        let mut perm = lines.clone();
        match rng.below(3) { 0 => perm.sort(), 1 => { perm.sort(); perm.reverse(); } _ => rng.shuffle(&mut perm) }
        let other = base.with_input(layout_exact(rng, &perm), None, "perm");
        let a1 = observe(run, &other, &jpath, "perm", "permuted");
        run.oracle_checks += 1;
        // a run that ends in an error has consumed the lines up to the one without a value: HOW MANY that is depends on the line order
        // and is no part of the result table — an error of the same kind in both orders is the same answer
        let sans_total = |a: &str| -> String {
            if !a.starts_with("err:") { return a.to_owned(); }
            match (a.find(" total="), a.find(" out=")) { (Some(i), Some(j)) if i < j => format!("{}{}", &a[..i], &a[j..]), _ => a.to_owned() }
        };
        if sans_total(&a0) != sans_total(&a1) {
            run.fail(format!("{} permuted files={:?}", show_case(&base), other.files.iter().map(|f| String::from_utf8_lossy(f).to_string()).collect::<Vec<_>>()),
                "e2e-permutation-changes-answer", format!("program answer over the input: {}; over the permuted lines: {}", a0, a1));
        }
    }
    run.notes.push(format!("e2e permutation relation: {} order-insensitive aggregate statements from raw text, all formats, input lines spread over 1-3 files, vs the same lines permuted and spread anew: identical program answer; every run also compared with Pipeline.runText", n));
}

/// the stream on its own (`harness gen E2E …`, `./check E2E`): every focus in turn
pub fn run(p: &Params) -> Run {
    let mut run = Run::new("E2E");
    let mut rng = Rng::new(p.seed ^ 0xe2e);
    let n = p.n(200, 4000);
    for focus in &["select", "group", "join", "limit", "distinct", "print"] {
        stream(&mut run, &mut rng, n, focus);
    }
    // the relations of Props/PipelineLines.lean on the implementation (also run by C06 / C12 / C15 with their own seeds)
    noise_relation(&mut run, &mut rng, p.n(40, 800), &crate::c06::spec_admitted, crate::c06::MAIN_NOISE, crate::c06::JOIN_NOISE);
    concat_relation(&mut run, &mut rng, p.n(60, 1200));
    for focus in &["select", "group", "limit"] { crate::e2ef::stream(&mut run, &mut rng, p.n(80, 1500), focus); }
    perm_relation(&mut run, &mut rng, p.n(40, 800), crate::c04::C04_DEF, &crate::c15::query, &|rng: &mut Rng| crate::c04::gen_typed_input(rng, false));
    run
}
