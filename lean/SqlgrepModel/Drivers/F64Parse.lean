import SqlgrepModel.Sexp
import SqlgrepModel.Model.DecFloat
/- Driver handler validating `Model/DecFloat.lean` itself: `f64parse xHEX` → `ok BITS` | `err`, the answer of
`DecFloat.parseF64N` on the UTF-8 bytes of the text. The harness asks Rust's `str::parse::<f64>()` about the same text. -/
namespace Sqlgrep.Drivers.F64Parse
open Sqlgrep

def handle (args : List Sexp) : String :=
  match args with
  | [t] =>
    match t.bytes? with
    | some bs =>
      match DecFloat.parseF64N bs with
      | some b => s!"ok {b}"
      | none => "err"
    | none => "bad-case"
  | _ => "bad-case"

end Sqlgrep.Drivers.F64Parse
