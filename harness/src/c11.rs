// C11: incremental (tail -f) results equal a batch run over the same prefix.
use crate::c04::{gen_input, gen_typed_input, gen_typed_query, join_lines, C04_DEF};
use crate::engine_run::*;
use crate::queries::*;
use crate::run::{Params, Run};
use crate::util::Rng;

fn one_case(run: &mut Run, defs: &str, text: &str, is_aggregate: bool, lines: &[String]) {
    one_case_joined(run, defs, text, is_aggregate, lines, b"", "")
}

fn one_case_joined(run: &mut Run, defs: &str, text: &str, is_aggregate: bool, lines: &[String], joined: &[u8], jpath: &str) {
        let prepared = match prepare(defs, &text) { Ok(p) => p, Err(_) => { run.count("rejected"); return; } };
        let (wire, steps) = run_incremental(&prepared, &lines);
        let desc = if joined.is_empty() { format!("query={} input={:?}", text, lines) } else { format!("query={} input={:?} joined={:?}", text.replace(jpath, "J"), lines, String::from_utf8_lossy(joined)) };
        // correspondence with the model's line-at-a-time driver
        if let Some(case) = incr_case(&prepared, joined, &join_lines(&lines)) {
            let kind = if wire.contains("err:") { "err" } else if wire.contains("panic") { "panic" } else { "ok" };
            run.case_with_desc(case, wire.clone(), format!("{}:{}:d{}:h{}:n{}", if is_aggregate { "agg" } else { "sel" }, kind, text.contains("DISTINCT") as u8, text.contains("HAVING") as u8, lines.len().min(5)), desc.clone());
        }
        if wire.contains("panic") {
            run.oracle_checks += 1;
            run.fail(desc.clone(), "panic:incremental", "line-at-a-time execution panicked".to_owned());
            return;
        }
        if wire.contains("err:") { run.count("incremental-error"); return; }
        // the relation, evaluated on the implementation for every prefix
        let mut shown: Option<Vec<String>> = None; // records of the last table shown (aggregate)
        let mut emitted: Vec<String> = Vec::new(); // all records emitted so far (non-aggregate)
        let mut prev_batch: Vec<String> = Vec::new();
        for k in 1..=lines.len() {
            run.oracle_checks += 1;
            let batch = run_files(&prepared, &[join_lines(&lines[..k])]);
            if batch.status != "ok" { break; }
            let render = |cols: &Vec<String>, rows: &Vec<Vec<sqlgrep::model::Value>>| -> Vec<String> {
                rows.iter().map(|r| if cols.len() == 1 && cols[0] == "input" { format!("{}", r[0]) } else { cols.iter().zip(r.iter()).map(|(c, v)| format!("{}: {}", c, v)).collect::<Vec<_>>().join(", ") }).collect()
            };
            if is_aggregate {
                if let Some(Some((cols, rows))) = steps.get(k - 1) { shown = Some(render(cols, rows)); }
                let table = shown.clone().unwrap_or_default();
                if table != batch.records() {
                    // known finding D60 only if the two tables differ EXACTLY as the finding says: equal once `-0.0 ↦ 0.0`
                    // (NaN payloads canonical) is applied to the GROUP BY KEY columns — the select-list items that are group
                    // keys — and to no other cell, different raw; decided at value level. A sign difference in a SUM(r) /
                    // MIN(r) / … cell is not a different representative of a key and stays `incremental-table-differs`.
                    let key_cols: Vec<bool> = match &prepared.statement {
                        sqlgrep::Statement::Aggregate(a) => a.aggregates.iter().map(|it| matches!(it.aggregate, sqlgrep::model::Aggregate::GroupKey(_))).collect(),
                        _ => Vec::new(),
                    };
                    let last_rows = steps[..k].iter().rev().find_map(|s| s.as_ref());
                    let d60 = match (last_rows, run_batch_rows(&prepared, &lines[..k])) {
                        (Some((fc, fr)), Some((bc, br))) => {
                            let canon = |rows: &Vec<Vec<sqlgrep::model::Value>>| -> Vec<Vec<sqlgrep::model::Value>> {
                                rows.iter().map(|r| r.iter().enumerate().map(|(i, v)| if key_cols.get(i) == Some(&true) && r.len() == key_cols.len() { canon_zero_nan(v) } else { v.clone() }).collect()).collect()
                            };
                            *fc == bc && render(&bc, &br) == batch.records() && render(fc, &canon(fr)) == render(&bc, &canon(&br))
                        }
                        _ => false,
                    };
                    let class = if d60 { "D60:key-representative-differs" } else { "incremental-table-differs" };
                    run.fail(format!("{} k={}", desc, k), class, format!("after line {} the table shown is {:?} but a batch run over the first {} lines gives {:?}", k, table, k, batch.records()));
                    break;
                }
            } else {
                let new: Vec<String> = match steps.get(k - 1) { Some(Some((cols, rows))) => render(cols, rows), _ => Vec::new() };
                emitted.extend(new.clone());
                let b = batch.records();
                let ext_ok = b.len() >= prev_batch.len() && b[..prev_batch.len()] == prev_batch[..] && b[prev_batch.len()..] == new[..];
                if !ext_ok {
                    run.fail(format!("{} k={}", desc, k), "incremental-rows-differ", format!("line {} emitted {:?} but batch output grew from {:?} to {:?}", k, new, prev_batch, b));
                    break;
                }
                prev_batch = b;
            }
        }
    }

pub fn run(p: &Params) -> Run {
    let mut run = Run::new("C11");
    let mut rng = Rng::new(p.seed ^ 0x11);
    let n = p.n(1200, 40_000);
    let opts = QueryOpts { allow_limit: false, allow_distinct: true, allow_join: false, aggregate: None };
    for _ in 0..n {
        let sch = gen_schema(&mut rng);
        let gq = gen_query(&mut rng, &sch, &opts, "");
        let nl = rng.below(9);
        let np = *rng.pick(&[10u64, 30, 60]);
        let lines = gen_input(&mut rng, nl, np, false);
        one_case(&mut run, &sch.defs, &gq.text, gq.is_aggregate, &lines);
    }
    // targeted stream: HAVING over ONE aggregate of every kind, thresholds inside the data range and inputs whose
    // values alternate low / high inside one group, so that the group's HAVING outcome flips back and forth as lines
    // arrive (the table shown after line k must follow every flip)
    const HAVING_AGGS: &[&str] = &["COUNT(*)", "COUNT(v)", "COUNT(DISTINCT v)", "SUM(v)", "MIN(v)", "MAX(v)", "AVG(v)", "STDDEV(v)", "VARIANCE(v)",
        "PERCENTILE(v, 0.5)", "PERCENTILE(v, 0.9)", "PERCENTILE(w, 0.5)", "SUM(w)", "AVG(w)"];
    const SELECT_ITEMS: &[&str] = &["COUNT(*)", "SUM(w)", "MAX(v)", "MIN(w)", "PERCENTILE(v, 0.5)", "COUNT(DISTINCT w)", "AVG(v)"];
    let m = p.n(400, 12_000);
    for _ in 0..m {
        let sch = gen_schema(&mut rng);
        let grouped = rng.chance(3, 4);
        let mut items: Vec<String> = Vec::new();
        if grouped { items.push("k".to_owned()); }
        for _ in 0..1 + rng.below(2) { items.push((*rng.pick(SELECT_ITEMS)).to_owned()); }
        let having = if rng.chance(1, 8) {
            format!("{}(v {} {})", rng.pick(&["BOOL_AND", "BOOL_OR"]), rng.pick(&[">", "<"]), rng.pick(&["5", "50"]))
        } else {
            format!("{} {} {}", rng.pick(HAVING_AGGS), rng.pick(&[">", ">=", "<", "<=", "=", "!="]), rng.pick(&["1", "2", "5", "50", "100"]))
        };
        let text = format!("SELECT {}{} FROM t{} HAVING {}", if rng.chance(1, 6) { "DISTINCT " } else { "" }, items.join(", "), if grouped { " GROUP BY k" } else { "" }, having);
        let nl = 2 + rng.below(9);
        let (lo, hi) = *rng.pick(&[(1i64, 100i64), (0, 9), (2, 60), (-5, 5)]);
        let lines: Vec<String> = (0..nl).map(|i| {
            let k = if rng.chance(4, 5) { "a" } else { "b" };
            let v = if rng.chance(1, 10) { String::new() } else if (i + rng.below(4) / 3) % 2 == 0 { lo.to_string() } else { hi.to_string() };
            let w = if rng.chance(1, 2) { lo } else { hi };
            format!("{};{};{};0.5;x;", k, v, w)
        }).collect();
        one_case(&mut run, &sch.defs, &text, true, &lines);
    }
    // third stream: a split table admits the EMPTY line (field 0 is the empty TEXT), so "the first k lines" must
    // count empty lines in batch mode exactly as the line-at-a-time engine does
    const SPLIT_DEF: &str = "CREATE TABLE s(line = split ';', line[0] => a TEXT, line[1] => b TEXT, line[2] => n INT);";
    const SPLIT_QUERIES: &[&str] = &["SELECT a, b FROM s", "SELECT input FROM s", "SELECT DISTINCT a FROM s", "SELECT COUNT(*) FROM s", "SELECT a, COUNT(*), SUM(n) FROM s GROUP BY a",
        "SELECT COUNT(b), MAX(n) FROM s", "SELECT a, COUNT(*) FROM s GROUP BY a HAVING COUNT(*) > 1", "SELECT * FROM s WHERE b IS NULL"];
    let m3 = p.n(120, 4_000);
    for _ in 0..m3 {
        let nl = 1 + rng.below(8);
        let lines: Vec<String> = (0..nl).map(|_| match rng.below(6) {
            0 | 1 => String::new(),
            2 => (*rng.pick(&[";", ";;", " ", ";x"])).to_owned(),
            _ => format!("{};{};{}", rng.pick(&["a", "b", ""]), rng.pick(&["x", "", "y"]), rng.below(5)),
        }).collect();
        let q = *rng.pick(SPLIT_QUERIES);
        one_case(&mut run, SPLIT_DEF, q, !q.starts_with("SELECT a, b") && !q.starts_with("SELECT input") && !q.starts_with("SELECT DISTINCT") && !q.starts_with("SELECT *"), &lines);
    }
    run.notes.push("targeted streams: HAVING over one aggregate of every kind with thresholds inside the data range and alternating low/high values (the outcome flips as lines arrive); a split table that admits the empty line (the first k lines must count empty lines in batch mode as line-at-a-time does)".to_owned());
    // fourth stream: typed aggregate statements (every aggregate kind over TEXT / INT / REAL / BOOLEAN / INTERVAL / TIMESTAMP
    // arguments, arithmetic wrappers, HAVING as boolean combinations with repeated aggregates) over short inputs with
    // all-NULL columns and NULLs in the first / middle / last row of a group
    let m4 = p.n(500, 20_000);
    for _ in 0..m4 {
        let q = gen_typed_query(&mut rng);
        let mut lines = gen_typed_input(&mut rng, false);
        lines.truncate(10);
        one_case(&mut run, C04_DEF, &q.sql(), true, &lines);
    }
    // fifth stream: statements over a JOIN (fan-out 0, 1 and more); the relation is demanded as for every statement: for
    // aggregates a line with several partners shows ONE table, the batch table (D61, repaired in 7277b4c, is a failure again)
    let m5 = p.n(300, 10_000);
    let jpath = crate::runq::tmp_file(b"");
    let jp = jpath.display().to_string();
    let jopts = QueryOpts { allow_limit: false, allow_distinct: true, allow_join: true, aggregate: None };
    for _ in 0..m5 {
        let sch = gen_schema(&mut rng);
        let mut gq = gen_query(&mut rng, &sch, &jopts, &jp);
        let mut tries = 0;
        while !gq.joined && tries < 6 { gq = gen_query(&mut rng, &sch, &jopts, &jp); tries += 1; }
        if !gq.joined { continue; }
        let jlines: Vec<String> = (0..rng.below(8)).map(|_| gen_join_line(&mut rng)).collect();
        let joined_bytes = join_lines(&jlines);
        std::fs::write(&jpath, &joined_bytes).unwrap();
        let nl = rng.below(8);
        let lines = gen_input(&mut rng, nl, 15, false);
        one_case_joined(&mut run, &sch.defs, &gq.text, gq.is_aggregate, &lines, &joined_bytes, &jp);
    }
    // … and aimed at the fan-out: aggregates over a join whose WHERE looks at a joined-side column, joined files in which every key
    // has two to four partners that pass and fail the WHERE in every order (a line whose LAST partner fails still changes the table)
    for _ in 0..p.n(120, 3000) {
        let sch = gen_schema(&mut rng);
        let cond = *rng.pick(&["u.v > 0", "u.v >= 2", "u.y = 'x'", "u.v < 0 OR u.y IS NULL", "NOT (u.v > 0)"]);
        let kind = if rng.chance(1, 4) { "OUTER" } else { "INNER" };
        let text = match rng.below(3) {
            0 => format!("SELECT COUNT(*), SUM(u.v) FROM t {} JOIN u::'{}' ON t.k = u.k WHERE {}", kind, jp, cond),
            1 => format!("SELECT t.k, COUNT(*), MAX(u.v), MIN(t.v) FROM t {} JOIN u::'{}' ON t.k = u.k WHERE {} GROUP BY t.k", kind, jp, cond),
            _ => format!("SELECT COUNT(u.y), COUNT(DISTINCT u.v) FROM t {} JOIN u::'{}' ON t.k = u.k WHERE {} HAVING COUNT(*) > 0", kind, jp, cond),
        };
        let mut jlines: Vec<String> = Vec::new();
        for key in ["a", "b", "ab"] {
            for _ in 0..rng.below(5) { jlines.push(format!("#{};{};{}", key, rng.pick(&["-2", "-1", "1", "2", "3", ""]), rng.pick(&["x", "y", ""]))); }
        }
        let joined_bytes = join_lines(&jlines);
        std::fs::write(&jpath, &joined_bytes).unwrap();
        let lines: Vec<String> = (0..1 + rng.below(6)).map(|_| format!("{};{};{};0.5;x;", rng.pick(&["a", "b", "ab", "c"]), rng.range(-2, 9), rng.below(3))).collect();
        run.count("join-where-on-joined-column");
        one_case_joined(&mut run, &sch.defs, &text, true, &lines, &joined_bytes, &jp);
    }
    let _ = std::fs::remove_file(&jpath);
    // sixth stream: what the follow executor SHOWS (screen after every refresh = batch output over the lines so far)
    crate::c11x::executor_stream(&mut run, &mut rng, p.n(150, 3_000));
    run.notes.push("statements without LIMIT (SELECT and aggregate, DISTINCT, HAVING) fed line by line with the default config; every prefix compared with a fresh batch run".to_owned());
    // the whole program in follow mode: raw texts, a real growing file, every output format (Props/PipelineFollow.lean)
    let mut frng = Rng::new(p.seed ^ 0xC11e2ef);
    for focus in &["group", "distinct"] { crate::e2ef::stream(&mut run, &mut frng, p.n(100, 2000), focus); }
    run
}
