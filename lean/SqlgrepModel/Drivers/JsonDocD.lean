import SqlgrepModel.Sexp
import SqlgrepModel.Model.JsonDoc
/- Driver handler validating `Model/JsonDoc.lean` itself: `jsondoc xHEX` → `doc J` (the wire form of the
`serde_json::Value`, as `harness/src/extract.rs::json_sexp` writes it) or `notjson`. The harness asks
`serde_json::from_str::<Value>` about the same bytes. -/
namespace Sqlgrep.Drivers.JsonDocD
open Sqlgrep

mutual
/-- `J = null | (b 0|1) | (pi N BITS) | (ni N BITS) | (fl BITS) | (s xHEX) | (a J…) | (o (xKEY J)…)` -/
def jsonWire : Json → String
  | .null => "null"
  | .bool b => if b then "(b 1)" else "(b 0)"
  | .num (.posInt n f) => s!"(pi {n} {f})"
  | .num (.negInt n f) => s!"(ni {n} {f})"
  | .num (.float b) => s!"(fl {b})"
  | .str s => s!"(s {Sexp.showBytes s})"
  | .arr xs => "(a" ++ jsonsWire xs ++ ")"
  | .obj kvs => "(o" ++ membersWire kvs ++ ")"
def jsonsWire : List Json → String
  | [] => ""
  | x :: xs => " " ++ jsonWire x ++ jsonsWire xs
def membersWire : List (List Nat × Json) → String
  | [] => ""
  | (k, v) :: kvs => " (" ++ Sexp.showBytes k ++ " " ++ jsonWire v ++ ")" ++ membersWire kvs
end

def docWire : Option Json → String
  | some j => "doc " ++ jsonWire j
  | none => "notjson"

def handle (args : List Sexp) : String :=
  match args with
  | [t] =>
    match t.bytes? with
    | some bs => docWire (JsonDoc.docOfLine bs)
    | none => "bad-case"
  | _ => "bad-case"

end Sqlgrep.Drivers.JsonDocD
