import SqlgrepModel.Lemmas.IterOrder
/-
Every engine operation respects `StRel` (same maps, any iteration order of the inner hash maps) and gives
equal outputs on related states; `publishPercentiles` — the one loop of the code that iterates a hash map —
is independent of the iteration order.
-/
namespace Sqlgrep.Iter
open Sqlgrep

/-! ### updates -/

theorem updateAggregate_rel (O : Oracles) (q : AggStmt) (env : Env) (key : List Value) (idx : Nat) (k : AggKind)
    {a b : AggState} (h : StRel a b) :
    ORel StRel (updateAggregate O q env key idx k a) (updateAggregate O q env key idx k b) := by
  unfold updateAggregate
  rw [h.readCell]
  exact ORel.bind (ORel.refl _) (fun c c' e => by subst e; exact h.writeCell key idx c)

theorem updateAggregates_rel (O : Oracles) (q : AggStmt) (env : Env) (key : List Value) (l : List (Nat × AggKind))
    {a b : AggState} (h : StRel a b) :
    ORel StRel (updateAggregates O q env key l a) (updateAggregates O q env key l b) := by
  induction l generalizing a b with
  | nil => exact h
  | cons p rest ih =>
    obtain ⟨i, k⟩ := p
    unfold updateAggregates
    exact ORel.bind (updateAggregate_rel O q env key i k h) (fun _ _ h' => ih h')

theorem havingUpdates_rel (O : Oracles) (q : AggStmt) (env : Env) (key : List Value) (l : List HavingRef) (j : Nat)
    {a b : AggState} (h : StRel a b) :
    ORel StRel (havingUpdates O q env key l j a) (havingUpdates O q env key l j b) := by
  induction l generalizing a b j with
  | nil => exact h
  | cons r rest ih =>
    cases r with
    | key canon =>
      unfold havingUpdates
      exact ORel.bind (ORel.refl _) (fun _ _ _ => ih j h)
    | agg id kind =>
      unfold havingUpdates
      exact ORel.bind (updateAggregate_rel O q env key _ kind h) (fun _ _ h' => ih (j + 1) h')

def PairRel (p1 p2 : AggState × Bool) : Prop := StRel p1.1 p2.1 ∧ p1.2 = p2.2

theorem aggUpdateRow_rel (O : Oracles) (q : AggStmt) (env : Env) {a b : AggState} (h : StRel a b) :
    ORel PairRel (aggUpdateRow O q a env) (aggUpdateRow O q b env) := by
  unfold aggUpdateRow
  refine ORel.bind (ORel.refl _) (fun valid valid' e => ?_)
  subst e
  by_cases hv : valid = true
  · simp only [hv, Bool.not_true, Bool.false_eq_true, if_false]
    refine ORel.bind (ORel.refl _) (fun key key' e => ?_)
    subst e
    refine ORel.bind (updateAggregates_rel O q env key _ h) (fun s s' hs => ?_)
    refine ORel.bind (R := StRel) ?_ (fun s s' hs' => ⟨hs', rfl⟩)
    cases q.having with
    | none => exact hs
    | some _ => exact havingUpdates_rel O q env key _ 0 hs
  · have : valid = false := by simpa using hv
    simp only [this, Bool.not_false, if_true]
    exact ⟨h, rfl⟩

/-! ### the percentile publishing loop: the hash-map iteration -/

/-- what the loop body does for one entry of the inner hash map of group `key` -/
def pubStep (key : List Value) (st : AggState) (e : Nat × Aggregator) : AggState :=
  match e.2 with
  | .percentile vals p =>
    match percentileValue vals p with
    | some v => setVal st key e.1 v
    | none => st
  | _ => st

theorem publishPercentiles_eq (st : AggState) :
    publishPercentiles st = st.aggs.foldl (fun acc g => g.2.foldl (pubStep g.1) acc) st := by
  rfl

theorem pubStep_rel (key : List Value) {a b : AggState} (h : StRel a b) (e : Nat × Aggregator) :
    StRel (pubStep key a e) (pubStep key b e) := by
  unfold pubStep
  cases he : e.2 with
  | percentile vals p =>
    dsimp only
    cases percentileValue vals p with
    | none => exact h
    | some v => exact h.setVal key e.1 v
  | _ => exact h

theorem pubStep_aggs (key : List Value) (a : AggState) (e : Nat × Aggregator) : (pubStep key a e).aggs = a.aggs := by
  unfold pubStep
  cases he : e.2 with
  | percentile vals p =>
    dsimp only
    cases percentileValue vals p <;> rfl
  | _ => rfl

theorem pubStep_comm (key : List Value) {a b : AggState} (h : StRel a b) (x y : Nat × Aggregator) (hxy : x.1 ≠ y.1) :
    StRel (pubStep key (pubStep key a x) y) (pubStep key (pubStep key b y) x) := by
  unfold pubStep
  cases hx2 : x.2 with
  | percentile vx px =>
    dsimp only
    cases hpx : percentileValue vx px with
    | some v =>
      dsimp only
      cases hy2 : y.2 with
      | percentile vy py =>
        dsimp only
        cases hpy : percentileValue vy py with
        | some w => exact ⟨h.aggs, h.vals.set_comm key x.1 y.1 v w hxy⟩
        | none => exact h.setVal key x.1 v
      | _ => exact h.setVal key x.1 v
    | none =>
      dsimp only
      cases hy2 : y.2 with
      | percentile vy py =>
        dsimp only
        cases hpy : percentileValue vy py with
        | some w => exact h.setVal key y.1 w
        | none => exact h
      | _ => exact h
  | _ =>
    dsimp only
    cases hy2 : y.2 with
    | percentile vy py =>
      dsimp only
      cases hpy : percentileValue vy py with
      | some w => exact h.setVal key y.1 w
      | none => exact h
    | _ => exact h

theorem foldl_pubStep_rel (key : List Value) (l : List (Nat × Aggregator)) {a b : AggState} (h : StRel a b) :
    StRel (l.foldl (pubStep key) a) (l.foldl (pubStep key) b) := by
  induction l generalizing a b with
  | nil => exact h
  | cons x l ih => exact ih (pubStep_rel key h x)

/-- **the iteration order of the inner hash map does not matter**: folding the publishing step over any
permutation of the entries gives the same maps -/
theorem foldl_pubStep_perm (key : List Value) {l1 l2 : List (Nat × Aggregator)} (p : l1.Perm l2)
    (hn : (keys l1).Nodup) {a b : AggState} (h : StRel a b) :
    StRel (l1.foldl (pubStep key) a) (l2.foldl (pubStep key) b) := by
  induction p generalizing a b with
  | nil => exact h
  | cons x _ ih =>
    simp only [List.foldl_cons]
    exact ih (List.nodup_cons.1 hn).2 (pubStep_rel key h x)
  | swap x y l =>
    simp only [List.foldl_cons]
    have hne : y.1 ≠ x.1 := by
      have := (List.nodup_cons.1 hn).1
      intro e
      apply this
      simp [e]
    exact foldl_pubStep_rel key l (pubStep_comm key h y x hne)
  | trans p1 _ ih1 ih2 =>
    have hn2 := (List.Perm.map (·.1) p1).nodup hn
    exact (ih1 hn h).trans (ih2 hn2 (h.symm.trans h))

theorem foldl_pubStep_aggs (key : List Value) (l : List (Nat × Aggregator)) (a : AggState) :
    (l.foldl (pubStep key) a).aggs = a.aggs := by
  induction l generalizing a with
  | nil => rfl
  | cons x l ih => rw [List.foldl_cons, ih, pubStep_aggs]

theorem publish_groups_rel {g1 g2 : GroupMap Aggregator} (hg : GmEq g1 g2) {a b : AggState} (h : StRel a b) :
    StRel (g1.foldl (fun acc g => g.2.foldl (pubStep g.1) acc) a) (g2.foldl (fun acc g => g.2.foldl (pubStep g.1) acc) b) := by
  induction hg generalizing a b with
  | nil => exact h
  | cons hs _ ih =>
    simp only [List.foldl_cons]
    exact ih (foldl_pubStep_perm _ hs.perm hs.2.1 h)

/-- `publishPercentiles` on two representations of the same state (any iteration orders) gives the same state -/
theorem publishPercentiles_rel {a b : AggState} (h : StRel a b) : StRel (publishPercentiles a) (publishPercentiles b) := by
  rw [publishPercentiles_eq, publishPercentiles_eq]
  exact publish_groups_rel h.aggs h

end Sqlgrep.Iter

namespace Sqlgrep.Iter
open Sqlgrep

/-! ### results read the inner maps by lookup only -/

theorem cellOf_rel (O : Oracles) (q : AggStmt) (idx : Nat) (item : AggItem) (key : List Value)
    {s1 s2 : List (Nat × Value)} (h : SubRel s1 s2) : cellOf O q idx item key s1 = cellOf O q idx item key s2 := by
  unfold cellOf
  rw [h.1 idx]

theorem rowOf_rel (O : Oracles) (q : AggStmt) (key : List Value) {s1 s2 : List (Nat × Value)} (h : SubRel s1 s2)
    (items : List (Nat × AggItem)) : rowOf O q key s1 items = rowOf O q key s2 items := by
  induction items with
  | nil => rfl
  | cons p rest ih =>
    obtain ⟨i, item⟩ := p
    unfold rowOf
    rw [cellOf_rel O q i item key h, ih]

theorem acceptGroup_rel (O : Oracles) (q : AggStmt) (having : Expr) (key : List Value) {s1 s2 : List (Nat × Value)}
    (h : SubRel s1 s2) : acceptGroup O q having key s1 = acceptGroup O q having key s2 := by
  unfold acceptGroup
  have : ∀ j, alGet s1 j = alGet s2 j := h.1
  simp only [this]

theorem resultRows_rel (O : Oracles) (q : AggStmt) {v1 v2 : GroupMap Value} (h : GmEq v1 v2) (seen : List (List Value)) :
    resultRows O q v1 seen = resultRows O q v2 seen := by
  induction h generalizing seen with
  | nil => rfl
  | @cons k s1 s2 r1 r2 hs _ ih =>
    unfold resultRows
    rw [rowOf_rel O q k hs]
    have ha : ∀ hv, acceptGroup O q hv k s1 = acceptGroup O q hv k s2 := fun hv => acceptGroup_rel O q hv k hs
    simp only [ha, ih]

theorem aggColumn_rel (O : Oracles) (q : AggStmt) (i : Nat) (item : AggItem) {v1 v2 : GroupMap Value} (h : GmEq v1 v2) :
    aggColumn O q i item v1 = aggColumn O q i item v2 := by
  induction h with
  | nil => rfl
  | @cons k s1 s2 r1 r2 hs _ ih =>
    unfold aggColumn
    rw [cellOf_rel O q i item k hs, ih]

/-- the column pass of `execute_result` (`extract_result_rows_by_column`) -/
theorem checkRows_rel (O : Oracles) (q : AggStmt) {v1 v2 : GroupMap Value} (h : GmEq v1 v2) (items : List (Nat × AggItem)) :
    aggColumns O q v1 items = aggColumns O q v2 items := by
  induction items with
  | nil => rfl
  | cons p rest ih =>
    obtain ⟨i, item⟩ := p
    unfold aggColumns
    rw [aggColumn_rel O q i item h, ih]

def ResRel (p1 p2 : AggState × RowOut) : Prop := StRel p1.1 p2.1 ∧ p1.2 = p2.2

theorem aggResult_rel (O : Oracles) (q : AggStmt) {a b : AggState} (h : StRel a b) :
    ORel ResRel (aggResult O q a) (aggResult O q b) := by
  have hp := publishPercentiles_rel h
  unfold aggResult
  simp only
  have e1 := checkRows_rel O q hp.vals (enumFrom 0 q.items)
  have e2 := resultRows_rel O q hp.vals []
  refine ORel.bind (R := Eq) ?_ (fun _ _ _ => ?_)
  · have : ∀ x y : Outcome (List (List Value)), x = y → ORel Eq x y := fun x y e => e ▸ ORel.refl x
    exact this _ _ e1
  · rw [e2]
    exact ORel.bind (ORel.refl _) (fun rows rows' e => by subst e; exact ⟨hp, rfl⟩)

theorem finalResult_rel (O : Oracles) (q : AggStmt) {e1 e2 : EngineState} (h : StRel e1.agg e2.agg) :
    finalResult O q e1 = finalResult O q e2 := by
  unfold finalResult
  apply ORel.eq
  refine ORel.bind (aggResult_rel O q h) (fun p p' hp => ?_)
  obtain ⟨_, o⟩ := p
  obtain ⟨_, o'⟩ := p'
  have : o = o' := hp.2
  subst this
  exact ORel.refl _

/-! ### the engine -/

structure ERel (a b : EngineState) : Prop where
  seen : a.seen = b.seen
  agg : StRel a.agg b.agg
  numOut : a.numOut = b.numOut

def LineRel (p1 p2 : EngineState × LineOut) : Prop := ERel p1.1 p2.1 ∧ p1.2 = p2.2

theorem updateLimit_rel (isSelect : Bool) (limit : Option Nat) {a b : EngineState} (h : ERel a b) (r : Option RowOut) :
    LineRel (updateLimit isSelect limit a r) (updateLimit isSelect limit b r) := by
  unfold updateLimit
  simp only [h.numOut]
  exact ⟨⟨h.seen, h.agg, rfl⟩, rfl⟩

theorem aggEnvs_rel (O : Oracles) (q : AggStmt) (envs : List (Env × List String)) {a b : AggState} (h : StRel a b) (any : Bool) :
    ORel PairRel (aggEnvs O q envs a any) (aggEnvs O q envs b any) := by
  induction envs generalizing a b any with
  | nil => exact ⟨h, rfl⟩
  | cons p rest ih =>
    obtain ⟨env, ks⟩ := p
    unfold aggEnvs
    refine ORel.bind (aggUpdateRow_rel O q env h) (fun p p' hp => ?_)
    obtain ⟨s, u⟩ := p
    obtain ⟨s', u'⟩ := p'
    have : u = u' := hp.2
    subst this
    exact ih hp.1 _

theorem executeLine_rel (O : Oracles) (qy : Query) (idx : JoinIndex) (w : Bool) {a b : EngineState} (h : ERel a b) (l : Line) :
    ORel LineRel (executeLine O qy idx w a l) (executeLine O qy idx w b l) := by
  unfold executeLine
  cases qy.stmt with
  | select q =>
    simp only
    by_cases hr : anyResult l.row = true
    · simp only [hr, Bool.not_true, Bool.false_eq_true, if_false]
      refine ORel.bind (ORel.refl _) (fun envs envs' e => ?_)
      subst e
      rw [h.seen]
      refine ORel.bind (ORel.refl _) (fun p p' e => ?_)
      subst e
      have e : ERel { a with seen := p.1 } { b with seen := p.1 } := ⟨rfl, h.agg, h.numOut⟩
      exact updateLimit_rel true q.limit e _
    · have : anyResult l.row = false := by simpa using hr
      simp only [this, Bool.not_false, if_true]
      exact updateLimit_rel true q.limit h none
  | aggregate q =>
    simp only
    by_cases hr : anyResult l.row = true
    · simp only [hr, Bool.not_true, Bool.false_eq_true, if_false]
      refine ORel.bind (ORel.refl _) (fun envs envs' e => ?_)
      subst e
      cases w with
      | true =>
        simp only [if_true]
        refine ORel.bind (aggEnvs_rel O q envs h.agg false) (fun p p' hp => ?_)
        obtain ⟨s, u⟩ := p
        obtain ⟨s', u'⟩ := p'
        have : u = u' := hp.2
        subst this
        cases u with
        | false =>
          simp only [Bool.false_eq_true, if_false]
          have e : ERel { a with agg := s } { b with agg := s' } := ⟨h.seen, hp.1, h.numOut⟩
          exact updateLimit_rel false q.limit e _
        | true =>
          simp only [if_true]
          refine ORel.bind (aggResult_rel O q hp.1) (fun r r' hr => ?_)
          obtain ⟨t, out⟩ := r
          obtain ⟨t', out'⟩ := r'
          have : out = out' := hr.2
          subst this
          have e : ERel { a with agg := t } { b with agg := t' } := ⟨h.seen, hr.1, h.numOut⟩
          exact updateLimit_rel false q.limit e _
      | false =>
        simp only [Bool.false_eq_true, if_false]
        refine ORel.bind (aggEnvs_rel O q envs h.agg false) (fun p p' hp => ?_)
        have e : ERel { a with agg := p.1 } { b with agg := p'.1 } := ⟨h.seen, hp.1, h.numOut⟩
        exact ⟨e, rfl⟩
    · have : anyResult l.row = false := by simpa using hr
      simp only [this, Bool.not_false, if_true]
      cases w with
      | true => exact updateLimit_rel false q.limit h none
      | false => exact ⟨h, rfl⟩

theorem reachedLimit_rel (qy : Query) {a b : EngineState} (h : ERel a b) : reachedLimit qy a = reachedLimit qy b := by
  unfold reachedLimit
  rw [h.numOut]

end Sqlgrep.Iter
