import SqlgrepModel.Model.Exec
/-
Executable SPECIFICATION of aggregate queries (property C04), written from the property sentence:
group the rows that pass WHERE by key, one output row per distinct key in ascending order, every cell
computed from exactly the rows of its group. `batch` returns the spec's answer for a whole batch run, or
`none` where the specification does not fix the outcome (errors, oracle gaps).
-/
namespace Sqlgrep.Spec.Agg
open Sqlgrep

/-- spec answer for a batch run of an aggregate statement, with the name of a known deviation class of the
implementation if the case falls into one (`""` otherwise) -/
def batch (_O : Oracles) (_qy : Query) (_q : AggStmt) (_joined : List FileLine) (_files : List (List FileLine)) :
    Option (RunOut × String) := none

end Sqlgrep.Spec.Agg
