import SqlgrepModel.Lemmas.Lower
/-
Letter case of function and aggregate names does not matter to the lowering: every lookup goes through
`lowerChars`; the only trace of the spelling is the payload of `UndefinedFunction`.
-/
namespace Sqlgrep

mutual
/-- respell every call name of a tree -/
def PExpr.renameCalls (ρ : List Char → List Char) : PExpr → PExpr
  | .value l v => .value l v
  | .column l n => .column l n
  | .wildcard l => .wildcard l
  | .tuple l vs => .tuple l (PExpr.renameCallsList ρ vs)
  | .binop l o a b => .binop l o (a.renameCalls ρ) (b.renameCalls ρ)
  | .boolop l o a b => .boolop l o (a.renameCalls ρ) (b.renameCalls ρ)
  | .unop l o e => .unop l o (e.renameCalls ρ)
  | .invert l e => .invert l (e.renameCalls ρ)
  | .nullcmp l n a b => .nullcmp l n (a.renameCalls ρ) (b.renameCalls ρ)
  | .inList l n e vs => .inList l n (e.renameCalls ρ) (PExpr.renameCallsList ρ vs)
  | .call l n args d => .call l (ρ n) (PExpr.renameCallsList ρ args) d
  | .index l a i => .index l (a.renameCalls ρ) (i.renameCalls ρ)
  | .cast l e t => .cast l (e.renameCalls ρ) t
  | .case l cs els => .case l (PExpr.renameCallsClauses ρ cs) (els.renameCalls ρ)
def PExpr.renameCallsList (ρ : List Char → List Char) : List PExpr → List PExpr
  | [] => []
  | x :: xs => x.renameCalls ρ :: PExpr.renameCallsList ρ xs
def PExpr.renameCallsClauses (ρ : List Char → List Char) : List (PExpr × PExpr) → List (PExpr × PExpr)
  | [] => []
  | (c, r) :: xs => (c.renameCalls ρ, r.renameCalls ρ) :: PExpr.renameCallsClauses ρ xs
end

/-- the respelling shows only in the payload of `UndefinedFunction` -/
def CErr.rename (ρ : List Char → List Char) (e : CErr) : CErr :=
  match e.kind with
  | .undefinedFunction n => ⟨e.loc, .undefinedFunction (ρ n)⟩
  | _ => e

def LRes.mapErr {α : Type} (f : CErr → CErr) : LRes α → LRes α
  | .ok a => .ok a
  | .err e => .err (f e)
  | .panic s => .panic s

/-- a respelling that lower-cases to the same word: a change of letter case -/
def CaseOnly (ρ : List Char → List Char) : Prop := ∀ n, lowerChars (ρ n) = lowerChars n

namespace Lower

theorem functionOfName_case {n1 n2 : List Char} (h : lowerChars n1 = lowerChars n2) :
    functionOfName n1 = functionOfName n2 := by
  unfold functionOfName; rw [h]

theorem isAggregateName_case {n1 n2 : List Char} (h : lowerChars n1 = lowerChars n2) :
    isAggregateName n1 = isAggregateName n2 := by
  unfold isAggregateName; rw [h]

/-- `transform_call_aggregate` sees the name only lower-cased -/
theorem lowerCallAggregate_case {n1 n2 : List Char} (h : lowerChars n1 = lowerChars n2) (loc args d i) :
    lowerCallAggregate loc n1 args d i = lowerCallAggregate loc n2 args d i := by
  unfold lowerCallAggregate; rw [h]

theorem lowerCall_case (ρ : List Char → List Char) (hρ : CaseOnly ρ) (loc n args) :
    lowerCall loc (ρ n) args = (lowerCall loc n args).mapErr (CErr.rename ρ) := by
  unfold lowerCall
  rw [functionOfName_case (hρ n)]
  split <;> simp [LRes.mapErr, CErr.rename]

theorem mapErr_binop (ρ) (loc o l r) : (lowerBinop loc o l r).mapErr (CErr.rename ρ) = lowerBinop loc o l r := by
  unfold lowerBinop
  repeat' split
  all_goals simp [LRes.mapErr, CErr.rename]

theorem mapErr_unop (ρ) (loc o e) : (lowerUnop loc o e).mapErr (CErr.rename ρ) = lowerUnop loc o e := by
  unfold lowerUnop
  split <;> simp [LRes.mapErr, CErr.rename]

/-- **letter case of function names does not matter** (expressions without aggregates) -/
theorem lowerPlain_case (ρ : List Char → List Char) (hρ : CaseOnly ρ) :
    (∀ e, lowerPlain (e.renameCalls ρ) = (lowerPlain e).mapErr (CErr.rename ρ)) ∧
    (∀ es, lowerPlainList (PExpr.renameCallsList ρ es) = (lowerPlainList es).mapErr (CErr.rename ρ)) ∧
    (∀ cs, lowerPlainClauses (PExpr.renameCallsClauses ρ cs) = (lowerPlainClauses cs).mapErr (CErr.rename ρ)) := by
  have hb := mapErr_binop ρ
  have hu := mapErr_unop ρ
  have hc := lowerCall_case ρ hρ
  apply PExpr.induct3
  case value => intro l v; rw [PExpr.renameCalls, lowerPlain]; rfl
  case column => intro l n; rw [PExpr.renameCalls, lowerPlain]; rfl
  case wildcard => intro l; rw [PExpr.renameCalls, lowerPlain]; rfl
  case tuple => intro l vs _; rw [PExpr.renameCalls, lowerPlain, lowerPlain]; rfl
  case binop =>
    intro l o a b iha ihb
    rw [PExpr.renameCalls, lowerPlain, lowerPlain, iha, ihb]
    cases lowerPlain a <;> simp only [LRes.mapErr]
    cases lowerPlain b <;> first | exact (hb _ _ _ _).symm | simp only [LRes.mapErr]
  case boolop =>
    intro l o a b iha ihb
    rw [PExpr.renameCalls, lowerPlain, lowerPlain, iha, ihb]
    cases lowerPlain a <;> simp only [LRes.mapErr]
    cases lowerPlain b <;> simp only [LRes.mapErr]
  case nullcmp =>
    intro l o a b iha ihb
    rw [PExpr.renameCalls, lowerPlain, lowerPlain, iha, ihb]
    cases lowerPlain a <;> simp only [LRes.mapErr]
    cases lowerPlain b <;> simp only [LRes.mapErr]
  case index =>
    intro l a b iha ihb
    rw [PExpr.renameCalls, lowerPlain, lowerPlain, iha, ihb]
    cases lowerPlain a <;> simp only [LRes.mapErr]
    cases lowerPlain b <;> simp only [LRes.mapErr]
  case unop =>
    intro l o a iha
    rw [PExpr.renameCalls, lowerPlain, lowerPlain, iha]
    cases lowerPlain a <;> first | exact (hu _ _ _).symm | simp only [LRes.mapErr]
  case invert =>
    intro l a iha
    rw [PExpr.renameCalls, lowerPlain, lowerPlain, iha]
    cases lowerPlain a <;> simp only [LRes.mapErr]
  case cast =>
    intro l a ty iha
    rw [PExpr.renameCalls, lowerPlain, lowerPlain, iha]
    cases lowerPlain a <;> simp only [LRes.mapErr]
  case inList =>
    intro l n a vs iha ihvs
    rw [PExpr.renameCalls, lowerPlain, lowerPlain, iha, ihvs]
    cases lowerPlain a <;> simp only [LRes.mapErr]
    cases lowerPlainList vs <;> simp only [LRes.mapErr]
  case call =>
    intro l n args d ihargs
    rw [PExpr.renameCalls, lowerPlain, lowerPlain, ihargs]
    cases lowerPlainList args <;> first | exact hc _ _ _ | simp only [LRes.mapErr]
  case case =>
    intro l cs els ihcs ihels
    rw [PExpr.renameCalls, lowerPlain, lowerPlain, ihcs, ihels]
    cases lowerPlainClauses cs <;> simp only [LRes.mapErr]
    cases lowerPlain els <;> simp only [LRes.mapErr]
  case nil => rw [PExpr.renameCallsList, lowerPlainList]; rfl
  case cons =>
    intro x xs ihx ihxs
    rw [PExpr.renameCallsList, lowerPlainList, lowerPlainList, ihx, ihxs]
    cases lowerPlain x <;> simp only [LRes.mapErr]
    cases lowerPlainList xs <;> simp only [LRes.mapErr]
  case cnil => rw [PExpr.renameCallsClauses, lowerPlainClauses]; rfl
  case ccons =>
    intro c r xs ihc ihr ihxs
    rw [PExpr.renameCallsClauses, lowerPlainClauses, lowerPlainClauses, ihc, ihr, ihxs]
    cases lowerPlain c <;> simp only [LRes.mapErr]
    cases lowerPlain r <;> simp only [LRes.mapErr]
    cases lowerPlainClauses xs <;> simp only [LRes.mapErr]

end Lower
end Sqlgrep
