import SqlgrepModel.Lemmas.PrintChars
/- Text format: a reader that splits a record at the top-level commas (outside `'…'` and `{…}`) and the
proof that it recovers the `name: value` pairs. -/
namespace Sqlgrep.Print

/-- split at the commas that are outside quotes (`'…'`) and outside braces (`{…}`);
state: brace depth and whether a quote is open -/
def splitTop : Nat → Bool → Bytes → List Bytes
  | _, _, [] => [[]]
  | k, q, c :: rest =>
    if c = 44 ∧ k = 0 ∧ q = false then [] :: splitTop k q rest
    else
      match splitTop (if q then k else if c = 123 then k + 1 else if c = 125 then k - 1 else k)
          (if c = 39 then !q else q) rest with
      | f :: fs => (c :: f) :: fs
      | [] => [[c]]

def consHead (a : Bytes) (l : List Bytes) : List Bytes := (a ++ l.headD []) :: l.tail

theorem splitTop_ne_nil (k : Nat) (q : Bool) (l : Bytes) : splitTop k q l ≠ [] := by
  induction l generalizing k q with
  | nil => simp [splitTop]
  | cons c rest ih =>
    simp only [splitTop]
    split
    · simp
    · split <;> simp

theorem consHead_nil (l : List Bytes) (h : l ≠ []) : consHead [] l = l := by
  cases l with
  | nil => exact absurd rfl h
  | cons f fs => simp [consHead]

theorem consHead_append (a b : Bytes) (l : List Bytes) : consHead (a ++ b) l = consHead a (consHead b l) := by
  cases l <;> simp [consHead]

theorem consHead_cons (c : Nat) (a : Bytes) (l : List Bytes) : consHead (c :: a) l = consHead [c] (consHead a l) := by
  cases l <;> simp [consHead]

/-- one byte that is not a splitting comma -/
theorem splitTop_step (k : Nat) (q : Bool) (c : Nat) (rest : Bytes) (h : ¬ (c = 44 ∧ k = 0 ∧ q = false)) :
    splitTop k q (c :: rest)
      = consHead [c] (splitTop (if q then k else if c = 123 then k + 1 else if c = 125 then k - 1 else k)
          (if c = 39 then !q else q) rest) := by
  simp only [splitTop, h, if_false]
  split
  · rename_i f fs heq; rw [heq]; simp [consHead]
  · rename_i heq; exact absurd heq (splitTop_ne_nil _ _ _)

/-- bytes that do not touch the reader's state -/
def Inert (c : Nat) : Prop := c ≠ 39 ∧ c ≠ 44 ∧ c ≠ 123 ∧ c ≠ 125

instance : DecidablePred Inert := fun c => by unfold Inert; infer_instance

theorem Plain.inert {c : Nat} (h : Plain c) : Inert c := by
  unfold Plain at h; unfold Inert
  simp only [List.mem_cons, List.not_mem_nil, or_false] at h
  omega

theorem splitTop_inert (k : Nat) (q : Bool) (a rest : Bytes) (h : ∀ c ∈ a, Inert c) :
    splitTop k q (a ++ rest) = consHead a (splitTop k q rest) := by
  induction a with
  | nil => exact (consHead_nil _ (splitTop_ne_nil _ _ _)).symm
  | cons c a ih =>
    have hc := h c (by simp)
    unfold Inert at hc
    rw [List.cons_append, splitTop_step k q c _ (by omega)]
    simp only [hc.1, hc.2.2.1, hc.2.2.2, if_false, ite_self]
    rw [ih (fun x hx => h x (by simp [hx]))]
    simp [consHead]

/-- inside a quote everything except the quote itself is skipped -/
theorem splitTop_quoted (k : Nat) (s rest : Bytes) (h : 39 ∉ s) :
    splitTop k true (s ++ rest) = consHead s (splitTop k true rest) := by
  induction s with
  | nil => exact (consHead_nil _ (splitTop_ne_nil _ _ _)).symm
  | cons c s ih =>
    simp only [List.mem_cons, not_or] at h
    have hc : c ≠ 39 := fun e => h.1 e.symm
    rw [List.cons_append, splitTop_step k true c _ (by simp)]
    simp only [hc, if_false, if_true]
    rw [ih h.2]
    simp [consHead]

theorem splitTop_quote (k : Nat) (q : Bool) (rest : Bytes) :
    splitTop k q (39 :: rest) = consHead [39] (splitTop k (!q) rest) := by
  rw [splitTop_step k q 39 _ (by simp)]
  simp

theorem splitTop_open (k : Nat) (rest : Bytes) :
    splitTop k false (123 :: rest) = consHead [123] (splitTop (k + 1) false rest) := by
  rw [splitTop_step k false 123 _ (by simp)]
  simp

theorem splitTop_close (k : Nat) (rest : Bytes) :
    splitTop (k + 1) false (125 :: rest) = consHead [125] (splitTop k false rest) := by
  rw [splitTop_step (k + 1) false 125 _ (by simp)]
  simp

theorem splitTop_inner_comma (k : Nat) (rest : Bytes) :
    splitTop (k + 1) false (44 :: rest) = consHead [44] (splitTop (k + 1) false rest) := by
  rw [splitTop_step (k + 1) false 44 _ (by simp)]
  simp

theorem splitTop_top_comma (rest : Bytes) :
    splitTop 0 false (44 :: rest) = [] :: splitTop 0 false rest := by
  simp [splitTop]

/-- a byte string the reader passes over without splitting, coming back to the same state -/
def Neutral (k : Nat) (a : Bytes) : Prop :=
  ∀ rest, splitTop k false (a ++ rest) = consHead a (splitTop k false rest)

theorem Neutral.append {k : Nat} {a b : Bytes} (ha : Neutral k a) (hb : Neutral k b) : Neutral k (a ++ b) := by
  intro rest
  rw [List.append_assoc, ha, hb, consHead_append]

theorem neutral_inert (k : Nat) (a : Bytes) (h : ∀ c ∈ a, Inert c) : Neutral k a :=
  fun rest => splitTop_inert k false a rest h

mutual
/-- every rendered value is neutral at every depth, provided its TEXT payloads contain no `'` -/
theorem neutral_displayValue (o : RealOracle) (ho : ∀ b, ∀ c ∈ o.fixed2 b, Inert c) :
    ∀ (v : Value), (∀ s ∈ allTexts v, 39 ∉ s) → ∀ k, Neutral k (displayValue o v)
  | .null, _, k => neutral_inert k _ (by simp only [displayValue, sNULL]; decide)
  | .int i, _, k => neutral_inert k _ (fun c hc => (mem_renderInt hc).inert)
  | .real b, _, k => neutral_inert k _ (ho b)
  | .bool b, _, k => neutral_inert k _ (by cases b <;> simp only [displayValue, renderBool, sTrue, sFalse] <;> decide)
  | .text s, ht, k => by
    intro rest
    have hs : 39 ∉ s := ht s (by simp [allTexts])
    simp only [displayValue, List.cons_append, List.append_assoc, List.nil_append]
    rw [splitTop_quote, Bool.not_false, splitTop_quoted k s _ hs, splitTop_quote, Bool.not_true]
    simp [consHead]
  | .array _ xs, ht, k => by
    intro rest
    have hxs := neutral_displayAll o ho xs (by simpa [allTexts] using ht) k
    simp only [displayValue, List.cons_append, List.append_assoc, List.nil_append]
    rw [splitTop_open, hxs, splitTop_close]
    simp [consHead]
  | .timestamp _ _ _, _, k => neutral_inert k _ (fun c hc => (mem_renderTimestamp hc).inert)
  | .interval _, _, k => neutral_inert k _ (fun c hc => (mem_renderInterval hc).inert)
/-- the elements of an array, joined by `, `, are passed over inside the braces -/
theorem neutral_displayAll (o : RealOracle) (ho : ∀ b, ∀ c ∈ o.fixed2 b, Inert c) :
    ∀ (xs : List Value), (∀ s ∈ allTextsList xs, 39 ∉ s) → ∀ k,
      Neutral (k + 1) (joinWith [44, 32] (displayAll o xs))
  | [], _, k => by intro rest; simp only [displayAll, joinWith, List.nil_append]; exact (consHead_nil _ (splitTop_ne_nil _ _ _)).symm
  | [x], ht, k => by
    simp only [displayAll, joinWith]
    exact neutral_displayValue o ho x (fun s hs => ht s (by simp [allTextsList, hs])) (k + 1)
  | x :: y :: rest, ht, k => by
    have hx := neutral_displayValue o ho x (fun s hs => ht s (by simp [allTextsList, hs])) (k + 1)
    have hrest := neutral_displayAll o ho (y :: rest)
      (fun s hs => ht s (by simp only [allTextsList, List.mem_append] at hs ⊢; exact Or.inr hs)) k
    have hsep : Neutral (k + 1) [44, 32] := by
      intro r
      rw [List.cons_append, splitTop_inner_comma]
      rw [show ([32] ++ r) = [32] ++ r from rfl, splitTop_inert (k + 1) false [32] r (by decide)]
      simp [consHead]
    simp only [displayAll, joinWith] at hrest ⊢
    exact (hx.append hsep).append hrest
end

/-- pieces that are neutral at depth 0, joined by `, `, are split back into themselves -/
theorem splitTop_joinWith (ps : List Bytes) (hne : ps ≠ []) (h : ∀ p ∈ ps, Neutral 0 p) :
    splitTop 0 false (joinWith [44, 32] ps) = spaced ps := by
  induction ps with
  | nil => exact absurd rfl hne
  | cons p rest ih =>
    cases rest with
    | nil =>
      have := h p (by simp) []
      simp only [List.append_nil] at this
      simp [joinWith, spaced, this, splitTop, consHead]
    | cons q qs =>
      have hp := h p (by simp)
      have ih' := ih (by simp) (fun x hx => h x (by simp [hx]))
      simp only [joinWith, List.append_assoc, List.cons_append, List.nil_append]
      rw [hp, splitTop_top_comma]
      rw [show (32 :: joinWith [44, 32] (q :: qs)) = [32] ++ joinWith [44, 32] (q :: qs) from rfl,
        splitTop_inert 0 false [32] _ (by decide), ih']
      simp [consHead, spaced]

/-- text format under the guard (no `'` in any TEXT payload; column names and REAL renderings free of
`'`, `,`, `{`, `}`): the top-level split of the record is the list of `name: value` pairs in column order -/
theorem splitTop_text_record (o : RealOracle) (cols : List Bytes) (row : List Value)
    (hlone : loneInput .text cols row = false) (hne : cols ≠ []) (hl : cols.length ≤ row.length)
    (hnames : ∀ n ∈ cols, ∀ c ∈ n, Inert c) (ho : ∀ b, ∀ c ∈ o.fixed2 b, Inert c)
    (htexts : ∀ v ∈ row, ∀ s ∈ allTexts v, 39 ∉ s) :
    splitTop 0 false (renderRecord o .text cols row)
      = spaced ((cols.zip row).map fun nv => nv.1 ++ ([58, 32] ++ displayValue o nv.2)) := by
  simp only [renderRecord, hlone, Bool.false_eq_true, if_false]
  apply splitTop_joinWith
  · cases cols with
    | nil => exact absurd rfl hne
    | cons c cs =>
      cases row with
      | nil => simp at hl
      | cons v vs => simp
  · intro p hp
    obtain ⟨n, hn, v, hv, rfl⟩ := zip_map_pairs o cols row p hp
    exact (neutral_inert 0 n (hnames n hn)).append
      ((neutral_inert 0 [58, 32] (by decide)).append (neutral_displayValue o ho v (htexts v hv) 0))

end Sqlgrep.Print
