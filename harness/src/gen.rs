// Generators of model-level values shared by several properties.
use chrono::{Duration, Local, TimeZone};
use sqlgrep::model::{Float, Value, ValueType};

use crate::util::Rng;

pub const INT_EDGES: &[i64] = &[0, 1, -1, 2, 5, 7, 10, -10, 255, 4294967295, 4294967296, 4294967297, 9007199254740992, 9007199254740993, -9007199254740993, i64::MAX, i64::MIN, i64::MAX - 1, i64::MIN + 1];

pub const F64_EDGE_BITS: &[u64] = &[
    0x0000000000000000, 0x8000000000000000, // +0 -0
    0x0000000000000001, 0x8000000000000001, // smallest subnormals
    0x000fffffffffffff, 0x0010000000000000, // largest subnormal, smallest normal
    0x3ff0000000000000, 0xbff0000000000000, // 1 -1
    0x3ff8000000000000, 0x4014000000000000, // 1.5 5.0
    0x7fefffffffffffff, 0xffefffffffffffff, // max, -max
    0x7ff0000000000000, 0xfff0000000000000, // inf -inf
    0x7ff8000000000000, 0xfff8000000000000, 0x7ff0000000000001, 0x7fffffffffffffff, // NaNs
    0x43e0000000000000, 0xc3e0000000000000, // 2^63, -2^63
    0x43dfffffffffffff, 0x4340000000000000, 0x4340000000000001, // just below 2^63, 2^53, 2^53+2
    0x3fe0000000000000, 0x4000000000000000,
];

pub const TEXTS: &[&str] = &["", "a", "b", "ab", "abc", "A", "é", "z", "\u{10000}", "\u{ffff}", " a ", "10", "9", "'q'", "a;b", "\"", "\\", "\n", "\t", "\u{0}", "ß", "İ", "日本"];

pub fn gen_int(rng: &mut Rng) -> i64 {
    match rng.below(4) {
        0 => *rng.pick(INT_EDGES),
        1 => rng.range(-5, 5),
        2 => rng.range(-1000, 1000),
        _ => rng.next() as i64,
    }
}

pub fn gen_f64_bits(rng: &mut Rng) -> u64 {
    match rng.below(5) {
        0 | 1 => *rng.pick(F64_EDGE_BITS),
        2 => (rng.range(-8, 8) as f64 * 0.5).to_bits(),
        3 => (gen_int(rng) as f64).to_bits(),
        _ => rng.next(),
    }
}

/// text that is *almost* a literal: a literal-shaped ASCII run with a multi-byte character at a random byte offset
/// (every offset 0..30 occurs, extra weight on 14..21), optionally followed by more text — for code that slices text by
/// byte positions (timestamp / interval / number parsing, comparisons of TIMESTAMP with TEXT, casts)
pub fn awkward_text(rng: &mut Rng) -> String {
    let shape = *rng.pick(&["2024-03-01 12:00:00.123456 and later", "1:02:03.5 hours", "9223372036854775807000", "true or false", "-12345.678e10 units", "approximately noon or a bit later", "2005-06-17 07:07:07"]);
    let cut = (if rng.chance(1, 2) { 14 + rng.below(8) } else { rng.below(31) }).min(shape.len());
    let wide = *rng.pick(&["\u{e9}", "\u{20ac}", "\u{1f600}", "\u{ff15}", "\u{3000}", "\u{130}"]);
    let mut out: String = shape[..cut].to_owned();
    out.push_str(wide);
    if rng.chance(2, 3) { out.push_str(&shape[cut..]); }
    out
}

pub fn gen_text(rng: &mut Rng) -> String {
    if rng.chance(1, 12) { return awkward_text(rng); }
    match rng.below(3) {
        0 | 1 => (*rng.pick(TEXTS)).to_owned(),
        _ => {
            let n = rng.below(6);
            let mut s = String::new();
            for _ in 0..n {
                let c = match rng.below(6) {
                    0 => 'a',
                    1 => 'b',
                    2 => char::from_u32(rng.range(32, 126) as u32).unwrap(),
                    3 => 'é',
                    4 => char::from_u32(rng.range(0x80, 0x2fff) as u32).unwrap_or('x'),
                    _ => ' ',
                };
                s.push(c);
            }
            s
        }
    }
}

pub fn gen_timestamp(rng: &mut Rng) -> Value {
    let secs = match rng.below(5) {
        // far away years (0001, 1000, the i64-nanosecond horizon 1677 / 2262 and just beyond, 2300, 9999, 100000)
        4 => *rng.pick(&[-62135596800i64, -30610224000, -9223372036, -9223372037, -9223400000, 9223372036, 9223372037, 9223400000, 10413792000, 253402300799, 3093527980800]) + if rng.chance(1, 2) { rng.range(0, 86_400 * 400) } else { 0 },
        0 => 0,
        1 => rng.range(946684800, 946684800 + 3),
        2 => rng.range(-2_000_000_000, 4_000_000_000),
        _ => 1_700_000_000 + rng.range(0, 100_000),
    };
    let nanos = match rng.below(3) { 0 => 0, 1 => 500_000_000, _ => rng.range(0, 999_999_999) as u32 };
    match Local.timestamp_opt(secs, nanos).single() {
        Some(t) => Value::Timestamp(t),
        None => Value::Timestamp(Local.timestamp_opt(0, 0).unwrap()),
    }
}

/// a timestamp in chrono's leap-second representation (second `:60`: second-of-minute 59 with nanoseconds in
/// [10^9, 2·10^9)) — what the text `'… 23:59:60'` parses to and what `make_timestamp(…, 59, 1500000)` builds
pub fn gen_leap_timestamp(rng: &mut Rng) -> Value {
    // 2016-12-31 23:59:59, 2015-06-30 23:59:59, 1972-06-30 23:59:59, a mid-day minute, 1969-12-31 23:59:59, year 1, year 9999,
    // the minutes around the i64-nanosecond window edges
    let secs = *rng.pick(&[1483228799i64, 1483228799, 1435708799, 78796799, 1700000039, -1, -62135596741, 253402300799, -9223372041, 9223372039, 946684859]);
    let nanos = match rng.below(5) { 0 => 1_000_000_000u32, 1 => 1_500_000_000, 2 => 1_999_999_999, 3 => 1_000_000_001, _ => 1_000_000_000 + rng.range(0, 999_999_999) as u32 };
    match Local.timestamp_opt(secs, nanos).single() {
        Some(t) => Value::Timestamp(t),
        None => gen_timestamp(rng),
    }
}

pub fn gen_interval(rng: &mut Rng) -> Value {
    let d = match rng.below(5) {
        4 => Duration::nanoseconds(*rng.pick(&[1i64, -1, 499_999_999, 500_000_000, -500_000_000, -500_000_001, 999_999_999, -999_999_999, 1_000_000_000, -1_000_000_000, 1_500_000_000, -1_500_000_000, 86_400_000_000_000, -86_400_000_000_000, 86_400_500_000_000, 0])),
        0 => Duration::seconds(rng.range(-3, 3)),
        1 => Duration::milliseconds(rng.range(-100_000, 100_000)),
        2 => Duration::nanoseconds(rng.range(-2_000_000_000, 2_000_000_000)),
        _ => Duration::seconds(rng.range(-4_000_000_000, 4_000_000_000)),
    };
    Value::Interval(d)
}

pub fn gen_scalar_type(rng: &mut Rng) -> ValueType {
    match rng.below(6) {
        0 => ValueType::Int,
        1 => ValueType::Float,
        2 => ValueType::Bool,
        3 => ValueType::String,
        4 => ValueType::Timestamp,
        _ => ValueType::Interval,
    }
}

pub fn gen_type(rng: &mut Rng, depth: usize) -> ValueType {
    if depth > 0 && rng.chance(1, 4) {
        ValueType::Array(Box::new(gen_type(rng, depth - 1)))
    } else {
        gen_scalar_type(rng)
    }
}

/// a value of the given type (NULL with probability null_pct/100)
pub fn gen_value_of(rng: &mut Rng, t: &ValueType, null_pct: u64) -> Value {
    if rng.chance(null_pct, 100) {
        return Value::Null;
    }
    match t {
        ValueType::Int => Value::Int(gen_int(rng)),
        ValueType::Float => Value::Float(Float(f64::from_bits(gen_f64_bits(rng)))),
        ValueType::Bool => Value::Bool(rng.chance(1, 2)),
        ValueType::String => Value::String(gen_text(rng)),
        ValueType::Timestamp => if rng.chance(1, 8) { gen_leap_timestamp(rng) } else { gen_timestamp(rng) },
        ValueType::Interval => gen_interval(rng),
        ValueType::Array(e) => {
            let n = rng.below(4);
            let mut xs = Vec::new();
            for _ in 0..n {
                xs.push(gen_value_of(rng, e, 15));
            }
            Value::Array((**e).clone(), xs)
        }
    }
}

pub fn gen_value(rng: &mut Rng) -> Value {
    let t = gen_type(rng, 2);
    gen_value_of(rng, &t, 8)
}
