import SqlgrepModel.Model.ExecI
/-
`FileExecutor::execute` with the calls of `OutputPrinter::print` kept as DATA.

`Model/Exec.lean` renders every result table in the text format on the spot (`printResult`), because the engine
properties are stated about printed text records. The end-to-end model (`Model/Pipeline.lean`) has to hand the
same result tables to the printer model of `Model/Print.lean` (three formats, CSV header state), so the loop is
stated once more with the print calls recorded next to the text rendering, for an uninterrupted run
(`stopAt = none`, `clearAt = none`). Nothing else differs: `Lemmas/ExecT.lean` proves

  (runBatchT O qy joined files).out   = (runBatchI O qy joined files none none).1         (`runBatchT_out`)
  (runBatchT O qy joined files).out.printed = the text rendering of the recorded calls     (`runBatchT_printed`)

so every theorem about `runBatch` / `runBatchI` is a theorem about what the end-to-end model executes.
-/
namespace Sqlgrep

/-- one call `output_printer.print(&result_row, single)`: the result table, and whether it is the final print of
an aggregate run (made with `single_result = true` whatever the display option says) -/
structure PrintCall where
  result : RowOut
  final : Bool
  deriving Repr, Inhabited

/-- the text rendering `Model/Exec.lean` produces for the call (display option `single_result = false`) -/
def PrintCall.text (c : PrintCall) : List String := printResult c.result c.final

def renderCalls (cs : List PrintCall) : List String := cs.flatMap PrintCall.text

/-- the print call a line's output leads to in the batch loop -/
def callsOf : Option RowOut → List PrintCall
  | some r => [{ result := r, final := false }]
  | none => []

structure TraceState where
  ls : LoopState := {}
  calls : List PrintCall := []
  deriving Inhabited

structure TraceOut where
  out : RunOut := {}
  calls : List PrintCall := []
  deriving Inhabited

/-- `runFile … none` with the print calls recorded -/
def runFileT (O : Oracles) (qy : Query) (idx : JoinIndex) (withResult : Bool) :
    List FileLine → TraceState → TraceState
  | [], s => s
  | fl :: rest, s =>
    if !fl.readable then { s with ls := { s.ls with out := { s.ls.out with error := some .failReadFile }, stop := true } }
    else
      let ls := { s.ls with consumed := s.ls.consumed + 1, out := { s.ls.out with totalLines := s.ls.out.totalLines + 1 } }
      match executeLine O qy idx withResult ls.es fl.line with
      | .ok (es, lo) =>
        let printed := match lo.result with
          | some r => printResult r false
          | none => []
        let ls := { ls with es := es, out := { ls.out with printed := ls.out.printed ++ printed } }
        let calls := s.calls ++ callsOf lo.result
        if lo.reachedLimit then { ls := { ls with stop := true }, calls := calls }
        else runFileT O qy idx withResult rest { ls := ls, calls := calls }
      | o => { s with ls := { ls with out := failWith ls.out o, stop := true } }

/-- `runFiles … none` with the print calls recorded -/
def runFilesT (O : Oracles) (qy : Query) (idx : JoinIndex) (withResult : Bool) :
    List (List FileLine) → TraceState → TraceState
  | [], s => s
  | f :: rest, s =>
    if s.ls.stop || reachedLimit qy s.ls.es then s
    else
      let s := runFileT O qy idx withResult f s
      if s.ls.stop then s else runFilesT O qy idx withResult rest s

/-- `runWithIndex … none` with the print calls recorded -/
def runWithIndexT (O : Oracles) (qy : Query) (idxO : Outcome JoinIndex) (files : List (List FileLine)) : TraceOut :=
  match idxO with
  | .ok idx =>
    let isAgg := match qy.stmt with
      | .aggregate _ => true
      | _ => false
    let s := runFilesT O qy idx (!isAgg) files {}
    if hasFailed s.ls.out then { out := s.ls.out, calls := s.calls }
    else match qy.stmt with
      | .aggregate q =>
        match finalResult O q s.ls.es with
        | .ok r => { out := { s.ls.out with printed := s.ls.out.printed ++ printResult r true },
                     calls := s.calls ++ [{ result := r, final := true }] }
        | o => { out := failWith s.ls.out o, calls := s.calls }
      | _ => { out := s.ls.out, calls := s.calls }
  | o => { out := failWith {} o }

/-- what `execute_joined_table` leaves: the joiner column, the joined column, `File::open`, the load loop -/
def joinSetup (qy : Query) (joined : Option (List FileLine)) : Outcome JoinIndex :=
  match qy.join with
  | none => .ok []
  | some j => setupJoin qy.table j ((loadJoinFileI j joined none).bind (fun p => .ok p.1))

/-- `runBatchI … none none` with the print calls recorded -/
def runBatchT (O : Oracles) (qy : Query) (joined : Option (List FileLine)) (files : List (List FileLine)) : TraceOut :=
  runWithIndexT O qy (joinSetup qy joined) files

/-! ### follow mode (`FollowFileExecutor::execute`) with the print calls recorded -/

/-- `output.updated`: the engine answers an aggregate statement's line with `with_updated()`; it is what decides the
clearing of the screen and what is passed to the printer as `single_result` -/
def isUpdated (qy : Query) : Bool :=
  match qy.stmt with
  | .aggregate _ => true
  | _ => false

/-- `runFollow` (Model/ExecI.lean) with the print calls recorded; `final` of a recorded call is `output.updated` -/
def runFollowT (O : Oracles) (qy : Query) (stopAt : Option Nat) : List Line → TraceState → TraceState
  | [], s => s
  | l :: rest, s =>
    if stopAt == some s.ls.consumed then s
    else
      let ls := { s.ls with consumed := s.ls.consumed + 1, out := { s.ls.out with totalLines := s.ls.out.totalLines + 1 } }
      match executeLine O qy [] true ls.es l with
      | .ok (es, lo) =>
        match lo.result with
        | some r =>
          let ls := { ls with es := es, out := { ls.out with printed := ls.out.printed ++ printResult r (isUpdated qy) } }
          let calls := s.calls ++ [{ result := r, final := isUpdated qy }]
          if lo.reachedLimit then { ls := { ls with stop := true }, calls := calls }
          else runFollowT O qy stopAt rest { ls := ls, calls := calls }
        | none => runFollowT O qy stopAt rest { s with ls := { ls with es := es } }
      | o => { s with ls := { ls with out := failWith ls.out o, stop := true } }

/-- `runFollowAll` with the print calls recorded -/
def runFollowAllT (O : Oracles) (qy : Query) (stopAt : Option Nat) (lines : List Line) : TraceOut :=
  if reachedLimit qy {} then {}
  else
    let s := runFollowT O qy stopAt lines {}
    { out := s.ls.out, calls := s.calls }

end Sqlgrep
