import SqlgrepModel.Lemmas.ClimbMono
import SqlgrepModel.Spec.Grammar
/-
Fuel-free big-step judgements for the successful runs of the expression parser and the derivation rules the
precedence-climbing proof uses (each rule is one unfolding of the corresponding model function, made independent of
the fuel by `fuel_mono_*`).
-/
namespace Sqlgrep.Parse

variable (T : PrecTables)

def PE (s : PSt) (t : PExpr) (s' : PSt) : Prop := ∃ f, parseExpr T f s = .ok t s'
def PR (m : Int) (l : PExpr) (s : PSt) (t : PExpr) (s' : PSt) : Prop := ∃ f, parseRhs T f m l s = .ok t s'
def PU (s : PSt) (t : PExpr) (s' : PSt) : Prop := ∃ f, parseUnary T f s = .ok t s'
def PP (s : PSt) (t : PExpr) (s' : PSt) : Prop := ∃ f, parsePrimary T f s = .ok t s'
def PL (close : Tok) (acc : List PExpr) (s : PSt) (r : List PExpr) (s' : PSt) : Prop :=
  ∃ f, parseList T f close acc s = .ok r s'
def PC (loc : Loc) (acc : List (PExpr × PExpr)) (s : PSt) (t : PExpr) (s' : PSt) : Prop :=
  ∃ f, parseCase T f loc acc s = .ok t s'
/-- `parse_unary_operator` followed by `parse_binary_operator_rhs(m, _)` -/
def PExprAt (m : Int) (s : PSt) (t : PExpr) (s' : PSt) : Prop := ∃ l s1, PU T s l s1 ∧ PR T m l s1 t s'

theorem ok_ne_fuel {α} {a : α} {s : PSt} : (PRes.ok a s) ≠ PRes.fuel := by intro h; cases h

theorem tokenPrecedence_state {s s2 : PSt} {tp : Int} (h : tokenPrecedence T s = .ok tp s2) : s2 = s := by
  unfold tokenPrecedence at h
  split at h
  · split at h
    · cases h; rfl
    · cases h
  · cases h; rfl

theorem PR_det {m l s t t' s' s''} (h : PR T m l s t s') (h' : PR T m l s t' s'') : t = t' ∧ s' = s'' := by
  obtain ⟨f, hf⟩ := h; obtain ⟨g, hg⟩ := h'
  have a := fuel_mono_rhs T (Nat.le_max_left f g) hf ok_ne_fuel
  have b := fuel_mono_rhs T (Nat.le_max_right f g) hg ok_ne_fuel
  rw [a] at b; cases b; exact ⟨rfl, rfl⟩

theorem PE_intro {s l s1 t s2} (hu : PU T s l s1) (hr : PR T 0 l s1 t s2) : PE T s t s2 := by
  obtain ⟨f, hf⟩ := hu; obtain ⟨g, hg⟩ := hr
  have a := fuel_mono_unary T (Nat.le_max_left f g) hf ok_ne_fuel
  have b := fuel_mono_rhs T (Nat.le_max_right f g) hg ok_ne_fuel
  refine ⟨max f g + 1, ?_⟩
  rw [parseExpr, a]; exact b

theorem PE_of_at {s t s'} (h : PExprAt T 0 s t s') : PE T s t s' := by
  obtain ⟨l, s1, hu, hr⟩ := h; exact PE_intro T hu hr

theorem PR_stop {m l s tp} (htp : tokenPrecedence T s = .ok tp s) (hlt : tp < m) : PR T m l s l s := by
  refine ⟨1, ?_⟩
  rw [parseRhs]; simp only [htp, hlt, if_true]

theorem PR_tp {m l s t s'} (h : PR T m l s t s') : ∃ tp, tokenPrecedence T s = .ok tp s := by
  obtain ⟨f, hf⟩ := h
  cases f with
  | zero => rw [parseRhs] at hf; cases hf
  | succ f =>
    rw [parseRhs] at hf
    split at hf
    · cases hf
    · cases hf
    · rename_i tp s2 heq
      have := tokenPrecedence_state T heq
      subst this
      exact ⟨tp, heq⟩


/-- one turn of the loop of `parse_binary_operator_rhs` for an infix operator with a right operand -/
theorem PR_bin {m l s tp s1 rhs s2 tp2 rhs' s3 l' t s4}
    (htp : tokenPrecedence T s = .ok tp s) (hge : ¬ tp < m)
    (h1 : s.cur.tok ≠ .lsq) (h2 : s.cur.tok ≠ .kw .in) (h3 : s.cur.tok ≠ .kw .notIn)
    (hnext : next s = .ok () s1)
    (hu : PU T s1 rhs s2)
    (htp2 : tokenPrecedence T s2 = .ok tp2 s2)
    (hn : if tp < tp2 then PR T (tp + 1) rhs s2 rhs' s3 else (rhs' = rhs ∧ s3 = s2))
    (hcomb : combine s.cur.loc s.cur.tok l rhs' = .ok l')
    (hc : PR T m l' s3 t s4) : PR T m l s t s4 := by
  obtain ⟨f, hf⟩ := hu; obtain ⟨g, hg⟩ := hc
  by_cases hlt : tp < tp2
  · simp only [hlt, if_true] at hn
    obtain ⟨k, hk⟩ := hn
    have a := fuel_mono_unary T (show f ≤ max f (max g k) by omega) hf ok_ne_fuel
    have b := fuel_mono_rhs T (show g ≤ max f (max g k) by omega) hg ok_ne_fuel
    have c := fuel_mono_rhs T (show k ≤ max f (max g k) by omega) hk ok_ne_fuel
    refine ⟨max f (max g k) + 1, ?_⟩
    rw [parseRhs]
    simp only [htp, hge, if_false, hnext, a, htp2, hlt, if_true, c, hcomb, b]
  · simp only [hlt, if_false] at hn
    obtain ⟨hr, hs⟩ := hn
    subst hr; subst hs
    have a := fuel_mono_unary T (Nat.le_max_left f g) hf ok_ne_fuel
    have b := fuel_mono_rhs T (Nat.le_max_right f g) hg ok_ne_fuel
    refine ⟨max f g + 1, ?_⟩
    rw [parseRhs]
    simp only [htp, hge, if_false, hnext, a, htp2, hlt, hcomb, b]

/-- one turn of the loop for a subscript `[ index ]` -/
theorem PR_index {m l s tp s1 i s2 s3 t s4}
    (htp : tokenPrecedence T s = .ok tp s) (hge : ¬ tp < m)
    (hcur : s.cur.tok = .lsq)
    (hnext : next s = .ok () s1)
    (he : PE T s1 i s2)
    (hrsq : s2.cur.tok = .rsq) (hnext2 : next s2 = .ok () s3)
    (hc : PR T m (.index s.cur.loc l i) s3 t s4) : PR T m l s t s4 := by
  obtain ⟨f, hf⟩ := he; obtain ⟨g, hg⟩ := hc
  have a := fuel_mono_expr T (Nat.le_max_left f g) hf ok_ne_fuel
  have b := fuel_mono_rhs T (Nat.le_max_right f g) hg ok_ne_fuel
  refine ⟨max f g + 1, ?_⟩
  rw [parseRhs]
  simp only [htp, hge, if_false, hnext, hcur, a, expectConsume, hrsq, if_true, hnext2, b]

/-- one turn of the loop for `IN ( list )` / `NOT IN ( list )` -/
theorem PR_in {m l s tp s1 s2 vs s3 t s4} (n : Bool)
    (htp : tokenPrecedence T s = .ok tp s) (hge : ¬ tp < m)
    (hcur : s.cur.tok = .kw (if n then .notIn else .in))
    (hnext : next s = .ok () s1)
    (hlp : s1.cur.tok = .lp) (hnext1 : next s1 = .ok () s2)
    (hl : PL T .rp [] s2 vs s3)
    (hc : PR T m (.inList s.cur.loc n l vs) s3 t s4) : PR T m l s t s4 := by
  obtain ⟨f, hf⟩ := hl; obtain ⟨g, hg⟩ := hc
  have a := fuel_mono_list T (Nat.le_max_left f g) hf ok_ne_fuel
  have b := fuel_mono_rhs T (Nat.le_max_right f g) hg ok_ne_fuel
  refine ⟨max f g + 1, ?_⟩
  rw [parseRhs]
  cases n
  · simp only [Bool.false_eq_true, if_false] at hcur
    simp only [htp, hge, if_false, hnext, hcur, hlp, ne_eq, not_true_eq_false, hnext1, a]
    exact b
  · simp only [if_true] at hcur
    simp only [htp, hge, if_false, hnext, hcur, hlp, ne_eq, not_true_eq_false, hnext1, a]
    exact b


/-- `parse_unary_operator` on a token that is neither an operator nor NOT goes to `parse_primary_expression` -/
theorem PU_prim {s t s'} (h1 : ∀ o, s.cur.tok ≠ .op o) (h2 : s.cur.tok ≠ .kw .not) (hp : PP T s t s') : PU T s t s' := by
  obtain ⟨f, hf⟩ := hp
  refine ⟨f + 1, ?_⟩
  rw [parseUnary]
  dsimp only
  split
  · rename_i o h; exact absurd h (h1 o)
  · rename_i h; exact absurd h h2
  · simpa using hf

/-- prefix NOT: the operand is `parse_unary_operator` followed by the loop at level 4 -/
theorem PU_not {s s1 x s2} (hcur : s.cur.tok = .kw .not) (hnext : next s = .ok () s1)
    (hx : PExprAt T 4 s1 x s2) : PU T s (.invert s.cur.loc x) s2 := by
  obtain ⟨u, s', ⟨f, hf⟩, ⟨g, hg⟩⟩ := hx
  have a := fuel_mono_unary T (Nat.le_max_left f g) hf ok_ne_fuel
  have b := fuel_mono_rhs T (Nat.le_max_right f g) hg ok_ne_fuel
  refine ⟨max f g + 1, ?_⟩
  rw [parseUnary]
  simp [hcur, hnext, a, b]

/-- unary operator: the operand is `parse_unary_operator` followed by the loop at level 8 -/
theorem PU_neg {s o s1 x s2} (hcur : s.cur.tok = .op o) (hstar : o ≠ .single '*') (hun : o ∈ T.unary)
    (hnext : next s = .ok () s1) (hx : PExprAt T 8 s1 x s2) : PU T s (.unop s.cur.loc o x) s2 := by
  obtain ⟨u, s', ⟨f, hf⟩, ⟨g, hg⟩⟩ := hx
  have a := fuel_mono_unary T (Nat.le_max_left f g) hf ok_ne_fuel
  have b := fuel_mono_rhs T (Nat.le_max_right f g) hg ok_ne_fuel
  refine ⟨max f g + 1, ?_⟩
  rw [parseUnary]
  simp [hcur, hnext, a, b, hstar, hun]

theorem PP_lit {s s1} (l : Spec.Lit) (hcur : s.cur.tok = l.tok) (hnext : next s = .ok () s1) :
    PP T s (.value s.cur.loc l.value) s1 := by
  refine ⟨1, ?_⟩
  cases l with
  | int i => have h : s.cur.tok = .int i := hcur; rw [parsePrimary]; dsimp only; rw [h]; dsimp only; rw [hnext]; rfl
  | float b => have h : s.cur.tok = .float b := hcur; rw [parsePrimary]; dsimp only; rw [h]; dsimp only; rw [hnext]; rfl
  | str v => have h : s.cur.tok = .str v := hcur; rw [parsePrimary]; dsimp only; rw [h]; dsimp only; rw [hnext]; rfl
  | null => have h : s.cur.tok = .null := hcur; rw [parsePrimary]; dsimp only; rw [h]; dsimp only; rw [hnext]; rfl
  | tru => have h : s.cur.tok = .tru := hcur; rw [parsePrimary]; dsimp only; rw [h]; dsimp only; rw [hnext]; rfl
  | fls => have h : s.cur.tok = .fls := hcur; rw [parsePrimary]; dsimp only; rw [h]; dsimp only; rw [hnext]; rfl

/-- an identifier that is not followed by `(` (nor, when it is `array`, by `[`) is a column; its location is the
location of the token after it, as in the code -/
theorem PP_col {s x s1} (hcur : s.cur.tok = .ident x) (hnext : next s = .ok () s1)
    (h1 : s1.cur.tok ≠ .lp) (h2 : lowerChars x ≠ "array".toList) : PP T s (.column s1.cur.loc x) s1 := by
  refine ⟨1, ?_⟩
  rw [parsePrimary]; dsimp only; rw [hcur]; dsimp only; rw [hnext]; dsimp only
  rw [if_pos]
  simp only [h1, h2, and_false, decide_false, Bool.or_self, Bool.not_false]

theorem PP_paren {s s1 e s2 s3} (hcur : s.cur.tok = .lp) (hnext : next s = .ok () s1) (he : PE T s1 e s2)
    (hrp : s2.cur.tok = .rp) (hnext2 : next s2 = .ok () s3) : PP T s e s3 := by
  obtain ⟨f, hf⟩ := he
  refine ⟨f + 1, ?_⟩
  rw [parsePrimary]
  simp [hcur, hnext, hf, hrp, expectConsume, hnext2]

/-- `f ( )` -/
theorem PP_call_nil {s f s1 s2 s3} (hcur : s.cur.tok = .ident f) (hnext : next s = .ok () s1)
    (hlp : s1.cur.tok = .lp) (hnext1 : next s1 = .ok () s2) (hrp : s2.cur.tok = .rp) (hnext2 : next s2 = .ok () s3) :
    PP T s (.call s1.cur.loc f [] (if lowerChars f = "count".toList then some false else none)) s3 := by
  refine ⟨1, ?_⟩
  rw [parsePrimary]
  by_cases hc : lowerChars f = "count".toList <;> simp [hcur, hnext, hlp, hnext1, hrp, hnext2, hc, PRes.bind]

/-- `f ( a₁ , … )` whose first argument does not start with DISTINCT -/
theorem PP_call_cons {s f s1 s2 args s3} (hcur : s.cur.tok = .ident f) (hnext : next s = .ok () s1)
    (hlp : s1.cur.tok = .lp) (hnext1 : next s1 = .ok () s2) (hnrp : s2.cur.tok ≠ .rp)
    (hnd : s2.cur.tok ≠ .kw .distinct) (hl : PL T .rp [] s2 args s3) :
    PP T s (.call s1.cur.loc f args (if lowerChars f = "count".toList then some false else none)) s3 := by
  obtain ⟨g, hg⟩ := hl
  refine ⟨g + 1, ?_⟩
  rw [parsePrimary]
  by_cases hc : lowerChars f = "count".toList <;> simp [hcur, hnext, hlp, hnext1, hnrp, hnd, hg, hc]

theorem PL_last {close acc s e s1 s2} (he : PE T s e s1) (hcl : s1.cur.tok = close) (hnext : next s1 = .ok () s2) :
    PL T close acc s (acc ++ [e]) s2 := by
  obtain ⟨f, hf⟩ := he
  refine ⟨f + 1, ?_⟩
  rw [parseList]
  simp [hf, hcl, hnext, PRes.bind]

theorem PL_more {close acc s e s1 s2 r s3} (he : PE T s e s1) (hncl : s1.cur.tok ≠ close) (hcomma : s1.cur.tok = .comma)
    (hnext : next s1 = .ok () s2) (hl : PL T close (acc ++ [e]) s2 r s3) : PL T close acc s r s3 := by
  obtain ⟨f, hf⟩ := he; obtain ⟨g, hg⟩ := hl
  have a := fuel_mono_expr T (Nat.le_max_left f g) hf ok_ne_fuel
  have b := fuel_mono_list T (Nat.le_max_right f g) hg ok_ne_fuel
  refine ⟨max f g + 1, ?_⟩
  rw [parseList]
  rw [hcomma] at hncl
  simp [a, hcomma, hnext, b]
  intro h; exact absurd h hncl


/-- `*` in operand position is the wildcard -/
theorem PU_star {s s1} (hcur : s.cur.tok = .op (.single '*')) (hnext : next s = .ok () s1) :
    PU T s (.wildcard s.cur.loc) s1 := by
  refine ⟨1, ?_⟩
  rw [parseUnary]
  simp [hcur, hnext]

/-- `count ( DISTINCT a₁ , … )` -/
theorem PP_call_distinct {s f s1 s2 s3 args s4} (hcur : s.cur.tok = .ident f) (hnext : next s = .ok () s1)
    (hlp : s1.cur.tok = .lp) (hnext1 : next s1 = .ok () s2) (hc : lowerChars f = "count".toList)
    (hd : s2.cur.tok = .kw .distinct) (hnext2 : next s2 = .ok () s3) (hnrp : s3.cur.tok ≠ .rp)
    (hl : PL T .rp [] s3 args s4) : PP T s (.call s1.cur.loc f args (some true)) s4 := by
  obtain ⟨g, hg⟩ := hl
  refine ⟨g + 1, ?_⟩
  rw [parsePrimary]
  simp [hcur, hnext, hlp, hnext1, hc, hd, hnext2, hnrp, hg]

theorem array_ne_count {sp : List Char} (h : lowerChars sp = "array".toList) : lowerChars sp ≠ "count".toList := by
  rw [h]; decide

/-- `array [ ]` -/
theorem PP_array_nil {s sp s1 s2 s3} (hcur : s.cur.tok = .ident sp) (hnext : next s = .ok () s1)
    (hlsq : s1.cur.tok = .lsq) (ha : lowerChars sp = "array".toList) (hnext1 : next s1 = .ok () s2)
    (hrsq : s2.cur.tok = .rsq) (hnext2 : next s2 = .ok () s3) :
    PP T s (.call s1.cur.loc "create_array".toList [] none) s3 := by
  refine ⟨1, ?_⟩
  rw [parsePrimary]
  simp [hcur, hnext, hlsq, ha, hnext1, hrsq, hnext2, PRes.bind]

/-- `array [ a₁ , … ]` -/
theorem PP_array_cons {s sp s1 s2 args s3} (hcur : s.cur.tok = .ident sp) (hnext : next s = .ok () s1)
    (hlsq : s1.cur.tok = .lsq) (ha : lowerChars sp = "array".toList) (hnext1 : next s1 = .ok () s2)
    (hnrsq : s2.cur.tok ≠ .rsq) (hl : PL T .rsq [] s2 args s3) :
    PP T s (.call s1.cur.loc "create_array".toList args none) s3 := by
  obtain ⟨g, hg⟩ := hl
  refine ⟨g + 1, ?_⟩
  rw [parsePrimary]
  simp [hcur, hnext, hlsq, ha, hnext1, hnrsq, hg]

/-- `EXTRACT ( part FROM e )` -/
theorem PP_extract {s s1 s2 part s3 s4 e s5 s6} (hcur : s.cur.tok = .kw .extract) (hnext : next s = .ok () s1)
    (hlp : s1.cur.tok = .lp) (hnext1 : next s1 = .ok () s2) (hid : s2.cur.tok = .ident part)
    (hnext2 : next s2 = .ok () s3) (hfrom : s3.cur.tok = .kw .from) (hnext3 : next s3 = .ok () s4)
    (he : PE T s4 e s5) (hrp : s5.cur.tok = .rp) (hnext5 : next s5 = .ok () s6) :
    PP T s (.call s2.cur.loc ("timestamp_extract_".toList ++ lowerChars part) [e] none) s6 := by
  obtain ⟨g, hg⟩ := he
  refine ⟨g + 1, ?_⟩
  rw [parsePrimary]
  simp [hcur, hnext, expectConsume, hlp, hnext1, consumeIdentifier, hid, hnext2, PRes.bind, hfrom, hnext3, hg, hrp, hnext5]

/-- `( a , b , … )` -/
theorem PP_tuple {s s1 a s2 s3 vs s4} (hcur : s.cur.tok = .lp) (hnext : next s = .ok () s1) (he : PE T s1 a s2)
    (hcomma : s2.cur.tok = .comma) (hnext2 : next s2 = .ok () s3) (hl : PL T .rp [a] s3 vs s4) :
    PP T s (.tuple s.cur.loc vs) s4 := by
  obtain ⟨f, hf⟩ := he; obtain ⟨g, hg⟩ := hl
  have a1 := fuel_mono_expr T (Nat.le_max_left f g) hf ok_ne_fuel
  have b1 := fuel_mono_list T (Nat.le_max_right f g) hg ok_ne_fuel
  refine ⟨max f g + 1, ?_⟩
  rw [parsePrimary]
  simp [hcur, hnext, a1, hcomma, hnext2, b1]

/-- the last `WHEN c THEN r` of a CASE, followed by `ELSE e END` -/
theorem PC_last {loc acc s s1 c s2 s3 r s4 s5 e s6 s7} (hw : s.cur.tok = .kw .when) (hnext : next s = .ok () s1)
    (hc : PE T s1 c s2) (ht : s2.cur.tok = .kw .then) (hnext2 : next s2 = .ok () s3) (hr : PE T s3 r s4)
    (hel : s4.cur.tok = .kw .else) (hnext4 : next s4 = .ok () s5) (he : PE T s5 e s6)
    (hend : s6.cur.tok = .kw .end) (hnext6 : next s6 = .ok () s7) :
    PC T loc acc s (.case loc (acc ++ [(c, r)]) e) s7 := by
  obtain ⟨f, hf⟩ := hc; obtain ⟨g, hg⟩ := hr; obtain ⟨k, hk⟩ := he
  have a1 := fuel_mono_expr T (show f ≤ max f (max g k) by omega) hf ok_ne_fuel
  have b1 := fuel_mono_expr T (show g ≤ max f (max g k) by omega) hg ok_ne_fuel
  have c1 := fuel_mono_expr T (show k ≤ max f (max g k) by omega) hk ok_ne_fuel
  refine ⟨max f (max g k) + 1, ?_⟩
  rw [parseCase]
  simp [expectConsume, hw, hnext, a1, ht, hnext2, b1, hel, hnext4, c1, hend, hnext6]

/-- a `WHEN c THEN r` of a CASE that is followed by another WHEN -/
theorem PC_more {loc acc s s1 c s2 s3 r s4 t s'} (hw : s.cur.tok = .kw .when) (hnext : next s = .ok () s1)
    (hc : PE T s1 c s2) (ht : s2.cur.tok = .kw .then) (hnext2 : next s2 = .ok () s3) (hr : PE T s3 r s4)
    (hnel : s4.cur.tok ≠ .kw .else) (hrest : PC T loc (acc ++ [(c, r)]) s4 t s') : PC T loc acc s t s' := by
  obtain ⟨f, hf⟩ := hc; obtain ⟨g, hg⟩ := hr; obtain ⟨k, hk⟩ := hrest
  have a1 := fuel_mono_expr T (show f ≤ max f (max g k) by omega) hf ok_ne_fuel
  have b1 := fuel_mono_expr T (show g ≤ max f (max g k) by omega) hg ok_ne_fuel
  have c1 := fuel_mono_case T (show k ≤ max f (max g k) by omega) hk ok_ne_fuel
  refine ⟨max f (max g k) + 1, ?_⟩
  rw [parseCase]
  simp [expectConsume, hw, hnext, a1, ht, hnext2, b1, hnel, c1]

/-- `CASE …` -/
theorem PP_case {s s1 t s'} (hcur : s.cur.tok = .kw .case) (hnext : next s = .ok () s1)
    (hc : PC T s.cur.loc [] s1 t s') : PP T s t s' := by
  obtain ⟨f, hf⟩ := hc
  refine ⟨f + 1, ?_⟩
  rw [parsePrimary]
  simp [hcur, hnext, hf]

end Sqlgrep.Parse
