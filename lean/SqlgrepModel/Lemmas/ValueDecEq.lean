import SqlgrepModel.Model.Value
/-
Decidable IDENTITY of values (`a = b`, not equality in the value order: `0.0` and `-0.0` differ), so that closed equations
between tables, rows and summaries can be evaluated by the kernel (`decide +kernel`). `Value` is a nested inductive type,
for which `deriving DecidableEq` is not available.
-/
namespace Sqlgrep
namespace Value

mutual
/-- structural identity -/
def same : Value → Value → Bool
  | .null, .null => true
  | .int i, .int j => decide (i = j)
  | .real a, .real b => decide (a = b)
  | .bool a, .bool b => decide (a = b)
  | .text a, .text b => decide (a = b)
  | .array t xs, .array u ys => decide (t = u) && sameList xs ys
  | .timestamp a b c, .timestamp d e f => decide (a = d) && decide (b = e) && decide (c = f)
  | .interval a, .interval b => decide (a = b)
  | _, _ => false
def sameList : List Value → List Value → Bool
  | [], [] => true
  | x :: xs, y :: ys => same x y && sameList xs ys
  | _, _ => false
end

mutual
theorem same_iff : ∀ (a b : Value), same a b = true ↔ a = b
  | a, b => by
    cases a <;> cases b <;> simp only [same, decide_eq_true_eq, Bool.and_eq_true, reduceCtorEq, Bool.false_eq_true]
    case array.array t xs u ys =>
      rw [sameList_iff xs ys]
      constructor
      · rintro ⟨rfl, rfl⟩; rfl
      · intro h; cases h; exact ⟨rfl, rfl⟩
    all_goals first
      | exact ⟨fun _ => rfl, fun _ => trivial⟩
      | (constructor
         · intro h; simp only [h]
         · intro h; cases h; simp)
      | (constructor
         · rintro ⟨⟨rfl, rfl⟩, rfl⟩; rfl
         · intro h; cases h; exact ⟨⟨rfl, rfl⟩, rfl⟩)
theorem sameList_iff : ∀ (a b : List Value), sameList a b = true ↔ a = b
  | [], [] => by simp [sameList]
  | [], _ :: _ => by simp [sameList]
  | _ :: _, [] => by simp [sameList]
  | x :: xs, y :: ys => by
    simp only [sameList, Bool.and_eq_true, same_iff x y, sameList_iff xs ys, List.cons.injEq]
end

instance : DecidableEq Value := fun a b => decidable_of_iff _ (same_iff a b)

end Value
end Sqlgrep
