import SqlgrepModel.Lemmas.ClimbCorrect
import SqlgrepModel.Generated.PrecTable
import SqlgrepModel.Lemmas.ParseLoc
/-
From `climb_correct` to the statements of property C13: explicit-fuel form, the fully parenthesised printer,
redundant parentheses, stopping tokens, and the comparison of the generated tables with the reference grammar.
-/
namespace Sqlgrep.Spec
open Sqlgrep.Parse

variable {T : PrecTables}

/-- all sufficiently large fuels give the same successful answer -/
theorem PE_fuel {s : PSt} {t : PExpr} {s' : PSt} (h : PE T s t s') : ∃ f0, ∀ f, f0 ≤ f → parseExpr T f s = .ok t s' := by
  obtain ⟨f0, hf⟩ := h
  exact ⟨f0, fun f hle => fuel_mono_expr T hle hf ok_ne_fuel⟩

/-- a token that is neither `(` nor an operator nor an entry of the `other` table stops the top-level loop -/
theorem stops_plain {s : PSt} (h1 : s.cur.tok ≠ .lp) (h2 : ∀ o, s.cur.tok ≠ .op o)
    (h3 : lookupTok T.other s.cur.tok = none) : Stops T 0 s := by
  refine Stops.of_tok h1 (fun o ho => absurd ho (h2 o)) ?_
  have : tokPrec T s.cur.tok = -1 := by
    unfold tokPrec
    cases ht : s.cur.tok with
    | op o => exact absurd ht (h2 o)
    | _ => rw [ht] at h3; simp [h3]
  omega

mutual
theorem WF_parenAll : ∀ (e : RExpr), RExpr.WF T e → RExpr.WF T e.parenAll
  | .lit _, h => h
  | .col _ _, h => h
  | .paren e, h => WF_parenAll e h
  | .bin o l r, h => by
    simp only [RExpr.parenAll, RExpr.WF] at h ⊢; exact ⟨h.1, WF_parenAll l h.2.1, WF_parenAll r h.2.2⟩
  | .not e, h => by simp only [RExpr.parenAll, RExpr.WF] at h ⊢; exact WF_parenAll e h
  | .neg e, h => by simp only [RExpr.parenAll, RExpr.WF] at h ⊢; exact WF_parenAll e h
  | .index a i, h => by simp only [RExpr.parenAll, RExpr.WF] at h ⊢; exact ⟨WF_parenAll a h.1, WF_parenAll i h.2⟩
  | .cast e t, h => by simp only [RExpr.parenAll, RExpr.WF] at h ⊢; exact ⟨h.1, WF_parenAll e h.2⟩
  | .inList n e v vs, h => by
    simp only [RExpr.parenAll, RExpr.WF] at h ⊢; exact ⟨WF_parenAll e h.1, WF_parenAll v h.2.1, WFs_parenAlls vs h.2.2⟩
  | .call f args, h => by simp only [RExpr.parenAll, RExpr.WF] at h ⊢; exact WFs_parenAlls args h
  | .star, h => h
  | .countDistinct f a as, h => by
    simp only [RExpr.parenAll, RExpr.WF] at h ⊢; exact ⟨h.1, WF_parenAll a h.2.1, WFs_parenAlls as h.2.2⟩
  | .array sp args, h => by simp only [RExpr.parenAll, RExpr.WF] at h ⊢; exact ⟨h.1, WFs_parenAlls args h.2⟩
  | .extract part e, h => by simp only [RExpr.parenAll, RExpr.WF] at h ⊢; exact WF_parenAll e h
  | .tuple a b more, h => by
    simp only [RExpr.parenAll, RExpr.WF] at h ⊢; exact ⟨WF_parenAll a h.1, WF_parenAll b h.2.1, WFs_parenAlls more h.2.2⟩
  | .case c r more els, h => by
    simp only [RExpr.parenAll, RExpr.WF] at h ⊢
    exact ⟨WF_parenAll c h.1, WF_parenAll r h.2.1, WFClauses_parenAll more h.2.2.1, WF_parenAll els h.2.2.2⟩
theorem WFs_parenAlls : ∀ (es : List RExpr), RExpr.WFs T es → RExpr.WFs T (RExpr.parenAlls es)
  | [], h => h
  | e :: es, h => by simp only [RExpr.parenAlls, RExpr.WFs] at h ⊢; exact ⟨WF_parenAll e h.1, WFs_parenAlls es h.2⟩
theorem WFClauses_parenAll : ∀ (cs : List (RExpr × RExpr)), RExpr.WFClauses T cs → RExpr.WFClauses T (RExpr.parenAllClauses cs)
  | [], h => h
  | (c, r) :: cs, h => by
    simp only [RExpr.parenAllClauses, RExpr.WFClauses] at h ⊢
    exact ⟨WF_parenAll c h.1, WF_parenAll r h.2.1, WFClauses_parenAll cs h.2.2⟩
end

mutual
theorem embed_parenAll : ∀ (e : RExpr), e.parenAll.embed = e.embed
  | .lit _ => rfl
  | .col _ _ => rfl
  | .paren e => by simp only [RExpr.parenAll, RExpr.embed]; exact embed_parenAll e
  | .bin o l r => by
    cases o <;> simp only [RExpr.parenAll, RExpr.embed, embed_parenAll l, embed_parenAll r]
  | .not e => by simp only [RExpr.parenAll, RExpr.embed, embed_parenAll e]
  | .neg e => by simp only [RExpr.parenAll, RExpr.embed, embed_parenAll e]
  | .index a i => by simp only [RExpr.parenAll, RExpr.embed, embed_parenAll a, embed_parenAll i]
  | .cast e t => by simp only [RExpr.parenAll, RExpr.embed, embed_parenAll e]
  | .inList n e v vs => by
    simp only [RExpr.parenAll, RExpr.embed, embed_parenAll e, embed_parenAll v, embeds_parenAlls vs]
  | .call f args => by simp only [RExpr.parenAll, RExpr.embed, embeds_parenAlls args]
  | .star => rfl
  | .countDistinct f a as => by simp only [RExpr.parenAll, RExpr.embed, embed_parenAll a, embeds_parenAlls as]
  | .array sp args => by simp only [RExpr.parenAll, RExpr.embed, embeds_parenAlls args]
  | .extract part e => by simp only [RExpr.parenAll, RExpr.embed, embed_parenAll e]
  | .tuple a b more => by
    simp only [RExpr.parenAll, RExpr.embed, embed_parenAll a, embed_parenAll b, embeds_parenAlls more]
  | .case c r more els => by
    simp only [RExpr.parenAll, RExpr.embed, embed_parenAll c, embed_parenAll r, embedClauses_parenAll more,
      embed_parenAll els]
theorem embeds_parenAlls : ∀ (es : List RExpr), RExpr.embeds (RExpr.parenAlls es) = RExpr.embeds es
  | [] => rfl
  | e :: es => by simp only [RExpr.parenAlls, RExpr.embeds, embed_parenAll e, embeds_parenAlls es]
theorem embedClauses_parenAll : ∀ (cs : List (RExpr × RExpr)),
    RExpr.embedClauses (RExpr.parenAllClauses cs) = RExpr.embedClauses cs
  | [] => rfl
  | (c, r) :: cs => by
    simp only [RExpr.parenAllClauses, RExpr.embedClauses, embed_parenAll c, embed_parenAll r, embedClauses_parenAll cs]
end

/-- top level: the printed expression followed by a stopping state -/
theorem parse_printed (hT : T.WF) (e : RExpr) (hwf : RExpr.WF T e) (rest : PSt)
    (hloc : rest.cur.loc = default) (hS : Stops T 0 rest) :
    ∃ f0, ∀ f, f0 ≤ f → parseExpr T f (pushAll (e.pr T 0) rest) = .ok e.embed rest := by
  have h8 := dotPrec_ge8 hT
  exact PE_fuel (PE_of_at T (climb_correct hT e hwf 0 rest (by omega) hloc hS))

theorem generated_eq_spec : Generated.precTables = specTables := by decide

theorem spec_wf : specTables.WF := by decide

theorem generated_wf : Generated.precTables.WF := by decide

/-! ### token vectors with arbitrary locations -/

/-- the state whose token vector is `ts` followed by the tokens of `s` -/
def mkSt (ts : List PTok) (s : PSt) : PSt := ts.foldr (fun t s => ⟨t, s.cur :: s.rest⟩) s

theorem strip_mkSt (ts : List PTok) (s : PSt) : (mkSt ts s).strip = pushAll (ts.map (·.tok)) s.strip := by
  induction ts with
  | nil => rfl
  | cons t ts ih =>
    simp only [mkSt, List.foldr_cons, List.map_cons, pushAll_cons] at ih ⊢
    rw [← ih]
    rfl

theorem stops_strip {m : Int} {s : PSt} (h : Stops T m s) : Stops T m s.strip := by
  obtain ⟨h1, tp, h2, h3⟩ := h
  refine ⟨h1, tp, ?_, h3⟩
  rw [tokenPrecedence_strip, h2]; rfl

/-- `climb_correct` at the top level for token vectors carrying arbitrary locations: the tree is the expression's
tree up to locations, and what is left is the vector that followed the expression -/
theorem parse_located (hT : T.WF) (e : RExpr) (hwf : RExpr.WF T e) (ts : List PTok) (rest : PSt)
    (hts : ts.map (·.tok) = e.pr T 0) (hS : Stops T 0 rest) :
    ∃ f0, ∀ f, f0 ≤ f → ∃ t s', parseExpr T f (mkSt ts rest) = .ok t s' ∧ t.eraseLoc = e.embed ∧ s'.strip = rest.strip := by
  obtain ⟨f0, h⟩ := parse_printed hT e hwf rest.strip rfl (stops_strip hS)
  refine ⟨f0, fun f hf => ?_⟩
  have := h f hf
  rw [← hts, ← strip_mkSt, parseExpr_strip] at this
  cases hp : parseExpr T f (mkSt ts rest) with
  | ok t s' =>
    rw [hp] at this
    simp only [PRes.strip, PRes.ok.injEq] at this
    exact ⟨t, s', rfl, this.1, this.2⟩
  | err e s' => rw [hp] at this; simp [PRes.strip] at this
  | fuel => rw [hp] at this; simp [PRes.strip] at this

/-! ### a negated operand after any binary operator -/

theorem spec_binary_le6 : ∀ e ∈ specTables.binary, e.1 ≠ .single '.' → e.2 ≤ 6 := by decide

theorem spec_bop_range {o : BOp} (h : ∀ s, o = .sym s → s ≠ .single '.' ∧ (lookupOp specTables.binary s).isSome) :
    0 ≤ tokPrec specTables o.tok ∧ tokPrec specTables o.tok ≤ 6 := by
  refine ⟨(bop_range spec_wf h).1, ?_⟩
  cases o with
  | sym s =>
    obtain ⟨hne, hs⟩ := h s rfl
    cases hl : lookupOp specTables.binary s with
    | none => rw [hl] at hs; cases hs
    | some p =>
      have := spec_binary_le6 _ (lookupOp_mem hl) hne
      simp only [BOp.tok, tokPrec, hl, Option.getD_some]
      exact this
  | is => decide
  | isNot => decide
  | and => decide
  | or => decide

/-- under the reference grammar a negated right operand never needs parentheses, whatever the binary operator -/
theorem minimal_neg_operand (o : BOp) (l r : RExpr)
    (h : ∀ s, o = .sym s → s ≠ .single '.' ∧ (lookupOp specTables.binary s).isSome) :
    RExpr.minimal (.bin o l (.neg r)) =
      RExpr.pr specTables (tokPrec specTables o.tok) l ++ [o.tok, .op (.single '-')] ++
        RExpr.pr specTables (RExpr.prefixCtx negLevel r) r := by
  obtain ⟨h0, h6⟩ := spec_bop_range h
  have a : ¬ tokPrec specTables o.tok < 0 := by omega
  have b : ¬ negLevel < tokPrec specTables o.tok + 1 := by simp only [negLevel]; omega
  unfold RExpr.minimal
  rw [RExpr.pr, RExpr.pr]
  simp only [a, b, decide_false, RExpr.wrap, Bool.false_eq_true, if_false, List.append_assoc, List.cons_append,
    List.nil_append]

/-! ### helpers for the instances of the sentence -/

/-- a plain column of the reference grammar -/
def col (n : List Char) : RExpr := .col n []
/-- a column node at the default location -/
def pcol (n : List Char) : PExpr := .column default n

theorem inst (e : RExpr) (toks : List Tok) (tree : PExpr) (rest : PSt) (hloc : rest.cur.loc = default)
    (hS : Stops specTables 0 rest) (hwf : RExpr.WF specTables e) (h1 : RExpr.minimal e = toks) (h2 : e.embed = tree) :
    ∃ f0, ∀ f, f0 ≤ f → parseExpr Generated.precTables f (pushAll toks rest) = .ok tree rest := by
  obtain ⟨f0, h⟩ := parse_printed spec_wf e hwf rest hloc hS
  rw [generated_eq_spec]
  exact ⟨f0, fun f hf => by rw [← h1, ← h2]; exact h f hf⟩

theorem wf_col {n : List Char} (h : lowerChars n ≠ "array".toList) : RExpr.WF specTables (col n) :=
  ⟨h, fun _ hp => by cases hp⟩

theorem wf_sym {s : Operator} {l r : RExpr} (hs : s ≠ .single '.' ∧ (lookupOp specTables.binary s).isSome)
    (hl : RExpr.WF specTables l) (hr : RExpr.WF specTables r) : RExpr.WF specTables (.bin (.sym s) l r) :=
  ⟨fun s' h => by cases h; exact hs, hl, hr⟩

theorem wf_kw {o : BOp} {l r : RExpr} (ho : ∀ s, o ≠ .sym s)
    (hl : RExpr.WF specTables l) (hr : RExpr.WF specTables r) : RExpr.WF specTables (.bin o l r) :=
  ⟨fun s' h => absurd h (ho s'), hl, hr⟩

theorem wf_lit (l : Lit) : RExpr.WF specTables (.lit l) := trivial


end Sqlgrep.Spec
