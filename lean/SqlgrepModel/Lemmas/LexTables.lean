import SqlgrepModel.Model.Lex
import SqlgrepModel.Generated.Keywords
import SqlgrepModel.Generated.LexOps
/-
Table obligations of the tokenizer model: the tables regenerated from the running code on every run
(`Generated/Keywords.lean`, `Generated/LexOps.lean`, written by `harness tables`) equal the tables the model uses.
All by kernel evaluation (`decide`): a change of `KEYWORDS`, of `TWO_CHAR_OPERATORS`, of the `=>` rule, of the
`--` comment rule or of the set of characters with a token of their own breaks one of these at build time.
-/
namespace Sqlgrep.Lex.Tables
open Sqlgrep Sqlgrep.Lex

/-- an oracle record for texts that are pure ASCII (neither component is consulted) -/
def asciiOnly : Oracles := { ext := fun c => { alpha := false, numeric := false, alnum := false, white := false, lower := [c] }, fparse := fun _ => .missing }

/-- `KEYWORDS`, word for word, with the keyword each word produces in the running code -/
theorem keywords_eq : Generated.keywords = keywordTable := by decide

/-- every word of `KEYWORDS` tokenizes to exactly one keyword token in the running code -/
theorem keywords_no_anomaly : Generated.keywordAnomalies = [] := by decide

/-- the literal words are exactly `false`, `null`, `true` -/
theorem literal_words_eq : Generated.literalWords = [(wFalse, .fls), (wNull, .null), (wTrue, .tru)] := by decide

/-- the model's two-character operators, the comment opener removed, are the pairs the code fuses into `Dual` -/
theorem fused_dual_eq : Generated.fusedDual = twoCharOps.filter (· ≠ ('-', '-')) := by decide

/-- `--` is a two-character operator in the model, and the only adjacent pair the code turns into a comment -/
theorem fused_comment_eq : Generated.fusedComment = twoCharOps.filter (· = ('-', '-')) := by decide

/-- `=>` is the only pair that becomes `RightArrow` -/
theorem fused_arrow_eq : Generated.fusedArrow = [('=', '>')] := by decide

/-- no other adjacent pair of operator characters is treated specially, and none fuses across whitespace -/
theorem fused_nothing_else : Generated.fusedOther = [] ∧ Generated.fusedWhenSeparated = [] := by decide

/-- printable ASCII -/
def printable : List Char := (List.range 94).map (fun n => Char.ofNat (n + 33))

/-- the operator alphabet as the *model* computes it: printable ASCII characters that tokenize to a single operator -/
def modelOpAlphabet : List Char :=
  printable.filter (fun c => tokens asciiOnly [c] == some [.op (.single c), .eof])

/-- the characters that are operators on their own are the same in the code and in the model -/
theorem op_alphabet_eq : Generated.opAlphabet = modelOpAlphabet := by decide +kernel

/-- what the *model* does with an adjacent pair of operator characters: 0 = two single operators, 1 = `Dual`,
2 = `RightArrow`, 3 = nothing (a comment), 4 = anything else -/
def modelPairClass (a b : Char) : Nat :=
  match tokens asciiOnly [a, b] with
  | some ts =>
    if ts == [.op (.single a), .op (.single b), .eof] then 0
    else if ts == [.op (.dual a b), .eof] then 1
    else if ts == [.rarrow, .eof] then 2
    else if ts == [.eof] then 3
    else 4
  | none => 4

def allPairs : List (Char × Char) := Generated.opAlphabet.flatMap (fun a => Generated.opAlphabet.map (fun b => (a, b)))

/-- the pairs the model treats specially, with their class -/
def modelSpecialPairs : List ((Char × Char) × Nat) :=
  (allPairs.map (fun ab => (ab, modelPairClass ab.1 ab.2))).filter (fun x => x.2 != 0)

def generatedSpecialPairs : List ((Char × Char) × Nat) :=
  (allPairs.map (fun ab => (ab,
    if Generated.fusedDual.contains ab then 1 else if Generated.fusedArrow.contains ab then 2
    else if Generated.fusedComment.contains ab then 3 else if Generated.fusedOther.contains ab then 4 else 0))).filter (fun x => x.2 != 0)

/-- the model, run on every adjacent pair of the operator alphabet, treats exactly the pairs specially that the
running code treats specially, in the same way (all other pairs stay two single operators on both sides) -/
theorem model_pairs_eq : modelSpecialPairs = generatedSpecialPairs := by decide +kernel

end Sqlgrep.Lex.Tables
