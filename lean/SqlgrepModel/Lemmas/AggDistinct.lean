import SqlgrepModel.Lemmas.AggSums
/-
COUNT(DISTINCT c) against the specification, and the per-aggregate lemmas assembled into one statement
(`aggregate_refines`): for every aggregate kind, folding the engine's step over the argument values of a group
reaches a cell that shows exactly the specification's value and has an entry exactly when `createsEntry` says so.
-/
set_option linter.unusedSimpArgs false
namespace Sqlgrep
open Value Spec.Agg

/-! ### COUNT(DISTINCT c) -/

theorem cmp_eq_symm {a b : Value} (h : Value.cmp a b = .eq) : Value.cmp b a = .eq := by
  rw [cmp_swap a b, h]; rfl

theorem beq_symm (a b : Value) : Value.beq a b = Value.beq b a := by
  cases hab : Value.beq a b <;> cases hba : Value.beq b a <;> try rfl
  · have := cmp_eq_symm ((cmp_eq_iff_beq b a).mpr hba)
    rw [cmp_eq_iff_beq, hab] at this; exact this
  · have := cmp_eq_symm ((cmp_eq_iff_beq a b).mpr hab)
    rw [cmp_eq_iff_beq, hba] at this; exact this.symm

theorem beq_trans {a b c : Value} (h1 : Value.beq a b = true) (h2 : Value.beq b c = true) : Value.beq a c = true := by
  rw [← cmp_eq_iff_beq] at *
  have := (cmp_T a b c).2.1 h1
  rw [this]; exact h2

/-- the hash-set membership test of the engine is value equality (equal values feed equal hash streams) -/
theorem keySame_eq_beq (a b : Value) : keySame a b = Value.beq a b := by
  unfold keySame
  cases h : Value.beq a b
  · simp
  · simp [hashRepr_eq_of_beq a b h]

/-- the engine's set of seen values (most recent first) -/
def seenAll (seen : List Value) (xs : List Value) : List Value :=
  xs.foldl (fun s v => if s.any (keySame v) then s else v :: s) seen

def cdCell (seen : List Value) : Cell := countCell (some (.countDistinct seen)) seen.length

theorem aggUpdate_countDistinct (seen : List Value) (v : Value) :
    aggUpdate (.countDistinct seen) v =
      if seen.any (keySame v) then .ok (.countDistinct seen, some (.bool false))
      else .ok (.countDistinct (v :: seen), some (.bool true)) := rfl

theorem stepV_cd (cn : String) (seen : List Value) (v : Value) (hv : v.isNull = false) :
    stepV (.count (some cn) true) v (cdCell seen) = .ok (cdCell (if seen.any (keySame v) then seen else v :: seen)) := by
  simp only [stepV, stepCount, countValid, hv, Bool.not_false, Bool.and_self, if_true, cdCell, countCell, Option.getD,
    aggUpdate_countDistinct]
  by_cases hs : seen.any (keySame v) = true
  · simp [hs, Outcome.bind, validAfter, truthy]
  · simp only [hs, Bool.false_eq_true, if_false, Outcome.bind, validAfter, truthy, if_true]
    have := bumpCount_countCell (some (.countDistinct (v :: seen))) seen.length
    simp only [countCell] at this
    rw [this]; simp

theorem foldV_cd (cn : String) (vs : List Value) (seen : List Value) :
    foldV (.count (some cn) true) vs (cdCell seen) = .ok (cdCell (seenAll seen (nonNull vs))) := by
  induction vs generalizing seen with
  | nil => rfl
  | cons v vs ih =>
    cases hv : v.isNull
    · rw [nonNull_cons_of_not_null hv]
      simp only [foldV, stepV_cd cn seen v hv, Outcome.bind, ih, seenAll, List.foldl_cons]
    · have := isNull_eq_true hv; subst this
      rw [nonNull_cons_null]
      simp only [foldV, stepV, stepCount, countValid, isNull_null, Bool.not_true, Bool.false_and, Bool.false_eq_true, if_false,
        Outcome.bind]
      exact ih seen

theorem foldV_cd_init (cn : String) (vs : List Value) :
    foldV (.count (some cn) true) vs {} =
      .ok (if (nonNull vs).isEmpty then {} else cdCell (seenAll [] (nonNull vs))) := by
  induction vs with
  | nil => rfl
  | cons v vs ih =>
    cases hv : v.isNull
    · rw [nonNull_cons_of_not_null hv]
      have h1 : stepV (.count (some cn) true) v {} = stepV (.count (some cn) true) v (cdCell []) := by
        simp [stepV, stepCount, cdCell, countCell, countValid, hv]
      simp only [foldV, h1, stepV_cd cn [] v hv, Outcome.bind, foldV_cd, List.isEmpty_cons, Bool.false_eq_true, if_false,
        seenAll, List.foldl_cons, List.any_nil]
    · have := isNull_eq_true hv; subst this
      rw [nonNull_cons_null]
      simp only [foldV, stepV, stepCount, countValid, isNull_null, Bool.not_true, Bool.false_and, Bool.false_eq_true, if_false,
        Outcome.bind]
      exact ih

def notSeen (seen : List Value) (x : Value) : Bool := !seen.any (fun s => Value.beq x s)

theorem seenAll_length (seen xs : List Value) :
    (seenAll seen xs).length = seen.length + ((firstOccs xs).filter (notSeen seen)).length := by
  induction xs generalizing seen with
  | nil => simp [seenAll, firstOccs]
  | cons v xs ih =>
    simp only [seenAll, List.foldl_cons, firstOccs]
    by_cases hs : seen.any (keySame v) = true
    · simp only [hs, if_true]
      have := ih seen
      simp only [seenAll] at this
      rw [this]
      have hv : notSeen seen v = false := by
        simp only [notSeen, Bool.not_eq_false']
        rw [List.any_eq_true] at hs ⊢
        obtain ⟨s, hs1, hs2⟩ := hs
        exact ⟨s, hs1, by rw [← keySame_eq_beq]; exact hs2⟩
      rw [List.filter_cons_of_neg (by simp [hv]), List.filter_filter]
      congr 2
      apply List.filter_congr
      intro x _
      cases hx : notSeen seen x
      · simp
      · -- x is not in `seen`, so it is not equal to v (which is)
        simp only [Bool.true_and, Bool.not_eq_true']
        cases hvx : Value.beq v x
        · rfl
        · exfalso
          simp only [notSeen, Bool.not_eq_true', Bool.not_eq_false'] at hx hv
          rw [List.any_eq_true] at hv
          obtain ⟨s, hs1, hs2⟩ := hv
          have : Value.beq x s = true := beq_trans (by rw [beq_symm]; exact hvx) hs2
          have hh : seen.any (fun s => Value.beq x s) = true := List.any_eq_true.mpr ⟨s, hs1, this⟩
          rw [hh] at hx; exact absurd hx (by simp)
    · simp only [hs, Bool.false_eq_true, if_false]
      have := ih (v :: seen)
      simp only [seenAll] at this
      rw [this]
      have hv : notSeen seen v = true := by
        simp only [notSeen, Bool.not_eq_true']
        cases h : seen.any (fun s => Value.beq v s)
        · rfl
        · exfalso; apply hs
          rw [List.any_eq_true] at h ⊢
          obtain ⟨s, hs1, hs2⟩ := h
          exact ⟨s, hs1, by rw [keySame_eq_beq]; exact hs2⟩
      rw [List.filter_cons_of_pos hv, List.filter_filter, List.length_cons, List.length_cons]
      have : (firstOccs xs).filter (notSeen (v :: seen)) = (firstOccs xs).filter (fun x => notSeen seen x && !Value.beq v x) := by
        apply List.filter_congr
        intro x _
        simp only [notSeen, List.any_cons, Bool.not_or, beq_symm x v, Bool.and_comm]
      rw [this]; omega

theorem seenAll_nil_length (xs : List Value) : (seenAll [] xs).length = (firstOccs xs).length := by
  rw [seenAll_length]
  have : (firstOccs xs).filter (notSeen []) = firstOccs xs := by
    apply List.filter_eq_self.mpr; intro x _; rfl
  simp [this]

theorem firstOccs_isEmpty (xs : List Value) : (firstOccs xs).isEmpty = xs.isEmpty := by
  cases xs <;> rfl

/-- COUNT(DISTINCT c): the number of distinct non-NULL values -/
theorem countDistinct_refines (cn : String) (vs : List Value) (r : Value)
    (h : aggregate (.count (some cn) true) vs = some r) :
    ∃ c, foldV (.count (some cn) true) vs {} = .ok c ∧ shownValue (.count (some cn) true) c = r ∧
      (published c).isSome = createsEntry (.count (some cn) true) vs := by
  simp only [aggregate, Option.some.injEq] at h
  refine ⟨_, foldV_cd_init cn vs, ?_, ?_⟩
  · rw [← h]
    cases hn : nonNull vs with
    | nil => simp [shownValue, published, emptyGroupValue, firstOccs]
    | cons x xs =>
      simp only [List.isEmpty_cons, Bool.false_eq_true, if_false, cdCell]
      rw [shown_countCell _ _ _ _ (by simp), seenAll_nil_length]
  · simp only [createsEntry]
    cases hn : nonNull vs with
    | nil => simp [published]
    | cons x xs =>
      simp only [List.isEmpty_cons, Bool.false_eq_true, if_false, cdCell, published, countCell, seenAll_nil_length]
      simp [firstOccs]

/-! ### all aggregates -/

/-- **per-aggregate refinement.** For a non-empty group with argument values `vs` (arrival order, NULLs included):
whenever the specification fixes the aggregate's value `r` — and, for ARRAY_AGG, the first value is not NULL
(otherwise the engine refuses: finding D15) — the engine's fold over `vs` succeeds, shows `r`, and has created a
`group_values` entry exactly when `createsEntry` says so. -/
theorem aggregate_refines (k : AggKind) (vs : List Value) (r : Value) (hne : vs ≠ [])
    (h : aggregate k vs = some r) (hd15 : firstNull k vs = false) :
    ∃ c, foldV k vs {} = .ok c ∧ shownValue k c = r ∧ (published c).isSome = createsEntry k vs := by
  cases k with
  | groupKey e c => simp [aggregate] at h
  | count col d =>
    cases d with
    | false => exact count_refines col vs r h
    | true =>
      cases col with
      | none => simp [aggregate] at h
      | some cn => exact countDistinct_refines cn vs r h
  | min e => exact min_refines e vs r h
  | max e => exact max_refines e vs r h
  | sum e => exact sum_refines e vs r h
  | avg e => exact avg_refines e vs r h
  | stddev e b => exact stddev_refines e b vs r h
  | percentile e p => exact percentile_refines e p vs r h
  | boolAnd e => exact boolAnd_refines e vs r h
  | boolOr e => exact boolOr_refines e vs r h
  | arrayAgg e =>
    cases vs with
    | nil => exact absurd rfl hne
    | cons v vs => exact arrayAgg_refines e v vs r (by simpa [firstNull] using hd15) h
  | stringAgg e d => exact stringAgg_refines e d vs r h

end Sqlgrep
