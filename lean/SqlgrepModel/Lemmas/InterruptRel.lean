import SqlgrepModel.Lemmas.InterruptBatch
/-
Helper lemmas for C19: the interrupted batch loop against the uninterrupted one over the same files — either the
two runs are identical (the clearing point was never reached) or the interrupted one is frozen at the clearing
point: `k` lines consumed, not failed, what it printed a prefix of what the other prints.
-/
namespace Sqlgrep

/-- the loop state is consistent: lines counted = lines looked at, and a failed run has stopped -/
def Sound (ls : LoopState) : Prop :=
  ls.out.totalLines = ls.consumed ∧ (hasFailed ls.out = true → ls.stop = true)

theorem sound_init : Sound {} := ⟨rfl, fun h => by simp [hasFailed] at h⟩

theorem runFile_sound (O : Oracles) (qy : Query) (idx : JoinIndex) (w : Bool) (sa : Option Nat) (f : List FileLine)
    (ls : LoopState) (h : Sound ls) : Sound (runFile O qy idx w sa f ls) := by
  induction f generalizing ls with
  | nil => simpa [runFile] using h
  | cons fl rest ih =>
    simp only [runFile]
    by_cases hs : (sa == some ls.consumed) = true
    · simpa [hs] using h
    · simp only [hs, Bool.false_eq_true, if_false]
      by_cases hr : fl.readable = true
      · simp only [hr, Bool.not_true, Bool.false_eq_true, if_false]
        cases hx : executeLine O qy idx w ls.es fl.line with
        | ok p =>
          obtain ⟨es1, lo1⟩ := p
          simp only
          by_cases hl : lo1.reachedLimit = true
          · simp only [hl, if_true]
            exact ⟨by simp [h.1], fun _ => rfl⟩
          · simp only [hl, Bool.false_eq_true, if_false]
            apply ih
            exact ⟨by simp [h.1], fun hf => h.2 (by simpa [hasFailed] using hf)⟩
        | error e => exact ⟨by simp [h.1], fun _ => rfl⟩
        | panic s => exact ⟨by simp [h.1], fun _ => rfl⟩
        | oracleMissing s => exact ⟨by simp [h.1], fun _ => rfl⟩
      · simp only [hr, Bool.not_false, if_true]
        exact ⟨h.1, fun _ => rfl⟩

theorem runFiles_sound (O : Oracles) (qy : Query) (idx : JoinIndex) (w : Bool) (sa : Option Nat)
    (files : List (List FileLine)) (ls : LoopState) (h : Sound ls) : Sound (runFiles O qy idx w sa files ls) := by
  induction files generalizing ls with
  | nil => simpa [runFiles] using h
  | cons f rest ih =>
    simp only [runFiles]
    split
    · exact h
    · split
      · exact runFile_sound O qy idx w sa f ls h
      · exact ih _ (runFile_sound O qy idx w sa f ls h)

/-! ### printing only appends -/

theorem runFile_printed_mono (O : Oracles) (qy : Query) (idx : JoinIndex) (w : Bool) (sa : Option Nat) (f : List FileLine)
    (ls : LoopState) : ls.out.printed <+: (runFile O qy idx w sa f ls).out.printed := by
  induction f generalizing ls with
  | nil => simp [runFile]
  | cons fl rest ih =>
    simp only [runFile]
    by_cases hs : (sa == some ls.consumed) = true
    · simp [hs]
    · simp only [hs, Bool.false_eq_true, if_false]
      by_cases hr : fl.readable = true
      · simp only [hr, Bool.not_true, Bool.false_eq_true, if_false]
        cases hx : executeLine O qy idx w ls.es fl.line with
        | ok p =>
          obtain ⟨es1, lo1⟩ := p
          simp only
          by_cases hl : lo1.reachedLimit = true
          · simp [hl]
          · simp only [hl, Bool.false_eq_true, if_false]
            refine List.IsPrefix.trans ?_ (ih _)
            exact List.prefix_append _ _
        | error e => simp
        | panic s => simp
        | oracleMissing s => simp
      · simp [hr]

theorem runFiles_printed_mono (O : Oracles) (qy : Query) (idx : JoinIndex) (w : Bool) (sa : Option Nat)
    (files : List (List FileLine)) (ls : LoopState) : ls.out.printed <+: (runFiles O qy idx w sa files ls).out.printed := by
  induction files generalizing ls with
  | nil => simp [runFiles]
  | cons f rest ih =>
    simp only [runFiles]
    split
    · exact List.prefix_refl _
    · split
      · exact runFile_printed_mono O qy idx w sa f ls
      · exact List.IsPrefix.trans (runFile_printed_mono O qy idx w sa f ls) (ih _)

/-! ### interrupted vs uninterrupted -/

/-- the interrupted run `I` against the uninterrupted run `U` -/
def Rel (k : Nat) (I U : LoopState) : Prop :=
  I = U ∨ (I.consumed = k ∧ I.stop = false ∧ I.out.printed <+: U.out.printed)

theorem runFile_rel (O : Oracles) (qy : Query) (idx : JoinIndex) (w : Bool) (k : Nat) (f : List FileLine)
    (ls : LoopState) (hc : ls.consumed ≤ k) (hst : ls.stop = false) :
    Rel k (runFile O qy idx w (some k) f ls) (runFile O qy idx w none f ls) := by
  induction f generalizing ls with
  | nil => left; simp [runFile]
  | cons fl rest ih =>
    by_cases hk : k = ls.consumed
    · right
      have : runFile O qy idx w (some k) (fl :: rest) ls = ls := by simp [runFile, hk]
      rw [this]
      exact ⟨hk.symm, hst, runFile_printed_mono O qy idx w none (fl :: rest) ls⟩
    · simp only [runFile]
      have h1 : (some k == some ls.consumed) = false := by simpa using hk
      have h2 : ((none : Option Nat) == some ls.consumed) = false := by simp
      simp only [h1, h2, Bool.false_eq_true, if_false]
      by_cases hr : fl.readable = true
      · simp only [hr, Bool.not_true, Bool.false_eq_true, if_false]
        cases hx : executeLine O qy idx w ls.es fl.line with
        | ok p =>
          obtain ⟨es1, lo1⟩ := p
          simp only
          by_cases hl : lo1.reachedLimit = true
          · left; simp only [hl, if_true]
          · simp only [hl, Bool.false_eq_true, if_false]
            exact ih _ (by simp only; omega) hst
        | error e => left; rfl
        | panic s => left; rfl
        | oracleMissing s => left; rfl
      · left; simp only [hr, Bool.not_false, if_true]

/-- once the clearing point is reached nothing more happens -/
theorem runFiles_frozen (O : Oracles) (qy : Query) (idx : JoinIndex) (w : Bool) (k : Nat)
    (files : List (List FileLine)) (I : LoopState) (h : I.consumed = k) :
    runFiles O qy idx w (some k) files I = I := by
  induction files with
  | nil => simp [runFiles]
  | cons f rest ih =>
    simp only [runFiles]
    have hf : runFile O qy idx w (some k) f I = I := by
      cases f with
      | nil => simp [runFile]
      | cons fl r => simp [runFile, h]
    rw [hf, ih]
    split
    · rfl
    · split <;> rfl

theorem runFiles_rel (O : Oracles) (qy : Query) (idx : JoinIndex) (w : Bool) (k : Nat)
    (files : List (List FileLine)) (I U : LoopState) (h : Rel k I U) (hc : I.consumed ≤ k) :
    Rel k (runFiles O qy idx w (some k) files I) (runFiles O qy idx w none files U) := by
  induction files generalizing I U with
  | nil => simpa [runFiles] using h
  | cons f rest ih =>
    rcases h with h | ⟨hk, hst, hp⟩
    · subst h
      simp only [runFiles]
      by_cases hs : (I.stop || reachedLimit qy I.es) = true
      · left; simp only [hs, if_true]
      · simp only [hs, Bool.false_eq_true, if_false]
        have hst : I.stop = false := by
          cases h : I.stop
          · rfl
          · simp [h] at hs
        rcases runFile_rel O qy idx w k f I hc hst with h1 | ⟨hk1, hst1, hp1⟩
        · rw [h1]
          by_cases hs1 : (runFile O qy idx w none f I).stop = true
          · left; simp only [hs1, if_true]
          · simp only [hs1, Bool.false_eq_true, if_false]
            apply ih _ _ (Or.inl rfl)
            rw [← h1]
            exact runFile_stop_consumed_le O qy idx w k f I hc
        · right
          have hI : (if (runFile O qy idx w (some k) f I).stop = true then runFile O qy idx w (some k) f I
              else runFiles O qy idx w (some k) rest (runFile O qy idx w (some k) f I)) = runFile O qy idx w (some k) f I := by
            rw [runFiles_frozen O qy idx w k rest _ hk1]; split <;> rfl
          rw [hI]
          refine ⟨hk1, hst1, ?_⟩
          split
          · exact hp1
          · exact List.IsPrefix.trans hp1 (runFiles_printed_mono O qy idx w none rest _)
    · right
      rw [runFiles_frozen O qy idx w k (f :: rest) I hk]
      exact ⟨hk, hst, List.IsPrefix.trans hp (runFiles_printed_mono O qy idx w none (f :: rest) U)⟩

/-- over empty input nothing happens -/
theorem runFiles_takeLines_zero (O : Oracles) (qy : Query) (idx : JoinIndex) (w : Bool)
    (files : List (List FileLine)) (ls : LoopState) :
    runFiles O qy idx w none (takeLines 0 files) ls = ls := by
  induction files with
  | nil => simp [runFiles, takeLines]
  | cons f rest ih =>
    have hf : runFile O qy idx w none [] ls = ls := by simp [runFile]
    simp only [takeLines, List.take_zero, Nat.zero_sub, runFiles]
    rw [hf, ih]
    split
    · rfl
    · split <;> rfl

end Sqlgrep
