import SqlgrepModel.Model.ParseExpr
import SqlgrepModel.Generated.PrecTable
/- C13: expressions group by standard SQL operator precedence and associativity (theorems follow). -/
namespace Sqlgrep.Props.C13
end Sqlgrep.Props.C13
