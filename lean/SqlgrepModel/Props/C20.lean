import SqlgrepModel.Lemmas.LexRender
import SqlgrepModel.Lemmas.LexFuse
import SqlgrepModel.Lemmas.LexTables
/-
C20 — a statement's meaning does not depend on layout, letter case or clause order; text inside string literals is
taken verbatim apart from backslash escapes.                                            (lexical half)

Model (`Model/Lex.lean`): `tokenize` of `src/parsing/tokenizer.rs` as a fold of `step` over the characters, with the
Unicode classes of non-ASCII characters and `f64::from_str` as oracles `o : Oracles` (every theorem below holds for
*every* oracle: nothing is assumed about them); tied to `/repo` on every run by the `tok` correspondence cases and by
the table obligations of `Lemmas/LexTables.lean` (keyword table, two-character operators, `=>`, `--`).

Vocabulary (`Lemmas/LexLayout.lean`): a text is described as a `Layout`: a sequence of *lexemes* (spellings of
tokens: a keyword or `null/true/false` with a per-letter case choice; an identifier; a run of digits; `digits.digits`;
a quoted string with its escapes; an operator character, `<= >= != =>`; a punctuation character) each preceded by a
*gap* (any sequence of whitespace characters — whatever `is_whitespace` says, line breaks included — and
`-- … \n` comments), a final gap, and optionally an unterminated `-- …` at the very end.  `Layout.Ok` demands that
every lexeme is well-formed and that neighbours are kept apart where they would merge: an empty gap is allowed only
where the next character cannot extend the previous lexeme (`AdjOk`: no word character after a word, no digit or `.`
after a number, no `=`/`>`/`-` completing a two-character operator), and directly after the operator `-` a gap
must not begin with a comment (`---` is the comment `--` followed by `-`).  These are exactly the places where the
property's quantifier says "where tokens stay separated".
`fuse` = the tokens a lexeme sequence denotes: the lexemes' own tokens with the three fusions the language defines
through the *last token* (`IS`+`NOT` → `IsNot`, `NOT`+`IN` → `NotIn`, `:`+`:` → `::`), independent of any layout.

The parser-level clauses of C20 (optional trailing semicolon, clause-order invariance, case-insensitive function /
aggregate / type names) are theorems of `Props/C20Parse.lean` (audited with this file by `./check C20`); the relation
in `harness/src/c20.rs` (text vs layout variant → same `Statement`, same output) additionally runs them on the code.
-/
namespace Sqlgrep.Props.C20
open Sqlgrep Sqlgrep.Lex

/-! ## Lexical half -/

/-- **The tokenizer inverts rendering under any layout.**  For every lexeme sequence and every layout of it — any
letter case of keyword and `null/true/false` words, any whitespace / line-break runs and `--` comments between
lexemes (present where neighbours would merge, optional elsewhere), any digit spelling, any escaping inside strings,
an unterminated comment at the end — tokenizing the rendered text succeeds and yields exactly the tokens the
lexemes denote, followed by `End`.  (Induction over the lexeme sequence with the fold state as invariant:
`Lemmas/LexRender.lean`, `run_items`.) -/
theorem tokenize_render (o : Oracles) (L : Layout) (h : L.Ok o) :
    tokens o L.text = some (fuse (L.lexemes.map (·.tok o)) ++ [.eof]) :=
  tokens_layout o L h

/-- **The same, read from the tokens**: for every token list `ts` that contains no neighbouring pair which *every*
layout fuses (`NoBadPair`: `IS`·`NOT`, `IS`·`NOT IN`, `NOT`·`IN`, `:`·`:`, `:`·`::`) and every layout whose lexemes
spell `ts` (`unfuse`: `IsNot`, `NotIn`, `::` are spelled as two lexemes each — with any gap between them), tokenizing
the rendered text yields `ts` followed by `End`. -/
theorem tokenize_render_tokens (o : Oracles) (ts : List Tok) (L : Layout) (h : L.Ok o)
    (spells : L.lexemes.map (·.tok o) = unfuse ts) (hts : NoBadPair ts) :
    tokens o L.text = some (ts ++ [.eof]) := by
  rw [tokenize_render o L h, spells, fuse_unfuse ts hts]

/-- the side condition of `tokenize_render_tokens` is necessary: `IS` followed by `NOT` is read as `IsNot` under any layout -/
example : tokens Tables.asciiOnly "is -- c\n \t not".toList = some [.kw .isNot, .eof] ∧ ¬ NoBadPair [.kw .is, .kw .not] := by
  decide

/-- **Layout invariance.**  Two texts that are layouts of lexeme sequences denoting the same tokens — i.e. that
differ only in letter case of keywords and literal words, in whitespace, line breaks and comments between tokens, in
leading zeros, or in how string characters are escaped — tokenize to the same tokens (locations aside). -/
theorem layout_invariance (o : Oracles) (L₁ L₂ : Layout) (h₁ : L₁.Ok o) (h₂ : L₂.Ok o)
    (same : L₁.lexemes.map (·.tok o) = L₂.lexemes.map (·.tok o)) :
    tokens o L₁.text = tokens o L₂.text := by
  rw [tokenize_render o L₁ h₁, tokenize_render o L₂ h₂, same]

/-- the result of `tokenize_render` does not mention the gaps, the case choices or the end-of-text comment: the same
lexemes under any two layouts give the same tokens -/
theorem gaps_irrelevant (o : Oracles) (L₁ L₂ : Layout) (h₁ : L₁.Ok o) (h₂ : L₂.Ok o)
    (same : L₁.lexemes = L₂.lexemes) : tokens o L₁.text = tokens o L₂.text :=
  layout_invariance o L₁ L₂ h₁ h₂ (by rw [same])

/-- **Keywords are case-insensitive**: every per-letter case variant of every word of `KEYWORDS` is that keyword. -/
theorem keyword_case_insensitive (o : Oracles) (k : Keyword) (w : List Char) (hk : kwWord k = some w) (flips : List Bool) :
    tokens o (applyCase flips w) = some [.kw k, .eof] := by
  have h := tokenize_render o { items := [([], .kw k flips)] } (single_ok o _ (by simp [Lexeme.Valid, hk]))
  simpa [Layout.text, renderItems, Gap.text, Lexeme.text, hk, Layout.lexemes, Lexeme.tok, fuse, pushTok] using h

/-- `null`, `true`, `false` in any letter case are the literal tokens -/
theorem literal_word_case_insensitive (o : Oracles) (l : LitWord) (flips : List Bool) :
    tokens o (applyCase flips l.word) = some [l.tok, .eof] := by
  have h := tokenize_render o { items := [([], .lit l flips)] } (single_ok o _ trivial)
  have e : pushTok [] l.tok = [l.tok] := by cases l <;> rfl
  simpa [Layout.text, renderItems, Gap.text, Lexeme.text, Layout.lexemes, Lexeme.tok, fuse, e] using h

/-- **String literals are taken verbatim apart from backslash escapes**: the content of the token is the text
between the quotes with each escaping backslash removed and the escaped character kept — nothing else is touched
(no case change, no trimming, `--` inside is not a comment, line breaks are kept).  `wellEscaped`: the text between
the quotes contains no unescaped `'` and does not end in an escaping backslash, i.e. the quotes really delimit it. -/
theorem string_literal_verbatim (o : Oracles) (body : List Char) (h : wellEscaped body = true) :
    tokens o ('\'' :: (body ++ ['\''])) = some [.str (unescape body), .eof] := by
  have h := tokenize_render o { items := [([], .str body)] } (single_ok o _ h)
  simpa [Layout.text, renderItems, Gap.text, Lexeme.text, Layout.lexemes, Lexeme.tok, fuse, pushTok] using h

/-- the same inside any statement: wherever a string lexeme stands in a layout, its token is `unescape body` (this is
`tokenize_render` read at a string lexeme) -/
theorem string_token (o : Oracles) (body : List Char) : (Lexeme.str body).tok o = .str (unescape body) := rfl

/-- an unescaped text survives unchanged: without backslashes the content is the text between the quotes -/
theorem unescape_plain (body : List Char) (h : '\\' ∉ body) : unescape body = body := by
  induction body with
  | nil => rfl
  | cons c rest ih =>
    have hc : c ≠ '\\' := fun e => h (by simp [e])
    have hr : '\\' ∉ rest := fun e => h (by simp [e])
    cases rest with
    | nil => simp [unescape, hc]
    | cons d rest' =>
      have := ih hr
      simp only [unescape, hc, if_false, List.cons.injEq, true_and]
      exact this

/-- **A comment is whitespace**: replacing every `-- … \n` comment of a text by a line break (and dropping an
unterminated comment at the end of the text) does not change the tokens. -/
theorem comment_is_whitespace (o : Oracles) (L : Layout) (h : L.Ok o) :
    tokens o (stripComments L).text = tokens o L.text := by
  obtain ⟨hitems, hfinal, _, _⟩ := h
  have hs : (stripComments L).Ok o :=
    ⟨stripItems_ok o _ _ hitems, stripGap_ok o _ hfinal, fun _ => stripGap_start _, trivial⟩
  refine gaps_irrelevant o _ _ hs ⟨hitems, hfinal, by assumption, by assumption⟩ ?_
  simp [stripComments, Layout.lexemes, Function.comp_def]

/-! ### non-vacuity: a concrete layout satisfying `Layout.Ok`, and what the theorem says about it -/

/-- `sElECT x<=007 -- c⏎ 'it\'s'⇥;--` -/
def exampleLayout : Layout :=
  { items := [ ([], .kw .select [false, true, false, true, true, true]),
               ([.ws ' '], .ident ['x']),
               ([], .op2 '<' '='),
               ([], .int ['0', '0', '7']),
               ([.ws ' ', .comment [' ', 'c'], .ws ' '], .str ['i', 't', '\\', '\'', 's']),
               ([.ws '\t'], .punct .semi) ],
    final := [],
    tail := some [] }

example : exampleLayout.text = "sElECT x<=007 -- c\n 'it\\'s'\t;--".toList := by decide

example : exampleLayout.Ok Tables.asciiOnly := by decide

example : tokens Tables.asciiOnly exampleLayout.text =
    some [.kw .select, .ident ['x'], .op (.dual '<' '='), .int 7, .str ['i', 't', '\'', 's'], .semi, .eof] := by
  decide

/-- the hypotheses of `tokenize_render_tokens` on the same layout -/
example : exampleLayout.lexemes.map (·.tok Tables.asciiOnly) =
      unfuse [.kw .select, .ident ['x'], .op (.dual '<' '='), .int 7, .str ['i', 't', '\'', 's'], .semi] ∧
    NoBadPair [.kw .select, .ident ['x'], .op (.dual '<' '='), .int 7, .str ['i', 't', '\'', 's'], .semi] := by
  decide

/-- a layout spelling the fused tokens: `x IS⏎NOT NULL :: :` reads as `x IsNot Null DoubleColon Colon` -/
example : tokens Tables.asciiOnly "x IS\nNOT NULL : -- c\n: :".toList =
    some [.ident ['x'], .kw .isNot, .null, .dcolon, .colon, .eof] := by decide

/-! ## Parser-level clauses

`Props/C20Parse.lean`: `trailing_semicolon`, clause-order invariance of the JOIN / WHERE / GROUP BY / HAVING / LIMIT
clauses, and case-insensitive function / aggregate / type names (over the generated tables). -/

end Sqlgrep.Props.C20
