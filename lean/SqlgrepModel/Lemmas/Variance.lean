import SqlgrepModel.Spec.Agg
import SqlgrepModel.Spec.Variance
import SqlgrepModel.Lemmas.FloatArith
/-
The textbook population variance (`Spec/Variance.lean`, exact rationals) against what the model and the code compute
(`Spec/Agg.lean` `intVariance` / `realVariance` = `Model/Engine.lean` `stddevCalcInt` / `stddevCalc`; finding D72, repaired):

  (i)   the algebra over ℚ: the one-pass formula `(Σx² − (Σx)²/n)/n` equals `(1/n)·Σ(x − μ)²` (`popVariance_eq_onepass`), a
        variance is never negative (`popVariance_nonneg`), that of a constant list is 0 (`popVariance_const`), and for INT
        inputs `σ² = (n·Σx² − (Σx)²) / n²` (`popVariance_ints`) with a non-negative integer numerator (`varNumer_nonneg`);
  (ii)  INT arguments: the cell is `fl(fl(N) / fl(n²))` with `N = n·Σx² − (Σx)²` formed EXACTLY — `F64.ofInt` of a
        non-negative integer is the correctly rounded magnitude (`ofInt_nat`, `ofInt_nat_nearest`, `ofInt_nat_tie_even`),
        the quotient is `magBits (umag fl(N)) (umag fl(n²))` (`intVariance_eq`): never NaN, never negative
        (`intVariance_sign`), correctly rounded (`intVariance_nearest`), `0.0` when `N = 0` (`intVariance_zero`), and EXACT
        when `N`, `n²` fit 53 bits and the quotient is a REAL (`intVariance_exact`);
  (iii) REAL arguments: the one-pass formula step by step in REAL arithmetic, then negative results are replaced by `0.0`
        (`clampNegative_*`); the value of a finite REAL as a rational (`F64.toRat`), the decidable predicate "no step of the
        formula rounds" (`onePassExact`, `onePassExactReals`) and: under it the REAL shown is EXACTLY the textbook variance
        (`onePass_exact_value_reals`); each step on its own is correctly rounded (`onePass_steps_nearest`) — which does NOT
        make the result the REAL nearest to the exact variance: the subtraction cancels (that is why the clamp is there).
-/
namespace Sqlgrep
open Spec.Variance

namespace Variance

/-! ### (i) the algebra, over exact rationals -/

theorem rat_mul_self_nonneg (a : Rat) : 0 ≤ a * a := by
  rcases Rat.le_total (a := 0) (b := a) with h | h
  · exact Rat.mul_nonneg h h
  · have h1 : 0 ≤ -a := by grind
    have := Rat.mul_nonneg h1 h1
    grind

theorem rat_div_nonneg {a b : Rat} (h : 0 ≤ a) (hb : 0 < b) : 0 ≤ a / b := by
  rw [Rat.div_def]
  exact Rat.mul_nonneg h (Rat.le_of_lt (Rat.inv_pos.mpr hb))

theorem length_ne_zero {α : Type} {xs : List α} (h : xs ≠ []) : (xs.length : Rat) ≠ 0 := by
  have : xs.length ≠ 0 := by simpa using h
  exact_mod_cast this

theorem length_pos {α : Type} {xs : List α} (h : xs ≠ []) : (0 : Rat) < xs.length := by
  have : 0 < xs.length := List.length_pos_iff.mpr h
  exact Rat.natCast_pos.mpr this

/-- `Σ(x − c)² = Σx² − 2c·Σx + n·c²` for every constant `c` -/
theorem sum_sq_sub (c : Rat) (xs : List Rat) :
    (xs.map (fun x => (x - c) ^ 2)).sum = (xs.map (fun x => x ^ 2)).sum - 2 * c * xs.sum + xs.length * c ^ 2 := by
  induction xs with
  | nil => simp; grind
  | cons x xs ih =>
    simp only [List.map_cons, List.sum_cons, List.length_cons]
    rw [ih]
    push_cast
    grind

/-- **(i) the one-pass formula is the textbook variance, over exact rationals**: for a non-empty list
`(1/n)·Σ(x − μ)² = (Σx² − (Σx)²/n) / n` -/
theorem popVariance_eq_onepass (xs : List Rat) (h : xs ≠ []) :
    popVariance xs = ((xs.map (fun x => x ^ 2)).sum - xs.sum ^ 2 / xs.length) / xs.length := by
  have hn := length_ne_zero h
  unfold popVariance
  rw [sum_sq_sub]
  unfold mean
  grind

theorem sum_sq_nonneg (c : Rat) (xs : List Rat) : (0 : Rat) ≤ (xs.map (fun x => (x - c) ^ 2)).sum := by
  induction xs with
  | nil => simp
  | cons x xs ih =>
    simp only [List.map_cons, List.sum_cons]
    have : ((x - c) ^ 2 : Rat) = (x - c) * (x - c) := by grind
    rw [this]
    exact Rat.add_nonneg (rat_mul_self_nonneg _) ih

/-- a variance is never negative -/
theorem popVariance_nonneg (xs : List Rat) : 0 ≤ popVariance xs := by
  by_cases h : xs = []
  · subst h; simp [popVariance, Rat.div_def]
  · exact rat_div_nonneg (sum_sq_nonneg _ _) (length_pos h)

theorem sum_replicate (n : Nat) (c : Rat) : (List.replicate n c).sum = n * c := by
  induction n with
  | zero => simp
  | succ n ih => simp only [List.replicate_succ, List.sum_cons, ih]; push_cast; grind

/-- the variance of `n` equal values is 0 -/
theorem popVariance_const (n : Nat) (c : Rat) : popVariance (List.replicate n c) = 0 := by
  cases n with
  | zero => simp [popVariance, Rat.div_def]
  | succ n =>
    have hne : List.replicate (n + 1) c ≠ [] := by simp
    have hn := length_ne_zero hne
    rw [popVariance_eq_onepass _ hne]
    have h2 : ((List.replicate (n + 1) c).map (fun x => x ^ 2)) = List.replicate (n + 1) (c ^ 2) := by simp
    rw [h2, sum_replicate, sum_replicate]
    simp only [List.length_replicate] at hn ⊢
    grind

theorem sum_map_intCast (is : List Int) : (is.map (fun (i : Int) => (i : Rat))).sum = ((is.sum : Int) : Rat) := by
  induction is with
  | nil => simp
  | cons i is ih => simp only [List.map_cons, List.sum_cons, ih, Rat.intCast_add]

theorem sum_map_sq_intCast (is : List Int) :
    ((is.map (fun (i : Int) => (i : Rat))).map (fun x => x ^ 2)).sum = (((is.map (fun x => x * x)).sum : Int) : Rat) := by
  induction is with
  | nil => simp
  | cons i is ih =>
    simp only [List.map_cons, List.sum_cons, ih, Rat.intCast_add, Rat.intCast_mul]
    grind

/-- **for INT inputs only integers are needed**: `n²·σ² = n·Σx² − (Σx)²` -/
theorem popVariance_ints (is : List Int) (h : is ≠ []) :
    popVariance (is.map (fun (i : Int) => (i : Rat))) = (varNumer is : Rat) / ((is.length : Rat) * is.length) := by
  have hne : is.map (fun (i : Int) => (i : Rat)) ≠ [] := by simpa using h
  have hn := length_ne_zero h
  rw [popVariance_eq_onepass _ hne, sum_map_sq_intCast, sum_map_intCast]
  simp only [List.length_map, varNumer]
  push_cast
  grind

theorem foldl_add_eq_sum (is : List Int) (acc : Int) : is.foldl (· + ·) acc = acc + is.sum := by
  induction is generalizing acc with
  | nil => simp
  | cons i is ih => simp only [List.foldl_cons, ih, List.sum_cons]; omega

/-- the specification's `intSum` (a left fold) is the sum -/
theorem intSum_eq_sum (is : List Int) : Spec.Agg.intSum is = is.sum := by
  unfold Spec.Agg.intSum; rw [foldl_add_eq_sum]; omega

/-- the numerator `n·Σx² − (Σx)²` is never negative (it is `n²` times a variance) -/
theorem varNumer_nonneg (is : List Int) : 0 ≤ varNumer is := by
  by_cases h : is = []
  · subst h; decide
  · have hv := popVariance_nonneg (is.map (fun (i : Int) => (i : Rat)))
    rw [popVariance_ints is h] at hv
    have hn := length_pos h
    have hnn : (0 : Rat) < (is.length : Rat) * is.length := Rat.mul_pos hn hn
    have hne : ((is.length : Rat) * is.length) ≠ 0 := by grind
    have e : (varNumer is : Rat) = (varNumer is : Rat) / ((is.length : Rat) * is.length) * ((is.length : Rat) * is.length) := by
      grind
    have : (0 : Rat) ≤ (varNumer is : Rat) := by rw [e]; exact Rat.mul_nonneg hv (Rat.le_of_lt hnn)
    exact_mod_cast this

/-- … and it is 0 for equal values -/
theorem varNumer_replicate (n : Nat) (c : Int) : varNumer (List.replicate n c) = 0 := by
  cases n with
  | zero => simp [varNumer]
  | succ n =>
    have hne : List.replicate (n + 1) c ≠ [] := by simp
    have hv := popVariance_ints (List.replicate (n + 1) c) hne
    have hm : (List.replicate (n + 1) c).map (fun (i : Int) => (i : Rat)) = List.replicate (n + 1) (c : Rat) := by simp
    rw [hm, popVariance_const] at hv
    have hn := length_ne_zero hne
    have : (varNumer (List.replicate (n + 1) c) : Rat) = 0 := by
      have hne2 : ((List.replicate (n + 1) c).length : Rat) * (List.replicate (n + 1) c).length ≠ 0 := by grind
      grind
    exact_mod_cast this

/-- a sum of squares that are `i64`s is at most `n · 2^63` -/
theorem sum_le_of_all_inI64 (xs : List Int) (h : xs.all inI64 = true) : xs.sum ≤ (xs.length : Int) * 9223372036854775808 := by
  induction xs with
  | nil => simp
  | cons x xs ih =>
    simp only [List.all_cons, Bool.and_eq_true] at h
    have hx : x ≤ 9223372036854775808 := by
      have := h.1; unfold inI64 i64Max at this; simp at this; omega
    have := ih h.2
    simp only [List.sum_cons, List.length_cons]
    push_cast
    omega

end Variance

/-! ### (ii) the exact value of a REAL, and "no step rounds" -/

namespace F64

/-- the exact value of a finite REAL (bit pattern) as a rational: `units` whole units of `2^-1074` -/
def toRat (x : Nat) : Rat := (units x : Rat) / (unitScale : Rat)

/-- `r` is a finite REAL and its exact value is `v` -/
def IsExactly (r : Nat) (v : Rat) : Prop := isFinite r = true ∧ toRat r = v

instance (r : Nat) (v : Rat) : Decidable (IsExactly r v) := by unfold IsExactly; infer_instance

end F64

namespace Variance
open F64 Spec.Agg
open DecFloat (adist)

/-- the intermediate REALs of the one-pass formula `(q − (s·s)/n)/n` in the order the code computes them -/
structure Steps where
  n : Nat        -- `count as f64`
  p : Nat        -- `sum * sum`
  d : Nat        -- `(sum * sum) / n`
  e : Nat        -- `sum_square - (sum * sum) / n`
  v : Nat        -- `(…) / n`: the variance

def steps (count : Int) (s q : Nat) : Steps :=
  let n := F64.ofInt count
  let p := F64.mul s s
  let d := F64.div p n
  let e := F64.sub q d
  { n := n, p := p, d := d, e := e, v := F64.div e n }

/-- the model's variance is the last step -/
theorem populationVariance_eq_steps (count : Int) (s q : Nat) : populationVariance count s q = (steps count s q).v := rfl

/-- **no step of the one-pass formula rounds** (decidable): `count`, `s`, `q` and the results of the four operations are
finite REALs and the exact value of each result is the exact result of the operation on the exact values of its operands -/
def onePassExact (count : Int) (s q : Nat) : Bool :=
  let t := steps count s q
  decide (IsExactly t.n count) && isFinite s && isFinite q &&
  decide (IsExactly t.p (toRat s * toRat s)) &&
  decide (IsExactly t.d (toRat t.p / toRat t.n)) &&
  decide (IsExactly t.e (toRat q - toRat t.d)) &&
  decide (IsExactly t.v (toRat t.e / toRat t.n))

/-- the square root does not round either: the result is a finite non-negative REAL whose square is exactly `v` -/
def sqrtExact (v : Nat) : Bool :=
  isFinite (F64.sqrt v) && decide (0 ≤ toRat (F64.sqrt v)) && decide (toRat (F64.sqrt v) * toRat (F64.sqrt v) = toRat v)

/-- under `onePassExact` the model's REAL is exactly the one-pass formula over the exact values of `s`, `q`, `count` -/
theorem onePass_exact_formula {count : Int} {s q : Nat} (h : onePassExact count s q = true) :
    isFinite (populationVariance count s q) = true ∧
    toRat (populationVariance count s q) = (toRat q - toRat s * toRat s / count) / count := by
  unfold onePassExact at h
  simp only [Bool.and_eq_true, decide_eq_true_eq] at h
  obtain ⟨⟨⟨⟨⟨⟨hn, _⟩, _⟩, hp⟩, hd⟩, he⟩, hv⟩ := h
  rw [populationVariance_eq_steps]
  refine ⟨hv.1, ?_⟩
  rw [hv.2, he.2, hd.2, hp.2, hn.2]

/-- REAL inputs: the running sums `Σx`, `Σ(x·x)` (each square and each addition a REAL operation) are exact, and no step of
the formula rounds -/
def onePassExactReals (rs : List Nat) : Bool :=
  rs.all isFinite &&
  decide (IsExactly (realSum rs) (rs.map toRat).sum) &&
  decide (IsExactly (realSum (rs.map (fun x => F64.mul x x))) ((rs.map toRat).map (fun x => x ^ 2)).sum) &&
  onePassExact rs.length (realSum rs) (realSum (rs.map (fun x => F64.mul x x)))

/-- **(ii) for REAL inputs**: where neither the running sums nor the formula round, the model's VARIANCE is exactly the
textbook variance of the exact values of the inputs -/
theorem onePass_exact_value_reals (rs : List Nat) (hne : rs ≠ []) (h : onePassExactReals rs = true) :
    IsExactly (populationVariance rs.length (realSum rs) (realSum (rs.map (fun x => F64.mul x x))))
      (popVariance (rs.map toRat)) := by
  unfold onePassExactReals at h
  simp only [Bool.and_eq_true, decide_eq_true_eq] at h
  obtain ⟨⟨⟨_, hs⟩, hq⟩, hx⟩ := h
  obtain ⟨hf, hval⟩ := onePass_exact_formula hx
  refine ⟨hf, ?_⟩
  have hne' : rs.map toRat ≠ [] := by simpa using hne
  rw [hval, hs.2, hq.2, popVariance_eq_onepass _ hne']
  simp only [List.length_map]
  have : ((rs.length : Int) : Rat) = (rs.length : Rat) := by push_cast; rfl
  rw [this]
  grind

/-! ### (ii) INT arguments: two correctly rounded conversions and one correctly rounded division of exact integers -/

/-- `i as f64` of a non-negative integer is the correctly rounded magnitude of `m / 1` -/
theorem ofInt_nat (m : Nat) : F64.ofInt (m : Int) = DecFloat.magBits m 1 := by
  show DecFloat.decToF64 (decide ((m : Int) < 0)) (m : Int).natAbs 0 = _
  have h1 : decide ((m : Int) < 0) = false := by simp
  rw [h1, Int.natAbs_natCast, DecFloat.decToF64_eq]
  simp [DecFloat.numOf, DecFloat.denOf]

/-- integers below `2^1023` do not overflow -/
theorem ofInt_nat_lt_inf {m : Nat} (h : m < 2 ^ 1023) : DecFloat.magBits m 1 < DecFloat.infBits := by
  have hle := DecFloat.magBits_le_inf m 1
  have hne : DecFloat.magBits m 1 ≠ DecFloat.infBits := by
    intro he
    have := (DecFloat.magBits_overflow_iff m 1 (by decide)).1 he
    have hb : 2 ^ 1023 * DecFloat.unitScale ≤ (2 ^ 54 - 1) * DecFloat.topHalfUlp * 1 := by decide +kernel
    have hm : m * DecFloat.unitScale < 2 ^ 1023 * DecFloat.unitScale :=
      (Nat.mul_lt_mul_right DecFloat.unitScale_pos).2 h
    omega
  omega

/-- **the conversion is correctly rounded**: for `0 ≤ m < 2^1023` the REAL `m as f64` is finite, not negative, and no REAL is
nearer to `m` (distances in units of 2^-1074) -/
theorem ofInt_nat_nearest {m : Nat} (h : m < 2 ^ 1023) (y : Nat) :
    isFinite (F64.ofInt (m : Int)) = true ∧ signBit (F64.ofInt (m : Int)) = false ∧ F64.ofInt (m : Int) < 2 ^ 63 ∧
    adist (m * unitScale) (umag (F64.ofInt (m : Int))) ≤ adist (m * unitScale) (umag y) := by
  rw [ofInt_nat]
  have hlt := ofInt_nat_lt_inf h
  have f := DecFloat.magBits_finite hlt
  have n := DecFloat.magBits_nearest m 1 y (by decide) hlt
  simp only [Nat.mul_one] at n
  refine ⟨f.2.2.1, f.2.2.2, ?_, n⟩
  unfold DecFloat.infBits at hlt; omega

/-- … ties to even: a REAL of another magnitude exactly as near means the last mantissa bit of the result is 0 -/
theorem ofInt_nat_tie_even {m : Nat} (h : m < 2 ^ 1023) (y : Nat) (hne : mag y ≠ F64.ofInt (m : Int))
    (heq : adist (m * unitScale) (umag y) = adist (m * unitScale) (umag (F64.ofInt (m : Int)))) :
    F64.ofInt (m : Int) % 2 = 0 := by
  rw [ofInt_nat] at hne heq ⊢
  have heq' : adist (m * DecFloat.unitScale) (umag y) = adist (m * DecFloat.unitScale) (umag (DecFloat.magBits m 1)) := heq
  exact DecFloat.magBits_tie_even m 1 y (by decide) (ofInt_nat_lt_inf h) hne (by simpa using heq')

/-- a positive integer does not convert to a zero -/
theorem ofInt_nat_mag_ne_zero {m : Nat} (hpos : 0 < m) (h : m < 2 ^ 1023) : mag (F64.ofInt (m : Int)) ≠ 0 := by
  intro hz
  have hu : umag (F64.ofInt (m : Int)) = 0 := (umag_eq_zero_iff _).2 hz
  have one := DecFloat.intBits_spec 1 (by decide)
  have n := (ofInt_nat_nearest h (DecFloat.intBits 1)).2.2.2
  have hone : umag (DecFloat.intBits 1) = 1 * unitScale := by
    have := one.2.2; unfold F64.unitScale; exact this
  rw [hu, hone] at n
  unfold adist at n
  have hU := unitScale_pos
  generalize unitScale = U at *
  have h1 : 1 * U = U := Nat.one_mul U
  have h2 : U ≤ m * U := Nat.le_mul_of_pos_left U hpos
  have h3 : m * U - U < m * U := by omega
  simp only [Nat.sub_zero, Nat.zero_sub, Nat.add_zero, h1] at n
  omega

/-- integers that fit 53 bits convert exactly -/
theorem ofInt_nat_exact {m : Nat} (h : m < 2 ^ 53) : umag (F64.ofInt (m : Int)) = m * unitScale := by
  show umag (DecFloat.decToF64 (decide ((m : Int) < 0)) (m : Int).natAbs 0) = _
  have h1 : decide ((m : Int) < 0) = false := by simp
  rw [h1, Int.natAbs_natCast]
  exact (DecFloat.decToF64_int m h).2

/-- **the INT variance as one rounding of a quotient of two rounded integers.** With `N = n·Σx² − (Σx)² ≥ 0` and `D = n² > 0`
(both below `2^1023`; in the code both are below `2^126`): `intVariance = magBits (umag fl(N)) (umag fl(D))`, the correctly
rounded quotient of the two converted integers -/
theorem intVariance_eq {n S Q : Int} {N D : Nat} (hN : n * Q - S * S = (N : Int)) (hD : n * n = (D : Int))
    (hNb : N < 2 ^ 1023) (hDpos : 0 < D) (hDb : D < 2 ^ 1023) :
    intVariance n S Q = DecFloat.magBits (umag (F64.ofInt (N : Int))) (umag (F64.ofInt (D : Int))) := by
  unfold intVariance
  rw [hN, hD]
  obtain ⟨fa, sa, _, _⟩ := ofInt_nat_nearest hNb 0
  obtain ⟨fb, sb, _, _⟩ := ofInt_nat_nearest hDb 0
  show divX _ _ = _
  rw [divX_finite _ _ fa fb (ofInt_nat_mag_ne_zero hDpos hDb), sa, sb]
  simp [withSign]

/-- **never NaN, never negative** -/
theorem intVariance_sign {n S Q : Int} {N D : Nat} (hN : n * Q - S * S = (N : Int)) (hD : n * n = (D : Int))
    (hNb : N < 2 ^ 1023) (hDpos : 0 < D) (hDb : D < 2 ^ 1023) :
    isNaN (intVariance n S Q) = false ∧ signBit (intVariance n S Q) = false := by
  rw [intVariance_eq hN hD hNb hDpos hDb]
  have hle := DecFloat.magBits_le_inf (umag (F64.ofInt (N : Int))) (umag (F64.ofInt (D : Int)))
  generalize DecFloat.magBits (umag (F64.ofInt (N : Int))) (umag (F64.ofInt (D : Int))) = r at hle
  unfold DecFloat.infBits at hle
  unfold isNaN signBit mag
  constructor
  · simp only [decide_eq_false_iff_not]; omega
  · simp; omega

/-- **correctly rounded division**: when finite, no REAL is nearer to `fl(N) / fl(D)` than the cell -/
theorem intVariance_nearest {n S Q : Int} {N D : Nat} (hN : n * Q - S * S = (N : Int)) (hD : n * n = (D : Int))
    (hNb : N < 2 ^ 1023) (hDpos : 0 < D) (hDb : D < 2 ^ 1023) (hf : isFinite (intVariance n S Q) = true) (y : Nat) :
    adist (umag (F64.ofInt (N : Int)) * unitScale) (umag (intVariance n S Q) * umag (F64.ofInt (D : Int))) ≤
      adist (umag (F64.ofInt (N : Int)) * unitScale) (umag y * umag (F64.ofInt (D : Int))) := by
  obtain ⟨fa, _, _, _⟩ := ofInt_nat_nearest hNb 0
  obtain ⟨fb, _, _, _⟩ := ofInt_nat_nearest hDb 0
  have hd : intVariance n S Q = divX (F64.ofInt (N : Int)) (F64.ofInt (D : Int)) := by
    unfold intVariance; rw [hN, hD]; rfl
  rw [hd] at hf ⊢
  exact divX_nearest _ _ fa fb (ofInt_nat_mag_ne_zero hDpos hDb) hf y

/-- **one rounding only when numerator and denominator fit 53 bits**: both conversions are exact, so the (finite) cell is a REAL
nearest to the exact rational `N / D` itself (cross-multiplied by `D`, in units of 2^-1074) -/
theorem intVariance_nearest_small {n S Q : Int} {N D : Nat} (hN : n * Q - S * S = (N : Int)) (hD : n * n = (D : Int))
    (hNb : N < 2 ^ 53) (hDpos : 0 < D) (hDb : D < 2 ^ 53) (hf : isFinite (intVariance n S Q) = true) (y : Nat) :
    adist (N * unitScale) (umag (intVariance n S Q) * D) ≤ adist (N * unitScale) (umag y * D) := by
  have h := intVariance_nearest hN hD (by omega) hDpos (by omega) hf y
  rw [ofInt_nat_exact hNb, ofInt_nat_exact hDb] at h
  have hU := unitScale_pos
  generalize unitScale = U at *
  have e1 : umag (intVariance n S Q) * (D * U) = umag (intVariance n S Q) * D * U := (Nat.mul_assoc _ _ _).symm
  have e2 : umag y * (D * U) = umag y * D * U := (Nat.mul_assoc _ _ _).symm
  rw [e1, e2, adist_mul, adist_mul] at h
  exact Nat.le_of_mul_le_mul_right h hU

/-- **`0.0` when the numerator is 0** (all values equal) -/
theorem intVariance_zero {n S Q : Int} {D : Nat} (hN : n * Q - S * S = 0) (hD : n * n = (D : Int))
    (hDpos : 0 < D) (hDb : D < 2 ^ 1023) : intVariance n S Q = F64.zero := by
  rw [intVariance_eq (N := 0) (by simpa using hN) hD (Nat.two_pow_pos _) hDpos hDb]
  have : umag (F64.ofInt ((0 : Nat) : Int)) = 0 := by decide
  rw [this, DecFloat.magBits_zero]; rfl

/-- **exact when numerator and denominator fit 53 bits and the quotient is a REAL** `y`: the cell is `y` -/
theorem intVariance_exact {n S Q : Int} {N D : Nat} (hN : n * Q - S * S = (N : Int)) (hD : n * n = (D : Int))
    (hNb : N < 2 ^ 53) (hDpos : 0 < D) (hDb : D < 2 ^ 53) (y : Nat) (hy : isFinite y = true)
    (hq : umag y * D = N * unitScale) : intVariance n S Q = mag y := by
  rw [intVariance_eq hN hD (by omega) hDpos (by omega), ofInt_nat_exact hNb, ofInt_nat_exact hDb]
  apply DecFloat.magBits_exact _ _ y (Nat.mul_pos hDpos unitScale_pos) hy
  have hU : DecFloat.unitScale = unitScale := rfl
  rw [hU]
  generalize unitScale = U at *
  rw [← Nat.mul_assoc, hq]

/-- **numerator and denominator of a group of INT values**, as the natural numbers the conversions see: for a non-empty list
of fewer than `2^63` values (the code counts in an `i64`) whose squares are `i64`s (otherwise the code reports an overflow),
`N = n·Σx² − (Σx)²` is a natural number, `D = n²` is positive, both are far below `2^1023`, and `N / D` is EXACTLY the
textbook population variance -/
theorem intVariance_parts (is : List Int) (hne : is ≠ []) (hcount : is.length < 2 ^ 63)
    (hsq : (is.map (fun x => x * x)).all inI64 = true) :
    ∃ N D : Nat, (N : Int) = varNumer is ∧ D = is.length * is.length ∧ 0 < D ∧ N < 2 ^ 1023 ∧ D < 2 ^ 1023 ∧
      (is.length : Int) * intSum (is.map (fun x => x * x)) - intSum is * intSum is = (N : Int) ∧
      (is.length : Int) * (is.length : Int) = (D : Int) ∧
      popVariance (is.map (fun (i : Int) => (i : Rat))) = (N : Rat) / (D : Rat) := by
  have hnn := varNumer_nonneg is
  have hlen : 0 < is.length := List.length_pos_iff.mpr hne
  refine ⟨(varNumer is).toNat, is.length * is.length, by omega, rfl, Nat.mul_pos hlen hlen, ?_, ?_, ?_, by push_cast; rfl, ?_⟩
  · -- N ≤ n·Σx² ≤ n·(n·2^63) ≤ 2^189
    have hQ := sum_le_of_all_inI64 _ hsq
    simp only [List.length_map] at hQ
    have hS : 0 ≤ is.sum * is.sum := by
      rcases Int.le_total 0 is.sum with h | h
      · exact Int.mul_nonneg h h
      · exact Int.mul_nonneg_of_nonpos_of_nonpos h h
    have h1 : varNumer is ≤ (is.length : Int) * ((is.length : Int) * 9223372036854775808) := by
      unfold varNumer
      have := Int.mul_le_mul_of_nonneg_left hQ (Int.natCast_nonneg is.length)
      omega
    have h2 : (varNumer is).toNat ≤ is.length * (is.length * 9223372036854775808) := by
      apply Int.toNat_le.mpr
      rw [Int.natCast_mul, Int.natCast_mul]
      exact h1
    have hK : (9223372036854775808 : Nat) = 2 ^ 63 := by decide
    rw [hK] at h2
    have h3 : is.length * (is.length * 2 ^ 63) ≤ 2 ^ 63 * (2 ^ 63 * 2 ^ 63) :=
      Nat.mul_le_mul (Nat.le_of_lt hcount) (Nat.mul_le_mul (Nat.le_of_lt hcount) (Nat.le_refl _))
    have h4 : (2 : Nat) ^ 63 * (2 ^ 63 * 2 ^ 63) = 2 ^ 189 := by decide +kernel
    have h5 : (2 : Nat) ^ 189 < 2 ^ 1023 := Nat.pow_lt_pow_right (by decide) (by decide)
    omega
  · have h3 : is.length * is.length ≤ 2 ^ 63 * 2 ^ 63 := Nat.mul_le_mul (Nat.le_of_lt hcount) (Nat.le_of_lt hcount)
    have h4 : (2 : Nat) ^ 63 * 2 ^ 63 = 2 ^ 126 := by decide +kernel
    have h5 : (2 : Nat) ^ 126 < 2 ^ 1023 := Nat.pow_lt_pow_right (by decide) (by decide)
    omega
  · rw [intSum_eq_sum, intSum_eq_sum]
    unfold varNumer at hnn ⊢
    omega
  · rw [popVariance_ints is hne]
    have : (((varNumer is).toNat : Nat) : Rat) = ((varNumer is : Int) : Rat) := by
      have : (((varNumer is).toNat : Nat) : Int) = varNumer is := by omega
      exact_mod_cast congrArg (fun z : Int => (z : Rat)) this
    rw [this]; push_cast; rfl

/-- the exactness corollary with the hypothesis in rational form: if the textbook variance `N / D` is the exact value of a finite
non-negative REAL `y` and `N`, `D` fit 53 bits, the cell is `y` -/
theorem intVariance_exact_rat {n S Q : Int} {N D : Nat} (hN : n * Q - S * S = (N : Int)) (hD : n * n = (D : Int))
    (hNb : N < 2 ^ 53) (hDpos : 0 < D) (hDb : D < 2 ^ 53) (y : Nat) (hy : isFinite y = true) (hs : signBit y = false)
    (hylt : y < 2 ^ 64) (hq : toRat y = (N : Rat) / (D : Rat)) : intVariance n S Q = y := by
  have hmag : mag y = y := by
    unfold signBit at hs; unfold mag; simp at hs; omega
  rw [← hmag]
  apply intVariance_exact hN hD hNb hDpos hDb y hy
  unfold toRat units at hq
  rw [hs] at hq
  simp only [Bool.false_eq_true, if_false] at hq
  have hU : (unitScale : Rat) ≠ 0 := by
    have := unitScale_pos
    have : unitScale ≠ 0 := by omega
    exact_mod_cast this
  have hDr : (D : Rat) ≠ 0 := by
    have : D ≠ 0 := by omega
    exact_mod_cast this
  have hcast : ((umag y : Int) : Rat) = ((umag y : Nat) : Rat) := by push_cast; rfl
  rw [hcast] at hq
  have : ((umag y : Nat) : Rat) * (D : Rat) = (N : Rat) * (unitScale : Rat) := by grind
  exact_mod_cast this

/-! ### the clamp of the REAL branch -/

/-- the clamped value is never below zero (IEEE `<`: NaN and `-0.0` are not below zero) -/
theorem clampNegative_not_lt (v : Nat) : F64.cmp (clampNegative v) F64.zero ≠ .lt := by
  unfold clampNegative
  by_cases h : F64.cmp v F64.zero = .lt
  · simp only [h, beq_self_eq_true, if_true]; decide
  · have : (F64.cmp v F64.zero == Ordering.lt) = false := by
      cases hc : F64.cmp v F64.zero <;> simp_all
    simp only [this, Bool.false_eq_true, if_false]; exact h

/-- a value that is not below zero is left alone -/
theorem clampNegative_of_not_lt {v : Nat} (h : F64.cmp v F64.zero ≠ .lt) : clampNegative v = v := by
  unfold clampNegative
  have : (F64.cmp v F64.zero == Ordering.lt) = false := by
    cases hc : F64.cmp v F64.zero <;> simp_all
  simp only [this, Bool.false_eq_true, if_false]

/-- a value below zero becomes `0.0` -/
theorem clampNegative_of_lt {v : Nat} (h : F64.cmp v F64.zero = .lt) : clampNegative v = F64.zero := by
  unfold clampNegative; simp only [h, beq_self_eq_true, if_true]

/-- "below zero" spelled out: not NaN, sign bit set, not a zero -/
theorem cmp_zero_lt_iff (v : Nat) : F64.cmp v F64.zero = .lt ↔ (F64.isNaN v = false ∧ F64.signBit v = true ∧ F64.mag v ≠ 0) := by
  have hz : F64.isNaN F64.zero = false := by decide
  have hk : F64.key F64.zero = 0 := by decide
  unfold F64.cmp
  rw [hz, hk]
  cases hn : F64.isNaN v
  · simp only [Bool.false_eq_true, if_false, true_and]
    unfold F64.key
    cases hs : F64.signBit v
    · simp only [Bool.false_eq_true, if_false, false_and, iff_false]
      rw [Int.compare_eq_lt]; omega
    · simp only [if_true, true_and]
      rw [Int.compare_eq_lt]; omega
  · simp

/-- a finite REAL whose exact value is not negative is not below zero -/
theorem not_lt_of_toRat_nonneg {v : Nat} (_hf : isFinite v = true) (h : 0 ≤ toRat v) : F64.cmp v F64.zero ≠ .lt := by
  intro hc
  obtain ⟨_, hs, hm⟩ := (cmp_zero_lt_iff v).1 hc
  have hu : 0 < umag v := by
    have := mt (umag_eq_zero_iff v).1 hm; omega
  have hneg : toRat v < 0 := by
    unfold toRat units
    rw [hs]; simp only [if_true]
    have hU : (0 : Rat) < (unitScale : Rat) := Rat.natCast_pos.mpr unitScale_pos
    have hum : (0 : Rat) < (umag v : Rat) := Rat.natCast_pos.mpr hu
    rw [Rat.div_def]
    have hinv := Rat.inv_pos.mpr hU
    have : ((-(umag v : Int) : Int) : Rat) = -((umag v : Nat) : Rat) := by push_cast; rfl
    rw [this]
    have := Rat.mul_pos hum hinv
    grind
  exact absurd h (Rat.not_le.mpr hneg)

/-- **(iii) for REAL inputs, with the clamp**: where neither the running sums nor the formula round, the clamp does nothing and
the REAL shown for VARIANCE is exactly the textbook variance of the exact values of the inputs -/
theorem realVariance_exact_value (rs : List Nat) (hne : rs ≠ []) (h : onePassExactReals rs = true) :
    IsExactly (realVariance rs.length (realSum rs) (realSum (rs.map (fun x => F64.mul x x))))
      (popVariance (rs.map toRat)) := by
  have hx := onePass_exact_value_reals rs hne h
  unfold realVariance
  rw [clampNegative_of_not_lt (not_lt_of_toRat_nonneg hx.1 (by rw [hx.2]; exact popVariance_nonneg _))]
  exact hx

/-! ### (iii) each step on its own is correctly rounded -/

/-- **every step of the one-pass formula is the nearest REAL to the exact result of the operation ON ITS (already rounded)
OPERANDS** — this is all IEEE-754 arithmetic promises, and all that holds in general: for finite `s`, `q`, a finite
non-zero `n` and finite intermediate results, no REAL `y` is nearer to `s·s` than `p`, to `p/n` than `d`, to `q − d` than
`e`, to `e/n` than `v` (distances in units of 2^-1074, cross-multiplied where a quotient occurs). It says nothing about the
distance of `v` from the exact variance. -/
theorem onePass_steps_nearest (count : Int) (s q : Nat) (hs : isFinite s = true) (hq : isFinite q = true)
    (hn : isFinite (steps count s q).n = true) (hz : mag (steps count s q).n ≠ 0)
    (hp : isFinite (steps count s q).p = true) (hd : isFinite (steps count s q).d = true)
    (he : isFinite (steps count s q).e = true) (hv : isFinite (steps count s q).v = true) (y : Nat) :
    let t := steps count s q
    adist (umag s * umag s) (umag t.p * unitScale) ≤ adist (umag s * umag s) (umag y * unitScale) ∧
    adist (umag t.p * unitScale) (umag t.d * umag t.n) ≤ adist (umag t.p * unitScale) (umag y * umag t.n) ∧
    adist (units q + units (F64.neg t.d)).natAbs (umag t.e) ≤ adist (units q + units (F64.neg t.d)).natAbs (umag y) ∧
    adist (umag t.e * unitScale) (umag t.v * umag t.n) ≤ adist (umag t.e * unitScale) (umag y * umag t.n) := by
  intro t
  have hnd : isFinite (F64.neg t.d) = true := by
    have : isFinite t.d = true := hd
    unfold F64.neg negX
    unfold isFinite mag at this ⊢
    split <;> simp only [decide_eq_true_eq] at this ⊢ <;> omega
  exact ⟨mulX_nearest s s hs hs hp y, divX_nearest t.p t.n hp hn hz hd y,
    addX_nearest q (F64.neg t.d) hq hnd he y, divX_nearest t.e t.n he hn hz hv y⟩

end Variance
end Sqlgrep
