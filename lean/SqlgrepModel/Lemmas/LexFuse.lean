import SqlgrepModel.Lemmas.LexWords
/-
From tokens back to lexemes: the three fused tokens (`IsNot`, `NotIn`, `::`) are spelled as two lexemes each
(`unfuse`); fusing the lexemes' tokens gives the token list back unless the list contains a neighbouring pair that every
layout fuses (`badPair`).
-/
set_option linter.unusedSimpArgs false
namespace Sqlgrep.Lex
open Sqlgrep

/-- the lexeme tokens that spell a token -/
def unfuseTok : Tok → List Tok
  | .kw .isNot => [.kw .is, .kw .not]
  | .kw .notIn => [.kw .not, .kw .in]
  | .dcolon => [.colon, .colon]
  | t => [t]

def unfuse (ts : List Tok) : List Tok := ts.flatMap unfuseTok

/-- neighbouring tokens that no layout can keep apart: whatever lies between them, the tokenizer fuses through the
last token (`IS`·`NOT`, `IS`·`NOT IN`, `NOT`·`IN`, `:`·`:`, `:`·`::`) -/
def badPair : Tok → Tok → Bool
  | .kw .is, .kw .not => true
  | .kw .is, .kw .notIn => true
  | .kw .not, .kw .in => true
  | .colon, .colon => true
  | .colon, .dcolon => true
  | _, _ => false

def NoBadPair : List Tok → Prop
  | [] => True
  | [_] => True
  | a :: b :: r => badPair a b = false ∧ NoBadPair (b :: r)

instance : (ts : List Tok) → Decidable (NoBadPair ts)
  | [] => isTrue trivial
  | [_] => isTrue trivial
  | a :: b :: r =>
    have := instDecidableNoBadPair (b :: r)
    inferInstanceAs (Decidable (badPair a b = false ∧ NoBadPair (b :: r)))

/-- the head condition in the form the fold needs -/
def headOk (acc : List Tok) (t : Tok) : Prop :=
  match acc with
  | [] => True
  | a :: _ => badPair a t = false

theorem push_unfuseTok (acc : List Tok) (t : Tok) (h : headOk acc t) :
    (unfuseTok t).foldl pushTok acc = t :: acc := by
  by_cases h1 : t = .kw .isNot
  · subst h1; simp [unfuseTok, pushTok]
  by_cases h2 : t = .kw .notIn
  · subst h2
    cases acc with
    | nil => simp [unfuseTok, pushTok]
    | cons a r =>
      simp only [headOk] at h
      by_cases ha : a = .kw .is
      · subst ha; simp [badPair] at h
      · have e : pushTok (a :: r) (.kw .not) = .kw .not :: a :: r := by
          unfold pushTok; split <;> simp_all
        simp only [unfuseTok, List.foldl_cons, List.foldl_nil]
        rw [e]; rfl
  by_cases h3 : t = .dcolon
  · subst h3
    cases acc with
    | nil => simp [unfuseTok, pushTok]
    | cons a r =>
      simp only [headOk] at h
      by_cases ha : a = .colon
      · subst ha; simp [badPair] at h
      · have e : pushTok (a :: r) .colon = .colon :: a :: r := by
          unfold pushTok; split <;> simp_all
        simp only [unfuseTok, List.foldl_cons, List.foldl_nil]
        rw [e]; rfl
  have hu : unfuseTok t = [t] := by
    unfold unfuseTok; split <;> simp_all
  rw [hu]
  simp only [List.foldl_cons, List.foldl_nil]
  cases acc with
  | nil => unfold pushTok; split <;> simp_all
  | cons a r =>
    simp only [headOk] at h
    unfold pushTok
    split
    · rename_i heq; cases heq; simp [badPair] at h
    · rename_i heq; cases heq; simp [badPair] at h
    · rename_i heq; cases heq; simp [badPair] at h
    · rfl

def headsOk (acc : List Tok) : List Tok → Prop
  | [] => True
  | t :: _ => headOk acc t

theorem foldl_unfuse (ts : List Tok) : ∀ acc : List Tok, headsOk acc ts → NoBadPair ts →
    (unfuse ts).foldl pushTok acc = ts.reverse ++ acc := by
  induction ts with
  | nil => intro acc _ _; rfl
  | cons t ts ih =>
    intro acc h0 hn
    have e : unfuse (t :: ts) = unfuseTok t ++ unfuse ts := rfl
    rw [e, List.foldl_append, push_unfuseTok acc t h0]
    have hn' : NoBadPair ts := by
      cases ts with
      | nil => trivial
      | cons b r => exact hn.2
    have h1 : headsOk (t :: acc) ts := by
      cases ts with
      | nil => trivial
      | cons b r => exact hn.1
    rw [ih (t :: acc) h1 hn']
    simp

/-- fusing the spelled-out tokens gives the tokens back -/
theorem fuse_unfuse (ts : List Tok) (h : NoBadPair ts) : fuse (unfuse ts) = ts := by
  unfold fuse
  rw [foldl_unfuse ts [] (by cases ts <;> trivial) h]
  simp

end Sqlgrep.Lex
