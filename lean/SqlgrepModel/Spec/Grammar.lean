import SqlgrepModel.Model.ParseExpr
/-
The reference grammar of property C13, written from the property sentence:

  "cast and subscript and qualified names bind tightest, then unary minus, then * and /, then + and -, then
   comparisons with IS and IN, then NOT, then AND, then OR, binary operators associating to the left"

as a precedence assignment (`specTables`, `notLevel`, `negLevel`), an expression type for the operator fragment the
sentence is about (`RExpr`), the two printers (`minimal`: parentheses only where precedence / associativity require
them, `full`: every operator node parenthesised) and the tree an expression denotes (`embed`, a `PExpr` whose
locations are all `default`; `PExpr.eraseLoc` forgets the locations of a parsed tree).
-/
namespace Sqlgrep

/-- forget every location of a parse tree -/
def PExpr.eraseLoc : PExpr → PExpr
  | .value _ v => .value default v
  | .column _ n => .column default n
  | .wildcard _ => .wildcard default
  | .tuple _ vs => .tuple default (eraseLocs vs)
  | .binop _ o l r => .binop default o l.eraseLoc r.eraseLoc
  | .boolop _ a l r => .boolop default a l.eraseLoc r.eraseLoc
  | .unop _ o e => .unop default o e.eraseLoc
  | .invert _ e => .invert default e.eraseLoc
  | .nullcmp _ n l r => .nullcmp default n l.eraseLoc r.eraseLoc
  | .inList _ n e vs => .inList default n e.eraseLoc (eraseLocs vs)
  | .call _ n args d => .call default n (eraseLocs args) d
  | .index _ a i => .index default a.eraseLoc i.eraseLoc
  | .cast _ e t => .cast default e.eraseLoc t
  | .case _ cs els => .case default (eraseLocClauses cs) els.eraseLoc
where
  eraseLocs : List PExpr → List PExpr
    | [] => []
    | e :: es => e.eraseLoc :: eraseLocs es
  eraseLocClauses : List (PExpr × PExpr) → List (PExpr × PExpr)
    | [] => []
    | (c, r) :: cs => (c.eraseLoc, r.eraseLoc) :: eraseLocClauses cs

namespace Spec

/-- The reference precedence assignment. Level 3 (prefix NOT) and level 7 (unary minus) are not table entries:
they are `notLevel` / `negLevel` below. `^` is not named by the sentence; it mirrors the code (level of `*` `/`).
The entries are listed in the order of the table generator (operator alphabet order) so that the comparison with
`Generated.precTables` is a plain equality. -/
def specTables : PrecTables where
  binary := [(.single '*', 6), (.single '+', 5), (.single '-', 5), (.single '.', 9), (.single '/', 6),
             (.single '<', 4), (.single '=', 4), (.single '>', 4), (.single '^', 6),
             (.dual '!' '=', 4), (.dual '<' '=', 4), (.dual '>' '=', 4)]
  other := [(.kw .and, 2), (.kw .or, 1), (.kw .is, 4), (.kw .isNot, 4), (.kw .in, 4), (.kw .notIn, 4),
            (.lsq, 8), (.dcolon, 8)]
  unary := [.single '-']

/-- level of a prefix NOT: below the comparisons (4), above AND (2) -/
def notLevel : Int := 3
/-- level of a unary minus: below cast / subscript (8), above `*` `/` (6) -/
def negLevel : Int := 7

/-- the precedence a table gives to a token in operator position (`-1`: not an operator) -/
def tokPrec (T : PrecTables) : Tok → Int
  | .op o => (lookupOp T.binary o).getD (-1)
  | t => (lookupTok T.other t).getD (-1)

inductive Lit where
  | int (i : Int) | float (bits : Nat) | str (s : List Char) | null | tru | fls
  deriving DecidableEq, Repr, Inhabited

def Lit.tok : Lit → Tok
  | .int i => .int i | .float b => .float b | .str s => .str s | .null => .null | .tru => .tru | .fls => .fls

def Lit.value : Lit → Value
  | .int i => .int i | .float b => .real b | .str s => .text (Utf8.encode s) | .null => .null
  | .tru => .bool true | .fls => .bool false

/-- infix operators with two operands -/
inductive BOp where
  | sym (o : Operator) | is | isNot | and | or
  deriving DecidableEq, Repr, Inhabited

def BOp.tok : BOp → Tok
  | .sym o => .op o | .is => .kw .is | .isNot => .kw .isNot | .and => .kw .and | .or => .kw .or

/-- the scalar types a cast can name -/
def castName : VType → List Char
  | .int => "int".toList | .real => "real".toList | .text => "text".toList | .bool => "boolean".toList
  | .timestamp => "timestamp".toList | .interval => "interval".toList | .array _ => "array".toList

/-- Expressions of the operator fragment of C13. `paren e` is a pair of parentheses the user wrote although the
grammar does not need it ("a parenthesised sub-expression is always accepted where an operand is"). -/
inductive RExpr where
  | lit (l : Lit)
  | col (x : List Char) (path : List (List Char))          -- `x` or the qualified name `x.p₁.p₂…`
  | paren (e : RExpr)
  | bin (o : BOp) (l r : RExpr)
  | not (e : RExpr)
  | neg (e : RExpr)
  | index (a i : RExpr)                                      -- `a[i]`
  | cast (e : RExpr) (t : VType)                             -- `e::t`
  | inList (isNot : Bool) (e : RExpr) (v : RExpr) (vs : List RExpr)   -- `e IN (v, vs…)`: at least one element
  | call (f : List Char) (args : List RExpr)                 -- `f(args…)`, an atom of the operator grammar
  | star                                                     -- `*` (as in `count(*)`)
  | countDistinct (f : List Char) (a : RExpr) (as : List RExpr)   -- `count(DISTINCT a, as…)`, `f` = the spelling of count
  | array (sp : List Char) (args : List RExpr)               -- `array[args…]`, `sp` = the spelling of array
  | extract (part : List Char) (e : RExpr)                   -- `EXTRACT(part FROM e)`
  | tuple (a b : RExpr) (more : List RExpr)                  -- `(a, b, more…)`: at least two elements
  | case (c r : RExpr) (more : List (RExpr × RExpr)) (els : RExpr)  -- `CASE WHEN c THEN r (WHEN … THEN …)… ELSE els END`
  deriving Repr, Inhabited

namespace RExpr

def isPrefix : RExpr → Bool
  | .not _ => true
  | .neg _ => true
  | _ => false

def inTok (isNot : Bool) : Tok := .kw (if isNot then .notIn else .in)

/-- the level of the top node (`none`: an atom, never parenthesised) -/
def level (T : PrecTables) : RExpr → Option Int
  | .bin o _ _ => some (tokPrec T o.tok)
  | .not _ => some notLevel
  | .neg _ => some negLevel
  | .index _ _ => some (tokPrec T .lsq)
  | .cast _ _ => some (tokPrec T .dcolon)
  | .inList n _ _ _ => some (tokPrec T (inTok n))
  | _ => none

/-- does a context demanding level `ctx` force parentheses around `e`? -/
def needsParen (T : PrecTables) (ctx : Int) (e : RExpr) : Bool :=
  match e.level T with
  | some p => p < ctx
  | none => false

def wrap (b : Bool) (ts : List Tok) : List Tok := if b then [.lp] ++ ts ++ [.rp] else ts

def dots (path : List (List Char)) : List Tok := path.flatMap (fun p => [.op (.single '.'), .ident p])

/-- the context level of the operand of a prefix operator of level `lvl`: the operand loop of the parser runs at
`lvl + 1`, but a directly nested prefix operator needs no parentheses when its own level is at least `lvl` -/
def prefixCtx (lvl : Int) (operand : RExpr) : Int := if operand.isPrefix then lvl else lvl + 1

mutual
/-- tokens of `e` in a context that demands level `ctx`: parentheses exactly where the level of `e` is below `ctx` -/
def pr (T : PrecTables) : Int → RExpr → List Tok
  | _, .lit l => [l.tok]
  | _, .col x path => .ident x :: dots path
  | _, .paren e => [.lp] ++ pr T 0 e ++ [.rp]
  | ctx, .bin o l r =>
    wrap (decide (tokPrec T o.tok < ctx)) (pr T (tokPrec T o.tok) l ++ [o.tok] ++ pr T (tokPrec T o.tok + 1) r)
  | ctx, .not e => wrap (decide (notLevel < ctx)) (.kw .not :: pr T (prefixCtx notLevel e) e)
  | ctx, .neg e => wrap (decide (negLevel < ctx)) (.op (.single '-') :: pr T (prefixCtx negLevel e) e)
  | ctx, .index a i =>
    wrap (decide (tokPrec T .lsq < ctx)) (pr T (tokPrec T .lsq) a ++ [.lsq] ++ pr T 0 i ++ [.rsq])
  | ctx, .cast e t =>
    wrap (decide (tokPrec T .dcolon < ctx)) (pr T (tokPrec T .dcolon) e ++ [.dcolon, .ident (castName t)])
  | ctx, .inList n e v vs =>
    wrap (decide (tokPrec T (inTok n) < ctx))
      (pr T (tokPrec T (inTok n)) e ++ [inTok n, .lp] ++ pr T 0 v ++ prTail T vs ++ [.rp])
  | _, .call f args => [.ident f, .lp] ++ prArgs T args ++ [.rp]
  | _, .star => [.op (.single '*')]
  | _, .countDistinct f a as => [.ident f, .lp, .kw .distinct] ++ pr T 0 a ++ prTail T as ++ [.rp]
  | _, .array sp args => [.ident sp, .lsq] ++ prArgs T args ++ [.rsq]
  | _, .extract part e => [.kw .extract, .lp, .ident part, .kw .from] ++ pr T 0 e ++ [.rp]
  | _, .tuple a b more => [.lp] ++ pr T 0 a ++ [.comma] ++ pr T 0 b ++ prTail T more ++ [.rp]
  | _, .case c r more els =>
    [.kw .case, .kw .when] ++ pr T 0 c ++ [.kw .then] ++ pr T 0 r ++ prClauses T more ++ [.kw .else] ++ pr T 0 els ++ [.kw .end]
/-- `WHEN c₁ THEN r₁ WHEN c₂ THEN r₂ …` -/
def prClauses (T : PrecTables) : List (RExpr × RExpr) → List Tok
  | [] => []
  | (c, r) :: rest => [.kw .when] ++ pr T 0 c ++ [.kw .then] ++ pr T 0 r ++ prClauses T rest
/-- `, e₁ , e₂ …` -/
def prTail (T : PrecTables) : List RExpr → List Tok
  | [] => []
  | e :: es => .comma :: pr T 0 e ++ prTail T es
/-- `e₁ , e₂ …` -/
def prArgs (T : PrecTables) : List RExpr → List Tok
  | [] => []
  | e :: es => pr T 0 e ++ prTail T es
end

mutual
/-- put a pair of parentheses around every operator node (and drop the redundant ones the user wrote) -/
def parenAll : RExpr → RExpr
  | .lit l => .lit l
  | .col x path => .col x path
  | .paren e => parenAll e
  | .bin o l r => .paren (.bin o (parenAll l) (parenAll r))
  | .not e => .paren (.not (parenAll e))
  | .neg e => .paren (.neg (parenAll e))
  | .index a i => .paren (.index (parenAll a) (parenAll i))
  | .cast e t => .paren (.cast (parenAll e) t)
  | .inList n e v vs => .paren (.inList n (parenAll e) (parenAll v) (parenAlls vs))
  | .call f args => .call f (parenAlls args)
  | .star => .star
  | .countDistinct f a as => .countDistinct f (parenAll a) (parenAlls as)
  | .array sp args => .array sp (parenAlls args)
  | .extract part e => .extract part (parenAll e)
  | .tuple a b more => .tuple (parenAll a) (parenAll b) (parenAlls more)
  | .case c r more els => .case (parenAll c) (parenAll r) (parenAllClauses more) (parenAll els)
def parenAlls : List RExpr → List RExpr
  | [] => []
  | e :: es => parenAll e :: parenAlls es
def parenAllClauses : List (RExpr × RExpr) → List (RExpr × RExpr)
  | [] => []
  | (c, r) :: rest => (parenAll c, parenAll r) :: parenAllClauses rest
end

/-- minimal parentheses under the reference grammar -/
def minimal (e : RExpr) : List Tok := pr specTables 0 e
/-- fully parenthesised form: every operator node in its own pair of parentheses -/
def full (e : RExpr) : List Tok := pr specTables 0 (parenAll e)

def dotted (x : List Char) (path : List (List Char)) : List Char := path.foldl (fun acc p => acc ++ ['.'] ++ p) x

mutual
/-- the tree an expression denotes (all locations `default`) -/
def embed : RExpr → PExpr
  | .lit l => .value default l.value
  | .col x path => .column default (dotted x path)
  | .paren e => embed e
  | .bin (.sym o) l r => .binop default o (embed l) (embed r)
  | .bin .is l r => .nullcmp default false (embed l) (embed r)
  | .bin .isNot l r => .nullcmp default true (embed l) (embed r)
  | .bin .and l r => .boolop default true (embed l) (embed r)
  | .bin .or l r => .boolop default false (embed l) (embed r)
  | .not e => .invert default (embed e)
  | .neg e => .unop default (.single '-') (embed e)
  | .index a i => .index default (embed a) (embed i)
  | .cast e t => .cast default (embed e) t
  | .inList n e v vs => .inList default n (embed e) (embed v :: embeds vs)
  | .call f args => .call default f (embeds args) (if lowerChars f = "count".toList then some false else none)
  | .star => .wildcard default
  | .countDistinct f a as => .call default f (embed a :: embeds as) (some true)
  | .array _ args => .call default "create_array".toList (embeds args) none
  | .extract part e => .call default ("timestamp_extract_".toList ++ lowerChars part) [embed e] none
  | .tuple a b more => .tuple default (embed a :: embed b :: embeds more)
  | .case c r more els => .case default ((embed c, embed r) :: embedClauses more) (embed els)
def embeds : List RExpr → List PExpr
  | [] => []
  | e :: es => embed e :: embeds es
def embedClauses : List (RExpr × RExpr) → List (PExpr × PExpr)
  | [] => []
  | (c, r) :: rest => (embed c, embed r) :: embedClauses rest
end

mutual
/-- Well-formedness of an expression for a table: binary symbols are operators of the table other than the
qualified-name dot; cast types are scalar; no column (or part of a qualified name) is called `array` in any letter
case (`array[` is the array constructor); `count(DISTINCT …)` is spelled with a name that lower-cases to `count`,
the array constructor with one that lower-cases to `array`. -/
def WF (T : PrecTables) : RExpr → Prop
  | .lit _ => True
  | .col x path => lowerChars x ≠ "array".toList ∧ ∀ p ∈ path, lowerChars p ≠ "array".toList
  | .paren e => WF T e
  | .bin o l r => (∀ s, o = .sym s → s ≠ .single '.' ∧ (lookupOp T.binary s).isSome) ∧ WF T l ∧ WF T r
  | .not e => WF T e
  | .neg e => WF T e
  | .index a i => WF T a ∧ WF T i
  | .cast e t => (∀ u, t ≠ .array u) ∧ WF T e
  | .inList _ e v vs => WF T e ∧ WF T v ∧ WFs T vs
  | .call _ args => WFs T args
  | .star => True
  | .countDistinct f a as => lowerChars f = "count".toList ∧ WF T a ∧ WFs T as
  | .array sp args => lowerChars sp = "array".toList ∧ WFs T args
  | .extract _ e => WF T e
  | .tuple a b more => WF T a ∧ WF T b ∧ WFs T more
  | .case c r more els => WF T c ∧ WF T r ∧ WFClauses T more ∧ WF T els
def WFs (T : PrecTables) : List RExpr → Prop
  | [] => True
  | e :: es => WF T e ∧ WFs T es
def WFClauses (T : PrecTables) : List (RExpr × RExpr) → Prop
  | [] => True
  | (c, r) :: rest => WF T c ∧ WF T r ∧ WFClauses T rest
end

end RExpr

end Spec
end Sqlgrep
