import SqlgrepModel.Lemmas.AggColumns
import SqlgrepModel.Props.C03Run
/-
C04 / C03 — WHICH error the result table of an aggregate statement reports.

`execute_result` (`aggregate_execution.rs`) computes the table COLUMN BY COLUMN (`extract_result_rows_by_column`: outer
loop over the select list in order, inner loop over the groups in key order, `?` on every cell), and only when every
cell has a value assembles the rows, asks HAVING per group in key order (`accept_group(..)?`) and applies DISTINCT.
The model (`Model/Engine.lean` `aggColumn`, `aggColumns`, `aggResult`, `resultRows` — the definitions the driver
executes) does the same, so:

  1. when a cell of the table has no value, the result is an error (no table, C03's last sentence), and the error
     reported is that of the FIRST such cell in COLUMN-MAJOR order: columns in select-list order, within a column the
     groups in key order (`result_error_is_first_cell_column_major`, `result_error_at_cell`);
  2. the order of the loops matters for nothing else: whether the result is an error does not depend on it
     (`cells_pass_iff_rows`), and the rows assembled from the columns are the rows `rowOf` computes
     (`rows_from_columns`);
  3. an error of the result is either 1. or — every cell having a value — the error of HAVING on the first group in key
     order on which it has none (`result_error_classification`).

The kernel-evaluated examples at the end are statements on which column-major and row-major order report DIFFERENT
errors (the reviewer's `SELECT k, SUM(w) * 10, upper(MIN(v)) FROM t GROUP BY k`).
-/
namespace Sqlgrep.Props.C04Errors
open Sqlgrep

variable (O : Oracles)

/-- the cells of the result table in the order the code evaluates them (`cellsColumnMajor`): for every select-list item
in order, the item's cell in every group of `group_values` in key order -/
def cells (q : AggStmt) (es : EngineState) : List (Outcome Value) :=
  cellsColumnMajor O q (publishPercentiles es.agg).vals (enumFrom 0 q.items)

theorem enumFrom_append {α : Type} (a b : List α) (n : Nat) : enumFrom n (a ++ b) = enumFrom n a ++ enumFrom (n + a.length) b := by
  induction a generalizing n with
  | nil => rfl
  | cons x xs ih => simp only [List.cons_append, enumFrom, ih, List.length_cons]; congr 3; omega

theorem aggColumns_of_void {q : AggStmt} {V : List (List Value × List (Nat × Value))} {items : List (Nat × AggItem)} {k : ErrKind}
    (h : (aggColumns O q V items).void = .error k) : aggColumns O q V items = .error k := by
  cases hx : aggColumns O q V items <;> rw [hx] at h <;> simp [Outcome.void] at h
  rw [h]

/-- **1. which error**: the cells in column-major order; all before some position have values, the cell at that position
is the error `k`: the result is the error `k` — whatever the later cells (other columns of the same groups included)
would be, and HAVING is not asked. -/
theorem result_error_is_first_cell_column_major (q : AggStmt) (es : EngineState) (pre post : List (Outcome Value)) (k : ErrKind)
    (hcells : cells O q es = pre ++ .error k :: post) (hpre : ∀ x ∈ pre, ∃ v, x = .ok v) :
    finalResult O q es = .error k ∧ aggResult O q es.agg = .error k := by
  have h : aggColumns O q (publishPercentiles es.agg).vals (enumFrom 0 q.items) = .error k := by
    apply aggColumns_of_void
    rw [aggColumns_firstFail]
    unfold cells at hcells
    rw [hcells]
    exact firstFail_error_at pre k post hpre
  have h2 : aggResult O q es.agg = .error k := by rw [aggResult_eq, h]; rfl
  exact ⟨by unfold finalResult; rw [h2]; rfl, h2⟩

/-- … the same with the position named: select-list item `item` at index `ipre.length`, group `g` after the groups
`gpre` in key order. Every column before it is complete (all groups), its own column has values in the groups before
`g`, and its cell in `g` is the error `k`: the result is the error `k`. -/
theorem result_error_at_cell (q : AggStmt) (es : EngineState)
    (ipre : List AggItem) (item : AggItem) (ipost : List AggItem) (hitems : q.items = ipre ++ item :: ipost)
    (gpre : List (List Value × List (Nat × Value))) (g : List Value × List (Nat × Value)) (gpost : List (List Value × List (Nat × Value)))
    (hgroups : (publishPercentiles es.agg).vals = gpre ++ g :: gpost)
    (hcols : ∀ p ∈ enumFrom 0 ipre, ∀ x ∈ gpre ++ g :: gpost, ∃ v, cellOf O q p.1 p.2 x.1 x.2 = .ok v)
    (hcol : ∀ x ∈ gpre, ∃ v, cellOf O q ipre.length item x.1 x.2 = .ok v)
    (k : ErrKind) (hk : cellOf O q ipre.length item g.1 g.2 = .error k) :
    finalResult O q es = .error k := by
  refine (result_error_is_first_cell_column_major O q es
    (cellsColumnMajor O q (gpre ++ g :: gpost) (enumFrom 0 ipre) ++ gpre.map (fun x => cellOf O q ipre.length item x.1 x.2))
    (gpost.map (fun x => cellOf O q ipre.length item x.1 x.2) ++
      cellsColumnMajor O q (gpre ++ g :: gpost) (enumFrom (ipre.length + 1) ipost)) k ?_ ?_).1
  · unfold cells
    rw [hgroups, hitems, enumFrom_append]
    simp only [cellsColumnMajor, enumFrom, List.flatMap_append, List.flatMap_cons, List.map_append, List.map_cons, hk,
      Nat.zero_add, List.append_assoc, List.cons_append]
  · intro x hx
    rcases List.mem_append.mp hx with hx | hx
    · simp only [cellsColumnMajor, List.mem_flatMap, List.mem_map] at hx
      obtain ⟨p, hp, y, hy, rfl⟩ := hx
      exact hcols p hp y hy
    · obtain ⟨y, hy, rfl⟩ := List.mem_map.mp hx
      exact hcol y hy

/-- **2. the order of the loops does not decide WHETHER the result is an error**: the column pass answers iff every
group has its row -/
theorem cells_pass_iff_rows (q : AggStmt) (V : List (List Value × List (Nat × Value))) :
    (∃ cs, aggColumns O q V (enumFrom 0 q.items) = .ok cs) ↔ ∀ g ∈ V, ∃ r, rowOf O q g.1 g.2 (enumFrom 0 q.items) = .ok r :=
  aggColumns_ok_iff_rows O q V _

/-- … and the row the code assembles for the `n`-th group from the columns
(`result_rows_by_column[column_index][row_index]`) is the row `resultRows` computes for that group -/
theorem rows_from_columns (q : AggStmt) (V : List (List Value × List (Nat × Value))) (cs : List (List Value))
    (h : aggColumns O q V (enumFrom 0 q.items) = .ok cs) (n : Nat) (g : List Value × List (Nat × Value)) (hg : V[n]? = some g) :
    rowOf O q g.1 g.2 (enumFrom 0 q.items) = .ok (cs.map (fun c => c.getD n .null)) :=
  aggColumns_ok_rowOf h n g hg

/-! ### 3. every error of the result is one of the two -/

theorem firstFail_error {α : Type} : ∀ (l : List (Outcome α)) (k : ErrKind), firstFail l = .error k →
    ∃ pre post, l = pre ++ .error k :: post ∧ ∀ x ∈ pre, ∃ v, x = .ok v := by
  intro l
  induction l with
  | nil => intro k h; simp [firstFail] at h
  | cons x xs ih =>
    intro k h
    cases x with
    | ok v =>
      obtain ⟨pre, post, hl, hp⟩ := ih k (by simpa [firstFail] using h)
      refine ⟨.ok v :: pre, post, by rw [hl]; rfl, ?_⟩
      intro y hy
      rcases List.mem_cons.mp hy with hy | hy
      · exact ⟨v, hy⟩
      · exact hp y hy
    | error k' =>
      simp only [firstFail, Outcome.error.injEq] at h
      subst h
      exact ⟨[], xs, rfl, fun y hy => by simp at hy⟩
    | panic s => simp [firstFail] at h
    | oracleMissing w => simp [firstFail] at h

/-- when every group has its row, an error of `resultRows` is HAVING's, on the first group in key order where HAVING is
no BOOLEAN / NULL value -/
theorem resultRows_error_is_having (q : AggStmt) : ∀ (V : List (List Value × List (Nat × Value))) (seen : List (List Value)) (k : ErrKind),
    (∀ g ∈ V, ∃ r, rowOf O q g.1 g.2 (enumFrom 0 q.items) = .ok r) → resultRows O q V seen = .error k →
    ∃ h gpre g gpost, q.having = some h ∧ V = gpre ++ g :: gpost ∧ (∀ x ∈ gpre, ∃ b, acceptGroup O q h x.1 x.2 = .ok b) ∧
      acceptGroup O q h g.1 g.2 = .error k := by
  intro V
  induction V with
  | nil => intro seen k _ h; simp [resultRows] at h
  | cons g0 rest ih =>
    intro seen k hrows h
    obtain ⟨key, subs⟩ := g0
    obtain ⟨row, hrow⟩ := hrows (key, subs) List.mem_cons_self
    have hrest : ∀ g ∈ rest, ∃ r, rowOf O q g.1 g.2 (enumFrom 0 q.items) = .ok r := fun g hg => hrows g (List.mem_cons_of_mem _ hg)
    have lift : ∀ seen', resultRows O q rest seen' = .error k → ∀ hv, q.having = some hv → (∃ b, acceptGroup O q hv key subs = .ok b) →
        ∃ h gpre g gpost, q.having = some h ∧ (key, subs) :: rest = gpre ++ g :: gpost ∧
          (∀ x ∈ gpre, ∃ b, acceptGroup O q h x.1 x.2 = .ok b) ∧ acceptGroup O q h g.1 g.2 = .error k := by
      intro seen' hr hv hhv hb
      obtain ⟨h', gpre, g, gpost, hh', hsplit, hpre, hg⟩ := ih seen' k hrest hr
      have : h' = hv := by rw [hhv] at hh'; exact (Option.some.inj hh').symm
      subst this
      refine ⟨h', (key, subs) :: gpre, g, gpost, hh', by rw [hsplit]; rfl, ?_, hg⟩
      intro x hx
      rcases List.mem_cons.mp hx with hx | hx
      · subst hx; exact hb
      · exact hpre x hx
    simp only [resultRows, hrow, bind, Outcome.bind] at h
    cases hh : q.having with
    | none =>
      -- no HAVING: the rest of the table would have to be the error, but it has no HAVING either
      have hnone : ∀ seen', resultRows O q rest seen' ≠ .error k := by
        intro seen' hr
        obtain ⟨h', _, _, _, hh', _⟩ := ih seen' k hrest hr
        rw [hh] at hh'; cases hh'
      rw [hh] at h
      simp only [pure, Bool.not_true, Bool.false_eq_true, if_false] at h
      exfalso
      by_cases hd : q.distinct = true
      · simp only [hd, if_true] at h
        by_cases hf : (distinctAdd seen row).2 = true
        · simp only [hf, if_true] at h
          cases hr : resultRows O q rest (distinctAdd seen row).1 with
          | error k' => rw [hr] at h; simp only [Outcome.error.injEq] at h; subst h; exact hnone _ hr
          | ok _ => rw [hr] at h; simp at h
          | panic _ => rw [hr] at h; simp at h
          | oracleMissing _ => rw [hr] at h; simp at h
        · simp only [hf, Bool.false_eq_true, if_false] at h; exact hnone _ h
      · simp only [hd, Bool.false_eq_true, if_false] at h
        cases hr : resultRows O q rest seen with
        | error k' => rw [hr] at h; simp only [Outcome.error.injEq] at h; subst h; exact hnone _ hr
        | ok _ => rw [hr] at h; simp at h
        | panic _ => rw [hr] at h; simp at h
        | oracleMissing _ => rw [hr] at h; simp at h
    | some hv =>
      rw [← hh]
      rw [hh] at h
      simp only at h
      cases ha : acceptGroup O q hv key subs with
      | error k' =>
        rw [ha] at h
        simp only [Outcome.error.injEq] at h
        subst h
        exact ⟨hv, [], (key, subs), rest, hh, rfl, fun x hx => by simp at hx, ha⟩
      | panic s => rw [ha] at h; simp at h
      | oracleMissing w => rw [ha] at h; simp at h
      | ok b =>
        rw [ha] at h
        simp only at h
        cases b with
        | false =>
          simp only [Bool.not_false, if_true] at h
          exact lift seen h hv hh ⟨false, ha⟩
        | true =>
          simp only [Bool.not_true, Bool.false_eq_true, if_false] at h
          by_cases hd : q.distinct = true
          · simp only [hd, if_true] at h
            by_cases hf : (distinctAdd seen row).2 = true
            · simp only [hf, if_true] at h
              cases hr : resultRows O q rest (distinctAdd seen row).1 with
              | error k' => rw [hr] at h; simp only [Outcome.error.injEq] at h; subst h; exact lift _ hr hv hh ⟨true, ha⟩
              | ok _ => rw [hr] at h; simp at h
              | panic _ => rw [hr] at h; simp at h
              | oracleMissing _ => rw [hr] at h; simp at h
            · simp only [hf, Bool.false_eq_true, if_false] at h; exact lift _ h hv hh ⟨true, ha⟩
          · simp only [hd, Bool.false_eq_true, if_false] at h
            cases hr : resultRows O q rest seen with
            | error k' => rw [hr] at h; simp only [Outcome.error.injEq] at h; subst h; exact lift _ hr hv hh ⟨true, ha⟩
            | ok _ => rw [hr] at h; simp at h
            | panic _ => rw [hr] at h; simp at h
            | oracleMissing _ => rw [hr] at h; simp at h

/-- **3. every error of the result is one of the two**: if `execute_result` is the error `k`, then either `k` is the
error of the first cell without a value in column-major order, or every cell has a value, the statement has a HAVING
clause, and `k` is the error of HAVING on the first group in key order on which it is no BOOLEAN / NULL value. -/
theorem result_error_classification (q : AggStmt) (es : EngineState) (k : ErrKind) (h : aggResult O q es.agg = .error k) :
    (∃ pre post, cells O q es = pre ++ .error k :: post ∧ ∀ x ∈ pre, ∃ v, x = .ok v) ∨
    ((∀ x ∈ cells O q es, ∃ v, x = .ok v) ∧
      ∃ hv gpre g gpost, q.having = some hv ∧ (publishPercentiles es.agg).vals = gpre ++ g :: gpost ∧
        (∀ x ∈ gpre, ∃ b, acceptGroup O q hv x.1 x.2 = .ok b) ∧ acceptGroup O q hv g.1 g.2 = .error k) := by
  rw [aggResult_eq] at h
  cases hc : aggColumns O q (publishPercentiles es.agg).vals (enumFrom 0 q.items) with
  | error k' =>
    rw [hc] at h
    simp only [Outcome.bind, Outcome.error.injEq] at h
    subst h
    left
    apply firstFail_error
    unfold cells
    rw [← aggColumns_firstFail, hc]; rfl
  | panic s => rw [hc] at h; simp [Outcome.bind] at h
  | oracleMissing w => rw [hc] at h; simp [Outcome.bind] at h
  | ok cs =>
    rw [hc] at h
    simp only [Outcome.bind] at h
    right
    refine ⟨?_, ?_⟩
    · apply (firstFail_ok_iff _).mp
      unfold cells
      rw [← aggColumns_firstFail, hc]; rfl
    · apply resultRows_error_is_having O q _ [] k (rows_ok_of_aggColumns hc)
      cases hr : resultRows O q (publishPercentiles es.agg).vals [] with
      | error k' => rw [hr] at h; simp only [Outcome.error.injEq] at h; rw [h]
      | ok _ => rw [hr] at h; simp at h
      | panic _ => rw [hr] at h; simp at h
      | oracleMissing _ => rw [hr] at h; simp at h

/-! ### non-vacuity: the hypotheses hold on a table where the two orders differ -/

/-- `SELECT k, 10 / (SUM(v) - 2), upper(MIN(v)) FROM t GROUP BY k` -/
def exStmt : AggStmt :=
  { items := [{ name := "k", kind := .groupKey (.column "k") "k", transform := none },
              { name := "p1", kind := .sum (.column "v"),
                transform := some (.arith .div (.value (.int 10)) (.arith .sub (.scoped .aggValue "$value") (.value (.int 2)))) },
              { name := "p2", kind := .min (.column "v"), transform := some (.call .upper [.scoped .aggValue "$value"]) }],
    filter := none, groupBy := some [(.column "k", "k")], having := none, havingAggs := [], havingKeys := [], havingVisit := [],
    limit := none, distinct := false }

/-- the state after the rows `(a, 1)`, `(b, 2)`: groups `a` (SUM 1, MIN 1) and `b` (SUM 2, MIN 2) -/
def exState : EngineState :=
  { agg := { vals := [([.text [97]], [(1, .int 1), (2, .int 1)]), ([.text [98]], [(1, .int 2), (2, .int 2)])] } }

/-- the cells in column-major order: the keys, `-10`, then (column 2, group `b`) without a value — before any cell of
column 3, which has no value in group `a` either -/
example : cells {} exStmt exState =
    [.ok (.text [97]), .ok (.text [98]), .ok (.int (-10))] ++ .error .undefinedOperation ::
      [.error .undefinedFunction, .error .undefinedFunction] := rfl

example : finalResult {} exStmt exState = .error .undefinedOperation :=
  (result_error_is_first_cell_column_major {} exStmt exState [.ok (.text [97]), .ok (.text [98]), .ok (.int (-10))]
    [.error .undefinedFunction, .error .undefinedFunction] _ rfl
    (by intro x hx; simp only [List.mem_cons, List.not_mem_nil, or_false] at hx; rcases hx with rfl | rfl | rfl <;> exact ⟨_, rfl⟩)).1

/-- … and row by row the first cell without a value would be (group `a`, column 3) -/
example : rowOf {} exStmt [.text [97]] [(1, .int 1), (2, .int 1)] (enumFrom 0 exStmt.items) = .error .undefinedFunction := rfl

/-! ### examples: statements on which the two orders differ (kernel-evaluated, whole invocations on real texts) -/

section Examples
open Sqlgrep.Pipeline
open Sqlgrep.Props.Pipeline (exFacts exDefs recordsOf)

/-- table `t(k TEXT, v INT)`, lines `a;1`, `b;2`. Column 2 (`10 / (SUM(v) - 2)`) has a value in group `a` (-10) and
none in group `b` (division by zero: `UndefinedOperation`); column 3 (`upper(MIN(v))`, `upper` of an INT) has no value
in either group (`UndefinedFunction`). Column-major order reaches (column 2, group `b`) before any cell of column 3: the
error is `UndefinedOperation` — row-major order would have met (group `a`, column 3) first and said
`UndefinedFunction`. -/
example : recordsOf (runText exFacts exDefs "SELECT k, 10 / (SUM(v) - 2), upper(MIN(v)) FROM t GROUP BY k".toList .text false
      [strBytes "a;1\nb;2\n"]) = some (some .undefinedOperation, 2, []) := by decide +kernel

/-- … the two columns exchanged: now `upper(MIN(v))` is the earlier column, its cell in group `a` is the first one -/
example : recordsOf (runText exFacts exDefs "SELECT k, upper(MIN(v)), 10 / (SUM(v) - 2) FROM t GROUP BY k".toList .text false
      [strBytes "a;1\nb;2\n"]) = some (some .undefinedFunction, 2, []) := by decide +kernel

/-- … and over the group `a` alone column 2 is complete, so column 3 decides -/
example : recordsOf (runText exFacts exDefs "SELECT k, 10 / (SUM(v) - 2), upper(MIN(v)) FROM t GROUP BY k".toList .text false
      [strBytes "a;1\n"]) = some (some .undefinedFunction, 1, []) := by decide +kernel

/-- a cell without a value comes before HAVING: `HAVING SUM(v) AND true` is a type error on every group (an INT has no
truth value), but HAVING is only asked when the table is complete — here column 2 has no value in group `a`, and that is the
error reported (without that column the answer is HAVING's `TypeError`, next example) -/
example : recordsOf (runText exFacts exDefs "SELECT k, upper(MIN(v)) FROM t GROUP BY k HAVING SUM(v) AND true".toList .text false
      [strBytes "a;1\nb;2\n"]) = some (some .undefinedFunction, 2, []) := by decide +kernel

example : recordsOf (runText exFacts exDefs "SELECT k, MIN(v) FROM t GROUP BY k HAVING SUM(v) AND true".toList .text false
      [strBytes "a;1\nb;2\n"]) = some (some .typeError, 2, []) := by decide +kernel

/-- facts about `a;1;1` and `b;1;9223372036854775807` under a three-field pattern (what the `regex` crate answers) -/
def ex3Facts : Facts :=
  { regexValid := [("^([a-z]+);([0-9]+);([0-9]+)$".toList, true)]
    lines := [(strBytes "a;1;1", { captures := [(strBytes "^([a-z]+);([0-9]+);([0-9]+)$",
                some [some (strBytes "a;1;1"), some (strBytes "a"), some (strBytes "1"), some (strBytes "1")])] }),
              (strBytes "b;1;9223372036854775807", { captures := [(strBytes "^([a-z]+);([0-9]+);([0-9]+)$",
                some [some (strBytes "b;1;9223372036854775807"), some (strBytes "b"), some (strBytes "1"), some (strBytes "9223372036854775807")])] })] }

def ex3Defs : List Char :=
  "CREATE TABLE t(line = '^([a-z]+);([0-9]+);([0-9]+)$', line[1] => k TEXT, line[2] => v INT, line[3] => w INT);".toList

/-- **the reviewer's statement** (audit 3, L3): rows `(a,1,1)`, `(b,1,i64::MAX)`. `SUM(w) * 10` overflows in group `b`
(`UndefinedOperation`), `upper(MIN(v))` has no value in any group (`UndefinedFunction`). The program says
`Undefined operation` (column 2, group `b`, comes before column 3), and so does the model. -/
example : recordsOf (runText ex3Facts ex3Defs "SELECT k, SUM(w) * 10, upper(MIN(v)) FROM t GROUP BY k".toList .text false
      [strBytes "a;1;1\nb;1;9223372036854775807\n"]) = some (some .undefinedOperation, 2, []) := by decide +kernel

end Examples

end Sqlgrep.Props.C04Errors
