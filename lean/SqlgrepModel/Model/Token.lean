import SqlgrepModel.Model.Value
/- Tokens of `src/parsing/tokenizer.rs` and operators of `src/parsing/operator.rs`. -/
namespace Sqlgrep

inductive Keyword where
  | select | from | where | group | by | as | and | or | create | table | not | is | isNot | in | notIn
  | having | inner | outer | join | on | extract | default | distinct | case | when | then | else | end | limit
  deriving DecidableEq, Repr, Inhabited

inductive Operator where
  | single (c : Char)
  | dual (c d : Char)
  deriving DecidableEq, Repr, Inhabited

inductive Tok where
  | int (i : Int)
  | float (bits : Nat)
  | str (s : List Char)
  | null | tru | fls
  | op (o : Operator)
  | ident (s : List Char)
  | kw (k : Keyword)
  | lp | rp | lsq | rsq | lcu | rcu
  | comma | semi | colon | dcolon | rarrow
  | eof
  deriving DecidableEq, Repr, Inhabited

structure Loc where
  line : Nat
  column : Nat
  deriving DecidableEq, Repr, Inhabited

structure PTok where
  loc : Loc
  tok : Tok
  deriving DecidableEq, Repr, Inhabited

end Sqlgrep
