import SqlgrepModel.Lemmas.ParseSelectHead
/-
The optional trailing semicolon of a SELECT statement, for whole token vectors: if `Parser::parse` reads
`pre ++ [End]` (no `;`, no `End` inside `pre`) as a SELECT statement it reads `pre ++ [;, End]` as the same statement up
to token locations, and conversely. Ingredients: fuel monotonicity of the SELECT path, the head of `parse_select`
(`Lemmas/ParseSelectHead.lean`), the decomposition of a successful clause-loop run into clauses
(`Lemmas/ParseRuns.lean`) and the clause-level theorem (`clauseLoop_trailing_semi`).
-/
namespace Sqlgrep
namespace Parse

/-! ### fuel monotonicity of the SELECT path -/

theorem clauseTurn_mono (T : PrecTables) (n : Nat) (c : Clauses) (s : PSt) :
    PLe (clauseTurn T n c s) (clauseTurn T (n + 1) c s) := by
  have ihE := (mono_all T n).1
  have hG := groupKeysLoop_mono T n
  have ihR := (mono_all T n).2.1; have ihU := (mono_all T n).2.2.1; have ihP := (mono_all T n).2.2.2.1
  have ihC := (mono_all T n).2.2.2.2.1; have ihL := (mono_all T n).2.2.2.2.2
  unfold clauseTurn
  mono_auto


theorem clauseLoop_mono (T : PrecTables) : ∀ (n : Nat) (c : Clauses) (s : PSt),
    PLe (clauseLoop T n c s) (clauseLoop T (n + 1) c s) := by
  intro n
  induction n with
  | zero => intro c s; rw [clauseLoop]; exact PLe.fuel _
  | succ n ih =>
    intro c s
    rw [clauseLoop, clauseLoop]
    rcases clauseTurn_mono T n c s with h | h
    · rw [h]; exact PLe.fuel _
    · rw [h]
      cases clauseTurn T (n + 1) c s with
      | err e s1 => exact PLe.refl _
      | fuel => exact PLe.refl _
      | ok cb s1 =>
        simp only []
        split
        · exact PLe.refl _
        · split
          · exact PLe.refl _
          · exact ih _ _

theorem clauseLoop_mono_le (T : PrecTables) {f f' : Nat} (h : f ≤ f') (c : Clauses) (s : PSt) :
    PLe (clauseLoop T f c s) (clauseLoop T f' c s) := by
  induction h with
  | refl => exact PLe.refl _
  | step _ ih => exact ih.trans (clauseLoop_mono T _ c s)

theorem clauses_mono_le (T : PrecTables) {f f' : Nat} (h : f ≤ f') (s : PSt) :
    PLe (clauses T f s) (clauses T f' s) := by
  unfold clauses
  split
  · exact clauseLoop_mono_le T h _ s
  · exact PLe.refl _

theorem parseSelect_mono_le (T : PrecTables) {f f' : Nat} (h : f ≤ f') (s : PSt) :
    PLe (parseSelect T f s) (parseSelect T f' s) := by
  rw [parseSelect_eq, parseSelect_eq]
  rcases selectHead_mono_le T h s with h1 | h1
  · rw [h1]; exact PLe.fuel _
  · rw [h1]
    cases selectHead T f' s with
    | err e s1 => exact PLe.refl _
    | fuel => exact PLe.refl _
    | ok hd s1 =>
      simp only []
      rcases clauses_mono_le T h s1 with h2 | h2
      · rw [h2]; exact PLe.fuel _
      · rw [h2]; exact PLe.refl _

/-- on a token vector that starts with SELECT, more fuel never changes an answer of `Parser::parse` -/
theorem parseOp_select_mono_le (T : PrecTables) {f f' : Nat} (h : f ≤ f') (s : PSt) (hs : s.cur.tok = .kw .select) :
    PLe (parseOp T f s) (parseOp T f' s) := by
  unfold parseOp parseStatement
  simp only [hs, if_true]
  split
  · exact PLe.refl _
  · rcases parseSelect_mono_le T h s with h1 | h1
    · rw [h1]; exact PLe.fuel _
    · rw [h1]; exact PLe.refl _


/-! ### from a head and clauses to the two runs -/

section both
variable {T : PrecTables} (hT : InertBoundary T)
include hT

theorem prependAll_boundary' (fuel0 : Nat) (segs : List (List PTok × ClauseVal))
    (hcs : ∀ p ∈ segs, ClauseSeg T fuel0 (p.1.map (·.tok)) p.2) (final : PSt) (hf : Boundary final.cur.tok) :
    Boundary (PSt.prependAll (segs.map (·.1)) final).cur.tok :=
  prependAll_boundary T fuel0 segs final (fun p hp => isClause_of_seg hT (hcs p hp) p.1 rfl) hf

theorem prependAll_ne_eof (fuel0 : Nat) (p : List PTok × ClauseVal) (segs : List (List PTok × ClauseVal))
    (hcs : ∀ q ∈ p :: segs, ClauseSeg T fuel0 (q.1.map (·.tok)) q.2) (final : PSt) :
    (PSt.prependAll ((p :: segs).map (·.1)) final).cur.tok ≠ .eof := by
  obtain ⟨t, ts, hseg, hk⟩ := (isClause_of_seg hT (hcs p (by simp)) p.1 rfl).head
  simp only [List.map_cons, PSt.prependAll]
  rw [prepend_cur hseg]
  exact clauseKw_ne_eof hk

/-- a SELECT head and clauses, followed by `End` or by `;` `End`: `parse_select` reads both vectors completely and
builds the same tree up to locations -/
theorem select_runs_both (hd : List PTok) (hnb : ∀ t ∈ hd, ¬ Boundary t.tok)
    (hsel : ∃ t ts, hd = t :: ts ∧ t.tok = .kw .select) (tail0 : PSt) (hb0 : Boundary tail0.cur.tok) (fuel0 : Nat)
    (h : HeadV) (hrun : selectHead T fuel0 (PSt.prepend hd tail0) = .ok h tail0)
    (segs : List (List PTok × ClauseVal)) (hcs : ∀ p ∈ segs, ClauseSeg T fuel0 (p.1.map (·.tok)) p.2)
    (hpw : segs.Pairwise (fun a b => a.2.kind ≠ b.2.kind)) (l0 l l' : Loc) (fuel : Nat)
    (hfuel : fuel0 + segs.length + 2 ≤ fuel) :
    ∃ h1 h2 c1 c2,
      parseSelect T fuel (PSt.prepend hd (PSt.prependAll (segs.map (·.1)) ⟨⟨l0, .eof⟩, []⟩)) =
        .ok (.select (selectOf h1 c1)) ⟨⟨l0, .eof⟩, []⟩ ∧
      parseSelect T fuel (PSt.prepend hd (PSt.prependAll (segs.map (·.1)) ⟨⟨l, .semi⟩, [⟨l', .eof⟩]⟩)) =
        .ok (.select (selectOf h2 c2)) ⟨⟨l', .eof⟩, []⟩ ∧
      h1.erase = h2.erase ∧ c1.Same c2 := by
  have hbe : Boundary (⟨⟨l0, .eof⟩, []⟩ : PSt).cur.tok := .inr (.inl rfl)
  have hbs : Boundary (⟨⟨l, .semi⟩, [⟨l', .eof⟩]⟩ : PSt).cur.tok := .inr (.inr rfl)
  obtain ⟨h1, hr1, he1⟩ := selectHead_prefix hT hd hd hnb rfl hsel tail0 _ hb0
    (prependAll_boundary' hT fuel0 segs hcs _ hbe) fuel0 fuel (by omega) h hrun
  obtain ⟨h2, hr2, he2⟩ := selectHead_prefix hT hd hd hnb rfl hsel tail0 _ hb0
    (prependAll_boundary' hT fuel0 segs hcs _ hbs) fuel0 fuel (by omega) h hrun
  obtain ⟨k, rfl⟩ : ∃ k, fuel = k + 1 := ⟨fuel - 1, by omega⟩
  cases segs with
  | nil =>
    refine ⟨h1, h2, {}, {}, ?_, ?_, by rw [he1, he2], rfl⟩
    · rw [parseSelect_eq, hr1]; simp [PSt.prependAll, clauses]
    · rw [parseSelect_eq, hr2]; simp [PSt.prependAll, clauses, clauseLoop, clauseTurn, next]
  | cons p rest =>
    obtain ⟨c1, c2, hc1, hc2, hsame⟩ := clauseLoop_trailing_semi hT fuel0 l0 l l' (p :: rest) (p :: rest) (by simp) hcs rfl hpw
      (k + 1) (by simp at hfuel ⊢; omega)
    have hne1 := prependAll_ne_eof hT fuel0 p rest hcs ⟨⟨l0, .eof⟩, []⟩
    have hne2 := prependAll_ne_eof hT fuel0 p rest hcs ⟨⟨l, .semi⟩, [⟨l', .eof⟩]⟩
    refine ⟨h1, h2, c1, c2, ?_, ?_, by rw [he1, he2], hsame⟩
    · rw [parseSelect_eq, hr1]; simp only [clauses, hne1, ne_eq, not_false_eq_true, if_true, hc1]
    · rw [parseSelect_eq, hr2]; simp only [clauses, hne2, ne_eq, not_false_eq_true, if_true, hc2]

end both


/-! ### from a run of `parse_select` to its head and clauses -/

section data
variable {T : PrecTables} (hT : InertBoundary T)
include hT

/-- a successful `parse_select` read a boundary-free head and then clauses, up to `End` or `;` -/
theorem select_run_data {f : Nat} {s sF : PSt} {op : POp} (hs : s.cur.tok = .kw .select)
    (hrun : parseSelect T f s = .ok op sF) :
    ∃ (hd : List PTok) (tailX : PSt) (h : HeadV) (segs : List (List PTok × ClauseVal)) (term : PSt),
      s = PSt.prepend hd tailX ∧ (∀ t ∈ hd, ¬ Boundary t.tok) ∧ (∃ t ts, hd = t :: ts ∧ t.tok = .kw .select) ∧
      Boundary tailX.cur.tok ∧ selectHead T f (PSt.prepend hd tailX) = .ok h tailX ∧
      tailX = PSt.prependAll (segs.map (·.1)) term ∧
      (∀ p ∈ segs, ClauseSeg T f (p.1.map (·.tok)) p.2) ∧ segs.Pairwise (fun a b => a.2.kind ≠ b.2.kind) ∧
      op = .select (selectOf h (putAll (segs.map (·.2)) {})) ∧
      ((term.cur.tok = .eof ∧ sF = term) ∨ (term.cur.tok = .semi ∧ next term = .ok () sF)) := by
  rw [parseSelect_eq] at hrun
  try_inv hrun; rename_i h tailX hhead
  try_inv hrun; rename_i c sF' hcl
  simp only [PRes.ok.injEq] at hrun
  obtain ⟨rfl, rfl⟩ := hrun
  obtain ⟨hd, hsd, hnb⟩ := selectHead_noadv hT hs hhead
  -- the clauses
  have hdata : ∃ (segs : List (List PTok × ClauseVal)) (term : PSt),
      tailX = PSt.prependAll (segs.map (·.1)) term ∧ Boundary tailX.cur.tok ∧
      (∀ p ∈ segs, ClauseSeg T f (p.1.map (·.tok)) p.2) ∧ segs.Pairwise (fun a b => a.2.kind ≠ b.2.kind) ∧
      c = putAll (segs.map (·.2)) {} ∧
      ((term.cur.tok = .eof ∧ sF' = term) ∨ (term.cur.tok = .semi ∧ next term = .ok () sF')) := by
    unfold clauses at hcl
    by_cases he : tailX.cur.tok = .eof
    · simp only [he, ne_eq, not_true_eq_false, if_false, PRes.ok.injEq] at hcl
      obtain ⟨rfl, rfl⟩ := hcl
      exact ⟨[], tailX, rfl, .inr (.inl he), by simp, by simp, rfl, .inl ⟨he, rfl⟩⟩
    · simp only [he, ne_eq, not_false_eq_true, if_true] at hcl
      have hb : Boundary tailX.cur.tok := by
        cases f with
        | zero => rw [clauseLoop] at hcl; cases hcl
        | succ m =>
          have h' := hcl
          rw [clauseLoop] at h'
          try_inv h'; rename_i cb2 s2 ht2
          exact clauseTurn_ok_boundary ht2
      obtain ⟨segs, term, h1, h2, h3, _, h5, h6⟩ := clauseLoop_run hT f {} tailX c sF' hcl
      refine ⟨segs, term, h1, hb, h2, h3, h5, ?_⟩
      rcases h6 with ⟨a, b, _⟩ | h6
      · exact .inl ⟨a, b⟩
      · exact .inr h6
  obtain ⟨segs, term, h1, hb, h2, h3, h5, h6⟩ := hdata
  have hne : hd ≠ [] := by
    intro hnil; subst hnil
    have : s = tailX := hsd
    rw [this] at hs; rw [hs] at hb
    exact absurd hb (by decide)
  obtain ⟨t, ts, rfl⟩ := List.exists_cons_of_ne_nil hne
  refine ⟨t :: ts, tailX, h, segs, term, hsd, hnb, ⟨t, ts, rfl, ?_⟩, hb, hsd ▸ hhead, h1, h2, h3, by rw [h5], h6⟩
  have : s.cur = t := by rw [hsd]; rfl
  rw [← this]; exact hs

end data


/-! ### identifying the parts of the vector -/

theorem prependAll_toks (segs : List (List PTok)) (term : PSt) :
    PSt.toks (PSt.prependAll segs term) = segs.flatten ++ PSt.toks term := by
  induction segs with
  | nil => simp [PSt.prependAll]
  | cons a as ih => simp [PSt.prependAll, prepend_toks, ih]

theorem clauseSeg_no_term {T : PrecTables} {f : Nat} {toks : List Tok} {v : ClauseVal} (h : ClauseSeg T f toks v) :
    ∀ t ∈ toks, t ≠ .semi ∧ t ≠ .eof := by
  have nb : ∀ (body : List PTok), (∀ t ∈ body, ¬ Boundary t.tok) → ∀ t ∈ body.map (·.tok), t ≠ .semi ∧ t ≠ .eof := by
    intro body hnb t ht
    obtain ⟨p, hp, rfl⟩ := List.mem_map.mp ht
    have := hnb p hp
    constructor
    · intro e; exact this (e ▸ .inr (.inr rfl))
    · intro e; exact this (e ▸ .inr (.inl rfl))
  cases h with
  | limit n => intro t ht; simp at ht; rcases ht with rfl | rfl <;> simp
  | join outer u fl a b c d =>
    intro t ht
    simp only [List.mem_cons, List.mem_nil_iff, or_false] at ht
    rcases ht with rfl | rfl | rfl | rfl | rfl | rfl | rfl | rfl | rfl | rfl | rfl | rfl | rfl <;> simp
  | filter body hnb tail0 hb0 e hrun =>
    intro t ht; simp only [List.mem_cons] at ht
    rcases ht with rfl | ht
    · simp
    · exact nb body hnb t ht
  | having body hnb tail0 hb0 e hrun =>
    intro t ht; simp only [List.mem_cons] at ht
    rcases ht with rfl | ht
    · simp
    · exact nb body hnb t ht
  | groupBy body hnb tail0 hb0 ks hrun =>
    intro t ht; simp only [List.mem_cons] at ht
    rcases ht with rfl | rfl | ht
    · simp
    · simp
    · exact nb body hnb t ht

/-- a token list splits in only one way in front of its first `;` / `End` -/
theorem split_unique : ∀ (A B : List PTok) (x y : PTok) (X Y : List PTok),
    (∀ t ∈ A, t.tok ≠ .semi ∧ t.tok ≠ .eof) → (∀ t ∈ B, t.tok ≠ .semi ∧ t.tok ≠ .eof) →
    (x.tok = .semi ∨ x.tok = .eof) → (y.tok = .semi ∨ y.tok = .eof) →
    A ++ x :: X = B ++ y :: Y → A = B ∧ x :: X = y :: Y
  | [], [], x, y, X, Y, _, _, _, _, h => ⟨rfl, h⟩
  | [], b :: B, x, y, X, Y, _, hB, hx, _, h => by
    simp only [List.nil_append, List.cons_append, List.cons.injEq] at h
    have := hB b (by simp); rw [← h.1] at this
    rcases hx with e | e <;> simp [e] at this
  | a :: A, [], x, y, X, Y, hA, _, _, hy, h => by
    simp only [List.nil_append, List.cons_append, List.cons.injEq] at h
    have := hA a (by simp); rw [h.1] at this
    rcases hy with e | e <;> simp [e] at this
  | a :: A, b :: B, x, y, X, Y, hA, hB, hx, hy, h => by
    simp only [List.cons_append, List.cons.injEq] at h
    obtain ⟨h1, h2⟩ := split_unique A B x y X Y (fun t ht => hA t (by simp [ht])) (fun t ht => hB t (by simp [ht])) hx hy h.2
    exact ⟨by rw [h.1, h1], h2⟩

theorem nb_no_term {hd : List PTok} (h : ∀ t ∈ hd, ¬ Boundary t.tok) : ∀ t ∈ hd, t.tok ≠ .semi ∧ t.tok ≠ .eof := by
  intro t ht
  constructor
  · intro e; exact h t ht (e ▸ .inr (.inr rfl))
  · intro e; exact h t ht (e ▸ .inr (.inl rfl))

theorem segs_no_term {T : PrecTables} {f : Nat} {segs : List (List PTok × ClauseVal)}
    (hcs : ∀ p ∈ segs, ClauseSeg T f (p.1.map (·.tok)) p.2) :
    ∀ t ∈ (segs.map (·.1)).flatten, t.tok ≠ .semi ∧ t.tok ≠ .eof := by
  intro t ht
  simp only [List.mem_flatten, List.mem_map] at ht
  obtain ⟨l, ⟨p, hp, rfl⟩, htl⟩ := ht
  exact clauseSeg_no_term (hcs p hp) t.tok (List.mem_map_of_mem htl)

theorem multiCreateLoop_not_select (T : PrecTables) : ∀ (fuel : Nat) (acc : List PCreate) (s s' : PSt) (q : PSelect),
    multiCreateLoop T fuel acc s ≠ .ok (.select q) s' := by
  intro fuel
  induction fuel with
  | zero => intro acc s s' q h; rw [multiCreateLoop] at h; cases h
  | succ n ih =>
    intro acc s s' q h
    rw [multiCreateLoop] at h
    try_inv h; rename_i c s1 hc
    split at h
    · simp only [PRes.ok.injEq] at h
      unfold opOfCreates at h
      split at h <;> cases h.1
    · exact ih _ _ _ _ h

/-- the same SELECT tree up to token locations -/
def _root_.Sqlgrep.PSelect.SameUpToLoc (q q' : PSelect) : Prop :=
  eraseProjH q.projections = eraseProjH q'.projections ∧ q.fromTable = q'.fromTable ∧ q.fromFile = q'.fromFile ∧
  q.distinct = q'.distinct ∧
  Clauses.Same ⟨q.filter, q.groupBy, q.having, q.join, q.limit⟩ ⟨q'.filter, q'.groupBy, q'.having, q'.join, q'.limit⟩

theorem selectOf_same {h1 h2 : HeadV} {c1 c2 : Clauses} (hh : h1.erase = h2.erase) (hc : c1.Same c2) :
    (selectOf h1 c1).SameUpToLoc (selectOf h2 c2) := by
  obtain ⟨d1, l1, p1, t1, f1⟩ := h1
  obtain ⟨d2, l2, p2, t2, f2⟩ := h2
  simp only [HeadV.erase, Prod.mk.injEq] at hh
  obtain ⟨rfl, _, hp, rfl, rfl⟩ := hh
  exact ⟨hp, rfl, rfl, rfl, hc⟩


theorem PSelect.SameUpToLoc.symm {q q' : PSelect} (h : q.SameUpToLoc q') : q'.SameUpToLoc q := by
  obtain ⟨a, b, c, d, e⟩ := h
  exact ⟨a.symm, b.symm, c.symm, d.symm, by unfold Clauses.Same at *; exact e.symm⟩

/-! ### the optional trailing semicolon of a SELECT statement -/

section final
variable {T : PrecTables} (hT : InertBoundary T)
include hT

omit hT in
/-- `Parser::parse` on a state that starts with SELECT, once `parse_select` read everything up to `End` -/
theorem parseOp_of_select {fuel : Nat} {s : PSt} {q : PSelect} {lE : Loc} (hs : s.cur.tok = .kw .select)
    (h : parseSelect T fuel s = .ok (.select q) ⟨⟨lE, .eof⟩, []⟩) :
    parseOp T fuel s = .ok (.select q) ⟨⟨lE, .eof⟩, []⟩ := by
  unfold parseOp parseStatement
  simp [hs, h, optSemi]

/-- the core: a token vector `pre ++ [End]` or `pre ++ [;, End]` (no `;`, no `End` inside `pre`) that `Parser::parse`
reads as a SELECT statement determines a head and clauses, and with them both vectors are read as SELECT statements
with the same tree up to locations, for every sufficiently large fuel -/
theorem semicolon_core (pre : List PTok) (hpre : ∀ t ∈ pre, t.tok ≠ .semi ∧ t.tok ≠ .eof) (l0 l l' : Loc) (fin : PSt)
    (hfin : fin = ⟨⟨l0, .eof⟩, []⟩ ∨ fin = ⟨⟨l, .semi⟩, [⟨l', .eof⟩]⟩) (F : Nat) (q : PSelect) (sE : PSt)
    (hrun : parseOp T F (PSt.prepend pre fin) = .ok (.select q) sE) :
    (PSt.prepend pre fin).cur.tok = .kw .select ∧
    ∃ F0 q1 q2, (∀ fuel, F0 ≤ fuel →
      parseOp T fuel (PSt.prepend pre ⟨⟨l0, .eof⟩, []⟩) = .ok (.select q1) ⟨⟨l0, .eof⟩, []⟩ ∧
      parseOp T fuel (PSt.prepend pre ⟨⟨l, .semi⟩, [⟨l', .eof⟩]⟩) = .ok (.select q2) ⟨⟨l', .eof⟩, []⟩) ∧
      q1.SameUpToLoc q2 := by
  -- the vector starts with SELECT and `parse_select` succeeded
  have hsel : (PSt.prepend pre fin).cur.tok = .kw .select ∧
      ∃ sF, parseSelect T F (PSt.prepend pre fin) = .ok (.select q) sF := by
    unfold parseOp at hrun
    split at hrun
    · cases hrun
    · rename_i hk
      unfold parseStatement at hrun
      by_cases hs : (PSt.prepend pre fin).cur.tok = .kw .select
      · refine ⟨hs, ?_⟩
        simp only [hs, if_true] at hrun
        split at hrun
        · cases hrun
        · rename_i op sF hps
          try_inv hrun
          split at hrun
          · simp only [PRes.ok.injEq] at hrun; exact ⟨sF, by rw [hps, hrun.1]⟩
          · cases hrun
        · try_inv hrun
          cases hrun
      · exfalso
        simp only [hs, if_false] at hrun
        split at hrun
        · cases hrun
        · rename_i op sF hps
          try_inv hrun
          split at hrun
          · simp only [PRes.ok.injEq] at hrun
            rw [hrun.1] at hps
            exact multiCreateLoop_not_select T _ _ _ _ _ hps
          · cases hrun
        · try_inv hrun
          cases hrun
  obtain ⟨hs, sF, hps⟩ := hsel
  refine ⟨hs, ?_⟩
  obtain ⟨hd, tailX, h, segs, term, hsd, hnb, hselhd, hbX, hhead, htail, hcs, hpw, _, hend⟩ := select_run_data hT hs hps
  -- the terminator of the run is the terminator of the vector
  have htoks : pre ++ PSt.toks fin = (hd ++ (segs.map (·.1)).flatten) ++ PSt.toks term := by
    have := congrArg PSt.toks hsd
    rw [prepend_toks, prepend_toks, htail, prependAll_toks] at this
    simpa [List.append_assoc] using this
  have hfinterm : (fin.cur.tok = .semi ∨ fin.cur.tok = .eof) := by rcases hfin with rfl | rfl <;> simp
  have htermterm : (term.cur.tok = .semi ∨ term.cur.tok = .eof) := by
    rcases hend with ⟨a, _⟩ | ⟨a, _⟩
    · exact .inr a
    · exact .inl a
  have hA : ∀ t ∈ hd ++ (segs.map (·.1)).flatten, t.tok ≠ .semi ∧ t.tok ≠ .eof := by
    intro t ht
    rcases List.mem_append.mp ht with ht | ht
    · exact nb_no_term hnb t ht
    · exact segs_no_term hcs t ht
  obtain ⟨hpre_eq, _⟩ := split_unique pre (hd ++ (segs.map (·.1)).flatten) fin.cur term.cur fin.rest term.rest hpre hA
    hfinterm htermterm htoks
  have hvec : ∀ X : PSt, PSt.prepend pre X = PSt.prepend hd (PSt.prependAll (segs.map (·.1)) X) := by
    intro X; apply pst_ext
    rw [prepend_toks, prepend_toks, prependAll_toks, hpre_eq, List.append_assoc]
  obtain ⟨h1, h2, c1, c2, hr1, hr2, hh, hc⟩ := select_runs_both hT hd hnb hselhd tailX hbX F h hhead segs hcs hpw l0 l l'
    (F + segs.length + 2) (Nat.le_refl _)
  refine ⟨F + segs.length + 2, selectOf h1 c1, selectOf h2 c2, ?_, selectOf_same hh hc⟩
  intro fuel hfuel
  have hs1 : (PSt.prepend pre ⟨⟨l0, .eof⟩, []⟩).cur.tok = .kw .select := by
    obtain ⟨t, ts, rfl, ht⟩ := hselhd
    rw [hvec]; exact ht
  have hs2 : (PSt.prepend pre ⟨⟨l, .semi⟩, [⟨l', .eof⟩]⟩).cur.tok = .kw .select := by
    obtain ⟨t, ts, rfl, ht⟩ := hselhd
    rw [hvec]; exact ht
  constructor
  · apply parseOp_of_select hs1
    rw [hvec]
    exact (parseSelect_mono_le T hfuel _).eq_of_ne (by rw [hr1]; simp) ▸ hr1
  · apply parseOp_of_select hs2
    rw [hvec]
    exact (parseSelect_mono_le T hfuel _).eq_of_ne (by rw [hr2]; simp) ▸ hr2

omit hT in
theorem parseTokensFuel_prepend (F : Nat) (pre : List PTok) (fin : PSt) :
    parseTokensFuel T F (pre ++ PSt.toks fin) =
      (match parseOp T F (PSt.prepend pre fin) with
       | .ok op _ => .tree op
       | .err e _ => .error e
       | .fuel => .fuel) := by
  cases pre <;> rfl

omit hT in
theorem remaining_prepend (pre : List PTok) (fin : PSt) : (PSt.prepend pre fin).remaining = pre.length + fin.remaining := by
  have := congrArg List.length (prepend_toks pre fin)
  simpa [PSt.toks, PSt.remaining, Nat.add_comm, Nat.add_left_comm] using this

omit hT in
theorem tree_of_parseTokensFuel {F : Nat} {pre : List PTok} {fin : PSt} {op : POp}
    (h : parseTokensFuel T F (pre ++ PSt.toks fin) = .tree op) : ∃ sE, parseOp T F (PSt.prepend pre fin) = .ok op sE := by
  rw [parseTokensFuel_prepend] at h
  cases hp : parseOp T F (PSt.prepend pre fin) with
  | ok op' sE => rw [hp] at h; simp only [ParseOutcome.tree.injEq] at h; exact ⟨sE, by rw [h]⟩
  | err e sE => rw [hp] at h; cases h
  | fuel => rw [hp] at h; cases h

/-- one direction, for either terminator: from the vector ending in `fin` to the vector ending in `fin'` -/
theorem semicolon_transfer (pre : List PTok) (hpre : ∀ t ∈ pre, t.tok ≠ .semi ∧ t.tok ≠ .eof) (l0 l l' : Loc)
    (fin fin' : PSt) (hfin : (fin = ⟨⟨l0, .eof⟩, []⟩ ∧ fin' = ⟨⟨l, .semi⟩, [⟨l', .eof⟩]⟩) ∨
      (fin = ⟨⟨l, .semi⟩, [⟨l', .eof⟩]⟩ ∧ fin' = ⟨⟨l0, .eof⟩, []⟩)) (q : PSelect)
    (h : parseTokens T (pre ++ PSt.toks fin) = .tree (.select q)) :
    ∃ q', parseTokens T (pre ++ PSt.toks fin') = .tree (.select q') ∧ q.SameUpToLoc q' := by
  unfold parseTokens at h ⊢
  obtain ⟨sE, hrun⟩ := tree_of_parseTokensFuel h
  have hfin1 : fin = ⟨⟨l0, .eof⟩, []⟩ ∨ fin = ⟨⟨l, .semi⟩, [⟨l', .eof⟩]⟩ := by
    rcases hfin with ⟨a, _⟩ | ⟨a, _⟩
    · exact .inl a
    · exact .inr a
  obtain ⟨hs, F0, q1, q2, hboth, hsame⟩ := semicolon_core hT pre hpre l0 l l' fin hfin1 _ q sE hrun
  -- the fuel of the second vector is enough, and more fuel does not change its answer
  have key : ∀ (fin2 : PSt) (q2' : PSelect) (lE : Loc) (hs2 : (PSt.prepend pre fin2).cur.tok = .kw .select),
      (∀ fuel, F0 ≤ fuel → parseOp T fuel (PSt.prepend pre fin2) = .ok (.select q2') ⟨⟨lE, .eof⟩, []⟩) →
      parseTokensFuel T (fuelBound (pre ++ PSt.toks fin2).length) (pre ++ PSt.toks fin2) = .tree (.select q2') := by
    intro fin2 q2' lE hs2 hall
    rw [parseTokensFuel_prepend]
    have hnf := parseOp_nofuel T (fuelBound (pre ++ PSt.toks fin2).length) (PSt.prepend pre fin2) (by
      rw [remaining_prepend]; simp [fuelBound, PSt.toks, PSt.remaining] <;> omega)
    have hle := parseOp_select_mono_le T (Nat.le_max_left (fuelBound (pre ++ PSt.toks fin2).length) F0) _ hs2
    rw [hall _ (Nat.le_max_right _ _)] at hle
    rw [hle.eq_of_ne hnf |>.symm]
  -- the first vector's answer at large fuel is the given one
  have hq : ∀ (q1' : PSelect) (lE : Loc),
      (∀ fuel, F0 ≤ fuel → parseOp T fuel (PSt.prepend pre fin) = .ok (.select q1') ⟨⟨lE, .eof⟩, []⟩) → q1' = q := by
    intro q1' lE hall
    have hle := parseOp_select_mono_le T (Nat.le_max_left (fuelBound (pre ++ PSt.toks fin).length) F0) _ hs
    rw [hall _ (Nat.le_max_right _ _), hrun] at hle
    have := hle.eq_of_ne (by simp)
    simp only [PRes.ok.injEq, POp.select.injEq] at this
    exact this.1
  rcases hfin with ⟨rfl, rfl⟩ | ⟨rfl, rfl⟩
  · have e1 := hq q1 l0 (fun fuel hf => (hboth fuel hf).1)
    subst e1
    have hs2 : (PSt.prepend pre ⟨⟨l, .semi⟩, [⟨l', .eof⟩]⟩).cur.tok = .kw .select := by
      cases pre with
      | nil => exact absurd hs (by simp [PSt.prepend])
      | cons p ps => exact hs
    exact ⟨q2, key _ q2 l' hs2 (fun fuel hf => (hboth fuel hf).2), hsame⟩
  · have e2 := hq q2 l' (fun fuel hf => (hboth fuel hf).2)
    subst e2
    have hs1 : (PSt.prepend pre ⟨⟨l0, .eof⟩, []⟩).cur.tok = .kw .select := by
      cases pre with
      | nil => exact absurd hs (by simp [PSt.prepend])
      | cons p ps => exact hs
    exact ⟨q1, key _ q1 l0 hs1 (fun fuel hf => (hboth fuel hf).1), PSelect.SameUpToLoc.symm hsame⟩

end final

/-! ### observers and token vectors for the examples of `Props/C20Parse.lean` -/

def errKind? : ParseOutcome → Option PErrKind
  | .error e => some e.kind
  | _ => none
def isSelect : ParseOutcome → Bool
  | .tree (.select _) => true
  | _ => false
def isCreate : ParseOutcome → Bool
  | .tree (.createTable _) => true
  | _ => false

/-- `CREATE TABLE t ( line = 'x' , line [ 1 ] => a INT )`, token `i` at column `i` -/
def exampleCreate : List PTok :=
  [⟨⟨0, 0⟩, .kw .create⟩, ⟨⟨0, 1⟩, .kw .table⟩, ⟨⟨0, 2⟩, .ident ['t']⟩, ⟨⟨0, 3⟩, .lp⟩, ⟨⟨0, 4⟩, .ident "line".toList⟩,
   ⟨⟨0, 5⟩, .op (.single '=')⟩, ⟨⟨0, 6⟩, .str ['x']⟩, ⟨⟨0, 7⟩, .comma⟩, ⟨⟨0, 8⟩, .ident "line".toList⟩, ⟨⟨0, 9⟩, .lsq⟩,
   ⟨⟨0, 10⟩, .int 1⟩, ⟨⟨0, 11⟩, .rsq⟩, ⟨⟨0, 12⟩, .rarrow⟩, ⟨⟨0, 13⟩, .ident ['a']⟩, ⟨⟨0, 14⟩, .ident "INT".toList⟩,
   ⟨⟨0, 15⟩, .rp⟩]

/-- `SELECT x FROM t ; ;` -/
def exampleSelectTwoSemis : List PTok :=
  [⟨⟨0, 0⟩, .kw .select⟩, ⟨⟨0, 1⟩, .ident ['x']⟩, ⟨⟨0, 2⟩, .kw .from⟩, ⟨⟨0, 3⟩, .ident ['t']⟩, ⟨⟨0, 4⟩, .semi⟩, ⟨⟨0, 5⟩, .semi⟩]

/-- `SELECT a, b AS c FROM t WHERE a = 1 GROUP BY a` -/
def exampleSelect : List PTok :=
  [⟨⟨0, 0⟩, .kw .select⟩, ⟨⟨0, 1⟩, .ident ['a']⟩, ⟨⟨0, 2⟩, .comma⟩, ⟨⟨0, 3⟩, .ident ['b']⟩, ⟨⟨0, 4⟩, .kw .as⟩, ⟨⟨0, 5⟩, .ident ['c']⟩,
   ⟨⟨0, 6⟩, .kw .from⟩, ⟨⟨0, 7⟩, .ident ['t']⟩, ⟨⟨0, 8⟩, .kw .where⟩, ⟨⟨0, 9⟩, .ident ['a']⟩, ⟨⟨0, 10⟩, .op (.single '=')⟩,
   ⟨⟨0, 11⟩, .int 1⟩, ⟨⟨0, 12⟩, .kw .group⟩, ⟨⟨0, 13⟩, .kw .by⟩, ⟨⟨0, 14⟩, .ident ['a']⟩]

end Parse
end Sqlgrep
