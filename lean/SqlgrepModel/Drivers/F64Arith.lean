import SqlgrepModel.CodecExpr
/-
REAL arithmetic of the model (`Model/FloatArith.lean`: exact integer arithmetic on bit patterns) against the hardware
(`F64.addHw` … through Lean's `Float`, i.e. the IEEE-754 operations of the CPU, the ones Rust compiles `+ − × ÷ sqrt`
and `as f64` to).
* `f64arith OP A [B]` (OP = add | sub | mul | div | sqrt | ofint; A, B bit patterns, for `ofint` a decimal integer) →
  `ok BITS` (NaN canonicalised): the model's answer; the harness ships what Rust computed. The hardware of the machine
  running the driver is asked too: `fact-mismatch f64-arith …` if it differs from the model.
* `crossCheckEval`: for an `eval` case every REAL arithmetic node (`+ − × ÷` on two REALs, `sqrt` of a REAL) is recomputed
  by the hardware on the operand values the model computed; a difference answers `fact-mismatch f64-arith …`.
-/
namespace Sqlgrep.Drivers.F64Arith
open Sqlgrep

def mismatch (what : String) (a b exact hw : Nat) : Option String :=
  if F64.canon exact == F64.canon hw then none
  else some s!"fact-mismatch f64-arith {what} {a} {b} model={F64.canon exact} hardware={F64.canon hw}"

def checkOp (op : ArithOp) (x y : Nat) : Option String :=
  match op with
  | .add => mismatch "add" x y (F64.add x y) (F64.addHw x y)
  | .sub => mismatch "sub" x y (F64.sub x y) (F64.subHw x y)
  | .mul => mismatch "mul" x y (F64.mul x y) (F64.mulHw x y)
  | .div => mismatch "div" x y (F64.div x y) (F64.divHw x y)

def handle (args : List Sexp) : String :=
  match args with
  | [.atom op, a, b] =>
    match a.nat?, b.nat? with
    | some x, some y =>
      let r : Option (Nat × Nat) := match op with
        | "add" => some (F64.add x y, F64.addHw x y)
        | "sub" => some (F64.sub x y, F64.subHw x y)
        | "mul" => some (F64.mul x y, F64.mulHw x y)
        | "div" => some (F64.div x y, F64.divHw x y)
        | _ => none
      match r with
      | some (exact, hw) => (mismatch op x y exact hw).getD s!"ok {F64.canon exact}"
      | none => "bad-case"
    | _, _ => "bad-case"
  | [.atom "sqrt", a] =>
    match a.nat? with
    | some x => (mismatch "sqrt" x 0 (F64.sqrt x) (F64.sqrtHw x)).getD s!"ok {F64.canon (F64.sqrt x)}"
    | none => "bad-case"
  | [.atom "ofint", a] =>
    match a.int? with
    | some i => (mismatch "ofint" i.natAbs 0 (F64.ofInt i) (F64.ofIntHw i)).getD s!"ok {F64.ofInt i}"
    | none => "bad-case"
  | _ => "bad-case"

/-- every REAL arithmetic node of the expression, recomputed by the hardware on the model's operand values -/
partial def crossCheckEval (O : Oracles) (env : Env) (e : Expr) : Option String :=
  let sub (es : List Expr) : Option String := es.findSome? (crossCheckEval O env)
  match e with
  | .arith op l r =>
    match sub [l, r] with
    | some m => some m
    | none =>
      match eval O env l, eval O env r with
      | .ok (.real x), .ok (.real y) => checkOp op x y
      | _, _ => none
  | .call f as =>
    match sub as with
    | some m => some m
    | none =>
      match f, as with
      | .sqrt, [a] =>
        match eval O env a with
        | .ok (.real x) => mismatch "sqrt" x 0 (F64.sqrt x) (F64.sqrtHw x)
        | _ => none
      | _, _ => none
  | .compare _ l r => sub [l, r]
  | .nullCmp _ l r => sub [l, r]
  | .boolOp _ l r => sub [l, r]
  | .neg a => sub [a]
  | .not a => sub [a]
  | .inList _ a vs => sub (a :: vs)
  | .index a i => sub [a, i]
  | .cast a _ => sub [a]
  | .case cs els => sub (els :: cs.flatMap (fun p => [p.1, p.2]))
  | _ => none

end Sqlgrep.Drivers.F64Arith
