import SqlgrepModel.Lemmas.LimitAgg
/-
DISTINCT on aggregate statements at the level of the batch run: the loop does not look at DISTINCT, the final
table is deduplicated (fresh memory), then cut by LIMIT.
-/
namespace Sqlgrep
open Sqlgrep.Spec.Select

/-- the batch loop of an aggregate statement does not depend on LIMIT / DISTINCT -/
theorem runFiles_agg_same (O : Oracles) {q q' : AggStmt} (h : SameAgg q q') (qy : Query) (idx : JoinIndex)
    (files : List (List FileLine)) (ls : LoopState) :
    runFiles O (qy.withAgg q') idx false none files ls = runFiles O (qy.withAgg q) idx false none files ls :=
  executeLine_congr_runFiles O _ _ idx false
    (fun es l => executeLine_agg_update_same O h (qy.withAgg q) rfl idx es l) (fun _ => rfl) none files ls

/-- the batch run of an aggregate statement: the loop, then the final table -/
theorem runBatch_agg_eq (O : Oracles) (qy : Query) (q : AggStmt) (joined : List FileLine) (files : List (List FileLine)) :
    runBatch O (qy.withAgg q) joined files none =
      match joinIndexOf qy joined with
      | .ok idx =>
        let ls := runFiles O (qy.withAgg q) idx false none files {}
        if hasFailed ls.out then ls.out
        else match finalResult O q ls.es with
          | .ok r => { ls.out with printed := r.rows.map (renderRecord r.columns) }
          | o => failWith ls.out o
      | o => failWith {} o := by
  rw [runBatch_eq]
  have hj : joinIndexOf (qy.withAgg q) joined = joinIndexOf qy joined := rfl
  rw [hj]
  cases joinIndexOf qy joined with
  | ok idx =>
    have hq : (qy.withAgg q).stmt = .aggregate q := rfl
    have hpr := runFiles_agg_printed O (qy.withAgg q) hq idx none files {}
    simp only [batchWithIndex, hq, Bool.not_true]
    split
    · rfl
    · cases finalResult O q (runFiles O (qy.withAgg q) idx false none files {}).es with
      | ok r =>
        simp only [printResult_single]
        rw [hpr]; rfl
      | error k => rfl
      | panic s => rfl
      | oracleMissing s => rfl
  | error k => rfl
  | panic s => rfl
  | oracleMissing s => rfl

/-- **batch aggregate with DISTINCT**: same lines read; the printed table is the table printed without DISTINCT
(and without LIMIT) with every distinct row kept once at its first occurrence, then cut by LIMIT -/
theorem runBatch_agg_distinct (O : Oracles) (qy : Query) (q : AggStmt) (joined : List FileLine)
    (files : List (List FileLine))
    (hu : hasFailed (runBatch O (qy.withAgg ((q.withLimit none).withDistinct false)) joined files none) = false) :
    ∃ r : RowOut,
      runBatch O (qy.withAgg ((q.withLimit none).withDistinct false)) joined files none =
        { runBatch O (qy.withAgg ((q.withLimit none).withDistinct false)) joined files none with
          printed := r.rows.map (renderRecord r.columns) } ∧
      runBatch O (qy.withAgg (q.withDistinct true)) joined files none =
        { runBatch O (qy.withAgg ((q.withLimit none).withDistinct false)) joined files none with
          printed := ((match q.limit with
            | some n => (dedupFirst tupleSame r.rows).take n
            | none => dedupFirst tupleSame r.rows)).map (renderRecord r.columns) } := by
  have hs : SameAgg ((q.withLimit none).withDistinct false) (q.withDistinct true) := ⟨rfl, rfl, rfl, rfl, rfl, rfl⟩
  have hs2 : SameAgg ((q.withLimit none).withDistinct false) ((q.withLimit none).withDistinct true) :=
    ⟨rfl, rfl, rfl, rfl, rfl, rfl⟩
  have hs3 : SameAgg ((q.withLimit none).withDistinct true) (q.withDistinct true) := ⟨rfl, rfl, rfl, rfl, rfl, rfl⟩
  rw [runBatch_agg_eq] at hu ⊢
  rw [runBatch_agg_eq]
  cases hidx : joinIndexOf qy joined with
  | ok idx =>
    rw [hidx] at hu
    simp only at hu ⊢
    rw [runFiles_agg_same O hs qy idx files {}]
    generalize runFiles O (qy.withAgg ((q.withLimit none).withDistinct false)) idx false none files {} = ls at hu ⊢
    by_cases hf : hasFailed ls.out = true
    · simp only [hf, if_true] at hu
      cases hu
    · simp only [hf, Bool.false_eq_true, if_false] at hu ⊢
      rw [finalResult_eq] at hu ⊢
      rw [finalResult_eq, aggResult_same O hs3 rfl, aggResult_distinct O hs2 rfl rfl]
      cases har : aggResult O ((q.withLimit none).withDistinct false) ls.es.agg with
      | ok p =>
        refine ⟨p.2, ?_, ?_⟩
        · simp [Outcome.mapOk, Outcome.bind]
        · simp only [Outcome.mapOk, Outcome.bind, AggStmt.withDistinct_limit, AggStmt.withLimit_limit]
          cases q.limit <;> rfl
      | error k => rw [har] at hu; simp [Outcome.mapOk, Outcome.bind, failWith, hasFailed] at hu
      | panic s => rw [har] at hu; simp [Outcome.mapOk, Outcome.bind, failWith, hasFailed] at hu
      | oracleMissing s => rw [har] at hu; simp [Outcome.mapOk, Outcome.bind, failWith, hasFailed] at hu
  | error k => rw [hidx] at hu; simp [failWith, hasFailed] at hu
  | panic s => rw [hidx] at hu; simp [failWith, hasFailed] at hu
  | oracleMissing s => rw [hidx] at hu; simp [failWith, hasFailed] at hu

/-! ### update+result steps (follow mode): every result table separately -/

/-- one table with its duplicate rows removed -/
def dedupTable (r : RowOut) : RowOut := { r with rows := dedupFirst tupleSame r.rows }

/-- the result table of an update+result step: every environment of the line (one per join partner; exactly one
without a join) updates the state, then — iff one of them updated — ONE table is computed -/
def stepTable (O : Oracles) (q : AggStmt) (envs : List (Env × List String)) (st : AggState) : Outcome (AggState × Option RowOut) :=
  (aggEnvs O q envs st false).bind (fun p =>
    if p.2 then (aggResult O q p.1).bind (fun r => .ok (r.1, some r.2)) else .ok (p.1, none))

theorem stepTable_distinct (O : Oracles) {q q' : AggStmt} (h : SameAgg q q') (hd' : q'.distinct = true)
    (hd : q.distinct = false) (envs : List (Env × List String)) (st : AggState) :
    stepTable O q' envs st = Outcome.mapOk (fun t => (t.1, t.2.map dedupTable)) (stepTable O q envs st) := by
  simp only [stepTable, aggEnvs_same O h, aggResult_distinct O h hd' hd]
  cases aggEnvs O q envs st false with
  | ok pr =>
    obtain ⟨st', u⟩ := pr
    simp only [Outcome.bind]
    cases u with
    | false => rfl
    | true =>
      simp only [if_true]
      cases aggResult O q st' <;> rfl
  | error k => rfl
  | panic s => rfl
  | oracleMissing s => rfl

/-- an update+result step (follow mode) of an aggregate statement returns its step table -/
theorem executeLine_agg_result (O : Oracles) (qy : Query) (q : AggStmt) (hq : qy.stmt = .aggregate q) (idx : JoinIndex)
    (es : EngineState) (l : Line) :
    executeLine O qy idx true es l =
      if !anyResult l.row then .ok (updateLimit false q.limit es none)
      else (lineEnvs qy idx false l).bind (fun envs =>
        (stepTable O q envs es.agg).bind (fun t =>
          .ok (updateLimit false q.limit { es with agg := t.1 } t.2))) := by
  simp only [executeLine, hq, if_true, bind, pure, stepTable]
  split
  · rfl
  · cases lineEnvs qy idx false l with
    | ok envs =>
      simp only [Outcome.bind]
      cases aggEnvs O q envs es.agg false with
      | ok pr =>
        obtain ⟨st', u⟩ := pr
        cases u with
        | false => rfl
        | true =>
          simp only [if_true]
          cases aggResult O q st' <;> rfl
      | error k => rfl
      | panic s => rfl
      | oracleMissing s => rfl
    | error k => rfl
    | panic s => rfl
    | oracleMissing s => rfl

end Sqlgrep
