import SqlgrepModel.Lemmas.ExtractRow
import SqlgrepModel.Lemmas.NoiseRun
import SqlgrepModel.Lemmas.NoiseIncr
import SqlgrepModel.Lemmas.FollowBridge
/-
C06 — lines that yield no row are invisible to every query.

Model: admission is `anyResult (extractRow …)` (Model/Extract.lean: `TableDefinition::extract` with the NOT NULL
cut, `Row::any_result`); the engines see a line as its raw text plus that extracted row (`Line`), and every entry
point tests `anyResult l.row` before touching any state (Model/Engine.lean `executeLine`: the three guards of
`execute_select`, `execute_aggregate`, `execute_aggregate_update`; `loadJoin`: the joined file goes through a
SELECT). `runBatch` (Model/Exec.lean) is `FileExecutor::execute`; `feedLines` is the line-at-a-time execution
with update + result that the `incr` driver renders (`incr_driver_is_feedLines`); `runFollowAll` (Model/ExecI.lean,
driver kind `followi`) is `FollowFileExecutor::execute`, and `follow_run_is_answers` expresses it through `feedLines`.

"Noise" = a readable physical line whose extracted row has no non-NULL column (`isNoise`); `denoise` removes the
noise lines of a file (a line that is not valid UTF-8 is an error, not noise, and stays). The cleanest form of
"insert or delete such lines at any position" is: the output is a function of the denoised input
(`noise_invisible_batch`), from which insertion and deletion at arbitrary positions follow
(`noise_invariance`): two inputs with the same denoised files give the same output.
`totalLines` (the statistics counter) legitimately differs: noise lines are counted as lines read — see the
last example; `SameOut` compares everything else (records, error, panic).
Interruption after k lines (`stopAt`) counts physical lines and is C19's subject; the theorems are for
uninterrupted runs.
Only this file states property theorems; helper lemmas live in `Lemmas/`.
-/
namespace Sqlgrep.Props.C06
open Sqlgrep Sqlgrep.Spec.Select

/-! ### which lines become rows -/

/-- **a line becomes a row iff at least one column obtains a non-NULL value (a declared DEFAULT counts: it is
what `specColumn` yields for an absent pattern, group or path) and every NOT NULL column is non-NULL.**
Stated for the test the engines apply (`anyResult` of the extracted row); column values are the specified
ones of C01/C02 (`specColumn`). -/
theorem admitted_iff (o : Extract.Oracles) (d : Extract.TableDef) (lo : Extract.LineOracle) :
    anyResult (Extract.extractRow o d lo) = true ↔
      (∃ c ∈ d.columns, (Extract.specColumn o c (Extract.ParsingInput.new d lo)).isNull = false) ∧
      (∀ c ∈ d.columns, c.options.nullable = false →
        (Extract.specColumn o c (Extract.ParsingInput.new d lo)).isNull = false) :=
  Extract.admitted_iff o d lo

/-- any other line contributes the empty row or a row of NULLs only — in both cases `anyResult` is false and,
when a NOT NULL column is NULL, the whole row is cleared -/
theorem not_null_failure_clears_row (o : Extract.Oracles) (d : Extract.TableDef) (lo : Extract.LineOracle)
    (h : ∃ c ∈ d.columns, c.options.nullable = false ∧
      (Extract.columnValue o c (Extract.ParsingInput.new d lo)).isNull = true) :
    Extract.extractRow o d lo = [] ∧ anyResult (Extract.extractRow o d lo) = false := by
  have : Extract.extractRow o d lo = [] := Extract.extractWith_cut o d _ h
  rw [this]; exact ⟨rfl, rfl⟩

/-! ### one step -/

/-- **step identity**: on a line that yields no row every engine entry point — SELECT, aggregate update-only
(batch), aggregate update+result (follow) — returns the state unchanged and no result. (The `reached_limit`
flag that travels with the answer is `noiseFlag`: whether the limit had been reached before.) -/
theorem noise_step_identity (O : Oracles) (qy : Query) (idx : JoinIndex) (w : Bool) (es : EngineState) (l : Line)
    (h : anyResult l.row = false) :
    executeLine O qy idx w es l = .ok (es, { result := none, reachedLimit := noiseFlag qy w es }) :=
  executeLine_noise O qy idx w es l h

/-- the join loader skips them: the index built from the joined file is the index built from its rows -/
theorem noise_step_identity_loader (j : JoinInfo) (lines : List Line) (joined : List FileLine) :
    loadJoin j lines = loadJoin j (lines.filter (fun l => anyResult l.row)) ∧
    loadJoinFile j (denoise joined) = loadJoinFile j joined :=
  ⟨loadJoin_noise j lines, loadJoinFile_noise j joined⟩

/-- adding a row with a NULL key, or nothing, leaves the index as it is; an admitted row is appended to the
bucket of its key (what "skip" is measured against) -/
theorem loader_step (idx : JoinIndex) (row : List Value) : joinIndexAdd idx .null row = idx := rfl

/-! ### whole runs -/

/-- **batch mode, every statement kind** (plain, DISTINCT, LIMIT, aggregate with or without HAVING, INNER/OUTER
JOIN — noise in the queried files and in the joined file): the run over the input and the run over the input
without its noise lines print the same records and end the same way -/
theorem noise_invisible_batch (O : Oracles) (qy : Query) (joined : List FileLine) (files : List (List FileLine)) :
    SameOut (runBatch O qy joined files none) (runBatch O qy (denoise joined) (files.map denoise) none) :=
  runBatch_noise O qy joined files

/-- **insertion and deletion at any positions**: two inputs that differ only by noise lines — anywhere in any of
the queried files, anywhere in the joined file — give the same output -/
theorem noise_invariance (O : Oracles) (qy : Query) (joined joined' : List FileLine)
    (files files' : List (List FileLine)) (hf : files.map denoise = files'.map denoise)
    (hj : denoise joined = denoise joined') :
    SameOut (runBatch O qy joined files none) (runBatch O qy joined' files' none) := by
  have h1 := runBatch_noise O qy joined files
  have h2 := runBatch_noise O qy joined' files'
  rw [hf, hj] at h1
  exact h1.trans h2.symm

/-- the same when whole files appear or disappear that hold nothing but noise (or nothing at all): only the
non-empty denoised files matter -/
theorem noise_invariance_any_files (O : Oracles) (qy : Query) (joined joined' : List FileLine)
    (files files' : List (List FileLine)) (hf : dropEmpty (files.map denoise) = dropEmpty (files'.map denoise))
    (hj : denoise joined = denoise joined') :
    SameOut (runBatch O qy joined files none) (runBatch O qy joined' files' none) := by
  have h1 := runBatch_noise O qy joined files
  have h2 := runBatch_noise O qy joined' files'
  rw [← runBatch_dropEmpty O qy (denoise joined) (files.map denoise), hf, hj, runBatch_dropEmpty] at h1
  exact h1.trans h2.symm

/-- inserting one noise line at any position of any file is such a difference -/
theorem insert_one_noise_line (pre post : List FileLine) (x : FileLine) (hx : isNoise x = true) :
    denoise (pre ++ x :: post) = denoise (pre ++ post) := by
  simp [denoise, List.filter_append, hx]

/-- **follow mode** — the executed follow loop (`Model/ExecI.lean` `runFollowAll`, `FollowFileExecutor::execute`,
driver kind `followi`), every statement kind, with or without LIMIT: over the delivered lines and over the
delivered lines that yield a row it prints the same records and ends the same way (no error, or the same
error / panic). Only the line counter differs. -/
theorem noise_invisible_follow (O : Oracles) (qy : Query) (lines : List Line) :
    SameOut (runFollowAll O qy none (lines.filter (fun l => anyResult l.row))) (runFollowAll O qy none lines) := by
  obtain ⟨h1, h2⟩ := runFollowAll_noise O qy lines
  simp only [endStatus, Prod.mk.injEq] at h2
  exact ⟨h1, h2.1, h2.2.1, h2.2.2⟩

/-- insertion and deletion at any positions of what the follow iterator delivers -/
theorem noise_invariance_follow (O : Oracles) (qy : Query) (lines lines' : List Line)
    (h : lines.filter (fun l => anyResult l.row) = lines'.filter (fun l => anyResult l.row)) :
    SameOut (runFollowAll O qy none lines) (runFollowAll O qy none lines') := by
  have h1 := noise_invisible_follow O qy lines
  have h2 := noise_invisible_follow O qy lines'
  rw [h] at h1
  exact h1.symm.trans h2

/-- the executed follow loop in terms of the engine's line-at-a-time answers (`feedLines`, any statement kind):
what it prints is `followPrinted` of the answers, and it ends without error when an answer with a result carried
the `reached_limit` flag, else the way the feeding ended. (Bridging lemma: statements about `feedLines` /
`followPrinted` are statements about `runFollowAll`.) -/
theorem follow_run_is_answers (O : Oracles) (qy : Query) (lines : List Line) :
    (runFollowAll O qy none lines).printed =
        (if reachedLimit qy {} then [] else followPrinted (followSingleResult qy) (feedLines O qy [] true lines {}).1) ∧
    endStatus (runFollowAll O qy none lines) =
        (if reachedLimit qy {} || hasCut (feedLines O qy [] true lines {}).1 then endStatus {}
         else endStatus (failWith {} (feedLines O qy [] true lines {}).2)) :=
  ⟨runFollowAll_printed O qy lines, runFollowAll_status O qy lines⟩

/-- **line at a time, any join index** (what the `incr` driver executes, see `incr_driver_is_feedLines`): the
engine's answers that carry a result table — with their `reached_limit` flags — and the final state or failure are
those of the run over the lines that yield a row -/
theorem noise_invisible_answers (O : Oracles) (qy : Query) (idx : JoinIndex) (lines : List Line) (es : EngineState)
    (single : Bool) :
    withResult (feedLines O qy idx true (lines.filter (fun l => anyResult l.row)) es).1 =
        withResult (feedLines O qy idx true lines es).1 ∧
    (feedLines O qy idx true (lines.filter (fun l => anyResult l.row)) es).2 = (feedLines O qy idx true lines es).2 ∧
    followPrinted single (feedLines O qy idx true (lines.filter (fun l => anyResult l.row)) es).1 =
        followPrinted single (feedLines O qy idx true lines es).1 := by
  obtain ⟨h1, h2⟩ := feedLines_noise O qy idx true lines es
  refine ⟨h1, h2, ?_⟩
  rw [← followPrinted_withResult, h1, followPrinted_withResult]

/-- `feedLines` is what the `incr` driver executes: its answer is the rendering of the engine's answers -/
theorem incr_driver_is_feedLines (O : Oracles) (qy : Query) (idx : JoinIndex) (fls : List FileLine) :
    Drivers.Run.incrLoop O qy idx fls {} [] =
      match (feedLines O qy idx true (fls.map (·.line)) {}).2 with
      | .ok _ => (feedLines O qy idx true (fls.map (·.line)) {}).1.map incrItem
      | .error k => (feedLines O qy idx true (fls.map (·.line)) {}).1.map incrItem ++ ["err:" ++ k.name]
      | .panic _ => (feedLines O qy idx true (fls.map (·.line)) {}).1.map incrItem ++ ["panic"]
      | .oracleMissing w => ["skip " ++ w] := by
  rw [incrLoop_eq_feedLines]
  cases (feedLines O qy idx true (fls.map (·.line)) {}).2 <;> simp

/-! ### non-vacuity and concrete behaviour -/

def exTable : TableInfo := { name := "t", columns := ["v", "w"] }
def exQuery : Query :=
  { stmt := .select { projections := [("v", .column "v")], wildcard := false, filter := none, limit := some 2, distinct := true },
    table := exTable, join := none }
def row (v : Value) : FileLine := { readable := true, line := { text := [], row := [v, .int 7] } }
/-- a line that matched nothing (empty row) and a line whose columns are all NULL -/
def noise1 : FileLine := { readable := true, line := { text := [], row := [] } }
def noise2 : FileLine := { readable := true, line := { text := [120], row := [.null, .null] } }

example : isNoise noise1 = true ∧ isNoise noise2 = true ∧ isNoise (row .null) = false := by decide
-- hypotheses of `noise_invariance` on a non-trivial pair of inputs
example : [[noise1, row (.int 1), noise2, row (.int 1)], [noise2, row (.int 2), noise1]].map denoise =
    [[row (.int 1), row (.int 1)], [row (.int 2)]].map denoise := by rfl
-- same records; the line counter differs (noise lines are read)
example : (runBatch {} exQuery [] [[noise1, row (.int 1), noise2, row (.int 1)], [noise2, row (.int 2), noise1]] none).printed = ["v: 1", "v: 2"] ∧
    (runBatch {} exQuery [] [[row (.int 1), row (.int 1)], [row (.int 2)]] none).printed = ["v: 1", "v: 2"] ∧
    (runBatch {} exQuery [] [[noise1, row (.int 1), noise2, row (.int 1)], [noise2, row (.int 2), noise1]] none).totalLines = 6 ∧
    (runBatch {} exQuery [] [[row (.int 1), row (.int 1)], [row (.int 2)]] none).totalLines = 3 := by decide

end Sqlgrep.Props.C06
