// C01: regex/split extraction yields exactly the captured, typed column values.
// Definitions are rendered as CREATE TABLE text, parsed by the real parser and applied by the real
// `TableDefinition::extract`; see extract.rs for the generator, the oracle tables and `spec_column`.
use crate::run::{Params, Run};

pub fn run(p: &Params) -> Run {
    crate::extract::run("C01", p, false)
}
