import SqlgrepModel.Lemmas.AggFollowRun
/-
Totality of the update half: when the specification fixes the table (and the input is outside D10/D15), every
complete per-group fold succeeds, hence every prefix fold, hence no `execute_update` fails — which turns the
partial-correctness refinement into the full one (`engine_refines_spec_total`).
-/
set_option linter.unusedSimpArgs false
namespace Sqlgrep
open Value Spec.Agg

/-! ### totality: when every complete fold succeeds, no update fails -/

/-- if the step of every slot on the current cell succeeds, the pass over the slots succeeds -/
theorem updateAggregates_progress {O : Oracles} {q : AggStmt} {env : Env} {key : List Value}
    (slots : List (Nat × AggKind)) (hnd : (slots.map (·.1)).Nodup) {st : AggState} (hs : AggSorted st)
    (h : ∀ i kind, (i, kind) ∈ slots → ∃ c, cellStep O q env kind (readCell st key i) = .ok c) :
    ∃ st', updateAggregates O q env key slots st = .ok st' := by
  induction slots generalizing st with
  | nil => exact ⟨st, rfl⟩
  | cons s rest ih =>
    obtain ⟨i, k⟩ := s
    simp only [List.map_cons, List.nodup_cons] at hnd
    obtain ⟨c, hc⟩ := h i k (by simp)
    have h1 : updateAggregate O q env key i k st = .ok (writeCell st key i c) := by
      simp only [updateAggregate, hc, bind, Outcome.bind, pure]
    obtain ⟨hs1, c', hc', hread⟩ := updateAggregate_cells hs h1
    have hrest : ∀ i2 kind, (i2, kind) ∈ rest → ∃ c2, cellStep O q env kind (readCell (writeCell st key i c) key i2) = .ok c2 := by
      intro i2 kind hm
      have hne : i ≠ i2 := by
        intro he; subst he
        exact hnd.1 (List.mem_map.mpr ⟨(i, kind), hm, rfl⟩)
      rw [hread key i2]
      simp only [hne, and_false, if_false]
      exact h i2 kind (by simp [hm])
    obtain ⟨st', hst'⟩ := ih hnd.2 hs1 hrest
    exact ⟨st', by simp only [updateAggregates, h1, bind, Outcome.bind]; exact hst'⟩

/-- the HAVING walk expressed on its slots, when its key references are valid -/
theorem havingUpdates_of_slots {O : Oracles} {q : AggStmt} {env : Env} {key : List Value} (visit : List HavingRef) (j : Nat)
    {st st' : AggState}
    (hkeys : ∀ c, HavingRef.key c ∈ visit → validateGroupKey q c = .ok ())
    (h : updateAggregates O q env key (visitSlots visit (q.items.length + j)) st = .ok st') :
    havingUpdates O q env key visit j st = .ok st' := by
  induction visit generalizing j st with
  | nil => simpa [havingUpdates, visitSlots, updateAggregates] using h
  | cons r rest ih =>
    cases r with
    | key c =>
      simp only [havingUpdates, hkeys c (by simp), bind, Outcome.bind]
      exact ih j (fun c' hc' => hkeys c' (by simp [hc'])) h
    | agg id kind =>
      simp only [visitSlots, updateAggregates] at h
      obtain ⟨st1, h1, h2⟩ := bind_ok h
      simp only [havingUpdates, h1, bind, Outcome.bind]
      exact ih (j + 1) (fun c' hc' => hkeys c' (by simp [hc'])) h2

theorem updateAggregates_split {O : Oracles} {q : AggStmt} {env : Env} {key : List Value}
    (a b : List (Nat × AggKind)) {s s2 : AggState} (h : updateAggregates O q env key (a ++ b) s = .ok s2) :
    ∃ s1, updateAggregates O q env key a s = .ok s1 ∧ updateAggregates O q env key b s1 = .ok s2 := by
  induction a generalizing s with
  | nil => exact ⟨s, rfl, by simpa using h⟩
  | cons x xs ih =>
    obtain ⟨i, k⟩ := x
    simp only [List.cons_append, updateAggregates] at h ⊢
    obtain ⟨sm, hm1, hm2⟩ := bind_ok h
    obtain ⟨s1, h1, h2⟩ := ih hm2
    exact ⟨s1, by rw [hm1]; exact h1, h2⟩

/-- one row: if WHERE and the key evaluate, the HAVING key references are valid and every slot's step succeeds,
`execute_update` succeeds -/
theorem aggUpdateRow_progress {O : Oracles} {q : AggStmt} {env : Env} {st : AggState} (hs : AggSorted st)
    {b : Bool} (hpass : passes O q env = some b)
    (hkey : b = true → ∃ key, keyOf O q env = some key ∧
      ∀ i kind, (i, kind) ∈ rowSlots q → ∃ c, cellStep O q env kind (readCell st key i) = .ok c)
    (hkeys : ∀ c, HavingRef.key c ∈ q.havingVisit → validateGroupKey q c = .ok ()) :
    ∃ st', aggUpdateRow O q st env = .ok (st', b) := by
  -- WHERE
  have hvalid : ∃ (X : Outcome Bool), X = .ok b ∧ aggUpdateRow O q st env = X.bind (fun valid =>
      if !valid then .ok (st, false)
      else (match q.groupBy with
        | some parts => evalList O env (parts.map (·.1))
        | none => .ok [Value.null] : Outcome (List Value)).bind (fun key =>
          (updateAggregates O q env key (enumFrom 0 (q.items.map (·.kind))) st).bind (fun st1 =>
            (match q.having with
              | some _ => havingUpdates O q env key q.havingVisit 0 st1
              | none => .ok st1 : Outcome AggState).bind (fun st2 => .ok (st2, true))))) := by
    unfold passes at hpass
    cases hf : q.filter with
    | none =>
      simp only [hf, Option.some.injEq] at hpass
      exact ⟨.ok true, by rw [← hpass], by simp only [aggUpdateRow, hf]; rfl⟩
    | some f =>
      simp only [hf] at hpass
      cases he : eval O env f with
      | ok v =>
        simp only [he, okOf, Option.bind_some] at hpass
        cases hc : condHolds v with
        | ok b' =>
          simp only [hc, Option.some.injEq] at hpass
          exact ⟨.ok b', by rw [hpass], by simp only [aggUpdateRow, hf, he, bind, Outcome.bind, hc]; rfl⟩
        | error k => simp [hc] at hpass
        | panic k => simp [hc] at hpass
        | oracleMissing k => simp [hc] at hpass
      | error k => simp [he, okOf] at hpass
      | panic k => simp [he, okOf] at hpass
      | oracleMissing k => simp [he, okOf] at hpass
  obtain ⟨X, hX, hrow⟩ := hvalid
  subst hX
  rw [hrow]
  simp only [Outcome.bind]
  cases b with
  | false => exact ⟨st, rfl⟩
  | true =>
    obtain ⟨key, hk, hslots⟩ := hkey rfl
    have hkeyv : (match q.groupBy with
        | some parts => evalList O env (parts.map (·.1))
        | none => .ok [Value.null] : Outcome (List Value)) = .ok key := by
      unfold keyOf at hk
      cases hg : q.groupBy with
      | none => simp only [hg, Option.some.injEq] at hk; subst hk; rfl
      | some parts =>
        simp only [hg] at hk
        exact okOf_eq_some hk
    simp only [Bool.not_true, Bool.false_eq_true, if_false]
    rw [hkeyv]
    simp only
    obtain ⟨st2, hall⟩ := updateAggregates_progress (rowSlots q) (rowSlots_nodup q) hs hslots
    unfold rowSlots at hall
    obtain ⟨st1, h1, h2⟩ := updateAggregates_split _ _ hall
    rw [h1]
    simp only
    cases hh : q.having with
    | none =>
      simp only [hh, updateAggregates, Outcome.ok.injEq] at h2
      subst h2
      exact ⟨st1, rfl⟩
    | some hx =>
      simp only [hh] at h2
      have := havingUpdates_of_slots q.havingVisit 0 hkeys (by simpa using h2)
      simp only [this]
      exact ⟨st2, rfl⟩

/-- every complete fold (each slot, each group, over all rows of the input) succeeds -/
def FoldsOk (O : Oracles) (q : AggStmt) (rowsAll : List (List Value × Env)) : Prop :=
  ∀ key i kind, (i, kind) ∈ rowSlots q → ∃ c, cellFold O q kind (rowsOfKey key rowsAll) {} = .ok c

theorem aggRun_progress {O : Oracles} {q : AggStmt} (envs : List Env) {st : AggState} {rows0 more : List (List Value × Env)}
    (hc : Coupled O q st rows0) (hk : keyedRows O q envs = some more) (hfolds : FoldsOk O q (rows0 ++ more))
    (hkeys : ∀ c, HavingRef.key c ∈ q.havingVisit → validateGroupKey q c = .ok ()) :
    ∃ st', aggRun O q envs st = .ok st' := by
  induction envs generalizing st rows0 more with
  | nil => exact ⟨st, rfl⟩
  | cons env rest ih =>
    simp only [keyedRows] at hk
    cases hp : passes O q env with
    | none => simp [hp] at hk
    | some b =>
      cases b with
      | false =>
        simp only [hp] at hk
        obtain ⟨st1, h1⟩ := aggUpdateRow_progress hc.sorted hp (fun hb => by simp at hb) hkeys
        obtain ⟨_, hfalse, _⟩ := coupled_step hc h1
        obtain ⟨st', hst'⟩ := ih (hfalse rfl) hk hfolds
        exact ⟨st', by simp only [aggRun, h1, Outcome.bind]; exact hst'⟩
      | true =>
        simp only [hp] at hk
        cases hkey : keyOf O q env with
        | none => simp [hkey] at hk
        | some key =>
          cases hr : keyedRows O q rest with
          | none => simp [hkey, hr] at hk
          | some more' =>
            simp only [hkey, hr, Option.some.injEq] at hk
            subst hk
            have hslots : ∀ i kind, (i, kind) ∈ rowSlots q → ∃ c, cellStep O q env kind (readCell st key i) = .ok c := by
              intro i kind hm
              obtain ⟨c, hcf⟩ := hfolds key i kind hm
              have hsplit : rowsOfKey key (rows0 ++ (key, env) :: more') =
                  rowsOfKey key rows0 ++ ([env] ++ rowsOfKey key more') := by
                have : rows0 ++ (key, env) :: more' = rows0 ++ ([(key, env)] ++ more') := by simp
                rw [this, rowsOfKey_append, rowsOfKey_append]
                simp [rowsOfKey, sameKey, cmpList_refl]
              rw [hsplit, cellFold_append, hc.cells key i kind hm] at hcf
              simp only [Outcome.bind, List.singleton_append, cellFold] at hcf
              obtain ⟨c1, hc1, _⟩ := obind_ok hcf
              exact ⟨c1, hc1⟩
            obtain ⟨st1, h1⟩ := aggUpdateRow_progress hc.sorted hp (fun _ => ⟨key, hkey, hslots⟩) hkeys
            obtain ⟨_, _, htrue⟩ := coupled_step hc h1
            obtain ⟨key', hkey', hc1⟩ := htrue rfl
            rw [hkey] at hkey'
            simp only [Option.some.injEq] at hkey'
            subst hkey'
            obtain ⟨st', hst'⟩ := ih hc1 hr (by simpa using hfolds)
            exact ⟨st', by simp only [aggRun, h1, Outcome.bind]; exact hst'⟩

theorem rowsOfKey_congr {k k' : List Value} (h : cmpList k k' = .eq) (rows : List (List Value × Env)) :
    rowsOfKey k rows = rowsOfKey k' rows := by
  unfold rowsOfKey
  congr 1
  apply List.filter_congr
  intro r _
  simp only [sameKey]
  rw [cmpList_congr_right h r.1]

theorem cellFold_groupKey {O : Oracles} {q : AggStmt} {e : Expr} {canon : String} (hv : validateGroupKey q canon = .ok ())
    (g : List Env) (c : Cell) : cellFold O q (.groupKey e canon) g c = .ok c := by
  induction g with
  | nil => rfl
  | cons env rest ih => simp only [cellFold, cellStep, hv, bind, Outcome.bind, pure]; exact ih

theorem validate_of_valid {q : AggStmt} {canon : String}
    (h : (match q.groupBy with
      | some parts => parts.any (·.2 == canon)
      | none => false) = true) : validateGroupKey q canon = .ok () := by
  unfold validateGroupKey
  cases hg : q.groupBy with
  | none => simp [hg] at h
  | some parts => simp only [hg] at h; simp [h]

/-- when the specification fixes the table and the input is outside D10/D15, every complete fold succeeds and the
key references of HAVING are valid -/
theorem foldsOk_of_spec {O : Oracles} {q : AggStmt} (hwf : StmtWF q) {envs : List Env} {rows : List (List Value × Env)}
    (hr : keyedRows O q envs = some rows) {t : List (List Value)} (hspec : table O q envs = some t)
    (hclass : deviationClass O q envs = "") :
    FoldsOk O q rows ∧ (∀ c, HavingRef.key c ∈ q.havingVisit → validateGroupKey q c = .ok ()) := by
  have hvalid : keyRefsValid q = true := by
    unfold table at hspec
    simp only [hr] at hspec
    split at hspec
    · simp at hspec
    · rename_i hcond
      simp only [Bool.or_eq_true, Bool.not_eq_true', not_or, Bool.not_eq_false] at hcond
      exact hcond.1
  simp only [keyRefsValid, Bool.and_eq_true, List.all_eq_true] at hvalid
  obtain ⟨hitems, hvisit⟩ := hvalid
  obtain ⟨htab, hex⟩ := table_of_keyed hr hspec
  obtain ⟨_, hd15⟩ := deviationClass_empty hr hclass
  rw [tableOfGroups_eq] at htab
  refine ⟨?_, ?_⟩
  · intro key i kind hm
    by_cases hg : rowsOfKey key rows = []
    · rw [hg]; exact ⟨{}, rfl⟩
    · -- a row of the group: its key represents the group
      obtain ⟨r, hrmem, hrk⟩ : ∃ r ∈ rows, sameKey r.1 key = true := by
        cases hf : rows.filter (fun r => sameKey r.1 key) with
        | nil => simp [rowsOfKey, hf] at hg
        | cons r rs =>
          have : r ∈ rows.filter (fun r => sameKey r.1 key) := by rw [hf]; simp
          rw [List.mem_filter] at this
          exact ⟨r, this.1, this.2⟩
      have hke : cmpList r.1 key = .eq := by simpa [sameKey] using hrk
      rw [← rowsOfKey_congr hke rows]
      have hk0 : r.1 ∈ rows.map (·.1) := List.mem_map.mpr ⟨r, hrmem, rfl⟩
      have hmemg : (r.1, rowsOfKey r.1 rows) ∈ groups rows :=
        List.mem_map.mpr ⟨r.1, (distinctKeys_mem_iff hex r.1).mpr hk0, rfl⟩
      have hkind : kind ∈ slotKinds q := by
        rw [rowSlots_eq hwf] at hm
        exact enumFrom_mem_snd _ _ _ _ hm
      cases hall : collect ((groups rows).map (perGroup O q)) with
      | none => simp [hall] at htab
      | some all =>
        obtain ⟨ra, hra⟩ := collect_some_mem hall _ (List.mem_map.mpr ⟨_, hmemg, rfl⟩)
        by_cases hgk : ∃ e c, kind = .groupKey e c
        · obtain ⟨e, canon, hkd⟩ := hgk
          subst hkd
          -- a key column of the select list (a HAVING aggregate cannot be a key reference: its value is not fixed)
          simp only [slotKinds, List.mem_append, List.mem_map] at hkind
          rcases hkind with ⟨item, hitem, hik⟩ | ⟨p, hp, hpk⟩
          · have := hitems item hitem
            rw [hik] at this
            exact ⟨{}, cellFold_groupKey (validate_of_valid this) _ _⟩
          · exfalso
            simp only [perGroup] at hra
            cases hrow : row O q r.1 (rowsOfKey r.1 rows) with
            | none => simp [hrow] at hra
            | some r' =>
              simp only [hrow, Option.bind_some] at hra
              cases hacc : accept O q r.1 (rowsOfKey r.1 rows) with
              | none => simp [hacc] at hra
              | some a =>
                unfold accept at hacc
                cases hh : q.having with
                | none => rw [hwf.noHaving hh] at hp; simp at hp
                | some hx =>
                  simp only [hh] at hacc
                  split at hacc
                  · simp at hacc
                  · rename_i gvals hgv
                    obtain ⟨x, hx'⟩ := collect_some_mem hgv _ (List.mem_map.mpr ⟨p, hp, rfl⟩)
                    obtain ⟨id, kd⟩ := p
                    simp only at hx' hpk
                    subst hpk
                    cases harg : arguments O q (AggKind.groupKey e canon) (rowsOfKey r.1 rows) <;>
                      simp [groupValue, harg, aggregate] at hx'
        · have hnk : ∀ e c, kind ≠ .groupKey e c := fun e c he => hgk ⟨e, c, he⟩
          obtain ⟨rv, hrv⟩ := perGroup_values hwf hra kind hkind hnk
          obtain ⟨c, hc, _⟩ := group_aggregate_refines (rowsOfKey_ne_nil hk0) hrv
            (firstNull_of_group (hd15 _ hmemg) hkind)
          exact ⟨c, hc⟩
  · intro c hc
    have := hvisit (.key c) hc
    exact validate_of_valid this

/-- **`agg_refines_spec`** (engine level, full): for every statement and every list of rows, if the specification
fixes the table and the input is outside the known deviation classes D10/D15, then feeding the rows to
`execute_update` one after the other succeeds and `execute_result` (+ LIMIT) shows exactly that table. -/
theorem engine_refines_spec_total {O : Oracles} {q : AggStmt} (hwf : StmtWF q) (envs : List Env) {t : List (List Value)}
    (hspec : table O q envs = some t) (hclass : deviationClass O q envs = "") :
    (aggRun O q envs {}).bind (fun st => finalResult O q { agg := st }) = .ok { columns := q.items.map (·.name), rows := t } := by
  cases hr : keyedRows O q envs with
  | none => simp [table, hr] at hspec
  | some rows =>
    obtain ⟨hfolds, hkeys⟩ := foldsOk_of_spec hwf hr hspec hclass
    obtain ⟨st, hst⟩ := aggRun_progress envs (coupled_init O q) hr (by simpa using hfolds) hkeys
    rw [hst]
    exact engine_refines_spec hwf envs hst hspec hclass

end Sqlgrep
