import SqlgrepModel.Model.Pipeline
import SqlgrepModel.Props.C14
import SqlgrepModel.Props.C14Lex
/-
C14 — the sentence for the function a user calls: `parsing::parse(text)` = tokenizer, then parser, then lowering
(`Pipeline.parseText`, the first stage of the end-to-end model `Pipeline.runText` that the `e2e` driver executes).
The stage theorems (`Props/C14Lex.lean`: tokenizer; `Props/C14.lean`: parser and lowering) are composed here:

**for every text, `parseText` ends with a statement or with an error whose location lies inside the text, and an excerpt
of the text near that location can be produced; it never panics and never runs out of fuel** (`parseText_total`, with no
hypothesis on the shipped facts: a number text the case ships no `f64::from_str` fact for is converted by
`DecFloat.parseF64`, so the model's `missing` answer cannot occur — `parseText_never_missing`).
-/
namespace Sqlgrep.Props.C14Text
open Sqlgrep Sqlgrep.Lex Sqlgrep.Parse Sqlgrep.Pipeline

/-- the tokens of a text are not empty -/
theorem tokens_nonempty (lo : Lex.Oracles) (text : List Char) (ts : List PTok) (h : tokenize lo text = .ok ts) :
    ts ≠ [] := by
  rcases C14Lex.tokenize_total lo text with ⟨ts', init, loc, h', he, _⟩ | h' | h'
  · rw [h] at h'; cases h'; rw [he]; simp
  · obtain ⟨loc, e, h', _⟩ := h'; rw [h] at h'; cases h'
  · obtain ⟨w, h', _⟩ := h'; rw [h] at h'; cases h'

/-- **Parsing a text is total and its errors are located inside the text.** -/
theorem parseText_total_located (lo : Lex.Oracles) (rv : List Char → Bool) (text : List Char) :
    (∃ s, parseText lo rv text = .stmt s) ∨
    (∃ loc e, parseText lo rv text = .lexError loc e ∧ Inside text loc) ∨
    (∃ e, parseText lo rv text = .parseError e ∧ Inside text e.loc) ∨
    (∃ e, parseText lo rv text = .convertError e ∧ Inside text e.loc) ∨
    (∃ w, parseText lo rv text = .missing w) := by
  unfold parseText
  cases ht : tokenize lo text with
  | error loc e => exact .inr (.inl ⟨loc, e, rfl, C14Lex.error_location_inside lo text loc e ht⟩)
  | missing w => exact .inr (.inr (.inr (.inr ⟨_, rfl⟩)))
  | ok ts =>
    have hne := tokens_nonempty lo text ts ht
    have hin := C14Lex.token_locations_inside lo text ts ht
    have hloc : ∀ l, l ∈ ts.map (·.loc) → Inside text l := by
      intro l hl
      obtain ⟨p, hp, rfl⟩ := List.mem_map.1 hl
      exact hin p hp
    simp only [parseToks]
    rcases C14.parse_and_lower_total PrecTables.code rv ts hne with ⟨e, he⟩ | ⟨t, htree, hl⟩
    · rw [he]
      exact .inr (.inr (.inl ⟨e, rfl, hloc _ (C14.error_location_is_a_token_location _ ts e he)⟩))
    · rw [htree]
      simp only [lowerTree]
      rcases hl with ⟨s, hs⟩ | ⟨e, he⟩
      · rw [hs]; exact .inl ⟨s, rfl⟩
      · rw [he]
        exact .inr (.inr (.inr (.inl ⟨e, rfl,
          hloc _ (C14.conversion_error_location_is_a_token_location _ rv ts t e htree he)⟩)))

/-- never a panic, never out of fuel -/
theorem parseText_never_panics (lo : Lex.Oracles) (rv : List Char → Bool) (text : List Char) :
    (∀ site, parseText lo rv text ≠ .panic site) ∧ parseText lo rv text ≠ .fuel := by
  rcases parseText_total_located lo rv text with ⟨s, h⟩ | ⟨l, e, h, _⟩ | ⟨e, h, _⟩ | ⟨e, h, _⟩ | ⟨w, h⟩ <;>
    rw [h] <;> exact ⟨fun _ hh => Parsed.noConfusion hh, fun hh => Parsed.noConfusion hh⟩

/-- the answer is never `missing`: a number text without a shipped fact is converted by `DecFloat.parseF64`
(`C14Lex.tokenize_never_missing`), so no external fact is needed to parse a text -/
theorem parseText_never_missing (lo : Lex.Oracles) (rv : List Char → Bool) (text : List Char) (w : String) :
    parseText lo rv text ≠ .missing w := by
  intro h
  unfold parseText at h
  rcases C14Lex.tokenize_total_no_oracle lo text with ⟨ts, _, _, ht, _, _⟩ | ⟨loc, e, ht, _⟩
  · rw [ht] at h
    have hne := tokens_nonempty lo text ts ht
    simp only [parseToks] at h
    rcases C14.parse_and_lower_total PrecTables.code rv ts hne with ⟨e, he⟩ | ⟨t, htree, hl⟩
    · rw [he] at h; cases h
    · rw [htree] at h
      simp only [lowerTree] at h
      rcases hl with ⟨s, hs⟩ | ⟨e, he⟩
      · rw [hs] at h; cases h
      · rw [he] at h; cases h
  · rw [ht] at h; cases h

/-- **C14, headline, a statement about the MODEL: for every text — any characters, any length, whatever number facts the
case ships — the model's `parseText` answers a statement or an error located inside the text.** No hypothesis on the
oracles: the `missing` answer of `parseText_total_located` cannot occur (`parseText_never_missing`).

What this does and does not say about the program. The model's recursion is fuelled (`Props/C13` `answer_at_linear_fuel` and
`driver_fuel_is_enough` show the fuel the driver hands over suffices for every text, so `.fuel` is excluded without any
depth or length bound *in the model*). The real program recurses on its MACHINE STACK — in the recursive-descent parser
(once per bracket level), in the lowering of the tree, in the evaluator and in `Drop` (once per level of the TREE) — and the
machine stack is outside the model. Two consequences, neither of which this theorem covers:
* FLAT operator chains (`1 + 1 + … + 1`, `a AND a AND …`, `- - - … 1`, `NOT NOT … true`, `x::int::int…`, `a[1][1]…`) have
  no bracket at all but a tree as deep as they are long: the real program aborts on them from a few hundred (debug build)
  or about ten thousand (release build) terms on. That is **finding D75** (open, `known_findings.json`), inside the
  property's "any length"; the C14 and C09 checks exhibit it in child processes and report it as a known finding.
  List-shaped long inputs (IN lists, array literals, arguments, projections, keys, columns, statements) are handled by
  loops and are parsed at any length (`harness/src/c14.rs` `long_flat`).
* BRACKET nesting (note D42: twenty thousand nested parentheses overflow the same stack) is bounded by the property
  sentence itself ("bracket nesting up to a documented depth bound"); the documented bound is 200 levels, exercised by the
  C14 check. It is not a finding. -/
theorem parseText_total (lo : Lex.Oracles) (rv : List Char → Bool) (text : List Char) :
    (∃ s, parseText lo rv text = .stmt s) ∨
    (∃ loc e, parseText lo rv text = .lexError loc e ∧ Inside text loc) ∨
    (∃ e, parseText lo rv text = .parseError e ∧ Inside text e.loc) ∨
    (∃ e, parseText lo rv text = .convertError e ∧ Inside text e.loc) := by
  rcases parseText_total_located lo rv text with h | h | h | h | ⟨w, h⟩
  · exact .inl h
  · exact .inr (.inl h)
  · exact .inr (.inr (.inl h))
  · exact .inr (.inr (.inr h))
  · exact absurd h (parseText_never_missing lo rv text w)

/-- … and for every located error the `near …` excerpt exists (`extract_near` never panics, whatever the location) -/
theorem parseText_error_excerpt (lo : Lex.Oracles) (text : List Char) (loc : Loc) :
    ∃ s, extractNear lo loc text = .text s := C14Lex.extract_near_total lo loc text

/-! ### non-vacuity: each kind of answer occurs -/

example : (match parseText Tables.asciiOnly (fun _ => true) "SELECT x FROM t".toList with
  | .stmt _ => true | _ => false) = true := by decide +kernel
example : (match parseText Tables.asciiOnly (fun _ => true) "SELECT 1.2.3".toList with
  | .lexError ⟨0, 10⟩ .alreadyHasDot => true | _ => false) = true := by decide +kernel
example : (match parseText Tables.asciiOnly (fun _ => true) "SELECT FROM".toList with
  | .parseError _ => true | _ => false) = true := by decide +kernel
example : (match parseText Tables.asciiOnly (fun _ => true) "SELECT nosuchfunction(x) FROM t".toList with
  | .convertError _ => true | _ => false) = true := by decide +kernel

/-- the rejections the sentence names, on whole texts (instances of `C14.wrong_aggregate_arity_projection_is_error`,
`C14.lower_invalid_pattern_is_error` — here with `Regex::new` rejecting exactly the pattern `(` —, the empty JSON path and
`C14Lex.int_out_of_range_is_error`): each is an error, none a statement -/
example : (match parseText Tables.asciiOnly (fun _ => true) "SELECT string_agg(x) FROM t".toList with
  | .convertError _ => true | _ => false) = true := by decide +kernel
example : (match parseText Tables.asciiOnly (fun _ => true) "SELECT percentile(x) FROM t".toList with
  | .convertError _ => true | _ => false) = true := by decide +kernel
example : (match parseText Tables.asciiOnly (fun p => p != "(".toList) "CREATE TABLE t(line = '(', line[1] => x INT);".toList with
  | .convertError e => e.kind == .invalidPattern | _ => false) = true := by decide +kernel
example : (match parseText Tables.asciiOnly (fun p => p != "(".toList) "CREATE TABLE t(line = '(a)', line[1] => x INT);".toList with
  | .stmt _ => true | _ => false) = true := by decide +kernel
example : (match parseText Tables.asciiOnly (fun _ => true) "CREATE TABLE t({ } => x INT);".toList with
  | .stmt _ => false | _ => true) = true := by decide +kernel
example : (match parseText Tables.asciiOnly (fun _ => true) "SELECT 9223372036854775808 FROM t".toList with
  | .lexError _ .intConvert => true | _ => false) = true := by decide +kernel

end Sqlgrep.Props.C14Text
