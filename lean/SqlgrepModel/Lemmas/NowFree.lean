import SqlgrepModel.Lemmas.NoSkipPipeline
import SqlgrepModel.Model.PipelineFollow
/-
"Only now() may differ between runs" (last sentence of C18).

The model has no clock: `now()` is answered by the field `nowF` of the total oracle (`Model/Eval.lean`
`TotalOracles`, read at exactly one place: `callFunction … .now []`). This file shows that the clock reading reaches a
run ONLY through a call of `now`: replace the reading by any other value (`Oracles.withNow`) — every expression,
statement and run that contains no call of `now` gives the same outcome.

* `notNow`, `Expr.nowFree`, `Stmt.nowFree`, `LStmt.nowFree`: the decidable syntactic predicate (instances of
  `Expr.allFuncs` / `Stmt.allFuncs` of `Lemmas/NoSkip*.lean`);
* `Oracles.withNow`, `Oracles.SameButNow` (same tables, same `upperF lowerF regexF`) and
  `SameButNow.eq_withNow`: two oracles that differ at most in the clock are `O` and `O.withNow v`;
* `callFunction_withNow` → `eval_withNow` (mutual over `Expr`) → the engines (`selectOne`, `cellStep`, `aggUpdateRow`,
  `aggResult`, `executeLine`, `finalResult`) → the executors (`runFile(s)`, `runBatch`, `runBatchI`, `runFollow`, the
  traced `runBatchT`, `runFollowAllT`) → `Pipeline.runStatement` / `runLowered` (`Facts.withNow`).
-/
namespace Sqlgrep

/-! ### the syntactic predicate -/

/-- every function except `now` -/
def notNow (f : Func) : Bool :=
  match f with
  | .now => false
  | _ => true

/-- no call of `now` anywhere in the expression (operands, function arguments, IN lists, CASE branches, at any depth) -/
abbrev Expr.nowFree (e : Expr) : Bool := e.allFuncs notNow

/-- no call of `now` anywhere in the statement: select list, WHERE, GROUP BY parts, aggregate arguments, the
expressions around aggregates, HAVING and the aggregates inside HAVING (`Stmt.allFuncs`, `Lemmas/NoSkipEngine.lean`) -/
abbrev Stmt.nowFree (s : Stmt) : Bool := s.allFuncs notNow

/-- a lowered statement (`parsing::parse`'s answer): a query is `nowFree` when its statement is — a JOIN clause holds two
column NAMES, a table name and a file name, no expression —; CREATE TABLE statements contain no expression at all -/
def LStmt.nowFree : LStmt → Bool
  | .select s _ _ _ => (Stmt.select s).nowFree
  | .aggregate a _ _ _ => (Stmt.aggregate a).nowFree
  | .createTable _ _ _ => true
  | .multiple _ => true

/-! ### oracles that differ in the clock only -/

/-- the same library functions, another clock reading -/
def TotalOracles.withNow (T : TotalOracles) (v : Value) : TotalOracles := { T with nowF := v }

/-- the same tables and library functions, another clock reading (an oracle without total functions has no clock:
`now()` is `oracleMissing` there, before and after) -/
def Oracles.withNow (O : Oracles) (v : Value) : Oracles := { O with total := O.total.map (·.withNow v) }

/-- **two oracles differ at most in `nowF`**: every shipped table is the same, both have total functions behind the
tables or neither has, and `upperF`, `lowerF`, `regexF` are the same functions. Nothing is said about `nowF`. -/
structure Oracles.SameButNow (O₁ O₂ : Oracles) : Prop where
  fparse : O₁.fparse = O₂.fparse
  tsparse : O₁.tsparse = O₂.tsparse
  regex : O₁.regex = O₂.regex
  upper : O₁.upper = O₂.upper
  lower : O₁.lower = O₂.lower
  total : match O₁.total, O₂.total with
    | none, none => True
    | some T₁, some T₂ => T₁.upperF = T₂.upperF ∧ T₁.lowerF = T₂.lowerF ∧ T₁.regexF = T₂.regexF
    | _, _ => False

theorem Oracles.sameButNow_withNow (O : Oracles) (v : Value) : O.SameButNow (O.withNow v) := by
  refine ⟨rfl, rfl, rfl, rfl, rfl, ?_⟩
  obtain ⟨fp, tp, rg, up, lo, tot⟩ := O
  cases tot with
  | none => trivial
  | some T => exact ⟨rfl, rfl, rfl⟩

theorem Oracles.SameButNow.refl (O : Oracles) : O.SameButNow O := by
  refine ⟨rfl, rfl, rfl, rfl, rfl, ?_⟩
  cases O.total with
  | none => trivial
  | some T => exact ⟨rfl, rfl, rfl⟩

/-- the second of two oracles that differ at most in the clock is the first with another clock reading -/
theorem Oracles.SameButNow.eq_withNow {O₁ O₂ : Oracles} (h : O₁.SameButNow O₂) : ∃ v, O₂ = O₁.withNow v := by
  obtain ⟨fp, tp, rg, up, lo, tot⟩ := O₁
  obtain ⟨fp', tp', rg', up', lo', tot'⟩ := O₂
  obtain ⟨h1, h2, h3, h4, h5, h6⟩ := h
  simp only at h1 h2 h3 h4 h5 h6
  subst h1 h2 h3 h4 h5
  cases tot with
  | none =>
    cases tot' with
    | none => exact ⟨.null, rfl⟩
    | some T' => exact h6.elim
  | some T =>
    cases tot' with
    | none => exact h6.elim
    | some T' =>
      obtain ⟨uF, lF, rF, nF⟩ := T
      obtain ⟨uF', lF', rF', nF'⟩ := T'
      obtain ⟨e1, e2, e3⟩ := h6
      simp only at e1 e2 e3
      subst e1 e2 e3
      exact ⟨nF', rfl⟩

/-! ### `callFunction` -/

theorem Oracles.withNow_of_none (O : Oracles) (v : Value) (h : O.total = none) : O.withNow v = O := by
  obtain ⟨fp, tp, rg, up, lo, tot⟩ := O
  simp only at h
  subst h
  rfl

/-- **the clock reading reaches a function call only through `now`**: a call of any other function has the same outcome
whatever the reading -/
theorem callFunction_withNow (O : Oracles) (v : Value) (f : Func) (hf : notNow f = true) (args : List Value) :
    callFunction (O.withNow v) f args = callFunction O f args := by
  obtain ⟨fp, tp, rg, up, lo, tot⟩ := O
  cases tot with
  | none => rfl
  | some T =>
    unfold callFunction
    simp only [Oracles.withNow, TotalOracles.withNow, Option.map]
    split <;> (try rfl)
    exact absurd hf (by decide)

/-! ### the other places where the evaluator reads its oracle: tables only -/

theorem parseLit_withNow (O : Oracles) (v : Value) (t : VType) (s : Bytes) : parseLit (O.withNow v) t s = parseLit O t s := rfl

theorem tsOfText_withNow (O : Oracles) (v : Value) (s : Bytes) : tsOfText (O.withNow v) s = tsOfText O s := rfl

theorem coerceTs_withNow (O : Oracles) (v : Value) (l r : Value) : coerceTs (O.withNow v) l r = coerceTs O l r := by
  unfold coerceTs; simp only [tsOfText_withNow]

theorem prepCompare_withNow (O : Oracles) (v : Value) (l r : Value) : prepCompare (O.withNow v) l r = prepCompare O l r := by
  unfold prepCompare; rw [coerceTs_withNow]

theorem castValue_withNow (O : Oracles) (v : Value) (x : Value) (t : VType) : castValue (O.withNow v) x t = castValue O x t := by
  unfold castValue; simp only [parseLit_withNow]

/-! ### the evaluator -/

section
variable (O : Oracles) (v : Value)

mutual
/-- the outcome of evaluating an expression without a call of `now` — value, error kind, panic site or missing fact —
does not depend on the clock reading -/
theorem eval_withNow (env : Env) : ∀ (e : Expr), e.nowFree = true → eval (O.withNow v) env e = eval O env e
  | .value _, _ => by simp only [eval]
  | .column _, _ => by simp only [eval]
  | .scoped _ _, _ => by simp only [eval]
  | .wildcard, _ => by simp only [eval]
  | .compare _ l r, h => by
    simp only [Expr.allFuncs, Bool.and_eq_true] at h
    simp only [eval, eval_withNow env l h.1, eval_withNow env r h.2, prepCompare_withNow]
  | .nullCmp _ l r, h => by
    simp only [Expr.allFuncs, Bool.and_eq_true] at h
    simp only [eval, eval_withNow env l h.1, eval_withNow env r h.2]
  | .arith _ l r, h => by
    simp only [Expr.allFuncs, Bool.and_eq_true] at h
    simp only [eval, eval_withNow env l h.1, eval_withNow env r h.2]
  | .boolOp _ l r, h => by
    simp only [Expr.allFuncs, Bool.and_eq_true] at h
    simp only [eval, eval_withNow env l h.1, eval_withNow env r h.2]
  | .neg e, h => by
    simp only [Expr.allFuncs] at h
    simp only [eval, eval_withNow env e h]
  | .not e, h => by
    simp only [Expr.allFuncs] at h
    simp only [eval, eval_withNow env e h]
  | .inList _ e vs, h => by
    simp only [Expr.allFuncs, Bool.and_eq_true] at h
    simp only [eval, eval_withNow env e h.1, evalIn_withNow env vs h.2]
  | .call f args, h => by
    simp only [Expr.allFuncs, Bool.and_eq_true] at h
    simp only [eval, evalList_withNow env args h.2, callFunction_withNow O v f h.1]
  | .index a i, h => by
    simp only [Expr.allFuncs, Bool.and_eq_true] at h
    simp only [eval, eval_withNow env a h.1, eval_withNow env i h.2]
  | .cast e _, h => by
    simp only [Expr.allFuncs] at h
    simp only [eval, eval_withNow env e h, castValue_withNow]
  | .case clauses els, h => by
    simp only [Expr.allFuncs, Bool.and_eq_true] at h
    simp only [eval, evalCase_withNow env clauses h.1, eval_withNow env els h.2]
  | .groupKeyRef _, _ => by simp only [eval]
  | .groupValueRef _, _ => by simp only [eval]
theorem evalList_withNow (env : Env) : ∀ (es : List Expr), Expr.allFuncsList notNow es = true →
    evalList (O.withNow v) env es = evalList O env es
  | [], _ => by simp only [evalList]
  | e :: es, h => by
    simp only [Expr.allFuncsList, Bool.and_eq_true] at h
    simp only [evalList, eval_withNow env e h.1, evalList_withNow env es h.2]
theorem evalIn_withNow (env : Env) : ∀ (es : List Expr), Expr.allFuncsList notNow es = true →
    ∀ (isNot : Bool) (x : Value) (anyNull : Bool), evalIn (O.withNow v) env isNot x anyNull es = evalIn O env isNot x anyNull es
  | [], _, _, _, _ => by simp only [evalIn]
  | e :: es, h, isNot, x, a => by
    simp only [Expr.allFuncsList, Bool.and_eq_true] at h
    simp only [evalIn, eval_withNow env e h.1, evalIn_withNow env es h.2, prepCompare_withNow]
theorem evalCase_withNow (env : Env) : ∀ (cs : List (Expr × Expr)), Expr.allFuncsCases notNow cs = true →
    evalCase (O.withNow v) env cs = evalCase O env cs
  | [], _ => by simp only [evalCase]
  | (c, r) :: rest, h => by
    simp only [Expr.allFuncsCases, Bool.and_eq_true] at h
    simp only [evalCase, eval_withNow env c h.1.1, eval_withNow env r h.1.2, evalCase_withNow env rest h.2]
end

end

/-! ### the engines -/

namespace NowFree
open Sqlgrep.NoPanicEngine Sqlgrep.NoSkipEngine

section
variable (O : Oracles) (v : Value)

theorem selectOne_withNow (q : SelectStmt) (seen : List (List Value)) (env : Env) (keys : List String)
    (h : q.allFuncs notNow = true) : selectOne (O.withNow v) q seen env keys = selectOne O q seen env keys := by
  simp only [SelectStmt.allFuncs, Bool.and_eq_true] at h
  obtain ⟨hproj, hfilter⟩ := h
  have hcols := evalList_withNow O v env _ (allFuncsList_columns notNow keys)
  have hprojs := evalList_withNow O v env _ (allFuncsList_map notNow (·.2) q.projections hproj)
  have hfil : ∀ e, q.filter = some e → eval (O.withNow v) env e = eval O env e :=
    fun e he => eval_withNow O v env e (by rw [he] at hfilter; exact hfilter)
  unfold selectOne
  cases hw : q.wildcard <;> cases hf : q.filter <;>
    first
      | simp only [hcols, hprojs, Bool.false_eq_true, if_false, if_true, hfil _ hf]
      | simp only [hcols, hprojs, Bool.false_eq_true, if_false, if_true]

theorem selectEnvs_withNow (q : SelectStmt) (envs : List (Env × List String)) (seen : List (List Value)) (acc : Option RowOut)
    (h : q.allFuncs notNow = true) : selectEnvs (O.withNow v) q envs seen acc = selectEnvs O q envs seen acc := by
  induction envs generalizing seen acc with
  | nil => rfl
  | cons p rest ih =>
    obtain ⟨env, keys⟩ := p
    simp only [selectEnvs, selectOne_withNow O v q _ _ _ h, ih]

theorem cellStep_withNow (q : AggStmt) (env : Env) (k : AggKind) (c : Cell) (h : k.allFuncs notNow = true) :
    cellStep (O.withNow v) q env k c = cellStep O q env k c := by
  unfold cellStep
  split <;> simp only [AggKind.allFuncs] at h <;> first | rfl | simp only [eval_withNow O v env _ h]

theorem updateAggregate_withNow (q : AggStmt) (env : Env) (key : List Value) (idx : Nat) (k : AggKind) (st : AggState)
    (h : k.allFuncs notNow = true) : updateAggregate (O.withNow v) q env key idx k st = updateAggregate O q env key idx k st := by
  unfold updateAggregate
  rw [cellStep_withNow O v _ _ _ _ h]

theorem updateAggregates_withNow (q : AggStmt) (env : Env) (key : List Value) (l : List (Nat × AggKind)) (st : AggState)
    (h : ∀ p ∈ l, p.2.allFuncs notNow = true) :
    updateAggregates (O.withNow v) q env key l st = updateAggregates O q env key l st := by
  induction l generalizing st with
  | nil => rfl
  | cons p rest ih =>
    obtain ⟨i, k⟩ := p
    have ih' := fun st => ih st (fun p hp => h p (List.mem_cons_of_mem _ hp))
    simp only [updateAggregates, updateAggregate_withNow O v _ _ _ _ _ _ (h (i, k) List.mem_cons_self), ih']

theorem havingUpdates_withNow (q : AggStmt) (env : Env) (key : List Value) (l : List HavingRef) (j : Nat) (st : AggState)
    (h : l.all (·.allFuncs notNow) = true) :
    havingUpdates (O.withNow v) q env key l j st = havingUpdates O q env key l j st := by
  induction l generalizing st j with
  | nil => rfl
  | cons r rest ih =>
    simp only [List.all_cons, Bool.and_eq_true] at h
    have ih' := fun j st => ih j st h.2
    cases r with
    | key canon => simp only [havingUpdates, ih']
    | agg id kind => simp only [havingUpdates, updateAggregate_withNow O v _ _ _ _ _ _ h.1, ih']

theorem aggUpdateRow_withNow (q : AggStmt) (st : AggState) (env : Env) (h : q.allFuncs notNow = true) :
    aggUpdateRow (O.withNow v) q st env = aggUpdateRow O q st env := by
  simp only [AggStmt.allFuncs, Bool.and_eq_true] at h
  obtain ⟨⟨⟨⟨⟨hitems, hfilter⟩, hgroup⟩, _⟩, hvisit⟩, _⟩ := h
  have h1 : ∀ key st, updateAggregates (O.withNow v) q env key (enumFrom 0 (q.items.map (·.kind))) st =
      updateAggregates O q env key (enumFrom 0 (q.items.map (·.kind))) st := by
    intro key st
    refine updateAggregates_withNow O v q env key _ st (fun p hp => ?_)
    have hk : p.2 ∈ q.items.map (·.kind) := mem_enumFrom (i := p.1) (by cases p; exact hp)
    obtain ⟨it, hit, e⟩ := List.mem_map.1 hk
    have := List.all_eq_true.1 hitems it hit
    simp only [AggItem.allFuncs, Bool.and_eq_true] at this
    rw [← e]; exact this.1
  have h2 : ∀ key st, havingUpdates (O.withNow v) q env key q.havingVisit 0 st = havingUpdates O q env key q.havingVisit 0 st :=
    fun key st => havingUpdates_withNow O v q env key _ 0 st hvisit
  have hfil : ∀ e, q.filter = some e → eval (O.withNow v) env e = eval O env e :=
    fun e he => eval_withNow O v env e (by rw [he] at hfilter; exact hfilter)
  have hgrp : ∀ parts, q.groupBy = some parts →
      evalList (O.withNow v) env (parts.map (·.1)) = evalList O env (parts.map (·.1)) :=
    fun parts hp => evalList_withNow O v env _ (allFuncsList_map notNow (·.1) parts (by rw [hp] at hgroup; exact hgroup))
  unfold aggUpdateRow
  simp only [h1, h2]
  cases hf : q.filter <;> cases hg : q.groupBy <;>
    first
      | rfl
      | simp only [hfil _ hf, hgrp _ hg]
      | simp only [hfil _ hf]
      | simp only [hgrp _ hg]

theorem aggEnvs_withNow (q : AggStmt) (envs : List (Env × List String)) (st : AggState) (any : Bool)
    (h : q.allFuncs notNow = true) : aggEnvs (O.withNow v) q envs st any = aggEnvs O q envs st any := by
  induction envs generalizing st any with
  | nil => rfl
  | cons p rest ih =>
    obtain ⟨env, ks⟩ := p
    simp only [aggEnvs, aggUpdateRow_withNow O v q _ _ h, ih]

/-! results -/

theorem cellOf_withNow (q : AggStmt) (idx : Nat) (item : AggItem) (key : List Value) (subs : List (Nat × Value))
    (h : item.allFuncs notNow = true) : cellOf (O.withNow v) q idx item key subs = cellOf O q idx item key subs := by
  simp only [AggItem.allFuncs, Bool.and_eq_true] at h
  unfold cellOf applyTransform
  cases ht : item.transform with
  | none => rfl
  | some e =>
    have := h.2
    rw [ht] at this
    simp only [eval_withNow O v _ e this]

theorem rowOf_withNow (q : AggStmt) (key : List Value) (subs : List (Nat × Value)) (items : List (Nat × AggItem))
    (h : ∀ p ∈ items, p.2.allFuncs notNow = true) : rowOf (O.withNow v) q key subs items = rowOf O q key subs items := by
  induction items with
  | nil => rfl
  | cons p rest ih =>
    obtain ⟨i, item⟩ := p
    simp only [rowOf, cellOf_withNow O v q i item key subs (h (i, item) List.mem_cons_self),
      ih (fun p hp => h p (List.mem_cons_of_mem _ hp))]

theorem acceptGroup_withNow (q : AggStmt) (having : Expr) (key : List Value) (subs : List (Nat × Value))
    (h : having.allFuncs notNow = true) : acceptGroup (O.withNow v) q having key subs = acceptGroup O q having key subs := by
  unfold acceptGroup
  simp only [eval_withNow O v _ having h]

theorem resultRows_withNow (q : AggStmt) (groups : GroupMap Value) (seen : List (List Value))
    (hitems : q.items.all (·.allFuncs notNow) = true) (hhaving : optAllFuncs notNow q.having = true) :
    resultRows (O.withNow v) q groups seen = resultRows O q groups seen := by
  induction groups generalizing seen with
  | nil => rfl
  | cons g rest ih =>
    obtain ⟨key, subs⟩ := g
    have hrow := rowOf_withNow O v q key subs _ (items_ok' notNow q hitems)
    cases hh : q.having with
    | none => simp only [resultRows, hrow, hh, ih]
    | some e =>
      rw [hh] at hhaving
      simp only [resultRows, hrow, hh, ih, acceptGroup_withNow O v q e key subs hhaving]

set_option linter.unusedSimpArgs false in   -- (which of `h1` / `hcols` is used depends on the definition, see below)
theorem aggResult_withNow (q : AggStmt) (st : AggState) (h : q.allFuncs notNow = true) :
    aggResult (O.withNow v) q st = aggResult O q st := by
  simp only [AggStmt.allFuncs, Bool.and_eq_true] at h
  obtain ⟨⟨⟨⟨⟨hitems, _⟩, _⟩, hhaving⟩, _⟩, _⟩ := h
  have h1 : ∀ key subs, rowOf (O.withNow v) q key subs (enumFrom 0 q.items) = rowOf O q key subs (enumFrom 0 q.items) :=
    fun key subs => rowOf_withNow O v q key subs _ (items_ok' notNow q hitems)
  have h2 : ∀ groups seen, resultRows (O.withNow v) q groups seen = resultRows O q groups seen :=
    fun groups seen => resultRows_withNow O v q groups seen hitems hhaving
  unfold aggResult
  -- `aggResult` is being restated while this file is written (builder `aggorder`: the pre-pass over all cells becomes
  -- `aggColumns`, column by column). The first alternative is the proof for the definition that evaluates the rows
  -- with `rowOf`; the second one the proof for the definition with `aggColumn` / `aggColumns` (both read the oracle
  -- through `cellOf` only).
  first
    | (simp only [h1, h2]; done)
    | (have hcol : ∀ (i : Nat) (item : AggItem), item.allFuncs notNow = true → ∀ groups,
          aggColumn (O.withNow v) q i item groups = aggColumn O q i item groups := by
        intro i item hi groups
        induction groups with
        | nil => rfl
        | cons g rest ih =>
          obtain ⟨key, subs⟩ := g
          simp only [aggColumn, cellOf_withNow O v q i item key subs hi, ih]
       have hcols : ∀ groups (items : List (Nat × AggItem)), (∀ p ∈ items, p.2.allFuncs notNow = true) →
          aggColumns (O.withNow v) q groups items = aggColumns O q groups items := by
        intro groups items hi
        induction items with
        | nil => rfl
        | cons p rest ih =>
          obtain ⟨i, item⟩ := p
          simp only [aggColumns, hcol i item (hi _ List.mem_cons_self) groups,
            ih (fun p hp => hi p (List.mem_cons_of_mem _ hp))]
       simp only [h1, h2, hcols _ _ (items_ok' notNow q hitems)])

theorem finalResult_withNow (q : AggStmt) (es : EngineState) (h : q.allFuncs notNow = true) :
    finalResult (O.withNow v) q es = finalResult O q es := by
  unfold finalResult
  rw [aggResult_withNow O v q _ h]

/-- one line through the engine (batch mode and follow mode) -/
theorem executeLine_withNow (qy : Query) (idx : JoinIndex) (w : Bool) (es : EngineState) (l : Line)
    (h : qy.stmt.nowFree = true) : executeLine (O.withNow v) qy idx w es l = executeLine O qy idx w es l := by
  unfold executeLine
  cases hq : qy.stmt with
  | select q =>
    rw [hq] at h
    have h1 := fun envs seen acc => selectEnvs_withNow O v q envs seen acc h
    simp only [h1]
  | aggregate q =>
    rw [hq] at h
    have h1 := fun envs st any => aggEnvs_withNow O v q envs st any h
    have h2 := fun st => aggResult_withNow O v q st h
    simp only [h1, h2]

/-! ### the executors -/

theorem runFile_withNow (qy : Query) (idx : JoinIndex) (w : Bool) (stopAt : Option Nat) (f : List FileLine)
    (ls : LoopState) (h : qy.stmt.nowFree = true) :
    runFile (O.withNow v) qy idx w stopAt f ls = runFile O qy idx w stopAt f ls := by
  induction f generalizing ls with
  | nil => rfl
  | cons fl rest ih => simp only [runFile, executeLine_withNow O v qy idx w _ _ h, ih]

theorem runFiles_withNow (qy : Query) (idx : JoinIndex) (w : Bool) (stopAt : Option Nat) (fs : List (List FileLine))
    (ls : LoopState) (h : qy.stmt.nowFree = true) :
    runFiles (O.withNow v) qy idx w stopAt fs ls = runFiles O qy idx w stopAt fs ls := by
  induction fs generalizing ls with
  | nil => rfl
  | cons f rest ih => simp only [runFiles, runFile_withNow O v qy idx w stopAt f _ h, ih]

theorem runWithIndex_withNow (qy : Query) (idxO : Outcome JoinIndex) (files : List (List FileLine)) (stopAt : Option Nat)
    (h : qy.stmt.nowFree = true) : runWithIndex (O.withNow v) qy idxO files stopAt = runWithIndex O qy idxO files stopAt := by
  have h1 := fun idx w ls => runFiles_withNow O v qy idx w stopAt files ls h
  unfold runWithIndex
  cases hq : qy.stmt with
  | select q => simp only [h1]
  | aggregate q =>
    rw [hq] at h
    have h2 := fun es => finalResult_withNow O v q es h
    simp only [h1, h2]

/-- `FileExecutor::execute` over extracted lines -/
theorem runBatch_withNow (qy : Query) (joined : List FileLine) (files : List (List FileLine)) (stopAt : Option Nat)
    (h : qy.stmt.nowFree = true) : runBatch (O.withNow v) qy joined files stopAt = runBatch O qy joined files stopAt := by
  have h1 := fun idx w ls => runFiles_withNow O v qy idx w stopAt files ls h
  unfold runBatch
  cases hq : qy.stmt with
  | select q => simp only [h1]
  | aggregate q =>
    rw [hq] at h
    have h2 := fun es => finalResult_withNow O v q es h
    simp only [h1, h2]

/-- … with a joined file that may be missing and both interrupt points -/
theorem runBatchI_withNow (qy : Query) (joined : Option (List FileLine)) (files : List (List FileLine))
    (clearAt stopAt : Option Nat) (h : qy.stmt.nowFree = true) :
    runBatchI (O.withNow v) qy joined files clearAt stopAt = runBatchI O qy joined files clearAt stopAt := by
  unfold runBatchI
  simp only [fun idxO sa => runWithIndex_withNow O v qy idxO files sa h]

theorem runFollow_withNow (qy : Query) (stopAt : Option Nat) (lines : List Line) (ls : LoopState)
    (h : qy.stmt.nowFree = true) : runFollow (O.withNow v) qy stopAt lines ls = runFollow O qy stopAt lines ls := by
  induction lines generalizing ls with
  | nil => rfl
  | cons l rest ih => simp only [runFollow, executeLine_withNow O v qy [] true _ _ h, ih]

/-- `FollowFileExecutor::execute` over delivered lines -/
theorem runFollowAll_withNow (qy : Query) (stopAt : Option Nat) (lines : List Line) (h : qy.stmt.nowFree = true) :
    runFollowAll (O.withNow v) qy stopAt lines = runFollowAll O qy stopAt lines := by
  unfold runFollowAll
  rw [runFollow_withNow O v qy stopAt lines _ h]

/-! the traced loops (`Model/ExecT.lean`: what the end-to-end model executes) -/

theorem runFileT_withNow (qy : Query) (idx : JoinIndex) (w : Bool) (f : List FileLine) (s : TraceState)
    (h : qy.stmt.nowFree = true) : runFileT (O.withNow v) qy idx w f s = runFileT O qy idx w f s := by
  induction f generalizing s with
  | nil => rfl
  | cons fl rest ih => simp only [runFileT, executeLine_withNow O v qy idx w _ _ h, ih]

theorem runFilesT_withNow (qy : Query) (idx : JoinIndex) (w : Bool) (fs : List (List FileLine)) (s : TraceState)
    (h : qy.stmt.nowFree = true) : runFilesT (O.withNow v) qy idx w fs s = runFilesT O qy idx w fs s := by
  induction fs generalizing s with
  | nil => rfl
  | cons f rest ih => simp only [runFilesT, runFileT_withNow O v qy idx w f _ h, ih]

theorem runWithIndexT_withNow (qy : Query) (idxO : Outcome JoinIndex) (files : List (List FileLine))
    (h : qy.stmt.nowFree = true) : runWithIndexT (O.withNow v) qy idxO files = runWithIndexT O qy idxO files := by
  have h1 := fun idx w s => runFilesT_withNow O v qy idx w files s h
  unfold runWithIndexT
  cases hq : qy.stmt with
  | select q => simp only [h1]
  | aggregate q =>
    rw [hq] at h
    have h2 := fun es => finalResult_withNow O v q es h
    simp only [h1, h2]

theorem runBatchT_withNow (qy : Query) (joined : Option (List FileLine)) (files : List (List FileLine))
    (h : qy.stmt.nowFree = true) : runBatchT (O.withNow v) qy joined files = runBatchT O qy joined files := by
  unfold runBatchT
  exact runWithIndexT_withNow O v qy _ files h

theorem runFollowT_withNow (qy : Query) (stopAt : Option Nat) (lines : List Line) (s : TraceState)
    (h : qy.stmt.nowFree = true) : runFollowT (O.withNow v) qy stopAt lines s = runFollowT O qy stopAt lines s := by
  induction lines generalizing s with
  | nil => rfl
  | cons l rest ih => simp only [runFollowT, executeLine_withNow O v qy [] true _ _ h, ih]

theorem runFollowAllT_withNow (qy : Query) (stopAt : Option Nat) (lines : List Line) (h : qy.stmt.nowFree = true) :
    runFollowAllT (O.withNow v) qy stopAt lines = runFollowAllT O qy stopAt lines := by
  unfold runFollowAllT
  simp only [runFollowT_withNow O v qy stopAt lines _ h]

end
end NowFree

/-! ### the end-to-end model (`Model/Pipeline.lean`, `Model/PipelineFollow.lean`)

`Facts` — everything the end-to-end model is told about the outside world — holds the evaluator's oracle in its field
`eval`; the clock reading is `F.eval.total`'s `nowF` and appears nowhere else. -/

namespace Pipeline
open Sqlgrep.NowFree

/-- the same facts about the outside world, another clock reading -/
def Facts.withNow (F : Facts) (v : Value) : Facts := { F with eval := F.eval.withNow v }

/-- **two sets of facts differ at most in the clock reading**: every field other than `eval` is the same, and the
evaluator's oracles differ at most in `nowF` -/
structure Facts.SameButNow (F₁ F₂ : Facts) : Prop where
  classes : F₁.classes = F₂.classes
  numbers : F₁.numbers = F₂.numbers
  regexValid : F₁.regexValid = F₂.regexValid
  lines : F₁.lines = F₂.lines
  f64 : F₁.f64 = F₂.f64
  reals : F₁.reals = F₂.reals
  fs : F₁.fs = F₂.fs
  lossy : F₁.lossy = F₂.lossy
  eval : F₁.eval.SameButNow F₂.eval

theorem Facts.sameButNow_withNow (F : Facts) (v : Value) : F.SameButNow (F.withNow v) :=
  ⟨rfl, rfl, rfl, rfl, rfl, rfl, rfl, rfl, Oracles.sameButNow_withNow F.eval v⟩

theorem Facts.SameButNow.eq_withNow {F₁ F₂ : Facts} (h : F₁.SameButNow F₂) : ∃ v, F₂ = F₁.withNow v := by
  obtain ⟨c, n, r, l, f, re, fs, lo, ev⟩ := F₁
  obtain ⟨c', n', r', l', f', re', fs', lo', ev'⟩ := F₂
  obtain ⟨h1, h2, h3, h4, h5, h6, h7, h8, h9⟩ := h
  simp only at h1 h2 h3 h4 h5 h6 h7 h8 h9
  subst h1 h2 h3 h4 h5 h6 h7 h8
  obtain ⟨v, hv⟩ := h9.eq_withNow
  exact ⟨v, by rw [hv]; rfl⟩

section
variable (F : Facts) (v : Value)

/-! everything but the engine reads fields of `Facts` other than `eval` -/
theorem withNow_eval : (F.withNow v).eval = F.eval.withNow v := rfl
theorem classesCover_withNow : classesCover (F.withNow v) = classesCover F := rfl
theorem lexOracles_withNow : lexOracles (F.withNow v) = lexOracles F := rfl
theorem regexValidOf_withNow : regexValidOf (F.withNow v) = regexValidOf F := rfl
theorem regexValidFn_withNow : regexValidFn (F.withNow v) = regexValidFn F := rfl
theorem fileLines_withNow : fileLines (F.withNow v) = fileLines F := rfl
theorem openJoined_withNow : openJoined (F.withNow v) = openJoined F := rfl
theorem realsCover_withNow : realsCover (F.withNow v) = realsCover F := rfl
theorem realOracle_withNow : realOracle (F.withNow v) = realOracle F := rfl
theorem mkFollowLine_withNow : mkFollowLine (F.withNow v) = mkFollowLine F := rfl

theorem runNoTable_withNow (O : Oracles) (stmt : Stmt) (fromTable : String) (files : List (List Nat))
    (h : stmt.nowFree = true) : runNoTable (O.withNow v) stmt fromTable files = runNoTable O stmt fromTable files := by
  unfold runNoTable
  simp only [fun qy j fs (hq : qy.stmt.nowFree = true) => runBatchT_withNow O v qy j fs hq, h]

/-- `FileExecutor::execute` for a lowered statement over the defined tables and the raw bytes of the files -/
theorem runStatement_withNow (tables : List Table) (stmt : Stmt) (fromTable : String) (join : Option LJoin)
    (files : List (List Nat)) (h : stmt.nowFree = true) :
    runStatement (F.withNow v) tables stmt fromTable join files = runStatement F tables stmt fromTable join files := by
  have h1 : ∀ (t : TableInfo) (j : Option JoinInfo) jl fs,
      runBatchT (F.eval.withNow v) { stmt := stmt, table := t, join := j } jl fs =
        runBatchT F.eval { stmt := stmt, table := t, join := j } jl fs :=
    fun t j jl fs => runBatchT_withNow F.eval v _ jl fs h
  have h2 : ∀ (t : TableInfo) (j : Option JoinInfo) idxO fs,
      runWithIndexT (F.eval.withNow v) { stmt := stmt, table := t, join := j } idxO fs =
        runWithIndexT F.eval { stmt := stmt, table := t, join := j } idxO fs :=
    fun t j idxO fs => runWithIndexT_withNow F.eval v _ idxO fs h
  unfold runStatement
  simp only [withNow_eval, fileLines_withNow, openJoined_withNow, runNoTable_withNow v F.eval stmt fromTable files h, h1, h2]

/-- the part of the program after both texts are lowered -/
theorem runLowered_withNow (defs query : LStmt) (fmt : Print.Format) (single : Bool) (files : List (List Nat))
    (h : query.nowFree = true) :
    runLowered (F.withNow v) defs query fmt single files = runLowered F defs query fmt single files := by
  unfold runLowered
  cases query with
  | select s f ff j =>
    simp only [stmtOf, runStatement_withNow F v _ (.select s) f j files h, realsCover_withNow, realOracle_withNow]
    rfl
  | aggregate a f ff j =>
    simp only [stmtOf, runStatement_withNow F v _ (.aggregate a) f j files h, realsCover_withNow, realOracle_withNow]
    rfl
  | createTable _ _ _ => rfl
  | multiple _ => rfl

/-- the query text is rejected, or the statement it is read as calls `now` nowhere. Decidable: run the tokenizer, the
parser and the lowering (none of which looks at the evaluator's oracle). -/
def textNowFree (F : Facts) (queryText : List Char) : Bool :=
  match parseText (lexOracles F) (regexValidFn F) queryText with
  | .stmt q => q.nowFree
  | _ => true

theorem textNowFree_withNow (queryText : List Char) : textNowFree (F.withNow v) queryText = textNowFree F queryText := rfl

/-- **the whole program, batch mode** -/
theorem runText_withNow (defsText queryText : List Char) (fmt : Print.Format) (single : Bool) (files : List (List Nat))
    (h : textNowFree F queryText = true) :
    runText (F.withNow v) defsText queryText fmt single files = runText F defsText queryText fmt single files := by
  unfold runText
  simp only [classesCover_withNow, lexOracles_withNow, regexValidFn_withNow, regexValidOf_withNow]
  unfold textNowFree at h
  cases hq : parseText (lexOracles F) (regexValidFn F) queryText with
  | stmt query =>
    rw [hq] at h
    simp only [runLowered_withNow F v _ query fmt single files h]
  | _ => rfl

/-! follow mode -/

theorem followStatement_withNow (tables : List Table) (stmt : Stmt) (fromTable : String) (join : Option LJoin)
    (delivered : List (List Nat)) (stopAt : Option Nat) (h : stmt.nowFree = true) :
    followStatement (F.withNow v) tables stmt fromTable join delivered stopAt =
      followStatement F tables stmt fromTable join delivered stopAt := by
  have h1 : ∀ (t : TableInfo) sa ls,
      runFollowAllT (F.eval.withNow v) { stmt := stmt, table := t, join := none } sa ls =
        runFollowAllT F.eval { stmt := stmt, table := t, join := none } sa ls :=
    fun t sa ls => runFollowAllT_withNow F.eval v _ sa ls h
  unfold followStatement
  simp only [withNow_eval, mkFollowLine_withNow, h1]

theorem followAnswerOf_withNow (fmt : Print.Format) (r : Option FollowRun) :
    followAnswerOf (F.withNow v) fmt r = followAnswerOf F fmt r := by
  unfold followAnswerOf
  simp only [realsCover_withNow, realOracle_withNow]
  rfl

theorem followLowered_withNow (defs query : LStmt) (fmt : Print.Format) (delivered : List (List Nat))
    (stopAt : Option Nat) (h : query.nowFree = true) :
    followLowered (F.withNow v) defs query fmt delivered stopAt = followLowered F defs query fmt delivered stopAt := by
  unfold followLowered
  cases query with
  | select s f ff j =>
    simp only [stmtOf, followStatement_withNow F v _ (.select s) f j delivered stopAt h, followAnswerOf_withNow]
  | aggregate a f ff j =>
    simp only [stmtOf, followStatement_withNow F v _ (.aggregate a) f j delivered stopAt h, followAnswerOf_withNow]
  | createTable _ _ _ => rfl
  | multiple _ => rfl

theorem followLines_withNow (defsText queryText : List Char) (fmt : Print.Format) (delivered : List (List Nat))
    (stopAt : Option Nat) (h : textNowFree F queryText = true) :
    followLines (F.withNow v) defsText queryText fmt delivered stopAt = followLines F defsText queryText fmt delivered stopAt := by
  unfold followLines
  simp only [classesCover_withNow, lexOracles_withNow, regexValidFn_withNow, regexValidOf_withNow]
  unfold textNowFree at h
  cases hq : parseText (lexOracles F) (regexValidFn F) queryText with
  | stmt query =>
    rw [hq] at h
    simp only [followLowered_withNow F v _ query fmt delivered stopAt h]
  | _ => rfl

/-- **the whole program, follow mode** -/
theorem followText_withNow (defsText queryText : List Char) (fmt : Print.Format) (head : Bool) (initial : List Nat)
    (ops : List FollowOp) (h : textNowFree F queryText = true) :
    followText (F.withNow v) defsText queryText fmt head initial ops = followText F defsText queryText fmt head initial ops := by
  unfold followText
  exact followLines_withNow F v defsText queryText fmt _ _ h

end
end Pipeline

end Sqlgrep
