// C11 at the executor level: what `sqlgrep --follow --head` SHOWS. The real `FollowFileExecutor` runs over a file that
// holds all lines (the retry hook ends the run at end of file) with stdout captured *including* the clear-screen
// sequences. The terminal is simulated: a clear sequence empties the screen, everything else is appended. For an
// aggregate statement the screen after each refresh must be the text output of a batch run (`FileExecutor`) over exactly
// the lines consumed up to that refresh — in particular a refresh whose table is EMPTY must leave an empty screen, not the
// previous table — and the final screen must be the batch output over all lines. Which lines refresh the screen is taken
// from the engine fed line by line (a line refreshes when the engine returns a table for it). For a non-aggregate
// statement nothing is ever cleared and the whole output is the batch output.
use std::fs::File;
use std::sync::atomic::AtomicBool;
use std::sync::Arc;

use sqlgrep::execution::execution_engine::ExecutionEngine;
use sqlgrep::executor::{DisplayOptions, FollowFileExecutor, OutputFormat};
use sqlgrep::helpers::verif_hooks::set_follow_retry_hook;

use crate::c04::join_lines;
use crate::engine_run::*;
use crate::queries::*;
use crate::run::Run;
use crate::runq::tmp_file;
use crate::util::{catch, Caught, Rng};


/// raw stdout of the real follow executor over a static file
fn follow_raw(p: &Prepared, lines: &[String]) -> (String, String) {
    let path = tmp_file(&join_lines(lines));
    set_follow_retry_hook(Some(Box::new(|| false)));
    let mut status = String::new();
    let out = crate::c19::capture_stdout(|| {
        let res = catch(|| -> Result<(), String> {
            let file = File::open(&path).map_err(|_| "err:FailOpenFile".to_owned())?;
            let display = DisplayOptions { output_format: OutputFormat::Text, single_result: false, print_result: true };
            let engine = ExecutionEngine::new(&p.tables, &p.statement);
            let mut executor = FollowFileExecutor::new(Arc::new(AtomicBool::new(true)), file, true, display, engine).map_err(|_| "err:Io".to_owned())?;
            executor.execute().map_err(|e| format!("err:{}", exec_err_kind(&e)))
        });
        status = match res {
            Caught::Done(Ok(())) => "ok".to_owned(),
            Caught::Done(Err(e)) => e,
            Caught::Panic(_) => "panic".to_owned(),
        };
    });
    set_follow_retry_hook(None);
    let _ = std::fs::remove_file(path);
    (status, String::from_utf8_lossy(&out).to_string())
}

/// the follow executor over a static file, counting how often it came back for more input (the retry hook; it answers "no more")
fn follow_counting(p: &Prepared, lines: &[String]) -> (String, String, usize) {
    let path = tmp_file(&join_lines(lines));
    let retries = std::rc::Rc::new(std::cell::Cell::new(0usize));
    let r2 = retries.clone();
    set_follow_retry_hook(Some(Box::new(move || { r2.set(r2.get() + 1); false })));
    let mut status = String::new();
    let out = crate::c19::capture_stdout(|| {
        let res = catch(|| -> Result<(), String> {
            let file = File::open(&path).map_err(|_| "err:FailOpenFile".to_owned())?;
            let display = DisplayOptions { output_format: OutputFormat::Text, single_result: false, print_result: true };
            let engine = ExecutionEngine::new(&p.tables, &p.statement);
            let mut executor = FollowFileExecutor::new(Arc::new(AtomicBool::new(true)), file, true, display, engine).map_err(|_| "err:Io".to_owned())?;
            executor.execute().map_err(|e| format!("err:{}", exec_err_kind(&e)))
        });
        status = match res {
            Caught::Done(Ok(())) => "ok".to_owned(),
            Caught::Done(Err(e)) => e,
            Caught::Panic(_) => "panic".to_owned(),
        };
    });
    set_follow_retry_hook(None);
    let _ = std::fs::remove_file(path);
    (status, String::from_utf8_lossy(&out).to_string(), retries.get())
}

/// C07 in follow mode (`--follow --head`, the real `FollowFileExecutor`): a non-aggregate statement with LIMIT n over a file
/// that ENDS with the line that produces the n-th row. The executor must print exactly the first n rows of the unlimited
/// output and return — without coming back for more input (the retry hook is never asked): "consumes no input beyond the line
/// that produced its n-th row (none at all for n = 0)".
pub fn follow_limit_stream(run: &mut Run, rng: &mut Rng, n: usize) {
    for _ in 0..n {
        let sch = gen_schema(rng);
        let limit = rng.below(4);
        let filter = *rng.pick(&["", " WHERE v > 0", " WHERE w IS NOT NULL", " WHERE k = 'a' OR v < 5"]);
        let distinct = if rng.chance(1, 4) { "DISTINCT " } else { "" };
        let unlimited_text = format!("SELECT {}k, v FROM t{}", distinct, filter);
        let text = format!("{} LIMIT {}", unlimited_text, limit);
        let (p, pu) = match (prepare(&sch.defs, &text), prepare(&sch.defs, &unlimited_text)) { (Ok(a), Ok(b)) => (a, b), _ => { run.count("follow-limit:rejected"); continue; } };
        let nl = rng.below(9);
        let all = crate::c04::gen_input(rng, nl, 20, false);
        // the shortest prefix of the lines whose unlimited output has `limit` rows (LIMIT 0: the empty prefix is enough,
        // but lines are left in the file: none of them may be read)
        let mut cut = None;
        for k in 0..=all.len() {
            let b = run_files(&pu, &[join_lines(&all[..k])]);
            if b.status != "ok" { break; }
            if b.records().len() >= limit { cut = Some(k); break; }
        }
        let k = match cut { Some(k) => k, None => { run.count("follow-limit:fewer-rows-than-limit"); continue; } };
        let lines: Vec<String> = if limit == 0 { all.clone() } else { all[..k].to_vec() };
        let want = run_files(&pu, &[join_lines(&all[..k])]);
        let want_rows: Vec<String> = want.records().into_iter().take(limit).collect();
        let (status, raw, retries) = follow_counting(&p, &lines);
        run.oracle_checks += 1;
        run.count(&format!("follow-limit:n{}", limit));
        let desc = format!("sqlgrep --follow --head; query={} file={:?}", text, lines);
        if status != "ok" { run.fail(desc, "follow-limit-fails", format!("the follow executor ends with {}", status)); continue; }
        if records(&raw) != want_rows {
            run.fail(desc, "follow-limit-output", format!("printed {:?}; the first {} rows of the unlimited output are {:?}", records(&raw), limit, want_rows));
        } else if retries > 0 {
            run.fail(desc, "follow-limit-reads-on", format!("the {} rows were printed, then the executor came back for more input {} time(s) instead of stopping at the line that produced row {}", limit, retries, limit));
        }
    }
}

fn records(text: &str) -> Vec<String> {
    text.split('\n').filter(|l| !l.is_empty()).map(|l| l.to_owned()).collect()
}

fn one(run: &mut Run, defs: &str, text: &str, lines: &[String]) {
    let p = match prepare(defs, text) { Ok(p) => p, Err(_) => { run.count("x:rejected"); return; } };
    let is_aggregate = matches!(p.statement, sqlgrep::model::Statement::Aggregate(_));
    let (wire, steps) = run_incremental(&p, lines);
    if wire.contains("err:") || wire.contains("panic") { run.count("x:engine-error"); return; }
    let (status, raw) = follow_raw(&p, lines);
    let desc = format!("sqlgrep --follow --head; query={} file={:?}", text, lines);
    run.oracle_checks += 1;
    if status != "ok" {
        run.fail(desc, "follow-executor-fails", format!("the engine fed line by line has no error, the follow executor ends with {}", status));
        return;
    }
    // the screens: text between clear sequences
    let mut screens = crate::util::split_screens(&raw);
    let before_first_clear_s = screens.remove(0);
    let before_first_clear = before_first_clear_s.as_str();
    let parts: Vec<&str> = screens.iter().map(|s| s.as_str()).collect();
    if is_aggregate {
        run.count(&format!("x:agg:h{}:refreshes{}", text.contains("HAVING") as u8, parts.len().min(4)));
        if !before_first_clear.is_empty() {
            run.fail(desc, "follow-screen-not-cleared", format!("{:?} is printed before the first clear sequence", before_first_clear));
            return;
        }
        // lines on which the engine returns a table, in order
        let refresh_at: Vec<usize> = steps.iter().enumerate().filter(|(_, s)| s.is_some()).map(|(i, _)| i + 1).collect();
        for (j, k) in refresh_at.iter().enumerate() {
            let batch = run_files(&p, &[join_lines(&lines[..*k])]);
            if batch.status != "ok" { return; }
            let screen: Vec<String> = match parts.get(j) { Some(s) => records(s), None => {
                // no j-th refresh: the screen still shows the previous one
                let stale = if j == 0 { Vec::new() } else { records(parts[j - 1]) };
                if stale != batch.records() {
                    run.fail(format!("{} k={}", desc, k), "follow-screen-is-stale", format!("after line {} the screen was not refreshed and still shows {:?}; a batch run over the first {} lines gives {:?}", k, stale, k, batch.records()));
                }
                return;
            } };
            if screen != batch.records() {
                run.fail(format!("{} k={}", desc, k), "follow-screen-differs-from-batch", format!("refresh {} (line {}) shows {:?}; a batch run over the first {} lines gives {:?}", j + 1, k, screen, k, batch.records()));
                return;
            }
        }
        if parts.len() > refresh_at.len() {
            run.fail(desc, "follow-extra-refresh", format!("{} refreshes for {} lines that change the table", parts.len(), refresh_at.len()));
        }
    } else {
        run.count("x:sel");
        if !parts.is_empty() {
            run.fail(desc, "follow-clears-for-select", "a non-aggregate statement cleared the screen".to_owned());
            return;
        }
        let batch = run_files(&p, &[join_lines(lines)]);
        if batch.status != "ok" { return; }
        if records(before_first_clear) != batch.records() {
            run.fail(desc, "follow-output-differs-from-batch", format!("follow mode printed {:?}; the batch run prints {:?}", records(before_first_clear), batch.records()));
        }
    }
}

pub fn executor_stream(run: &mut Run, rng: &mut Rng, n: usize) {
    const HAVING_AGGS: &[&str] = &["COUNT(*)", "COUNT(v)", "SUM(v)", "MIN(v)", "MAX(v)", "AVG(v)", "COUNT(DISTINCT v)"];
    let opts = QueryOpts { allow_limit: false, allow_distinct: true, allow_join: false, aggregate: None };
    for i in 0..n {
        let sch = gen_schema(rng);
        if i % 3 == 0 {
            // generated statements of every shape
            let gq = gen_query(rng, &sch, &opts, "");
            let nl = rng.below(7);
            let lines = crate::c04::gen_input(rng, nl, 30, false);
            one(run, &sch.defs, &gq.text, &lines);
        } else {
            // HAVING whose outcome flips as lines arrive: the table shrinks, becomes empty, comes back
            let grouped = rng.chance(2, 3);
            let having = format!("{} {} {}", rng.pick(HAVING_AGGS), rng.pick(&[">", "<", "<=", "=", "!="]), rng.pick(&["1", "2", "3", "50"]));
            let text = format!("SELECT {}COUNT(*), MAX(v) FROM t{} HAVING {}", if grouped { "k, " } else { "" }, if grouped { " GROUP BY k" } else { "" }, having);
            let nl = 2 + rng.below(6);
            let lines: Vec<String> = (0..nl).map(|j| {
                let k = if rng.chance(4, 5) { "a" } else { "b" };
                let v = if (j + rng.below(4) / 3) % 2 == 0 { 1 } else { 100 };
                format!("{};{};{};0.5;x;", k, v, rng.below(3))
            }).collect();
            one(run, &sch.defs, &text, &lines);
        }
    }
    run.notes.push("executor stream: the real FollowFileExecutor with stdout captured including the clear-screen sequences; every refresh of an aggregate statement must show the batch output over the lines consumed so far (an empty table must leave an empty screen), a non-aggregate statement prints the batch output and never clears".to_owned());
}
