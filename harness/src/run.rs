// Result of one harness run for one property: cases for the model driver, the implementation's
// canonical answers, the property oracle's failures on the implementation, coverage statistics.
use std::collections::{BTreeMap, BTreeSet};
use std::io::Write;

use crate::util::json_escape;

pub struct Failure {
    pub case: String,      // human-readable replayable description of the failing input
    pub class: String,     // classifier output (known-findings are matched on this)
    pub what: String,      // observed deviation from the property
}

pub struct Run {
    pub property: String,
    pub cases: Vec<String>,
    pub impl_out: Vec<String>,
    pub failures: Vec<Failure>,
    pub tags: BTreeSet<String>,
    pub hist: BTreeMap<String, u64>,
    pub samples: Vec<String>,
    pub oracle_checks: u64,
    pub notes: Vec<String>,
    pub descs: Vec<String>,
    /// failures recorded so far per class (the cap of `fail` is per class)
    pub fail_counts: BTreeMap<String, usize>,
}

impl Run {
    pub fn new(property: &str) -> Run {
        Run {
            property: property.to_owned(),
            cases: Vec::new(),
            impl_out: Vec::new(),
            failures: Vec::new(),
            tags: BTreeSet::new(),
            hist: BTreeMap::new(),
            samples: Vec::new(),
            oracle_checks: 0,
            notes: Vec::new(),
            descs: Vec::new(),
            fail_counts: BTreeMap::new(),
        }
    }

    /// one correspondence case: the line sent to the model driver and the implementation's answer
    pub fn case(&mut self, line: String, impl_answer: String, tag: String) {
        debug_assert!(!line.contains('\n') && !impl_answer.contains('\n'));
        if self.samples.len() < 12 && (self.cases.len() % 97 == 0) {
            self.samples.push(format!("{} => {}", line, impl_answer));
        }
        self.cases.push(line);
        self.impl_out.push(impl_answer);
        self.tags.insert(tag);
    }

    /// like `case`, with a human-readable description (SQL text, input) used when the model's spec answer disagrees
    pub fn case_with_desc(&mut self, line: String, impl_answer: String, tag: String, desc: String) {
        while self.descs.len() < self.cases.len() { self.descs.push(String::new()); }
        self.descs.push(desc.replace('\n', "\\n"));
        self.case(line, impl_answer, tag);
    }

    pub fn count(&mut self, key: &str) {
        *self.hist.entry(key.to_owned()).or_insert(0) += 1;
    }

    /// The number of recorded failures is capped PER CLASS (400 each), not in total: a frequent class — thousands of inputs of
    /// an open known finding in the thorough tier — must not crowd out a later failure of another class (with the former global
    /// cap of 2000 the failures of every stream after the first 2000 known ones, and of the witnesses, were silently dropped).
    pub fn fail(&mut self, case: String, class: &str, what: String) {
        let n = self.fail_counts.entry(class.to_owned()).or_insert(0);
        if *n < 400 {
            *n += 1;
            self.failures.push(Failure { case, class: class.to_owned(), what });
        }
    }

    pub fn write(&self, dir: &str) -> std::io::Result<()> {
        std::fs::create_dir_all(dir)?;
        let mut f = std::io::BufWriter::new(std::fs::File::create(format!("{}/cases.txt", dir))?);
        for c in &self.cases { writeln!(f, "{}", c)?; }
        f.flush()?;
        let mut f = std::io::BufWriter::new(std::fs::File::create(format!("{}/impl.txt", dir))?);
        for c in &self.impl_out { writeln!(f, "{}", c)?; }
        f.flush()?;
        let mut f = std::io::BufWriter::new(std::fs::File::create(format!("{}/descs.txt", dir))?);
        for i in 0..self.cases.len() { writeln!(f, "{}", self.descs.get(i).map(|s| s.as_str()).unwrap_or(""))?; }
        f.flush()?;
        let mut f = std::io::BufWriter::new(std::fs::File::create(format!("{}/meta.json", dir))?);
        writeln!(f, "{{")?;
        writeln!(f, " \"property\": {},", json_escape(&self.property))?;
        writeln!(f, " \"cases\": {},", self.cases.len())?;
        writeln!(f, " \"oracle_checks\": {},", self.oracle_checks)?;
        writeln!(f, " \"distinct_tags\": {},", self.tags.len())?;
        writeln!(f, " \"tags_sample\": [{}],", self.tags.iter().take(40).map(|t| json_escape(t)).collect::<Vec<_>>().join(", "))?;
        writeln!(f, " \"hist\": {{{}}},", self.hist.iter().map(|(k, v)| format!("{}: {}", json_escape(k), v)).collect::<Vec<_>>().join(", "))?;
        writeln!(f, " \"samples\": [{}],", self.samples.iter().map(|t| json_escape(t)).collect::<Vec<_>>().join(", "))?;
        writeln!(f, " \"notes\": [{}],", self.notes.iter().map(|t| json_escape(t)).collect::<Vec<_>>().join(", "))?;
        writeln!(f, " \"failures\": [")?;
        for (i, fl) in self.failures.iter().enumerate() {
            writeln!(f, "  {{\"case\": {}, \"class\": {}, \"what\": {}}}{}", json_escape(&fl.case), json_escape(&fl.class), json_escape(&fl.what), if i + 1 < self.failures.len() { "," } else { "" })?;
        }
        writeln!(f, " ]")?;
        writeln!(f, "}}")?;
        f.flush()?;
        Ok(())
    }
}

pub struct Params {
    pub tier_thorough: bool,
    pub seed: u64,
}

impl Params {
    pub fn n(&self, quick: usize, thorough: usize) -> usize {
        if self.tier_thorough { thorough } else { quick }
    }
}
