import SqlgrepModel.Lemmas.NoSkip
import SqlgrepModel.Lemmas.NoPanicEngine
import SqlgrepModel.Model.Exec
/-
Statement-level "never skipped" (property C09): a whole batch run of a statement whose expressions call only functions
that are answered under the shipped oracle tables never ends `skipped`.

Every `oracleMissing` of the engine / executor model comes out of `eval` / `evalList` (the engines themselves contain no
such constructor), so — unlike `Lemmas/NoPanicEngine.lean` — no invariant of the engine state is needed: the lemma of
`Lemmas/NoSkip.lean` is lifted function by function through `selectOne`, `cellStep`, `aggUpdateRow`, `aggResult`,
`executeLine`, `finalResult`, `runFile`, `runFiles`, `runBatch`.
-/
namespace Sqlgrep

/-! ### which functions a statement calls -/

def optAllFuncs (ok : Func → Bool) : Option Expr → Bool
  | some e => e.allFuncs ok
  | none => true

/-- the argument of an aggregate (for `GroupKey(column)`: the column expression) -/
def AggKind.allFuncs (ok : Func → Bool) : AggKind → Bool
  | .groupKey e _ => e.allFuncs ok
  | .count _ _ => true
  | .min e => e.allFuncs ok
  | .max e => e.allFuncs ok
  | .sum e => e.allFuncs ok
  | .avg e => e.allFuncs ok
  | .stddev e _ => e.allFuncs ok
  | .percentile e _ => e.allFuncs ok
  | .boolAnd e => e.allFuncs ok
  | .boolOr e => e.allFuncs ok
  | .arrayAgg e => e.allFuncs ok
  | .stringAgg e _ => e.allFuncs ok

/-- a select-list item of an aggregate statement: the aggregate's argument and the expression around the aggregate -/
def AggItem.allFuncs (ok : Func → Bool) (it : AggItem) : Bool := it.kind.allFuncs ok && optAllFuncs ok it.transform

def HavingRef.allFuncs (ok : Func → Bool) : HavingRef → Bool
  | .key _ => true
  | .agg _ k => k.allFuncs ok

/-- select list and WHERE -/
def SelectStmt.allFuncs (ok : Func → Bool) (q : SelectStmt) : Bool :=
  q.projections.all (fun p => p.2.allFuncs ok) && optAllFuncs ok q.filter

/-- select list (aggregate arguments, the expressions around them), WHERE, the GROUP BY parts, HAVING and the
aggregates inside HAVING -/
def AggStmt.allFuncs (ok : Func → Bool) (q : AggStmt) : Bool :=
  q.items.all (·.allFuncs ok) && optAllFuncs ok q.filter &&
  (match q.groupBy with
    | some parts => parts.all (fun p => p.1.allFuncs ok)
    | none => true) &&
  optAllFuncs ok q.having && q.havingVisit.all (·.allFuncs ok) && q.havingAggs.all (fun p => p.2.allFuncs ok)

def Stmt.allFuncs (ok : Func → Bool) : Stmt → Bool
  | .select q => q.allFuncs ok
  | .aggregate q => q.allFuncs ok

/-- **the statement needs no external fact**: none of its expressions — select items, WHERE, GROUP BY parts, aggregate
arguments, expressions around aggregates, HAVING, CASE branches, IN lists, function arguments, at any depth — calls
`upper`, `lower`, `regexp_matches` or `now`. Decidable (a `Bool`). -/
abbrev Stmt.factFree (s : Stmt) : Bool := s.allFuncs factFreeFunc

abbrev Query.factFree (qy : Query) : Bool := qy.stmt.factFree

/-! ### every statement passes the trivial check (used with a total oracle, which answers every function) -/

theorem optAllFuncs_any (f : Option Expr) : optAllFuncs anyFunc f = true := by
  cases f with
  | none => rfl
  | some e => exact Expr.allFuncs_any e

theorem AggKind.allFuncs_any (k : AggKind) : k.allFuncs anyFunc = true := by
  cases k <;> first | rfl | exact Expr.allFuncs_any _

theorem AggItem.allFuncs_any (it : AggItem) : it.allFuncs anyFunc = true := by
  unfold AggItem.allFuncs
  rw [AggKind.allFuncs_any, optAllFuncs_any]; rfl

theorem HavingRef.allFuncs_any (r : HavingRef) : r.allFuncs anyFunc = true := by
  cases r with
  | key _ => rfl
  | agg _ k => exact AggKind.allFuncs_any k

theorem Stmt.allFuncs_any (st : Stmt) : st.allFuncs anyFunc = true := by
  cases st with
  | select q =>
    show SelectStmt.allFuncs anyFunc q = true
    unfold SelectStmt.allFuncs
    rw [optAllFuncs_any, Bool.and_true, List.all_eq_true]
    intro p _; exact Expr.allFuncs_any p.2
  | aggregate q =>
    show AggStmt.allFuncs anyFunc q = true
    unfold AggStmt.allFuncs
    have h1 : q.items.all (·.allFuncs anyFunc) = true := List.all_eq_true.2 (fun it _ => AggItem.allFuncs_any it)
    have h2 : (match q.groupBy with
        | some parts => parts.all (fun p => p.1.allFuncs anyFunc)
        | none => true) = true := by
      cases q.groupBy with
      | none => rfl
      | some parts => exact List.all_eq_true.2 (fun p _ => Expr.allFuncs_any p.1)
    have h3 : q.havingVisit.all (·.allFuncs anyFunc) = true := List.all_eq_true.2 (fun r _ => HavingRef.allFuncs_any r)
    have h4 : q.havingAggs.all (fun p => p.2.allFuncs anyFunc) = true := List.all_eq_true.2 (fun p _ => AggKind.allFuncs_any p.2)
    rw [h1, optAllFuncs_any, h2, optAllFuncs_any, h3, h4]; rfl

theorem allFuncsList_columns (ok : Func → Bool) (keys : List String) : Expr.allFuncsList ok (keys.map Expr.column) = true := by
  induction keys with
  | nil => rfl
  | cons k ks ih => simp [Expr.allFuncsList, Expr.allFuncs, ih]

theorem allFuncsList_map {α : Type} (ok : Func → Bool) (f : α → Expr) (l : List α) (h : l.all (fun p => (f p).allFuncs ok) = true) :
    Expr.allFuncsList ok (l.map f) = true := by
  induction l with
  | nil => rfl
  | cons x xs ih =>
    simp only [List.all_cons, Bool.and_eq_true] at h
    simp [Expr.allFuncsList, h.1, ih h.2]

namespace NoSkipEngine
open Sqlgrep.NoPanicEngine

/-! ### the parts of the engines that contain no `oracleMissing` at all -/

theorem NM_validate (q : AggStmt) (canon : String) : NM (validateGroupKey q canon) := by
  unfold validateGroupKey; nm

theorem NM_addToSum (s v : Value) : NM (addToSum s v) := by
  unfold addToSum; nm

theorem NM_squareOf (v : Value) : NM (squareOf v) := by
  unfold squareOf; nm

theorem NM_aggUpdate (a : Aggregator) (v : Value) : NM (aggUpdate a v) := by
  unfold aggUpdate
  cases a with
  | sum s => exact NM_bind (NM_addToSum _ _) (fun _ => rfl)
  | avg s c => exact NM_bind (NM_addToSum _ _) (fun _ => rfl)
  | stddev s q c isVar =>
    exact NM_bind (NM_squareOf _) (fun _ => NM_bind (NM_addToSum _ _) (fun _ => NM_bind (NM_addToSum _ _) (fun _ => rfl)))
  | percentile vals p => rfl
  | boolAnd cur => cases v <;> rfl
  | boolOr cur => cases v <;> rfl
  | countDistinct seen => dsimp only; split <;> rfl

theorem NM_lineEnvs (qy : Query) (idx : JoinIndex) (b : Bool) (l : Line) : NM (lineEnvs qy idx b l) := by
  unfold lineEnvs; nm

theorem NM_setupJoin (t : TableInfo) (j : JoinInfo) (lines : List FileLine) : NM (setupJoin t j (loadJoinFile j lines)) := by
  unfold setupJoin loadJoinFile loadJoin
  nm

/-- split a monadic definition until every leaf is a constructor other than `oracleMissing`, a fact in the context
(`NM (eval …)` of the expressions at hand), or a call known not to ask -/
macro "nmm" : tactic => `(tactic| (repeat' (first
  | rfl | assumption | exact NM_condHolds _ | exact NM_validate _ _ | exact NM_aggUpdate _ _
  | apply NM_bind | intro _ | split | (dsimp only))))

section
variable (O : Oracles) (ok : Func → Bool) (hok : ∀ f, ok f = true → ∀ args, NM (callFunction O f args))
include hok

/-! ### updates -/

theorem NM_filter (env : Env) (f : Option Expr) : optAllFuncs ok f = true →
    NM (match f with
      | some f => do
        let v ← eval O env f
        condHolds v
      | none => pure true : Outcome Bool) := by
  intro h
  cases f with
  | none => rfl
  | some e => exact NM_bind (NM_eval O ok hok env e h) (fun _ => NM_condHolds _)

theorem NM_cellStep (q : AggStmt) (env : Env) (k : AggKind) (c : Cell) (h : k.allFuncs ok = true) :
    NM (cellStep O q env k c) := by
  unfold cellStep
  split <;> simp only [AggKind.allFuncs] at h <;> (try have he := NM_eval O ok hok env _ h) <;> nmm

theorem NM_updateAggregate (q : AggStmt) (env : Env) (key : List Value) (idx : Nat) (k : AggKind) (st : AggState)
    (h : k.allFuncs ok = true) : NM (updateAggregate O q env key idx k st) := by
  unfold updateAggregate
  exact NM_bind (NM_cellStep O ok hok _ _ _ _ h) (fun _ => rfl)

theorem NM_updateAggregates (q : AggStmt) (env : Env) (key : List Value) (l : List (Nat × AggKind)) (st : AggState)
    (h : ∀ p ∈ l, p.2.allFuncs ok = true) : NM (updateAggregates O q env key l st) := by
  induction l generalizing st with
  | nil => rfl
  | cons p rest ih =>
    obtain ⟨i, k⟩ := p
    unfold updateAggregates
    exact NM_bind (NM_updateAggregate O ok hok _ _ _ _ _ _ (h (i, k) List.mem_cons_self))
      (fun _ => ih _ (fun p hp => h p (List.mem_cons_of_mem _ hp)))

theorem NM_havingUpdates (q : AggStmt) (env : Env) (key : List Value) (l : List HavingRef) (j : Nat) (st : AggState)
    (h : l.all (·.allFuncs ok) = true) : NM (havingUpdates O q env key l j st) := by
  induction l generalizing st j with
  | nil => rfl
  | cons r rest ih =>
    simp only [List.all_cons, Bool.and_eq_true] at h
    cases r with
    | key canon => unfold havingUpdates; exact NM_bind (NM_validate _ _) (fun _ => ih _ _ h.2)
    | agg id kind =>
      unfold havingUpdates
      exact NM_bind (NM_updateAggregate O ok hok _ _ _ _ _ _ h.1) (fun _ => ih _ _ h.2)

theorem NM_aggUpdateRow (q : AggStmt) (st : AggState) (env : Env) (h : q.allFuncs ok = true) :
    NM (aggUpdateRow O q st env) := by
  simp only [AggStmt.allFuncs, Bool.and_eq_true] at h
  obtain ⟨⟨⟨⟨⟨hitems, hfilter⟩, hgroup⟩, _⟩, hvisit⟩, _⟩ := h
  unfold aggUpdateRow
  refine NM_bind (NM_filter O ok hok env q.filter hfilter) (fun valid => ?_)
  split
  · rfl
  · refine NM_bind ?_ (fun key => ?_)
    · cases hg : q.groupBy with
      | none => rfl
      | some parts =>
        rw [hg] at hgroup
        exact NM_evalList O ok hok env _ (allFuncsList_map ok (·.1) parts hgroup)
    refine NM_bind (NM_updateAggregates O ok hok _ _ _ _ _ ?_) (fun s => ?_)
    · intro p hp
      have hk : p.2 ∈ q.items.map (·.kind) := mem_enumFrom (i := p.1) (by cases p; exact hp)
      obtain ⟨it, hit, e⟩ := List.mem_map.1 hk
      have := List.all_eq_true.1 hitems it hit
      simp only [AggItem.allFuncs, Bool.and_eq_true] at this
      rw [← e]; exact this.1
    refine NM_bind ?_ (fun _ => rfl)
    split
    · exact NM_havingUpdates O ok hok _ _ _ _ _ _ hvisit
    · rfl

/-! ### results -/

theorem NM_cellOf (q : AggStmt) (idx : Nat) (item : AggItem) (key : List Value) (subs : List (Nat × Value))
    (h : item.allFuncs ok = true) : NM (cellOf O q idx item key subs) := by
  simp only [AggItem.allFuncs, Bool.and_eq_true] at h
  unfold cellOf
  split
  · nm
  · unfold applyTransform
    cases ht : item.transform with
    | none => rfl
    | some e =>
      have := h.2
      rw [ht] at this
      exact NM_eval O ok hok _ e this

theorem NM_rowOf (q : AggStmt) (key : List Value) (subs : List (Nat × Value)) (items : List (Nat × AggItem))
    (h : ∀ p ∈ items, p.2.allFuncs ok = true) : NM (rowOf O q key subs items) := by
  induction items with
  | nil => rfl
  | cons p rest ih =>
    obtain ⟨i, item⟩ := p
    unfold rowOf
    refine NM_bind (NM_cellOf O ok hok q i item key subs (h (i, item) List.mem_cons_self)) (fun _ => ?_)
    exact NM_bind (ih (fun p hp => h p (List.mem_cons_of_mem _ hp))) (fun _ => rfl)

omit hok in
theorem items_ok' (q : AggStmt) (h : q.items.all (·.allFuncs ok) = true) : ∀ p ∈ enumFrom 0 q.items, p.2.allFuncs ok = true :=
  fun p hp => List.all_eq_true.1 h p.2 (items_enum q p hp)

theorem NM_acceptGroup (q : AggStmt) (having : Expr) (key : List Value) (subs : List (Nat × Value))
    (h : having.allFuncs ok = true) : NM (acceptGroup O q having key subs) := by
  unfold acceptGroup
  exact NM_bind (NM_eval O ok hok _ _ h) (fun _ => NM_condHolds _)

theorem NM_resultRows (q : AggStmt) (groups : GroupMap Value) (seen : List (List Value))
    (hitems : q.items.all (·.allFuncs ok) = true) (hhaving : optAllFuncs ok q.having = true) :
    NM (resultRows O q groups seen) := by
  induction groups generalizing seen with
  | nil => rfl
  | cons g rest ih =>
    obtain ⟨key, subs⟩ := g
    unfold resultRows
    refine NM_bind (NM_rowOf O ok hok q key subs _ (items_ok' ok q hitems)) (fun row => ?_)
    refine NM_bind (x := match q.having with
      | some h => acceptGroup O q h key subs
      | none => (pure true : Outcome Bool)) ?_ (fun keep => ?_)
    · cases hh : q.having with
      | none => rfl
      | some e => rw [hh] at hhaving; exact NM_acceptGroup O ok hok _ _ _ _ hhaving
    · repeat' (first | exact ih _ | exact NM_bind (ih _) (fun _ => NM_pure _) | split)

theorem NM_aggColumn (q : AggStmt) (i : Nat) (item : AggItem) (h : item.allFuncs ok = true) (groups : GroupMap Value) :
    NM (aggColumn O q i item groups) := by
  induction groups with
  | nil => rfl
  | cons g rest ih =>
    obtain ⟨key, subs⟩ := g
    unfold aggColumn
    refine NM_bind (NM_cellOf O ok hok q i item key subs h) (fun _ => ?_)
    exact NM_bind ih (fun _ => rfl)

/-- the column pass of `execute_result` (`extract_result_rows_by_column`) -/
theorem NM_checkRows (q : AggStmt) (groups : GroupMap Value) (items : List (Nat × AggItem))
    (h : ∀ p ∈ items, p.2.allFuncs ok = true) : NM (aggColumns O q groups items) := by
  induction items with
  | nil => rfl
  | cons p rest ih =>
    obtain ⟨i, item⟩ := p
    unfold aggColumns
    refine NM_bind (NM_aggColumn O ok hok q i item (h (i, item) List.mem_cons_self) groups) (fun _ => ?_)
    exact NM_bind (ih (fun p hp => h p (List.mem_cons_of_mem _ hp))) (fun _ => rfl)

theorem NM_aggResult (q : AggStmt) (st : AggState) (h : q.allFuncs ok = true) : NM (aggResult O q st) := by
  simp only [AggStmt.allFuncs, Bool.and_eq_true] at h
  obtain ⟨⟨⟨⟨⟨hitems, _⟩, _⟩, hhaving⟩, _⟩, _⟩ := h
  unfold aggResult
  simp only
  refine NM_bind (NM_checkRows O ok hok q _ _ (items_ok' ok q hitems)) (fun _ => ?_)
  exact NM_bind (NM_resultRows O ok hok q _ [] hitems hhaving) (fun _ => rfl)

theorem NM_finalResult (q : AggStmt) (es : EngineState) (h : q.allFuncs ok = true) : NM (finalResult O q es) := by
  unfold finalResult
  exact NM_bind (NM_aggResult O ok hok q es.agg h) (fun _ => rfl)

/-! ### the engine -/

theorem NM_selectOne (q : SelectStmt) (seen : List (List Value)) (env : Env) (keys : List String)
    (h : q.allFuncs ok = true) : NM (selectOne O q seen env keys) := by
  simp only [SelectStmt.allFuncs, Bool.and_eq_true] at h
  unfold selectOne
  refine NM_bind (NM_filter O ok hok env q.filter h.2) (fun valid => ?_)
  split
  · rfl
  · have hl : NM (evalList O env (if q.wildcard then (keys, keys.map Expr.column)
        else (q.projections.map (·.1), q.projections.map (·.2))).2) := by
      split
      · exact NM_evalList O ok hok env _ (allFuncsList_columns ok keys)
      · exact NM_evalList O ok hok env _ (allFuncsList_map ok (·.2) q.projections h.1)
    refine NM_bind hl (fun vals => ?_)
    nm

theorem NM_selectEnvs (q : SelectStmt) (envs : List (Env × List String)) (seen : List (List Value)) (acc : Option RowOut)
    (h : q.allFuncs ok = true) : NM (selectEnvs O q envs seen acc) := by
  induction envs generalizing seen acc with
  | nil => rfl
  | cons p rest ih =>
    obtain ⟨env, keys⟩ := p
    unfold selectEnvs
    exact NM_bind (NM_selectOne O ok hok _ _ _ _ h) (fun _ => ih _ _)

theorem NM_aggEnvs (q : AggStmt) (envs : List (Env × List String)) (st : AggState) (any : Bool)
    (h : q.allFuncs ok = true) : NM (aggEnvs O q envs st any) := by
  induction envs generalizing st any with
  | nil => rfl
  | cons p rest ih =>
    obtain ⟨env, ks⟩ := p
    unfold aggEnvs
    exact NM_bind (NM_aggUpdateRow O ok hok _ _ _ h) (fun _ => ih _ _)

/-- one line through the engine (batch mode and follow mode) never stops for a missing fact -/
theorem NM_executeLine (qy : Query) (idx : JoinIndex) (w : Bool) (es : EngineState) (l : Line)
    (h : qy.stmt.allFuncs ok = true) : NM (executeLine O qy idx w es l) := by
  unfold executeLine
  split
  · rename_i q hq
    rw [hq] at h
    split
    · rfl
    · exact NM_bind (NM_lineEnvs _ _ _ _) (fun _ => NM_bind (NM_selectEnvs O ok hok _ _ _ _ h) (fun _ => rfl))
  · rename_i q hq
    rw [hq] at h
    split
    · split <;> rfl
    · refine NM_bind (NM_lineEnvs _ _ _ _) (fun envs => ?_)
      split
      · refine NM_bind (NM_aggEnvs O ok hok _ _ _ _ h) (fun p => ?_)
        obtain ⟨s1, u⟩ := p
        cases u with
        | false => rfl
        | true =>
          simp only [if_true]
          exact NM_bind (NM_aggResult O ok hok q s1 h) (fun _ => rfl)
      · exact NM_bind (NM_aggEnvs O ok hok _ _ _ _ h) (fun _ => rfl)

/-! ### the executor -/

omit hok in
theorem failWith_skipped {α : Type} (ro : RunOut) (o : Outcome α) (hn : NM o) (h : ro.skipped = none) :
    (failWith ro o).skipped = none := by
  unfold failWith
  cases o with
  | ok a => exact h
  | error k => exact h
  | panic s => exact h
  | oracleMissing w => simp [NM, Outcome.isMissing] at hn

theorem runFile_not_skipped (qy : Query) (idx : JoinIndex) (w : Bool) (stopAt : Option Nat) (f : List FileLine)
    (ls : LoopState) (hq : qy.stmt.allFuncs ok = true) (h : ls.out.skipped = none) :
    (runFile O qy idx w stopAt f ls).out.skipped = none := by
  induction f generalizing ls with
  | nil => exact h
  | cons fl rest ih =>
    unfold runFile
    split
    · exact h
    · split
      · exact h
      · have hnm := NM_executeLine O ok hok qy idx w ls.es fl.line hq
        dsimp only
        split
        · split
          · exact h
          · exact ih _ h
        · exact failWith_skipped _ _ hnm h

theorem runFiles_not_skipped (qy : Query) (idx : JoinIndex) (w : Bool) (stopAt : Option Nat) (fs : List (List FileLine))
    (ls : LoopState) (hq : qy.stmt.allFuncs ok = true) (h : ls.out.skipped = none) :
    (runFiles O qy idx w stopAt fs ls).out.skipped = none := by
  induction fs generalizing ls with
  | nil => exact h
  | cons f rest ih =>
    unfold runFiles
    split
    · exact h
    · have h1 := runFile_not_skipped O ok hok qy idx w stopAt f ls hq h
      dsimp only
      split
      · exact h1
      · exact ih _ h1

/-- the batch loop and the final print, given any join index that was set up without asking -/
theorem runBatch_not_skipped (qy : Query) (joined : List FileLine) (files : List (List FileLine)) (stopAt : Option Nat)
    (hq : qy.stmt.allFuncs ok = true) : (runBatch O qy joined files stopAt).skipped = none := by
  have body : ∀ idx : JoinIndex, ∀ w : Bool, (runFiles O qy idx w stopAt files {}).out.skipped = none :=
    fun idx w => runFiles_not_skipped O ok hok qy idx w stopAt files {} hq rfl
  have tail : ∀ idx : JoinIndex, ∀ w : Bool,
      (if hasFailed (runFiles O qy idx w stopAt files {}).out then (runFiles O qy idx w stopAt files {}).out
        else match qy.stmt with
          | .aggregate q =>
            match finalResult O q (runFiles O qy idx w stopAt files {}).es with
            | .ok r => { (runFiles O qy idx w stopAt files {}).out with
                printed := (runFiles O qy idx w stopAt files {}).out.printed ++ printResult r true }
            | o => failWith (runFiles O qy idx w stopAt files {}).out o
          | _ => (runFiles O qy idx w stopAt files {}).out).skipped = none := by
    intro idx w
    split
    · exact body idx w
    · split
      · rename_i q hs
        rw [hs] at hq
        have hn := NM_finalResult O ok hok q (runFiles O qy idx w stopAt files {}).es hq
        split
        · exact body idx w
        · exact failWith_skipped _ _ hn (body idx w)
      · exact body idx w
  unfold runBatch
  cases hj : qy.join with
  | none => exact tail _ _
  | some j =>
    dsimp only
    have hn := NM_setupJoin qy.table j joined
    cases hs : setupJoin qy.table j (loadJoinFile j joined) with
    | ok idx => exact tail _ _
    | error k => rfl
    | panic s => rfl
    | oracleMissing w => rw [hs] at hn; simp [NM, Outcome.isMissing] at hn

end

/-! ### a run ends in at most one way

`RunOut` has three independent failure fields (`error`, `panicked`, `skipped`). The executor sets one of them only
through `failWith` (or the `FailReadFile` branch), on an output that has none set, and stops. -/

/-- nothing failed -/
def Clean (ro : RunOut) : Prop := ro.error = none ∧ ro.panicked = false ∧ ro.skipped = none

/-- at most one of `error`, `panicked`, `skipped` is set -/
def OneWay (ro : RunOut) : Prop :=
  (ro.error = none ∧ ro.panicked = false ∧ ro.skipped = none) ∨
  ((∃ k, ro.error = some k) ∧ ro.panicked = false ∧ ro.skipped = none) ∨
  (ro.error = none ∧ ro.panicked = true ∧ ro.skipped = none) ∨
  (ro.error = none ∧ ro.panicked = false ∧ ∃ w, ro.skipped = some w)

theorem Clean.oneWay {ro : RunOut} (h : Clean ro) : OneWay ro := Or.inl h

theorem clean_of_not_failed {ro : RunOut} (h : hasFailed ro = false) : Clean ro := by
  unfold hasFailed at h
  simp only [Bool.or_eq_false_iff] at h
  obtain ⟨⟨h1, h2⟩, h3⟩ := h
  refine ⟨?_, h2, ?_⟩
  · cases he : ro.error with
    | none => rfl
    | some k => rw [he] at h1; cases h1
  · cases hs : ro.skipped with
    | none => rfl
    | some k => rw [hs] at h3; cases h3

theorem failWith_oneWay {α : Type} (ro : RunOut) (o : Outcome α) (h : Clean ro) : OneWay (failWith ro o) := by
  obtain ⟨h1, h2, h3⟩ := h
  unfold failWith
  cases o with
  | ok a => exact Or.inl ⟨h1, h2, h3⟩
  | error k => exact Or.inr (Or.inl ⟨⟨k, rfl⟩, h2, h3⟩)
  | panic s => exact Or.inr (Or.inr (Or.inl ⟨h1, rfl, h3⟩))
  | oracleMissing w => exact Or.inr (Or.inr (Or.inr ⟨h1, h2, ⟨w, rfl⟩⟩))

/-- loop invariant: nothing failed yet, or the loop has been told to stop and failed in one way -/
def LoopOneWay (ls : LoopState) : Prop := Clean ls.out ∨ (ls.stop = true ∧ OneWay ls.out)

theorem runFile_oneWay (O : Oracles) (qy : Query) (idx : JoinIndex) (w : Bool) (stopAt : Option Nat) (f : List FileLine)
    (ls : LoopState) (h : Clean ls.out) : LoopOneWay (runFile O qy idx w stopAt f ls) := by
  induction f generalizing ls with
  | nil => exact Or.inl h
  | cons fl rest ih =>
    unfold runFile
    split
    · exact Or.inl h
    · split
      · exact Or.inr ⟨rfl, Or.inr (Or.inl ⟨⟨_, rfl⟩, h.2.1, h.2.2⟩)⟩
      · dsimp only
        split
        · split
          · exact Or.inl h
          · exact ih _ h
        · exact Or.inr ⟨rfl, failWith_oneWay _ _ h⟩

theorem runFiles_oneWay (O : Oracles) (qy : Query) (idx : JoinIndex) (w : Bool) (stopAt : Option Nat)
    (fs : List (List FileLine)) (ls : LoopState) (h : LoopOneWay ls) : LoopOneWay (runFiles O qy idx w stopAt fs ls) := by
  induction fs generalizing ls with
  | nil => exact h
  | cons f rest ih =>
    unfold runFiles
    split
    · exact h
    · rename_i hns
      have hclean : Clean ls.out := by
        rcases h with h | ⟨hs, _⟩
        · exact h
        · simp [hs] at hns
      have h1 := runFile_oneWay O qy idx w stopAt f ls hclean
      dsimp only
      split
      · exact h1
      · exact ih _ h1

/-- **every batch run ends in at most one way**: of `error`, `panicked`, `skipped` at most one is set -/
theorem runBatch_oneWay (O : Oracles) (qy : Query) (joined : List FileLine) (files : List (List FileLine))
    (stopAt : Option Nat) : OneWay (runBatch O qy joined files stopAt) := by
  have tail : ∀ idx : JoinIndex, ∀ w : Bool,
      OneWay (if hasFailed (runFiles O qy idx w stopAt files {}).out then (runFiles O qy idx w stopAt files {}).out
        else match qy.stmt with
          | .aggregate q =>
            match finalResult O q (runFiles O qy idx w stopAt files {}).es with
            | .ok r => { (runFiles O qy idx w stopAt files {}).out with
                printed := (runFiles O qy idx w stopAt files {}).out.printed ++ printResult r true }
            | o => failWith (runFiles O qy idx w stopAt files {}).out o
          | _ => (runFiles O qy idx w stopAt files {}).out) := by
    intro idx w
    have hl := runFiles_oneWay O qy idx w stopAt files {} (Or.inl ⟨rfl, rfl, rfl⟩)
    split
    · rcases hl with h | ⟨_, h⟩
      · exact h.oneWay
      · exact h
    · rename_i hnf
      have hc := clean_of_not_failed (by simpa using hnf)
      split
      · split
        · exact Or.inl hc
        · exact failWith_oneWay _ _ hc
      · exact hc.oneWay
  unfold runBatch
  cases hj : qy.join with
  | none => exact tail _ _
  | some j =>
    dsimp only
    cases hs : setupJoin qy.table j (loadJoinFile j joined) with
    | ok idx => exact tail _ _
    | error k => exact failWith_oneWay _ _ ⟨rfl, rfl, rfl⟩
    | panic s => exact failWith_oneWay _ _ ⟨rfl, rfl, rfl⟩
    | oracleMissing w => exact failWith_oneWay _ _ ⟨rfl, rfl, rfl⟩

end NoSkipEngine
end Sqlgrep
