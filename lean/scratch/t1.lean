import SqlgrepModel.Model.ParseStmt
namespace Sqlgrep
open Parse

def PRes.Adv {α} (r : PRes α) (n : Nat) : Prop := r ≠ .fuel ∧ ∀ a s', r = .ok a s' → s'.remaining < n
def PRes.Keep {α} (r : PRes α) (n : Nat) : Prop := r ≠ .fuel ∧ ∀ a s', r = .ok a s' → s'.remaining ≤ n

theorem rem_pos (s : PSt) : 1 ≤ s.remaining := by simp [PSt.remaining]

theorem next_adv (s : PSt) : (next s).Adv s.remaining := by
  unfold next PRes.Adv mkErr
  split <;> simp_all [PSt.remaining]

#check @parseExpr.mutual_induct
