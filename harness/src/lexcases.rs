// Correspondence cases for the tokenizer model (Lean `Model/Lex.lean`, driver kinds `tok` and `near`).
// The real code: `sqlgrep::parsing::verif_hooks::tokenize` and `TokenLocation::extract_near`, under `catch`.
// Oracle facts shipped with each case, computed by calling `std` directly: Unicode class bits and `to_lowercase`
// of every non-ASCII character of the text, `f64::from_str` of every candidate number text.
use std::collections::BTreeSet;
use std::str::FromStr;

use sqlgrep::parsing::verif_hooks::{tokenize, Keyword, Operator, ParserErrorType, Token};
use sqlgrep::parsing::TokenLocation;

use crate::extract;
use crate::queries;
use crate::run::{Params, Run};
use crate::util::{catch, Caught, Rng};

/// a PRNG whose state is a scrambled function of the seed (`Rng::new` maps consecutive seeds to one stream shifted by one draw)
pub fn seeded(seed: u64, salt: u64) -> Rng {
    let mut z = seed.wrapping_mul(0xD6E8FEB86659FD93) ^ salt.wrapping_mul(0x9E3779B97F4A7C15) ^ 0x6a09e667f3bcc909;
    z = (z ^ (z >> 30)).wrapping_mul(0xBF58476D1CE4E5B9);
    z = (z ^ (z >> 27)).wrapping_mul(0x94D049BB133111EB);
    Rng(z ^ (z >> 31))
}

pub fn cps(s: &str) -> String {
    s.chars().map(|c| (c as u32).to_string()).collect::<Vec<_>>().join(".")
}

pub fn cps_list(s: &str) -> String {
    format!("({})", s.chars().map(|c| (c as u32).to_string()).collect::<Vec<_>>().join(" "))
}

/// `(cp bits (lower…))` for every distinct non-ASCII character
pub fn class_table(text: &str) -> String {
    let set: BTreeSet<char> = text.chars().filter(|c| !c.is_ascii()).collect();
    let mut out = String::from("(");
    for (i, c) in set.iter().enumerate() {
        if i > 0 { out.push(' '); }
        let bits = (c.is_alphabetic() as u32) + 2 * (c.is_numeric() as u32) + 4 * (c.is_alphanumeric() as u32) + 8 * (c.is_whitespace() as u32);
        let lower: Vec<String> = c.to_lowercase().map(|l| (l as u32).to_string()).collect();
        out.push_str(&format!("({} {} ({}))", *c as u32, bits, lower.join(" ")));
    }
    out.push(')');
    out
}

/// every text the number branch of the tokenizer could hand to `f64::from_str`: from each numeric character, the run
/// of numeric characters with at most one dot (computed from the text alone, not by the tokenizer)
pub fn number_table(text: &str) -> String {
    if !crate::util::ship_facts(crate::util::SITE_NUMBERS) { return "()".to_owned(); }
    let chars: Vec<char> = text.chars().collect();
    let mut set: BTreeSet<String> = BTreeSet::new();
    for i in 0..chars.len() {
        if !chars[i].is_numeric() { continue; }
        if i > 0 && chars[i - 1].is_numeric() && chars.len() > 300 { continue; }
        let mut j = i;
        let mut dot = false;
        let mut s = String::new();
        while j < chars.len() {
            if chars[j].is_numeric() { s.push(chars[j]); }
            else if chars[j] == '.' && !dot { dot = true; s.push('.'); }
            else { break; }
            j += 1;
        }
        if dot { set.insert(s); }
    }
    let mut out = String::from("(");
    for (i, s) in set.iter().enumerate() {
        if i > 0 { out.push(' '); }
        match f64::from_str(s) {
            Ok(v) => out.push_str(&format!("({} {})", cps_list(s), v.to_bits())),
            Err(_) => out.push_str(&format!("({} e)", cps_list(s))),
        }
    }
    out.push(')');
    out
}

pub fn show_token(t: &Token) -> String {
    match t {
        Token::Int(i) => format!("int:{}", i),
        Token::Float(f) => format!("float:{}", f.to_bits()),
        Token::String(s) => format!("str:{}", cps(s)),
        Token::Null => "null".to_owned(),
        Token::True => "true".to_owned(),
        Token::False => "false".to_owned(),
        Token::Operator(Operator::Single(c)) => format!("op1:{}", *c as u32),
        Token::Operator(Operator::Dual(c, d)) => format!("op2:{}.{}", *c as u32, *d as u32),
        Token::Identifier(s) => format!("ident:{}", cps(s)),
        Token::Keyword(k) => format!("kw:{:?}", k),
        Token::LeftParentheses => "lp".to_owned(),
        Token::RightParentheses => "rp".to_owned(),
        Token::LeftSquareParentheses => "lsq".to_owned(),
        Token::RightSquareParentheses => "rsq".to_owned(),
        Token::LeftCurlyParentheses => "lcu".to_owned(),
        Token::RightCurlyParentheses => "rcu".to_owned(),
        Token::Comma => "comma".to_owned(),
        Token::SemiColon => "semi".to_owned(),
        Token::Colon => "colon".to_owned(),
        Token::DoubleColon => "dcolon".to_owned(),
        Token::RightArrow => "rarrow".to_owned(),
        Token::End => "end".to_owned(),
    }
}

pub enum Lexed {
    Ok(Vec<(usize, usize, Token)>),
    Err(String, usize, usize),
    Panic(String),
}

pub fn lex_real(text: &str) -> Lexed {
    match catch(|| tokenize(text)) {
        Caught::Done(Ok(ts)) => Lexed::Ok(ts.into_iter().map(|t| (t.location.line, t.location.column, t.token)).collect()),
        Caught::Done(Err(e)) => {
            let kind = match e.error {
                ParserErrorType::IntConvertError => "IntConvertError".to_owned(),
                ParserErrorType::FloatConvertError => "FloatConvertError".to_owned(),
                ParserErrorType::AlreadyHasDot => "AlreadyHasDot".to_owned(),
                other => format!("Other({:?})", other),
            };
            Lexed::Err(kind, e.location.line, e.location.column)
        }
        Caught::Panic(m) => Lexed::Panic(m),
    }
}

pub fn lexed_wire(l: &Lexed) -> String {
    match l {
        Lexed::Ok(ts) => {
            let mut s = String::from("ok");
            for (l, c, t) in ts { s.push_str(&format!(" {}:{}:{}", l, c, show_token(t))); }
            s
        }
        Lexed::Err(k, l, c) => format!("err {} {} {}", k, l, c),
        Lexed::Panic(_) => "panic".to_owned(),
    }
}

fn text_flags(text: &str, l: &Lexed) -> String {
    let mut f = String::new();
    if !text.is_ascii() { f.push('u'); }
    if text.contains("--") { f.push('c'); }
    if text.contains('\\') { f.push('b'); }
    if text.contains('\n') { f.push('n'); }
    if let Lexed::Ok(ts) = l {
        let has = |p: &dyn Fn(&Token) -> bool| ts.iter().any(|(_, _, t)| p(t));
        if has(&|t| matches!(t, Token::String(_))) { f.push('s'); }
        if has(&|t| matches!(t, Token::Float(_))) { f.push('f'); }
        if has(&|t| matches!(t, Token::Operator(Operator::Dual(_, _)) | Token::RightArrow | Token::DoubleColon)) { f.push('2'); }
        if has(&|t| matches!(t, Token::Keyword(Keyword::IsNot) | Token::Keyword(Keyword::NotIn))) { f.push('k'); }
    }
    f
}

/// one `tok` case; returns the real result so that callers can derive `near` cases from the locations
pub fn emit_tok(run: &mut Run, text: &str, gen: &str) -> Lexed {
    let real = lex_real(text);
    let line = format!("tok {} {} {}", cps_list(text), class_table(text), number_table(text));
    let kind = match &real { Lexed::Ok(_) => "ok".to_owned(), Lexed::Err(k, _, _) => k.clone(), Lexed::Panic(_) => "panic".to_owned() };
    run.count(&format!("tok:{}", kind));
    let tag = format!("tok:{}:{}:{}", gen, kind, text_flags(text, &real));
    run.case_with_desc(line, lexed_wire(&real), tag, format!("tokenize {:?}", text));
    if let Lexed::Panic(m) = &real {
        run.fail(format!("tokenize {:?}", text), "tokenize-panics", format!("tokenize panicked: {}", m));
    }
    run.oracle_checks += 1;
    real
}

pub fn emit_near(run: &mut Run, text: &str, line: usize, col: usize, gen: &str) {
    let loc = TokenLocation::new(line, col);
    let real = catch(|| loc.extract_near(text));
    let (answer, kind) = match &real {
        Caught::Done(s) => (format!("near {}", cps_list(s)), if s.is_empty() { "empty" } else { "text" }),
        Caught::Panic(_) => ("panic".to_owned(), "panic"),
    };
    let nlines = text.lines().count();
    let place = if line >= nlines { "beyond-lines" } else {
        let len = text.lines().nth(line).map(|l| l.chars().count()).unwrap_or(0);
        if col == 0 { "col0" } else if col < len { "inside" } else if col == len { "at-end" } else { "beyond-col" }
    };
    run.count(&format!("near:{}", kind));
    let case = format!("near {} {} {} {}", cps_list(text), line, col, class_table(text));
    run.case_with_desc(case, answer, format!("near:{}:{}:{}:{}", gen, kind, place, if text.is_ascii() { "a" } else { "u" }),
        format!("TokenLocation({}:{}).extract_near({:?})", line, col, text));
    run.oracle_checks += 1;
    if let Caught::Panic(m) = real {
        run.fail(format!("TokenLocation({}:{}).extract_near({:?})", line, col, text), "extract_near-panics", format!("extract_near panicked: {}", m));
    }
}

/// `near` cases for a text: every location the tokenizer produced, plus random ones (also outside the text)
pub fn near_cases(run: &mut Run, rng: &mut Rng, text: &str, real: &Lexed, gen: &str, extra: usize) {
    let mut locs: BTreeSet<(usize, usize)> = BTreeSet::new();
    match real {
        Lexed::Ok(ts) => {
            for (l, c, _) in ts { locs.insert((*l, *c)); }
            while locs.len() > 6 { let k = *locs.iter().nth(rng.below(locs.len())).unwrap(); locs.remove(&k); }
        }
        Lexed::Err(_, l, c) => { locs.insert((*l, *c)); }
        Lexed::Panic(_) => {}
    }
    let nl = text.lines().count();
    for _ in 0..extra {
        let l = rng.below(nl + 2);
        let len = text.lines().nth(l).map(|x| x.chars().count()).unwrap_or(0);
        let c = match rng.below(5) { 0 => 0, 1 => len, 2 => len + 1 + rng.below(3), _ => rng.below(len + 1) };
        locs.insert((l, c));
    }
    for (l, c) in locs { emit_near(run, text, l, c, gen); }
}

// ---------------------------------------------------------------------------------------------
// generators
// ---------------------------------------------------------------------------------------------

const KEYWORDS: &[&str] = &["select", "from", "where", "group", "by", "as", "and", "or", "create", "table", "not", "is", "in",
    "having", "inner", "outer", "join", "on", "extract", "default", "distinct", "case", "when", "then", "else", "end", "limit"];
const WORDS: &[&str] = &["null", "true", "false", "count", "sum", "max", "array_agg", "regexp_matches", "int", "text", "real", "boolean",
    "timestamp", "split", "match", "trim", "convert", "x", "a1", "a_b", "t", "u", "line", "input", "selects", "nulls", "isnot", "notin", "e9"];
const UNI_WORDS: &[&str] = &["é", "né", "İ", "İs", "\u{212a}", "o\u{212a}", "\u{212a}ey", "ſelect", "ΣΑΣ", "日本", "aé1", "ß", "ǅ", "x²", "a٣", "ⅷ", "e\u{301}", "Ｓelect", "𝐬elect"];
const NUMBERS: &[&str] = &["0", "1", "42", "007", "9223372036854775807", "9223372036854775808", "99999999999999999999999", "1.5", "0.0", "5.", "1.2.3", "1..2",
    "10.25", "٣", "1٣", "²", "1²", "½", "1.٣", "٣.5", "3.14159265358979323846264338327950288", "1.7976931348623157", "123456789012345678901234567890.5",
    "0.000000000000000000000000000000000000001", "4.", "00.00"];
const OPCHARS: &[&str] = &["+", "-", "*", "/", "<", ">", "=", "!", ".", "^", "%", "&", "|", "~", "?", "@", "#", "$", "_", "\"", "`", "€", "\u{0}", "\u{7f}", "\u{301}", "😀"];
const OPS2: &[&str] = &["<=", ">=", "!=", "=>", "--", "<>", "==", "->", "=<", "<==", "=>>", "!==", "---", "-->", "<=>", "::", ":::", "::::", ": :", ":=", "=:"];
const PUNCT: &[&str] = &["(", ")", "[", "]", "{", "}", ",", ";", ":", "::"];
const SPACES: &[&str] = &[" ", " ", " ", "  ", "\t", "\n", "\r\n", "\n\n", "\r", "\u{a0}", "\u{2028}", "\u{85}", "\u{3000}", "\u{b}", "\u{c}", "\u{200b}", "\u{feff}"];
const STR_BODIES: &[&str] = &["", "a", "hello world", "it\\'s", "\\\\", "a\\nb", "é", "-- not a comment", "a\nb", "\\", "'", "\\'", "x\\", "SELECT", "1.5", "\u{a0}", "a''b", "\\a\\b", "\r\n"];
const COMMENTS: &[&str] = &["--", "-- c", "--c\n", "-- select 'x' \\ \n", "--\n", "-- é\r\n", "----\n", "--'\n", "-- a -- b\n", "--\\\n", "-- a; b c\n", "--;x\n", "-- 1.2.3 (\n"];

fn pk<'a>(rng: &mut Rng, xs: &[&'a str]) -> &'a str { xs[rng.below(xs.len())] }

fn flip_case(rng: &mut Rng, s: &str) -> String {
    match rng.below(4) {
        0 => s.to_owned(),
        1 => s.to_uppercase(),
        _ => s.chars().map(|c| if rng.chance(1, 2) { c.to_uppercase().next().unwrap_or(c) } else { c }).collect(),
    }
}

fn soup_atom(rng: &mut Rng) -> String {
    match rng.below(20) {
        0..=3 => { let w = pk(rng, KEYWORDS); flip_case(rng, w) },
        4..=6 => { let w = pk(rng, WORDS); flip_case(rng, w) },
        7 => pk(rng, UNI_WORDS).to_owned(),
        8 | 9 => pk(rng, NUMBERS).to_owned(),
        10 | 11 => pk(rng, OPCHARS).to_owned(),
        12 => pk(rng, OPS2).to_owned(),
        13 | 14 => pk(rng, PUNCT).to_owned(),
        15 | 16 => format!("'{}'", pk(rng, STR_BODIES)),
        17 => pk(rng, COMMENTS).to_owned(),
        18 => pk(rng, &["\\", "\\\\", "\\'", "'", "\\n", "\\ ", "\\-"]).to_owned(),
        _ => pk(rng, SPACES).to_owned(),
    }
}

pub fn gen_soup(rng: &mut Rng, max_atoms: usize) -> String {
    let n = rng.below(max_atoms + 1);
    let mut s = String::new();
    let glue = rng.below(4); // 0: mostly adjacent, 1..: mostly separated
    for _ in 0..n {
        s.push_str(&soup_atom(rng));
        if glue == 0 { if rng.chance(1, 4) { s.push_str(pk(rng, SPACES)); } }
        else if !rng.chance(1, 5) { s.push_str(pk(rng, SPACES)); }
    }
    s
}

/// IS / NOT / IN / colon / operator sequences with every kind of separation between them
fn gen_fusion(rng: &mut Rng) -> String {
    let seqs: &[&[&str]] = &[&["is", "not"], &["not", "in"], &["is", "not", "in"], &["not", "not", "in"], &["is", "is", "not"], &["x", "is", "not", "null"],
        &[":", ":"], &[":", ":", ":"], &["<", "="], &[">", "="], &["!", "="], &["=", ">"], &["-", "-"], &["<", "=", ">"], &["-", "-", "-"], &["<", "-", "-"],
        &["=", "=", ">"], &["a", "-", "-", "b"], &["1", ".", "5"], &["a", ".", "b"], &["1", "a"], &["a", "1"], &["a", "_"], &["_", "a"], &["1", "."], &["x", "'s'"], &["'s'", "'t'"]];
    let seq = *rng.pick(seqs);
    let seps: &[&str] = &["", "", " ", "\n", "\t", "-- c\n", "--\n", " -- c\n ", "\\", "\u{a0}", "\r\n"];
    let mut s = String::new();
    if rng.chance(1, 3) { s.push_str(pk(rng, seps)); }
    for (i, w) in seq.iter().enumerate() {
        if i > 0 { s.push_str(pk(rng, seps)); }
        s.push_str(&flip_case(rng, w));
    }
    if rng.chance(1, 2) { s.push_str(pk(rng, seps)); }
    if rng.chance(1, 4) { s.push_str(pk(rng, &["--", "-- end", "-", "'", "\\"])); }
    s
}

const UNI_ALPHABET: &[char] = &['a', 'Z', '0', '9', ' ', '\n', '\'', '\\', '-', '.', ':', '_', '<', '=', '>', '!', '(', ',',
    'é', '٣', '²', '\u{a0}', '\u{2028}', '\u{212a}', 'İ', 'ß', 'Σ', 'ς', '日', '½', 'Ⅷ', '\u{301}', '\u{200b}', '\u{85}', '😀', '\u{10ffff}', '\u{0}', '\r', '\t', 'ǅ', '𝟗', '〇', '\u{1680}'];

pub fn gen_unicode(rng: &mut Rng, max_len: usize) -> String {
    let n = rng.below(max_len + 1);
    (0..n).map(|_| if rng.chance(1, 10) { std::char::from_u32(rng.below(0x3000) as u32).unwrap_or('x') } else { *rng.pick(UNI_ALPHABET) }).collect()
}

/// re-lay a statement text without knowing its tokens: whitespace runs replaced, letters outside strings case-flipped
pub fn relayout_chars(rng: &mut Rng, text: &str) -> String {
    let mut out = String::new();
    let mut in_str = false;
    let mut esc = false;
    let flip = rng.below(3);
    for c in text.chars() {
        if in_str {
            out.push(c);
            if esc { esc = false; } else if c == '\\' { esc = true; } else if c == '\'' { in_str = false; }
            continue;
        }
        if c == '\'' { in_str = true; out.push(c); continue; }
        if c == ' ' || c == '\n' {
            match rng.below(8) {
                0 => out.push_str("\n"),
                1 => out.push_str("  \t"),
                2 => out.push_str(" -- note\n"),
                3 => out.push_str("\r\n"),
                4 => out.push_str(" --\n"),
                _ => out.push(c),
            }
            continue;
        }
        if c.is_alphabetic() && flip > 0 && rng.chance(1, flip as u64 + 1) {
            if c.is_uppercase() { out.extend(c.to_lowercase()); } else { out.extend(c.to_uppercase()); }
        } else {
            out.push(c);
        }
    }
    out
}

pub fn statement_texts(rng: &mut Rng, n: usize) -> Vec<String> {
    let mut out = vec![queries::MAIN_DEF.to_owned(), queries::MAIN_DEF_BOOL.to_owned(), queries::JOIN_DEF.to_owned()];
    let opts = queries::QueryOpts { allow_limit: true, allow_distinct: true, allow_join: true, aggregate: None };
    for i in 0..n {
        if i % 3 == 2 {
            let d = extract::gen_def(rng, (rng.clone().below(11)) as u64);
            out.push(d.render(rng));
        } else {
            let sch = queries::gen_schema(rng);
            out.push(queries::gen_query(rng, &sch, &opts, "/tmp/j.log").text);
        }
    }
    out
}

const FIXED: &[&str] = &["", " ", "\n", "--", "-", "---", "-- x", "a--", "a --", "a -- b\nc", "'", "''", "'a", "'a\\'", "\\", "\\\\", "\\'", "a\\b", "1.2.3", "1.", ".5", "1..",
    "9223372036854775808", "a\n", "a\n\n", "a\r\nb", "\r", "x IS\n-- c\nNOT NULL", "NOT\tIN", ": :", ":\n:", ":::", "< =", "<=", "<\\=", "=>", "= >", "<=>", "a_b", "_a", "a'b'c",
    "select 'it\\'s' -- c\nfrom t;", "1a", "a1", "é1", "1é", "٣", "x -- é\n y", "'multi\nline' x", "x\n  y\n    z", "1 .5", "12 . 5", "a.b.c", "\u{a0}a\u{2028}b", "İS", "\u{212a}",
    "SELECT x FROM t WHERE y IS NOT NULL AND z NOT IN (1, 2) -- done", "a - -b", "a--b\nc", "- -", "--\n--\n--", "a;--", "'a'--", "1--2\n3"];

/// every text over a small alphabet up to a length (exhaustive small scope; labelled as such in the tags)
fn exhaustive(run: &mut Run, alphabet: &[char], maxlen: usize) {
    let mut idx: Vec<usize> = Vec::new();
    loop {
        // next text in length-lexicographic order
        let mut k = idx.len();
        loop {
            if k == 0 { idx = vec![0; idx.len() + 1]; break; }
            k -= 1;
            if idx[k] + 1 < alphabet.len() { idx[k] += 1; for j in k + 1..idx.len() { idx[j] = 0; } break; }
        }
        if idx.len() > maxlen { break; }
        let t: String = idx.iter().map(|i| alphabet[*i]).collect();
        emit_tok(run, &t, "exhaustive");
    }
}

pub fn gen_all(run: &mut Run, rng: &mut Rng, p: &Params) {
    if p.tier_thorough {
        exhaustive(run, &['a', 'N', '1', '.', '\'', '\\', '-', '<', '=', ' ', '\n', ':'], 4);
        exhaustive(run, &['i', 's', 'n', 'o', 't', ' ', '-', '\n'], 6);
    } else {
        exhaustive(run, &['a', '1', '.', '\'', '\\', '-', '<', '=', ' ', '\n', ':'], 3);
    }
    for t in FIXED {
        let real = emit_tok(run, t, "fixed");
        near_cases(run, rng, t, &real, "fixed", 1);
    }
    // every pair of ASCII punctuation characters, adjacent and separated
    let punct: Vec<char> = (0x21u8..0x7f).map(|b| b as char).filter(|c| !c.is_ascii_alphanumeric()).collect();
    for a in &punct {
        for b in &punct {
            if p.tier_thorough || rng.chance(1, 4) || "<>=!-:".contains(*a) {
                emit_tok(run, &format!("{}{}", a, b), "pair");
                if "<>=!-:".contains(*a) { emit_tok(run, &format!("{} {}", a, b), "pair-sp"); }
            }
        }
    }
    for _ in 0..p.n(700, 30000) {
        let t = gen_soup(rng, 14);
        let real = emit_tok(run, &t, "soup");
        if rng.chance(1, 3) { near_cases(run, rng, &t, &real, "soup", 2); }
    }
    for _ in 0..p.n(400, 10000) {
        let t = gen_fusion(rng);
        emit_tok(run, &t, "fusion");
    }
    for _ in 0..p.n(300, 10000) {
        let t = gen_unicode(rng, 16);
        let real = emit_tok(run, &t, "unicode");
        near_cases(run, rng, &t, &real, "unicode", 2);
    }
    let stmts = statement_texts(rng, p.n(120, 3000));
    for (i, s) in stmts.iter().enumerate() {
        let real = emit_tok(run, s, "stmt");
        if i % 4 == 0 { near_cases(run, rng, s, &real, "stmt", 1); }
        let v = relayout_chars(rng, s);
        let real = emit_tok(run, &v, "stmt-relaid");
        if i % 4 == 1 { near_cases(run, rng, &v, &real, "stmt-relaid", 1); }
    }
    // truncations: every prefix (by characters) of some texts of every kind
    let mut bases: Vec<String> = Vec::new();
    for i in 0..p.n(8, 200) { bases.push(relayout_chars(rng, &stmts[i % stmts.len()])); }
    for _ in 0..p.n(6, 100) { bases.push(gen_soup(rng, 10)); }
    for _ in 0..p.n(4, 100) { bases.push(gen_unicode(rng, 12)); }
    for b in bases {
        let chars: Vec<char> = b.chars().collect();
        for k in 0..chars.len() {
            let t: String = chars[..k].iter().collect();
            let real = emit_tok(run, &t, "prefix");
            if rng.chance(1, 12) { near_cases(run, rng, &t, &real, "prefix", 1); }
        }
    }
}
