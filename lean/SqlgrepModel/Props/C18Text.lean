import SqlgrepModel.Props.C18
import SqlgrepModel.Props.Pipeline
import SqlgrepModel.Lemmas.PipelineLines
/-
C18, "irrespective of which other tables are defined", at TEXT level: over the whole program `Pipeline.runText`
(definition text, query text, file bytes ↦ printed lines / error), not only over `runStatement` on table lists
(`Props/C18.lean` `other_tables_irrelevant`, `extra_tables_irrelevant`).

What a definition text contributes to a run is (a) whether it is accepted at all (`parsing::parse` + `Tables::add_tables`:
one unparsable or invalid CREATE TABLE rejects the whole text), (b) whether the case shipped `Regex::new` for every
pattern in it (a fact about the outside world; else the model answers `skip`), and (c) the list of tables it defines,
of which a statement looks up its FROM table and its joined table BY NAME, the LAST definition of a name winning
(`Tables::add_table` is a `HashMap::insert`). So: further CREATE TABLE statements under OTHER names — before, between
or after the ones the statement uses — leave the answer unchanged, provided the extended text is itself accepted; a
later definition of the SAME name replaces the earlier one; an extra definition that does not parse or lower makes the
answer `rejected`. `\d` and tab completion of the interactive shell iterate the table map; they are not part of
`runText` and not of this property.
-/
namespace Sqlgrep.Props.C18Text
open Sqlgrep Sqlgrep.Pipeline
open Sqlgrep.Props.Pipeline (exFacts exDefs recordsOf)

/-- `Tables::add_tables` of a list of CREATE TABLE statements with one more appended: the tables so far, then the new one -/
theorem addTables_snoc (ss : List LStmt) (c : LStmt) (ts : List Table) (u : Table)
    (h : addTables (.multiple ss) = some ts) (hc : Pipeline.tableOf c = some u) :
    addTables (.multiple (ss ++ [c])) = some (ts ++ [u]) := by
  simp only [addTables] at h ⊢
  rw [List.mapM_append, h]
  simp [hc]

/-- a single CREATE TABLE followed by another one -/
theorem addTables_pair (c₁ c₂ : LStmt) (t u : Table) (h₁ : Pipeline.tableOf c₁ = some t) (h₂ : Pipeline.tableOf c₂ = some u) :
    addTables (.multiple [c₁, c₂]) = some [t, u] := by
  simp [addTables, h₁, h₂]

/-- **the last definition of a name is the one found** (`HashMap::insert`): a later definition of the same name shadows
every earlier one … -/
theorem later_definition_of_same_name_wins (ts : List Table) (u : Table) : getTable (ts ++ [u]) u.name = some u := by
  simp [getTable]

/-- … and a later definition of ANOTHER name changes no lookup -/
theorem later_definition_of_other_name_is_not_found (ts : List Table) (u : Table) (name : String) (h : u.name ≠ name) :
    getTable (ts ++ [u]) name = getTable ts name := by
  have : (u.name == name) = false := by simpa using h
  simp [getTable, this]

/-- **Other tables are irrelevant, for the whole program** (C18 at text level). Two definition texts that are both accepted
(`parsing::parse` answers a statement, `add_tables` succeeds, `Regex::new` of their patterns is shipped), the second
defining the tables of the first plus further tables `pre` / `post` under names that are neither the FROM table nor the
joined table of the query: for every query text, format and input the program answers the same — printed lines, error,
line count. -/
theorem other_definitions_irrelevant (F : Facts) (defsText defsText' queryText : List Char) (fmt : Print.Format) (single : Bool)
    (files : List (List Nat)) (defs defs' query : LStmt) (tables pre post : List Table) (stmt : Stmt) (fromTable : String)
    (join : Option LJoin)
    (hc : classesCover F defsText = true ∧ classesCover F queryText = true) (hc' : classesCover F defsText' = true)
    (hd : parseText (lexOracles F) (regexValidFn F) defsText = .stmt defs)
    (hd' : parseText (lexOracles F) (regexValidFn F) defsText' = .stmt defs')
    (hp : (createPatterns defs).all (fun re => ((Utf8.decode re).bind (regexValidOf F)).isSome) = true)
    (hp' : (createPatterns defs').all (fun re => ((Utf8.decode re).bind (regexValidOf F)).isSome) = true)
    (hq : parseText (lexOracles F) (regexValidFn F) queryText = .stmt query)
    (hs : stmtOf query = some (stmt, fromTable, join))
    (ht : addTables defs = some tables) (ht' : addTables defs' = some (pre ++ tables ++ post))
    (hnames : ∀ t ∈ pre ++ post, t.name ≠ fromTable ∧ ∀ j, join = some j → t.name ≠ j.joinedTable) :
    runText F defsText' queryText fmt single files = runText F defsText queryText fmt single files := by
  rw [runText_eq_runLowered F defsText' queryText fmt single files defs' query ⟨hc', hc.2⟩ hd' hp' hq,
    runText_eq_runLowered F defsText queryText fmt single files defs query hc hd hp hq,
    runLowered_eq_opt F defs' query fmt single files _ stmt fromTable join ht' hs,
    runLowered_eq_opt F defs query fmt single files _ stmt fromTable join ht hs,
    Props.C18.extra_tables_irrelevant F tables pre post stmt fromTable join files hnames]

/-! ### non-vacuity and the boundary cases, on whole invocations (kernel-evaluated) -/

/-- the hypotheses of `other_definitions_irrelevant` as one decidable check on two definition texts and a query text:
both accepted with all patterns shipped, the second one's tables are the first one's plus one more at the end, whose
name the query does not use -/
def exOtherHyps (F : Facts) (defsText defsText' queryText : List Char) : Bool :=
  classesCover F defsText && classesCover F defsText' && classesCover F queryText &&
  match parseText (lexOracles F) (regexValidFn F) defsText, parseText (lexOracles F) (regexValidFn F) defsText',
        parseText (lexOracles F) (regexValidFn F) queryText with
  | .stmt defs, .stmt defs', .stmt query =>
    (createPatterns defs).all (fun re => ((Utf8.decode re).bind (regexValidOf F)).isSome) &&
    (createPatterns defs').all (fun re => ((Utf8.decode re).bind (regexValidOf F)).isSome) &&
    match stmtOf query, addTables defs, addTables defs' with
    | some (_, fromTable, join), some tables, some tables' =>
      tables'.length == tables.length + 1 && (tables'.take tables.length).map (·.name) == tables.map (·.name) &&
      (tables'.drop tables.length).all (fun u => u.name != fromTable && (match join with
        | some j => u.name != j.joinedTable
        | none => true))
    | _, _, _ => false
  | _, _, _ => false

def exOther : List Char := exDefs ++ " CREATE TABLE other(line = '^([a-z]+);([0-9]+)$', line[1] => x TEXT);".toList

example : exOtherHyps exFacts exDefs exOther "select k, v from t".toList = true := by decide +kernel

/-- … and the two answers are the same -/
example :
    recordsOf (runText exFacts exOther "select k, v from t".toList .text false [strBytes "a;1\nb;2\n"]) =
    recordsOf (runText exFacts exDefs "select k, v from t".toList .text false [strBytes "a;1\nb;2\n"]) ∧
    recordsOf (runText exFacts exDefs "select k, v from t".toList .text false [strBytes "a;1\nb;2\n"]) =
      some (none, 2, [strBytes "k: 'a', v: 1", strBytes "k: 'b', v: 2"]) := by decide +kernel

/-- a later definition of the SAME name wins: `SELECT *` sees the columns of the second `t` only -/
example : recordsOf (runText exFacts (exDefs ++ " CREATE TABLE t(line = '^([a-z]+);([0-9]+)$', line[2] => only INT);".toList)
      "select * from t".toList .text false [strBytes "a;1\nb;2\n"]) =
    some (none, 2, [strBytes "only: 1", strBytes "only: 2"]) := by decide +kernel

/-- an extra definition that does not parse rejects the whole definition text (located parser error) … -/
example : (match runText exFacts (exDefs ++ " CREATE TABLE u(".toList) "select k, v from t".toList .text false [strBytes "a;1\n"] with
    | .rejected .definitions (.parseError _) => true
    | _ => false) = true := by decide +kernel

/-- … one whose pattern is not a valid regex is a conversion error (`Regex::new` answered `false`), and one whose
`Regex::new` fact the case did not ship makes the model abstain (`skip`), never guess -/
example : (match runText { exFacts with regexValid := ("(".toList, false) :: exFacts.regexValid }
      (exDefs ++ " CREATE TABLE u(line = '(', line[1] => x TEXT);".toList) "select k, v from t".toList .text false [strBytes "a;1\n"] with
    | .rejected .definitions (.convertError _) => true
    | _ => false) = true ∧
    (match runText exFacts (exDefs ++ " CREATE TABLE u(line = '(', line[1] => x TEXT);".toList) "select k, v from t".toList .text false
      [strBytes "a;1\n"] with
    | .skip _ => true
    | _ => false) = true := by decide +kernel

end Sqlgrep.Props.C18Text
