// C04: GROUP BY — one row per group, every aggregate computed from that group's rows.
//
// Two streams of cases, both run through the real code:
//  (1) free-form aggregate statements (queries.rs generator: 1-4 select items mixing keys, aggregates, transforms,
//      expressions as arguments; WHERE / GROUP BY / HAVING in any order) through FileExecutor — correspondence with
//      the Lean engine model, and the three-way comparison with the executable Lean specification (Spec/Agg.lean);
//  (1b) the same over a JOIN (queried table t, joined table u): the statement sees the nested loop's rows;
//  (2) typed statements built from a small AST over a table with TEXT / INT / REAL / BOOLEAN / TIMESTAMP columns,
//      biased towards all-NULL argument groups, single-row groups, p ∈ {0, .5, .99, 1}, HAVING with hidden
//      aggregates and transforms — for these an independent reference written here (from the property sentence,
//      not from the engine) computes the expected table from the admitted rows, and the implementation's table
//      (ExecutionEngine, batch configuration) is compared with it cell by cell.
use std::cmp::Ordering;

use sqlgrep::model::{Float, Value, ValueType};

use crate::engine_run::*;
use crate::queries::*;
use crate::run::{Params, Run};
use crate::runq::{parse_tables, run_engine_batch, RowsOutcome};
use crate::util::Rng;

pub fn gen_input(rng: &mut Rng, n: usize, null_pct: u64, extreme: bool) -> Vec<String> {
    (0..n).map(|_| gen_line(rng, null_pct, extreme)).collect()
}

pub fn join_lines(lines: &[String]) -> Vec<u8> {
    let mut s = String::new();
    for l in lines {
        s.push_str(l);
        s.push('\n');
    }
    s.into_bytes()
}

fn agg_tag(text: &str, r: &BatchResult) -> String {
    let mut aggs: Vec<&str> = Vec::new();
    for a in &["COUNT(*)", "COUNT(DISTINCT", "COUNT(", "SUM(", "MIN(", "MAX(", "AVG(", "STDDEV(", "VARIANCE(", "PERCENTILE(", "BOOL_", "ARRAY_AGG(", "STRING_AGG("] {
        if text.contains(a) { aggs.push(a); }
    }
    format!("{}|g{}|h{}|w{}|{}|rows{}", aggs.join(""), text.contains("GROUP BY") as u8, text.contains("HAVING") as u8, text.contains("WHERE") as u8, r.status, r.records().len().min(4))
}

// ---------------------------------------------------------------------------------------------------------------
// typed stream: table, statements as data, reference

/// Column `iv` takes `h:m:s` texts whose parts may carry a sign (`ValueType::parse` reads each part with `i64::from_str`):
/// whole seconds, NEGATIVE totals included. Column `t2` is a second TIMESTAMP with a MICROSECONDS fraction (its field is
/// optional, so the older 8-field lines still match); the EXPRESSION `(t2 - ts)` is the source of SUB-SECOND intervals of
/// either sign (finding D74: AVG over INTERVAL divided seconds and nanoseconds apart) — it is used like a column (`D`).
pub const C04_DEF: &str = "CREATE TABLE t(line = '^([a-z]+)?;(-?[0-9]+)?;(-?[0-9]+)?;([^;]+)?;(?:~|([^;]*));(true|false)?;(-?[0-9]+:-?[0-9]{2}:-?[0-9]{2})?;(?:([0-9]{4})-([0-9]{2})-([0-9]{2}) ([0-9]{2}):([0-9]{2}):([0-9]{2}))?(?:;(?:([0-9]{4})-([0-9]{2})-([0-9]{2}) ([0-9]{2}):([0-9]{2}):([0-9]{2})[.]([0-9]{6}))?)?$', line[1] => k TEXT, line[2] => v INT, line[3] => w INT, line[4] => r REAL, line[5] => s TEXT, line[6] => b BOOLEAN, line[7] => iv INTERVAL, line[8], line[9], line[10], line[11], line[12], line[13] => ts TIMESTAMP, line[14], line[15], line[16], line[17], line[18], line[19], line[20] => t2 TIMESTAMP MICROSECONDS);";

/// SQL text of each "column" of the typed statements: the nine table columns and the derived interval `(t2 - ts)`
const COLS: &[&str] = &["k", "v", "w", "r", "s", "b", "iv", "ts", "t2", "(t2 - ts)"];
/// number of TABLE columns (fields of a line); the reference rows carry one more value, `D`
const NCOLS: usize = 9;
const K: usize = 0;
const V: usize = 1;
const W: usize = 2;
const R: usize = 3;
const S: usize = 4;
const B: usize = 5;
const IV: usize = 6;
const TS: usize = 7;
const T2: usize = 8;
/// the derived INTERVAL `t2 - ts` (NULL when either is NULL): sub-second, of either sign
const D: usize = 9;

/// total nanoseconds of an interval, exactly (chrono's accessors only: `num_seconds` truncates towards zero and
/// `subsec_nanos` carries the same sign, so the sum is the signed total)
pub fn iv_ns(x: &sqlgrep::model::IntervalType) -> i128 { x.num_seconds() as i128 * 1_000_000_000 + x.subsec_nanos() as i128 }
/// the interval of `ns` total nanoseconds (floor seconds + non-negative nanoseconds, chrono's own representation)
pub fn iv_from_ns(ns: i128) -> sqlgrep::model::IntervalType {
    sqlgrep::model::IntervalType::new(ns.div_euclid(1_000_000_000) as i64, ns.rem_euclid(1_000_000_000) as u32).expect("interval inside chrono's range")
}
/// the reference row of an admitted line: the table's columns and the derived `D = t2 - ts`, computed here from the two
/// instants in integer nanoseconds
fn with_derived(mut r: Vec<Value>) -> Vec<Value> {
    let d = match (&r[T2], &r[TS]) {
        (Value::Timestamp(a), Value::Timestamp(b)) =>
            Value::Interval(iv_from_ns((a.timestamp() as i128 - b.timestamp() as i128) * 1_000_000_000 + a.timestamp_subsec_nanos() as i128 - b.timestamp_subsec_nanos() as i128)),
        _ => Value::Null,
    };
    r.push(d);
    r
}

#[derive(Clone, Debug, PartialEq)]
enum AggK {
    CountStar,
    Count(usize),
    CountDistinct(usize),
    Sum(usize),
    Min(usize),
    Max(usize),
    Avg(usize),
    Stddev(usize, bool),
    Percentile(usize, &'static str),
    BoolAnd(usize),
    BoolOr(usize),
    ArrayAgg(usize),
    StringAgg(usize, &'static str),
}

impl AggK {
    fn sql(&self) -> String {
        match self {
            AggK::CountStar => "COUNT(*)".to_owned(),
            AggK::Count(c) => format!("COUNT({})", COLS[*c]),
            AggK::CountDistinct(c) => format!("COUNT(DISTINCT {})", COLS[*c]),
            AggK::Sum(c) => format!("SUM({})", COLS[*c]),
            AggK::Min(c) => format!("MIN({})", COLS[*c]),
            AggK::Max(c) => format!("MAX({})", COLS[*c]),
            AggK::Avg(c) => format!("AVG({})", COLS[*c]),
            AggK::Stddev(c, var) => format!("{}({})", if *var { "VARIANCE" } else { "STDDEV" }, COLS[*c]),
            AggK::Percentile(c, p) => format!("PERCENTILE({}, {})", COLS[*c], p),
            AggK::BoolAnd(c) => format!("BOOL_AND({})", COLS[*c]),
            AggK::BoolOr(c) => format!("BOOL_OR({})", COLS[*c]),
            AggK::ArrayAgg(c) => format!("ARRAY_AGG({})", COLS[*c]),
            AggK::StringAgg(c, d) => format!("STRING_AGG({}, '{}')", COLS[*c], d),
        }
    }
    fn col(&self) -> Option<usize> {
        match self {
            AggK::CountStar => None,
            AggK::Count(c) | AggK::CountDistinct(c) | AggK::Sum(c) | AggK::Min(c) | AggK::Max(c) | AggK::Avg(c) | AggK::Stddev(c, _)
            | AggK::Percentile(c, _) | AggK::BoolAnd(c) | AggK::BoolOr(c) | AggK::ArrayAgg(c) | AggK::StringAgg(c, _) => Some(*c),
        }
    }
    fn name(&self) -> &'static str {
        match self {
            AggK::CountStar => "count*", AggK::Count(_) => "count", AggK::CountDistinct(_) => "countd", AggK::Sum(_) => "sum",
            AggK::Min(_) => "min", AggK::Max(_) => "max", AggK::Avg(_) => "avg", AggK::Stddev(_, _) => "stddev",
            AggK::Percentile(_, _) => "pct", AggK::BoolAnd(_) => "and", AggK::BoolOr(_) => "or", AggK::ArrayAgg(_) => "arr", AggK::StringAgg(_, _) => "str",
        }
    }
    /// INT-valued whatever the input (usable under an arithmetic wrapper and in HAVING against an INT constant)
    fn int_valued(&self) -> bool {
        match self {
            AggK::CountStar | AggK::Count(_) | AggK::CountDistinct(_) => true,
            AggK::Sum(c) | AggK::Min(c) | AggK::Max(c) | AggK::Avg(c) => *c == V || *c == W,
            _ => false,
        }
    }
}

#[derive(Clone, Debug)]
enum Item {
    Key(usize),                                  // index into `group`
    Agg(AggK, Option<(&'static str, i64, u8)>),  // optional wrapper `agg op const`, itself wrapped once more (third field:
                                                 // 0 nothing, 1 `greatest(_, 0)`, 2 `least(_, 5)`, 3 `abs(_)`, 4 `(_) * 2`, 5 `- (_)`)
}

#[derive(Clone, Debug)]
enum Pred { VPos, WNotNull, KNotA, BTrue,
    // not BOOLEAN (D69): `v + 1` (INT or NULL), `k` (TEXT or NULL), `b AND v` (v is evaluated only on rows where b is TRUE)
    VPlus1, KText, BAndV }

impl Pred {
    /// the truth value of WHERE on one row, from the documented meaning of a condition: BOOLEAN -> its value, NULL -> does
    /// not hold, another type -> `None` (no truth value: the run must report an error)
    fn truth(&self, r: &[Value]) -> Option<bool> {
        use crate::exprs::truth;
        match self {
            Pred::VPos => Some(matches!(r[V], Value::Int(x) if x > 0)),
            Pred::WNotNull => Some(r[W] != Value::Null),
            Pred::KNotA => Some(matches!(&r[K], Value::String(s) if s != "a")),
            Pred::BTrue => truth(&r[B]),
            Pred::VPlus1 => truth(&match r[V] { Value::Int(x) => Value::Int(x + 1), _ => Value::Null }),
            Pred::KText => truth(&r[K]),
            Pred::BAndV => match truth(&r[B]) { Some(true) => truth(&r[V]), other => other },
        }
    }
}

/// HAVING: a boolean combination of comparisons of aggregates with INT constants
#[derive(Clone, Debug)]
enum Having {
    Cmp(AggK, &'static str, i64),
    And(Box<Having>, Box<Having>),
    Or(Box<Having>, Box<Having>),
    Not(Box<Having>),
    /// a bare aggregate as a condition (`HAVING SUM(v)`): not a BOOLEAN (D69) — NULL does not hold, a value is an error
    Bare(AggK),
    /// an INTERVAL-valued aggregate against an interval constant of the given number of MICROSECONDS (either sign), written
    /// as a difference of two `make_timestamp` calls (the only way to write a sub-second interval)
    CmpIv(AggK, &'static str, i64),
}

/// SQL text of the interval of `us` microseconds (|us| < 60 s)
fn iv_lit(us: i64) -> String {
    let a = format!("make_timestamp(2000, 1, 1, 0, 0, {}, {})", us.abs() / 1_000_000, us.abs() % 1_000_000);
    let z = "make_timestamp(2000, 1, 1, 0, 0, 0, 0)";
    if us >= 0 { format!("({} - {})", a, z) } else { format!("({} - {})", z, a) }
}

impl Having {
    fn sql(&self) -> String {
        match self {
            Having::Cmp(a, op, c) => format!("{} {} {}", a.sql(), op, c),
            Having::And(l, r) => format!("({} AND {})", l.sql(), r.sql()),
            Having::Or(l, r) => format!("({} OR {})", l.sql(), r.sql()),
            Having::Not(x) => format!("(NOT {})", x.sql()),
            Having::Bare(a) => a.sql(),
            Having::CmpIv(a, op, us) => format!("{} {} {}", a.sql(), op, iv_lit(*us)),
        }
    }
    fn aggs<'a>(&'a self, out: &mut Vec<&'a AggK>) {
        match self {
            Having::Cmp(a, _, _) => out.push(a),
            Having::And(l, r) | Having::Or(l, r) => { l.aggs(out); r.aggs(out); }
            Having::Not(x) => x.aggs(out),
            Having::Bare(a) | Having::CmpIv(a, _, _) => out.push(a),
        }
    }
    /// the condition on one group: a comparison involving NULL does not hold; `None` = an operand that is evaluated has
    /// no truth value (neither BOOLEAN nor NULL), the run must report an error. AND / OR evaluate their right operand
    /// exactly when the left one does not decide.
    fn holds(&self, g: &[&Vec<Value>]) -> Option<bool> {
        match self {
            Having::Cmp(a, op, c) => Some(match ref_aggregate(a, g) {
                Value::Int(x) => match *op { ">" => x > *c, ">=" => x >= *c, "<" => x < *c, "<=" => x <= *c, "=" => x == *c, _ => x != *c },
                _ => false,
            }),
            Having::And(l, r) => match l.holds(g) { Some(true) => r.holds(g), other => other },
            Having::Or(l, r) => match l.holds(g) { Some(false) => r.holds(g), other => other },
            Having::Not(x) => x.holds(g).map(|b| !b),
            Having::Bare(a) => crate::exprs::truth(&ref_aggregate(a, g)),
            Having::CmpIv(a, op, us) => Some(match ref_aggregate(a, g) {
                Value::Interval(x) => { let (x, c) = (iv_ns(&x), *us as i128 * 1000); match *op { ">" => x > c, ">=" => x >= c, "<" => x < c, "<=" => x <= c, "=" => x == c, _ => x != c } }
                _ => false,
            }),
        }
    }
}

#[derive(Clone, Debug)]
pub struct TypedQuery {
    group: Vec<usize>,
    items: Vec<Item>,
    wher: Option<Pred>,
    having: Option<Having>,
}

impl TypedQuery {
    pub fn sql(&self) -> String {
        let items: Vec<String> = self.items.iter().map(|it| match it {
            Item::Key(i) => COLS[self.group[*i]].to_owned(),
            Item::Agg(a, None) => a.sql(),
            Item::Agg(a, Some((op, c, outer))) => {
                let inner = format!("{} {} {}", a.sql(), op, c);
                match outer { 1 => format!("greatest({}, 0)", inner), 2 => format!("least({}, 5)", inner), 3 => format!("abs({})", inner), 4 => format!("({}) * 2", inner), 5 => format!("- ({})", inner), _ => inner }
            }
        }).collect();
        let mut q = format!("SELECT {} FROM t", items.join(", "));
        if let Some(p) = &self.wher {
            q.push_str(match p { Pred::VPos => " WHERE v > 0", Pred::WNotNull => " WHERE w IS NOT NULL", Pred::KNotA => " WHERE k != 'a'", Pred::BTrue => " WHERE b",
                Pred::VPlus1 => " WHERE v + 1", Pred::KText => " WHERE k", Pred::BAndV => " WHERE b AND v" });
        }
        if !self.group.is_empty() {
            q.push_str(&format!(" GROUP BY {}", self.group.iter().map(|c| COLS[*c]).collect::<Vec<_>>().join(", ")));
        }
        if let Some(h) = &self.having {
            q.push_str(&format!(" HAVING {}", h.sql()));
        }
        q
    }
}

/// every aggregate kind over every argument type it accepts: INT, REAL, INTERVAL for SUM/AVG; INT, REAL for
/// STDDEV/VARIANCE (also of intervals, where the code squares the microseconds — an overflow error beyond ~50 min —
/// and never publishes a value: compared with the model, nothing demanded by the reference); any comparable
/// type for MIN/MAX/PERCENTILE/COUNT(DISTINCT)/COUNT/ARRAY_AGG; BOOLEAN for BOOL_AND/OR; TEXT for STRING_AGG
fn gen_agg(rng: &mut Rng) -> AggK {
    match rng.below(18) {
        0 => AggK::CountStar,
        // (COUNT takes a column name only, so the derived interval `D` is not counted)
        1 | 2 => AggK::Count(*rng.pick(&[K, V, W, R, S, B, IV, TS, T2])),
        3 | 4 => AggK::CountDistinct(*rng.pick(&[K, V, W, S, IV, TS, V, B, T2])),
        5 | 6 => AggK::Sum(*rng.pick(&[V, W, R, IV, D, D])),
        7 | 8 => AggK::Min(*rng.pick(&[K, S, TS, B, V, R, IV, W, D, T2])),
        9 | 10 => AggK::Max(*rng.pick(&[K, S, TS, B, W, R, IV, V, D, T2])),
        11 => AggK::Avg(*rng.pick(&[V, W, R, IV, D, D])),
        12 => AggK::Stddev(*rng.pick(&[V, W, R, V, W, R, V, IV, IV, D]), rng.chance(1, 2)),
        13 | 14 => AggK::Percentile(*rng.pick(&[V, K, R, TS, W, IV, S, D]), *rng.pick(&["0.0", "0.5", "0.99", "1.0"])),
        15 => if rng.chance(1, 2) { AggK::BoolAnd(B) } else { AggK::BoolOr(B) },
        16 => AggK::ArrayAgg(*rng.pick(&[V, K, TS, B, IV, D])),
        _ => AggK::StringAgg(*rng.pick(&[K, S]), *rng.pick(&[",", "", "; "])),
    }
}

pub fn gen_typed_query(rng: &mut Rng) -> TypedQuery {
    let group: Vec<usize> = match rng.below(6) { 0 => vec![], 1 | 2 => vec![K], 3 => vec![W], 4 => vec![K, W], _ => vec![*rng.pick(&[B, TS, S, IV, R, R, D])] };
    let mut items = Vec::new();
    for _ in 0..rng.below(4) + 1 {
        if !group.is_empty() && rng.chance(1, 4) {
            items.push(Item::Key(rng.below(group.len())));
        } else {
            let a = gen_agg(rng);
            let wrap = if a.int_valued() && rng.chance(1, 3) { Some((*rng.pick(&["+", "*", "-"]), *rng.pick(&[1i64, 2, 10]), if rng.chance(1, 2) { 0u8 } else { 1 + rng.below(5) as u8 })) } else { None };
            items.push(Item::Agg(a, wrap));
        }
    }
    let wher = if rng.chance(1, 3) { Some(rng.pick(&[Pred::VPos, Pred::WNotNull, Pred::KNotA, Pred::BTrue]).clone()) } else if rng.chance(1, 12) { Some(rng.pick(&[Pred::VPlus1, Pred::KText, Pred::BAndV]).clone()) } else { None };
    let having = if rng.chance(1, 2) {
        // aggregates of the select list, or hidden ones that appear only in HAVING; the same aggregate is deliberately
        // used more than once (range conditions, alternatives), thresholds lie inside the data range
        let from_list: Vec<AggK> = items.iter().filter_map(|it| match it { Item::Agg(a, _) if a.int_valued() => Some(a.clone()), _ => None }).collect();
        let pick = |rng: &mut Rng| -> AggK {
            if !from_list.is_empty() && rng.chance(1, 2) { rng.pick(&from_list).clone() } else {
                rng.pick(&[AggK::CountStar, AggK::CountStar, AggK::Count(V), AggK::Count(S), AggK::Sum(V), AggK::Sum(W), AggK::Max(W), AggK::Min(V), AggK::CountDistinct(K), AggK::Avg(V)]).clone()
            }
        };
        let cmp = |rng: &mut Rng, a: &AggK| Having::Cmp(a.clone(), *rng.pick(&[">", ">=", "<", "<=", "=", "!="]), *rng.pick(&[0i64, 1, 2, 3, 5, 10]));
        let a = pick(rng);
        let b = pick(rng);
        // one HAVING in twelve has a bare aggregate as a condition or as an operand of AND / OR (aggregates that create an
        // entry in every group, so that no group is invisible — D10 — and the condition is evaluated on every group)
        let bare = Having::Bare(rng.pick(&[AggK::Sum(V), AggK::Max(W), AggK::Min(V), AggK::CountStar, AggK::Avg(V)]).clone());
        // one HAVING in six compares an INTERVAL aggregate (sub-second `D`, or the whole-second column) with an interval
        // constant at microsecond resolution, of either sign
        let cmp_iv = Having::CmpIv(rng.pick(&[AggK::Avg(D), AggK::Avg(D), AggK::Sum(D), AggK::Min(D), AggK::Max(D), AggK::Avg(IV), AggK::Sum(IV), AggK::Percentile(D, "0.5")]).clone(),
            *rng.pick(&[">", ">=", "<", "<=", "=", "!="]), *rng.pick(&[0i64, 334_000, 333_999, -666, -667, 1_002_000, -2_000, 10_000_000, -5_000_000, 500_000, 1, -1]));
        Some(match if rng.chance(1, 6) { 11 + rng.below(2) } else if rng.chance(1, 12) { 8 + rng.below(3) } else { rng.below(8) } {
            11 => cmp_iv,
            12 => Having::And(Box::new(cmp(rng, &a)), Box::new(cmp_iv)),
            8 => bare,
            9 => Having::And(Box::new(cmp(rng, &a)), Box::new(bare)),
            10 => Having::Or(Box::new(bare), Box::new(cmp(rng, &b))),
            0 | 1 => cmp(rng, &a),
            2 => { let lo = rng.below(3) as i64; Having::And(Box::new(Having::Cmp(a.clone(), ">=", lo)), Box::new(Having::Cmp(a.clone(), "<=", lo + 1 + rng.below(3) as i64))) }
            3 => Having::And(Box::new(cmp(rng, &a)), Box::new(cmp(rng, &b))),
            4 => Having::Or(Box::new(cmp(rng, &a)), Box::new(cmp(rng, &a))),
            5 => Having::Not(Box::new(cmp(rng, &a))),
            6 => Having::And(Box::new(Having::And(Box::new(cmp(rng, &a)), Box::new(cmp(rng, &a)))), Box::new(cmp(rng, &b))),
            _ => Having::And(Box::new(Having::Or(Box::new(cmp(rng, &a)), Box::new(cmp(rng, &b)))), Box::new(cmp(rng, &a))),
        })
    } else { None };
    TypedQuery { group, items, wher, having }
}

/// input biased towards groups in which a column is NULL on every row, towards single-row groups, towards NULLs in the
/// first / middle / last row of a group, and (`large`) towards 40-150 lines concentrated in one or two groups whose
/// arguments come from pools of 17-65 distinct values with many repetitions (small-buffer sizes 8, 16, 32, 64 in mind)
pub fn gen_typed_input(rng: &mut Rng, large: bool) -> Vec<String> {
    let keys: &[&str] = &["a", "b", "c", "ab", ""];
    let nkeys = if large { 1 + rng.below(2) } else { 5 };
    // per (key, column) NULL probability in percent
    let mut nullp = [[0u64; NCOLS]; 5];
    for k in 0..5 { for c in 0..NCOLS { nullp[k][c] = if large { *rng.pick(&[0u64, 0, 0, 10, 30]) } else { *rng.pick(&[0u64, 0, 0, 30, 100, 100]) }; } }
    let n = if large { 40 + rng.below(111) } else { match rng.below(5) { 0 => rng.below(3), 1 => rng.below(6), _ => rng.below(24) } };
    let pool = if large { *rng.pick(&[17usize, 18, 20, 30, 33, 65]) } else { 26 };
    let single = if large { 99 } else { rng.below(5) }; // this key gets at most one row
    let mut seen_single = false;
    // rows as fields, `None` = a line that is not a row of the table
    let mut rows: Vec<Result<(usize, Vec<String>), String>> = Vec::new();
    for _ in 0..n {
        if rng.chance(1, if large { 60 } else { 15 }) { rows.push(Err((*rng.pick(&["", "garbage", ";;;;;;;", "A;1;2;3;4;;;"])).to_owned())); continue; }
        let ki = rng.below(nkeys);
        if ki == single { if seen_single { continue; } seen_single = true; }
        let x = rng.below(pool) as i64; // index into the value pools
        let v = (x - 5).to_string();
        let w = if large { ((x * 7) % pool as i64 - 3).to_string() } else { rng.range(-2, 3).to_string() };
        let r = if large { format!("{}", (x as f64) * 0.25 - 2.0) } else { (*rng.pick(&["0.5", "1.5", "-2.25", "100", "3", "8", "0.25"])).to_owned() };
        let s = if large { format!("s{}", x) } else { (*rng.pick(&["x", "y", "hello", "q q", "10", "", ""])).to_owned() };  // column s: `~` is NULL, the empty field is the empty TEXT
        let b = (*rng.pick(&["true", "false"])).to_owned();
        // intervals: whole seconds of EITHER sign (each part of `h:m:s` may carry its own sign); "1000000:00:00" and
        // "±2500000:30:00": a few of them sum to more than 2^63 ns in magnitude (still far inside chrono's range)
        let iv = if large { format!("{}{}:{:02}:{:02}", if x % 5 == 3 { "-" } else { "" }, x / 7, (x * 13) % 60, (x * 29) % 60) }
            else { (*rng.pick(&["0:00:10", "1:02:03", "0:30:00", "2:00:00", "10:00:01", "0:00:00", "0:00:10", "2:00:00", "1000000:00:00", "2500000:30:00",
                "-1:02:03", "0:00:-05", "-0:30:00", "-2500000:30:00", "0:-01:00", "-0:00:01"])).to_owned() };
        let y = rng.below(if large { pool } else { 6 }) as i64;
        let (yr, mo, da, ho, mi, se) = (1999 + y % 3 * 10, 1 + y % 12, 1 + (y * 5) % 28, y % 24, (y * 7) % 60, (y * 11) % 60);
        let ts = format!("{}-{:02}-{:02} {:02}:{:02}:{:02}", yr, mo, da, ho, mi, se);
        // t2 = ts + (whole seconds, microseconds): the derived interval `t2 - ts` is mostly 0 or a sub-second amount of either
        // sign (1.002 s, −0.002 s, −1 µs, 0.333334 s, …; three rows 1.002 s, 0, 0 average to 0.334 s exactly — D74); one line
        // in twenty-five is four centuries away (|t2 − ts| ≈ 1.26e19 ns > 2^63 ns)
        let (dsec, micro): (i64, i64) = if large { ((x % 5) - 2, (x * 37037) % 1_000_000) }
            else { *rng.pick(&[(0, 0), (0, 0), (0, 0), (0, 0), (1, 2000), (1, 2000), (-1, 998_000), (0, 1), (-1, 999_999), (2, 500_000), (-3, 0), (0, 333_334), (0, 2000), (5, 0), (-1, 1)]) };
        let se2 = if (0..60).contains(&(se + dsec)) { se + dsec } else { se };
        let yr2 = if rng.chance(1, 25) { yr + *rng.pick(&[400i64, -400]) } else { yr };
        let t2 = format!("{}-{:02}-{:02} {:02}:{:02}:{:02}.{:06}", yr2, mo, da, ho, mi, se2, micro);
        let mut f: Vec<String> = vec![keys[ki].to_owned(), v, w, r, s, b, iv, ts, t2];
        for c in 1..NCOLS { if rng.chance(nullp[ki][c], 100) { f[c] = if c == S { "~".to_owned() } else { String::new() }; } }
        rows.push(Ok((ki, f)));
    }
    // a NULL argument in the first, a middle or the last row of a group
    for _ in 0..rng.below(3) {
        let ki = rng.below(nkeys);
        let c = 1 + rng.below(NCOLS - 1);
        let idx: Vec<usize> = rows.iter().enumerate().filter(|(_, r)| matches!(r, Ok((k, _)) if *k == ki)).map(|(i, _)| i).collect();
        if idx.is_empty() { continue; }
        let at = match rng.below(3) { 0 => idx[0], 1 => idx[idx.len() / 2], _ => idx[idx.len() - 1] };
        if let Ok((_, f)) = &mut rows[at] { f[c] = if c == S { "~".to_owned() } else { String::new() }; }
    }
    // arrival orders: as generated, or sorted / reversed by the argument pools
    if large {
        match rng.below(4) {
            0 => rows.sort_by_key(|r| match r { Ok((_, f)) => f[V].parse::<i64>().unwrap_or(i64::MIN), Err(_) => i64::MIN }),
            1 => { rows.sort_by_key(|r| match r { Ok((_, f)) => f[V].parse::<i64>().unwrap_or(i64::MIN), Err(_) => i64::MIN }); rows.reverse(); }
            _ => {}
        }
    }
    rows.into_iter().map(|r| match r { Ok((_, f)) => f.join(";"), Err(l) => l }).collect()
}

// ---------- the reference (written from the property sentence) ----------

/// value order within one type; NULL below everything
fn cmp_val(a: &Value, b: &Value) -> Ordering {
    match (a, b) {
        (Value::Null, Value::Null) => Ordering::Equal,
        (Value::Null, _) => Ordering::Less,
        (_, Value::Null) => Ordering::Greater,
        (Value::Int(x), Value::Int(y)) => x.cmp(y),
        (Value::Float(x), Value::Float(y)) => x.0.partial_cmp(&y.0).unwrap_or(Ordering::Equal),
        (Value::Bool(x), Value::Bool(y)) => x.cmp(y),
        (Value::String(x), Value::String(y)) => x.as_bytes().cmp(y.as_bytes()),
        (Value::Timestamp(x), Value::Timestamp(y)) => x.cmp(y),
        (Value::Interval(x), Value::Interval(y)) => x.cmp(y),
        _ => Ordering::Equal,
    }
}

fn cmp_key(a: &[Value], b: &[Value]) -> Ordering {
    for (x, y) in a.iter().zip(b.iter()) {
        let o = cmp_val(x, y);
        if o != Ordering::Equal { return o; }
    }
    Ordering::Equal
}

fn col_type(c: usize) -> ValueType {
    match c { K | S => ValueType::String, V | W => ValueType::Int, R => ValueType::Float, B => ValueType::Bool, IV | D => ValueType::Interval, _ => ValueType::Timestamp }
}

/// the aggregate over the argument values of one group (arrival order, NULLs included); `None` = the sentence does not
/// fix the value (never the case for the typed statements generated here)
fn ref_aggregate(a: &AggK, rows: &[&Vec<Value>]) -> Value { ref_aggregate_r(a, rows, false) }
/// `away`: an INT / INTERVAL average whose division is not exact is rounded AWAY from zero instead of towards zero — the
/// other neighbour of the exact quotient (only used to tell a different rounding CHOICE from a wrong quotient)
fn ref_aggregate_r(a: &AggK, rows: &[&Vec<Value>], away: bool) -> Value {
    let quot = |s: i128, n: i128| -> i128 { let q = s / n; if away && s % n != 0 { q + s.signum() } else { q } };
    let vals: Vec<Value> = match a.col() { Some(c) => rows.iter().map(|r| r[c].clone()).collect(), None => Vec::new() };
    let nn: Vec<Value> = vals.iter().filter(|v| **v != Value::Null).cloned().collect();
    match a {
        AggK::CountStar => Value::Int(rows.len() as i64),
        AggK::Count(_) => Value::Int(nn.len() as i64),
        AggK::CountDistinct(_) => {
            let mut d: Vec<&Value> = Vec::new();
            for v in &nn { if !d.iter().any(|x| cmp_val(x, v) == Ordering::Equal) { d.push(v); } }
            Value::Int(d.len() as i64)
        }
        AggK::Sum(_) => {
            if nn.is_empty() { return Value::Null; }
            match &nn[0] {
                Value::Int(_) => Value::Int(nn.iter().map(|v| if let Value::Int(x) = v { *x } else { 0 }).sum()),
                // the exact total of nanoseconds (generated totals are far inside chrono's range)
                Value::Interval(_) => Value::Interval(iv_from_ns(nn.iter().map(|v| if let Value::Interval(x) = v { iv_ns(x) } else { 0 }).sum::<i128>())),
                _ => Value::Float(Float(nn.iter().map(|v| if let Value::Float(x) = v { x.0 } else { 0.0 }).sum())),
            }
        }
        AggK::Avg(_) => {
            if nn.is_empty() { return Value::Null; }
            match &nn[0] {
                // CODE-CHOICE (`code_choice`): the INT average truncates towards zero (the sentence is silent; as the code does)
                Value::Int(_) => Value::Int(quot(nn.iter().map(|v| if let Value::Int(x) = v { *x as i128 } else { 0 }).sum::<i128>(), nn.len() as i128) as i64),
                // the INTERVAL average: the EXACT total of nanoseconds (i128) divided by the count; CODE-CHOICE: truncated
                // towards zero to the nanosecond (Rust's integer `/`). Independent of chrono's `TimeDelta / i32`, which divides
                // seconds and nanoseconds apart (finding D74: 1.002 s / 3 was 0.333999999 s; repaired in /repo ae3273b)
                Value::Interval(_) => Value::Interval(iv_from_ns(quot(nn.iter().map(|v| if let Value::Interval(x) = v { iv_ns(x) } else { 0 }).sum::<i128>(), nn.len() as i128))),
                _ => Value::Float(Float(nn.iter().map(|v| if let Value::Float(x) = v { x.0 } else { 0.0 }).sum::<f64>() / nn.len() as f64)),
            }
        }
        AggK::Stddev(_, var) => {
            if nn.is_empty() { return Value::Null; }
            // CODE-CHOICE (`code_choice`): POPULATION variance (divisor n; the sentence and the README do not say population or
            // sample). Written from the TEXTBOOK definition σ² = (1/n)·Σ(x − μ)², not from the code:
            // * INT values: σ² is the exact rational N / D with N = n·Σx² − (Σx)², D = n² (integers, exact in i128); demanded is
            //   the REAL quotient of the REALs nearest to N and to D — BITWISE (`exact_cell`): the cell is then within one
            //   rounding of the variance whenever N, D < 2^53, never negative, and 0 for equal values (finding D72, repaired;
            //   Lean: Props/C04Variance.lean `int_variance_is_rounded_exact_quotient`).
            // * REAL values (generated: multiples of 1/4): with m = 4·x the same over exact integers, one division; the
            //   implementation's REAL (running REAL sums, one-pass formula, clamped at 0) may differ by rounding (`cells_match`,
            //   relative 1e-12) but must never be negative or NaN (the reference never is).
            let ints: Option<Vec<i128>> = nn.iter().map(|v| if let Value::Int(x) = v { Some(*x as i128) } else { None }).collect();
            let quarters: Option<Vec<i128>> = nn.iter().map(|v| match v {
                Value::Float(x) if (x.0 * 4.0).fract() == 0.0 && x.0.abs() < 1e12 => Some((x.0 * 4.0) as i128),
                _ => None,
            }).collect();
            let exact = |ms: &[i128], scale: i128| -> f64 {
                let n = ms.len() as i128;
                let s: i128 = ms.iter().sum();
                let q: i128 = ms.iter().map(|m| m * m).sum();
                (n * q - s * s) as f64 / (scale * n * n) as f64
            };
            let variance = match (ints, quarters) {
                (Some(is), _) => exact(&is, 1),
                (_, Some(ms)) => exact(&ms, 16),
                _ => {
                    // REAL values outside the exactly representable pool (not generated): as the code — the one-pass
                    // formula over running REAL sums, never negative
                    let xs: Vec<f64> = nn.iter().map(|v| match v { Value::Float(x) => x.0, _ => 0.0 }).collect();
                    let n = xs.len() as f64;
                    let s: f64 = xs.iter().sum();
                    let q: f64 = xs.iter().map(|x| x * x).sum();
                    let v = (q - (s * s) / n) / n;
                    if v < 0.0 { 0.0 } else { v }
                }
            };
            Value::Float(Float(if *var { variance } else { variance.sqrt() }))
        }
        AggK::Min(_) => nn.iter().fold(Value::Null, |cur, v| if cur == Value::Null || cmp_val(v, &cur) == Ordering::Less { v.clone() } else { cur }),
        AggK::Max(_) => nn.iter().fold(Value::Null, |cur, v| if cur == Value::Null || cmp_val(v, &cur) == Ordering::Greater { v.clone() } else { cur }),
        AggK::Percentile(_, p) => {
            if nn.is_empty() { return Value::Null; }
            // CODE-CHOICE (`code_choice`): nearest rank, index min(⌊p·n⌋, n − 1) of the ascending values (the median of 1, 2 is 2)
            let mut sorted = nn.clone();
            sorted.sort_by(cmp_val);
            let p: f64 = p.parse().unwrap();
            let i = ((p * sorted.len() as f64).floor() as usize).min(sorted.len() - 1);
            sorted[i].clone()
        }
        AggK::BoolAnd(_) => if nn.is_empty() { Value::Null } else { Value::Bool(nn.iter().all(|v| *v == Value::Bool(true))) },
        AggK::BoolOr(_) => if nn.is_empty() { Value::Null } else { Value::Bool(nn.iter().any(|v| *v == Value::Bool(true))) },
        AggK::ArrayAgg(c) => Value::Array(col_type(*c), vals),
        AggK::StringAgg(_, d) => {
            if nn.is_empty() { return Value::Null; }
            Value::String(nn.iter().map(|v| if let Value::String(s) = v { s.clone() } else { String::new() }).collect::<Vec<_>>().join(d))
        }
    }
}

fn apply_wrap(v: Value, wrap: &Option<(&'static str, i64, u8)>) -> Value {
    match (v, wrap) {
        (v, None) => v,
        (Value::Int(x), Some((op, c, outer))) => {
            let inner = match *op { "+" => x + c, "-" => x - c, _ => x * c };
            Value::Int(match outer { 1 => inner.max(0), 2 => inner.min(5), 3 => inner.abs(), 4 => inner * 2, 5 => -inner, _ => inner })
        }
        (_, Some(_)) => Value::Null, // NULL op const = NULL, and every outer wrapper of NULL is NULL
    }
}

/// `run_engine_batch`'s rendering of `ExecutionError::CannotCreateArrayOfNullType` (src/execution/mod.rs), the answer D15 predicts
const D15_ERROR: &str = "exec: Cannot create array of null type";

/// cell comparison of the implementation's table with the reference: identical, except that two REALs may differ by
/// rounding (relative 1e-12; the reference computes STDDEV / VARIANCE over exact rationals, the code in REAL arithmetic)
fn cells_match(a: &Value, b: &Value) -> bool {
    match (a, b) {
        (Value::Float(x), Value::Float(y)) => {
            let (x, y) = (x.0, y.0);
            x == y || (x.is_nan() && y.is_nan()) || (x - y).abs() <= 1e-12 * x.abs().max(y.abs()).max(1e-300)
        }
        _ => a == b,
    }
}
fn tables_match(a: &[Vec<Value>], b: &[Vec<Value>]) -> bool {
    a.len() == b.len() && a.iter().zip(b.iter()).all(|(r, t)| r.len() == t.len() && r.iter().zip(t.iter()).all(|(x, y)| cells_match(x, y)))
}
/// a select-list item whose REAL cell the reference fixes BIT FOR BIT: VARIANCE / STDDEV of an INT column (the exact
/// numerator and denominator of the variance, two conversions, one division, for STDDEV one square root)
fn exact_cell(it: &Item) -> bool {
    matches!(it, Item::Agg(AggK::Stddev(c, _), None) if col_type(*c) == ValueType::Int)
}
fn bits_equal(a: &Value, b: &Value) -> bool {
    match (a, b) { (Value::Float(x), Value::Float(y)) => x.0.to_bits() == y.0.to_bits(), _ => a == b }
}
/// `tables_match`, and bitwise equality in the columns of `exact_cell` items
fn tables_match_q(q: &TypedQuery, a: &[Vec<Value>], b: &[Vec<Value>]) -> bool {
    tables_match(a, b) && a.iter().zip(b.iter()).all(|(r, t)| r.len() != q.items.len() ||
        r.iter().zip(t.iter()).zip(q.items.iter()).all(|((x, y), it)| !exact_cell(it) || bits_equal(x, y)))
}

/// The CHOICES of the code that the property sentence does not fix and this reference (like the Lean specification)
/// mirrors: POPULATION variance (divisor n, not n − 1) for STDDEV / VARIANCE, PERCENTILE(p) = the nearest-rank element at
/// index min(⌊p·n⌋, n − 1) of the ascending values, AVG over INT / INTERVAL = truncating division. The reference keeps
/// DEMANDING them — a change of one of them is a change of behaviour — but a deviation confined to such cells is reported
/// under a `code-choice:` class, so that a report says honestly that the sentence itself does not decide it.
fn code_choice(a: &AggK) -> Option<&'static str> {
    match a {
        AggK::Stddev(_, _) => Some("population-variance"),
        AggK::Percentile(_, _) => Some("nearest-rank-percentile"),
        AggK::Avg(c) if matches!(col_type(*c), ValueType::Int | ValueType::Interval) => Some("truncating-integer-average"),
        _ => None,
    }
}
/// `Some(choice)` when the two tables have the same shape and every differing cell belongs to a select-list item that is
/// one of the code's choices (the first such item names the class)
fn differs_only_in_code_choices(q: &TypedQuery, got: &[Vec<Value>], want: &[Vec<Value>], away: &[Vec<Value>]) -> Option<&'static str> {
    if got.len() != want.len() || got.iter().zip(want).any(|(r, t)| r.len() != t.len() || r.len() != q.items.len()) { return None; }
    let mut found = None;
    for (ri, (r, t)) in got.iter().zip(want).enumerate() {
        for (i, (x, y)) in r.iter().zip(t).enumerate() {
            if cells_match(x, y) && (!exact_cell(&q.items[i]) || bits_equal(x, y)) { continue; }
            // an INT / INTERVAL average: the CHOICE is which neighbour of the exact quotient is shown when the count does not
            // divide the total; a cell that is neither neighbour (or differs although the division is exact) is a wrong
            // quotient (finding D74, repaired: seconds and nanoseconds were divided apart), not another choice
            if let Item::Agg(AggK::Avg(c), _) = &q.items[i] {
                if matches!(col_type(*c), ValueType::Int | ValueType::Interval) && away.get(ri).and_then(|a| a.get(i)) != Some(x) {
                    found.get_or_insert("average-is-not-the-total-divided-by-the-count"); continue;
                }
            }
            // an INT VARIANCE / STDDEV cell that agrees up to rounding but not bit for bit is not a matter of the code's CHOICE
            // (population, not sample): given that choice the textbook definition fixes the cell (D72, repaired)
            if cells_match(x, y) && exact_cell(&q.items[i]) { found.get_or_insert("int-variance-is-not-the-rounded-exact-quotient"); continue; }
            match &q.items[i] { Item::Agg(a, _) => match code_choice(a) { Some(c) => { found.get_or_insert(c); } None => return None }, _ => return None }
        }
    }
    found
}

struct RefOut {
    /// the statement takes STDDEV / VARIANCE of intervals: the sentence does not say what that is (the code reports an
    /// overflow or no value), so nothing is demanded
    undecided: bool,
    rows: Vec<Vec<Value>>,
    /// `rows` with every inexact INT / INTERVAL average rounded away from zero (see `ref_aggregate_r`; wrapped averages as in `rows`)
    rows_away: Vec<Vec<Value>>,
    /// the table finding D10 predicts: `rows` without exactly the groups in which no aggregate of the statement creates an
    /// entry (HAVING applied to the groups that are left; same columns, same order)
    rows_d10: Vec<Vec<Value>>,
    /// a group exists in which no aggregate of the statement creates an entry (finding D10)
    d10: bool,
    /// an ARRAY_AGG whose first value in some group is NULL (finding D15)
    d15: bool,
    /// WHERE on some admitted row, or HAVING on some group, is a value of another type than BOOLEAN (not NULL): it has no
    /// truth value, the run must report an error (C03; finding D69) — `rows` is then meaningless
    cond_error: bool,
}

/// does the engine create a `group_values` entry for this aggregate in a group? (used only to CLASSIFY a deviation)
fn creates_entry(a: &AggK, rows: &[&Vec<Value>]) -> bool {
    match a {
        AggK::Count(c) | AggK::CountDistinct(c) | AggK::Percentile(c, _) | AggK::BoolAnd(c) | AggK::BoolOr(c) | AggK::StringAgg(c, _) =>
            rows.iter().any(|r| r[*c] != Value::Null),
        _ => true,
    }
}

fn reference(q: &TypedQuery, admitted: &[Vec<Value>]) -> RefOut {
    let mut cond_error = false;
    let passing: Vec<&Vec<Value>> = admitted.iter().filter(|r| match &q.wher {
        None => true,
        Some(p) => match p.truth(r) { Some(b) => b, None => { cond_error = true; false } },
    }).collect();
    let key_of = |r: &Vec<Value>| -> Vec<Value> { if q.group.is_empty() { vec![Value::Null] } else { q.group.iter().map(|c| r[*c].clone()).collect() } };
    let mut keys: Vec<Vec<Value>> = Vec::new();
    for r in &passing {
        let k = key_of(r);
        if !keys.iter().any(|x| cmp_key(x, &k) == Ordering::Equal) { keys.push(k); }
    }
    keys.sort_by(|a, b| cmp_key(a, b));
    let mut out = RefOut { undecided: false, rows: Vec::new(), rows_away: Vec::new(), rows_d10: Vec::new(), d10: false, d15: false, cond_error };
    let mut all_aggs: Vec<&AggK> = q.items.iter().filter_map(|it| match it { Item::Agg(a, _) => Some(a), _ => None }).collect();
    if let Some(h) = &q.having { h.aggs(&mut all_aggs); }
    out.undecided = all_aggs.iter().any(|a| matches!(a, AggK::Stddev(c, _) if col_type(*c) == ValueType::Interval));
    for k in &keys {
        let g: Vec<&Vec<Value>> = passing.iter().filter(|r| cmp_key(&key_of(r), k) == Ordering::Equal).cloned().collect();
        let visible = all_aggs.iter().any(|a| creates_entry(a, &g));
        if !visible { out.d10 = true; }
        for a in &all_aggs { if let AggK::ArrayAgg(c) = a { if g[0][*c] == Value::Null { out.d15 = true; } } }
        if let Some(h) = &q.having {
            match h.holds(&g) { Some(true) => {}, Some(false) => continue, None => { out.cond_error = true; continue; } }
        }
        let row: Vec<Value> = q.items.iter().map(|it| match it {
            Item::Key(i) => k[*i].clone(),
            Item::Agg(a, wrap) => apply_wrap(ref_aggregate(a, &g), wrap),
        }).collect();
        if visible { out.rows_d10.push(row.clone()); }
        out.rows_away.push(q.items.iter().zip(row.iter()).map(|(it, v)| match it { Item::Agg(a @ AggK::Avg(_), None) => ref_aggregate_r(a, &g, true), _ => v.clone() }).collect());
        out.rows.push(row);
    }
    out
}

fn typed_tag(q: &TypedQuery, outcome: &str, nrows: usize, r: &RefOut) -> String {
    let mut names: Vec<&str> = q.items.iter().map(|it| match it { Item::Key(_) => "key", Item::Agg(a, _) => a.name() }).collect();
    names.sort();
    names.dedup();
    // `code-choice1`: the select list has a cell whose value is a choice of the code the sentence does not fix (see `code_choice`)
    let cc = q.items.iter().any(|it| matches!(it, Item::Agg(a, _) if code_choice(a).is_some()));
    format!("typed:{}|g{}|h{}|w{}|{}|rows{}|d10{}|d15{}|code-choice{}", names.join(","), q.group.len(), q.having.is_some() as u8, q.wher.is_some() as u8, outcome, nrows.min(3), r.d10 as u8, r.d15 as u8, cc as u8)
}

// ---------- REAL VARIANCE / STDDEV against the exact variance (finding D76, open) ----------

/// The population variance of finite REALs computed EXACTLY: every REAL is an integer multiple of a power of two; with the
/// values scaled to integers `a_i` (common exponent `emin`) and shifted by the first (a variance does not change under a
/// shift — exact in rationals) the variance is `(n·Σd² − (Σd)²) / n² · 4^emin`, numerator and denominator formed in `i128`
/// with checked operations. Returned as the REAL nearest to within two roundings (conversion of the numerator, one division;
/// the power of two is exact). `None`: a value is not finite or the integers do not fit (then the oracle abstains).
pub fn exact_real_variance(xs: &[f64]) -> Option<f64> {
    if xs.is_empty() || xs.iter().any(|x| !x.is_finite()) { return None; }
    let parts: Vec<(i128, i32)> = xs.iter().map(|x| {
        let b = x.to_bits();
        let e = ((b >> 52) & 0x7ff) as i32;
        let m = (b & ((1u64 << 52) - 1)) as i128;
        let (m, e) = if e == 0 { (m, -1074) } else { (m | (1i128 << 52), e - 1075) };
        (if b >> 63 == 1 { -m } else { m }, e)
    }).collect();
    let emin = parts.iter().filter(|(m, _)| *m != 0).map(|(_, e)| *e).min().unwrap_or(0);
    let mut a: Vec<i128> = Vec::new();
    for (m, e) in &parts {
        if *m == 0 { a.push(0); continue; }
        let sh = (*e - emin) as u32;
        if sh > 60 { return None; }
        a.push(m.checked_mul(1i128 << sh)?);
    }
    let n = a.len() as i128;
    let (mut sd, mut sq) = (0i128, 0i128);
    for x in &a {
        let d = x.checked_sub(a[0])?;
        sd = sd.checked_add(d)?;
        sq = sq.checked_add(d.checked_mul(d)?)?;
    }
    let num = n.checked_mul(sq)?.checked_sub(sd.checked_mul(sd)?)?;
    if 2 * emin < -1000 || 2 * emin > 1000 { return None; }
    Some(num as f64 / (n * n) as f64 * 2f64.powi(2 * emin))
}

/// what the CODE computes for REAL arguments (finding D76 predicts exactly this cell): running REAL sums of `x` and `x·x` in
/// arrival order from `0.0`, then `(Σx² − (Σx)²/n)/n` in REAL arithmetic, a negative result replaced by `0.0`
pub fn onepass_real_variance(xs: &[f64]) -> f64 {
    let (mut s, mut q) = (0.0f64, 0.0f64);
    for x in xs { s += *x; q += *x * *x; }
    let n = xs.len() as f64;
    let v = (q - (s * s) / n) / n;
    if v < 0.0 { 0.0 } else { v }
}

/// the verdict on a (VARIANCE, STDDEV) pair of cells over the REAL values `xs`: `Ok` = both within a relative 1e-9 of the exact
/// variance / its square root; `Err(true)` = not within, and bit for bit what the one-pass formula gives (finding D76);
/// `Err(false)` = anything else; `None` = the exact variance is not available (the oracle abstains)
pub fn judge_real_variance(xs: &[f64], got_var: f64, got_sd: f64) -> Option<Result<(), bool>> {
    let exact = exact_real_variance(xs)?;
    let within = |g: f64, e: f64| g == e || (g - e).abs() <= 1e-9 * e.abs();
    if within(got_var, exact) && within(got_sd, exact.sqrt()) { return Some(Ok(())); }
    let p = onepass_real_variance(xs);
    Some(Err(got_var.to_bits() == p.to_bits() && got_sd.to_bits() == p.sqrt().to_bits()))
}

/// one typed statement over one input: the implementation's table (ExecutionEngine, batch configuration) against the
/// independent reference, classification of a deviation, and the same case through FileExecutor for the Lean model
fn typed_case(run: &mut Run, table: &sqlgrep::data_model::TableDefinition, q: &TypedQuery, lines: &[String], stream: &str) {
    let text = q.sql();
    let desc = format!("defs={} query={} input={:?}", C04_DEF, text, lines);
    let prepared = match prepare(C04_DEF, &text) { Ok(p) => p, Err(e) => { run.count(&format!("typed-rejected:{}", e.split(':').next().unwrap_or(""))); return; } };
    let admitted: Vec<Vec<Value>> = lines.iter().map(|l| table.extract(l).columns).filter(|r| r.iter().any(|v| *v != Value::Null)).map(with_derived).collect();
    let expected = reference(q, &admitted);
    let got = run_engine_batch(C04_DEF, &text, &lines);
    run.oracle_checks += 1;
    let (outcome, nrows) = match &got {
        _ if expected.undecided => ("undecided", 0),
        RowsOutcome::Error(_) if expected.cond_error => ("cond-err", 0),
        RowsOutcome::Rows { rows, .. } if expected.cond_error => {
            // no open finding predicts a table here: a WHERE error precedes every group, and a bare HAVING aggregate is one
            // that creates an entry in every group (no group is invisible, D10)
            run.fail(desc.clone(), "D69:condition-type-mismatch-not-reported", format!("WHERE on some row / HAVING on some group is neither BOOLEAN nor NULL: an error must be reported, but the implementation printed {:?}", rows));
            ("ok", rows.len())
        }
        RowsOutcome::Rows { rows, .. } => {
            if !tables_match_q(q, rows, &expected.rows) {
                // known finding D10 only if the table is EXACTLY the predicted one: the reference table without the
                // groups in which no aggregate creates an entry (and no ARRAY_AGG starts with NULL: D15 predicts an
                // error, so a table is then not what any finding predicts)
                let class = if expected.d10 && !expected.d15 && tables_match_q(q, rows, &expected.rows_d10) { "D10:group-without-value-entry".to_owned() }
                    else if let Some(choice) = differs_only_in_code_choices(q, rows, &expected.rows, &expected.rows_away) {
                        if choice.starts_with("int-variance") || choice.starts_with("average-is-not") { choice.to_owned() } else { format!("code-choice:{}-cell-differs-from-reference", choice) }
                    }
                    else { "aggregate-table-differs-from-reference".to_owned() };
                let note = if expected.d15 { " (finding D15 predicts the error `Cannot create array of null type` here)".to_owned() } else if expected.d10 { format!(" (finding D10 predicts {:?})", expected.rows_d10) } else { String::new() };
                run.fail(desc.clone(), &class, format!("implementation table {:?} but the rows of each group give {:?}{}", rows, expected.rows, note));
            }
            ("ok", rows.len())
        }
        RowsOutcome::Error(e) => {
            // known finding D15 only if the error is EXACTLY `ExecutionError::CannotCreateArrayOfNullType`
            let class = if expected.d15 && e == D15_ERROR { "D15:array_agg-first-value-null" } else { "aggregate-error-on-typed-statement" };
            run.fail(desc.clone(), class, format!("implementation reports `{}` but the rows of each group give {:?}", e, expected.rows));
            ("err", 0)
        }
        RowsOutcome::Panic(msg) => {
            run.fail(desc.clone(), "panic:aggregate", msg.clone());
            ("panic", 0)
        }
    };
    run.count(&format!("{}:{}", stream, outcome));
    // the same case through FileExecutor for the correspondence with the model (and the Lean specification)
    let files = vec![join_lines(&lines)];
    let result = run_files(&prepared, &files);
    if let Some(case) = batch_case(&prepared, b"", &files, None) {
        run.case_with_desc(case, result.wire(), typed_tag(q, outcome, nrows, &expected).replacen("typed", stream, 1), desc);
    }
}

// ---------------------------------------------------------------------------------------------------------------
// stream 5: WHICH error the result table reports (audit 3, L3)

/// one group of the error-order stream, by construction
struct EoGroup { key: &'static str, rows: usize, vs: Vec<Option<i64>>, big_w: bool, has_s: bool }

/// the transforms that have no value in SOME cells, with the error kind and the groups in which they have none
/// (a function of the group's rows that is plain from the text: an overflow of `2^62 * 10`, a division by zero,
/// a function / a BOOLEAN operator over a value of the wrong type)
const EO_TRANSFORMS: &[(&str, &str)] = &[
    ("SUM(w) * 10", "UndefinedOperation"),
    ("1 / (COUNT(*) - 2)", "UndefinedOperation"),
    ("upper(MIN(v))", "UndefinedFunction"),
    ("abs(MIN(s))", "UndefinedFunction"),
    ("MIN(v) AND true", "TypeError"),
    ("10 / SUM(v)", "UndefinedOperation"),
];

fn eo_fails(t: usize, g: &EoGroup) -> bool {
    let nonnull: Vec<i64> = g.vs.iter().filter_map(|x| *x).collect();
    match t {
        0 => g.big_w,
        1 => g.rows == 2,
        2 => true, // `upper` of an INT or of NULL
        3 => g.has_s,
        4 => !nonnull.is_empty(),
        _ => !nonnull.is_empty() && nonnull.iter().sum::<i64>() == 0,
    }
}

/// A directed stream of aggregate statements whose result table has cells without a value in TWO OR THREE different
/// columns and in different groups, the failing transforms being of different error kinds. The program computes the
/// table column by column (`extract_result_rows_by_column`) and reports the first error it meets; the property (C03's
/// last sentence / C04) only demands that AN error is reported and no table printed — that is the oracle here. WHICH
/// error is compared between the program and the Lean model by the correspondence (`batch` cases): a model that went
/// row by row would answer another kind on the cases counted `error-order:orders-differ`.
fn error_order_stream(run: &mut Run, rng: &mut Rng, n: usize) {
    let defs = format!("{}\n{}", MAIN_DEF, JOIN_DEF);
    for _ in 0..n {
        // half of the cases are DIRECTED at statements on which column-major and row-major order meet cells of different
        // error kinds first (regenerate until the construction says so)
        let want_differ = rng.chance(1, 2);
        let mut tries = 0;
        let (groups, lines, items, having, text, col_first, row_first) = loop {
            tries += 1;
            // 2-3 groups in key order a < b < c
            let ng = 2 + rng.below(2);
            let mut groups: Vec<EoGroup> = Vec::new();
            for gi in 0..ng {
                let rows = 1 + rng.below(3);
                let v_null = rng.chance(1, 3);
                let vs: Vec<Option<i64>> = (0..rows).map(|_| if v_null || rng.chance(1, 4) { None } else { Some(rng.range(-2, 2)) }).collect();
                groups.push(EoGroup { key: ["a", "b", "c"][gi], rows, vs, big_w: rng.chance(1, 3), has_s: rng.chance(1, 2) });
            }
            let mut lines: Vec<String> = Vec::new();
            for g in &groups {
                for i in 0..g.rows {
                    let v = g.vs[i].map(|x| x.to_string()).unwrap_or_default();
                    let w = if g.big_w && i == 0 { "4611686018427387904".to_owned() } else if rng.chance(1, 3) { String::new() } else { rng.range(0, 50).to_string() };
                    let s = if g.has_s && (i == 0 || rng.chance(1, 2)) { (*rng.pick(&["x", "hello", "10"])).to_owned() } else { "~".to_owned() };
                    lines.push(format!("{};{};{};;{};", g.key, v, w, s));
                }
            }
            rng.shuffle(&mut lines);
            // the select list: 2-3 different failing transforms and 0-2 columns that always have a value, in any order
            let mut ts: Vec<usize> = (0..EO_TRANSFORMS.len()).collect();
            rng.shuffle(&mut ts);
            ts.truncate(2 + rng.below(2));
            let mut items: Vec<(String, Option<usize>)> = ts.iter().map(|&t| (EO_TRANSFORMS[t].0.to_owned(), Some(t))).collect();
            for _ in 0..rng.below(3) {
                items.push(((*rng.pick(&["k", "COUNT(*)", "MAX(w)", "MIN(v) + 1", "COUNT(v) * 2"])).to_owned(), None));
            }
            rng.shuffle(&mut items);
            let having = match rng.below(6) {
                0 => " HAVING 1 / (COUNT(*) - 1) >= 0", // no value on a group of one row
                1 => " HAVING MAX(w)",                  // no truth value where w is not NULL
                2 => " HAVING COUNT(*) > 0",
                _ => "",
            };
            let text = format!("SELECT {} FROM t GROUP BY k{}", items.iter().map(|x| x.0.clone()).collect::<Vec<_>>().join(", "), having);
            // the first cell without a value in column-major and in row-major order (for the direction, the tags and the counters only)
            let mut col_first: Option<&str> = None;
            'c: for it in &items { if let Some(t) = it.1 { for g in &groups { if eo_fails(t, g) { col_first = Some(EO_TRANSFORMS[t].1); break 'c; } } } }
            let mut row_first: Option<&str> = None;
            'r: for g in &groups { for it in &items { if let Some(t) = it.1 { if eo_fails(t, g) { row_first = Some(EO_TRANSFORMS[t].1); break 'r; } } } }
            if (col_first != row_first) == want_differ || tries >= 40 {
                break (groups, lines, items, having, text, col_first, row_first);
            }
        };
        let ng = groups.len();
        let prepared = match prepare(&defs, &text) {
            Ok(p) => p,
            Err(e) => { run.count(&format!("error-order:rejected:{}", e.split(':').next().unwrap_or(""))); continue; }
        };
        let files = vec![join_lines(&lines)];
        let result = run_files(&prepared, &files);
        let desc = format!("query={} input={:?}", text, lines);
        let failing_columns = items.iter().filter(|it| it.1.map_or(false, |t| groups.iter().any(|g| eo_fails(t, g)))).count();
        run.oracle_checks += 1;
        if result.status == "panic" {
            run.fail(desc.clone(), "panic:aggregate", "aggregate run panicked".to_owned());
        } else if col_first.is_some() && !result.status.starts_with("err:") {
            run.fail(desc.clone(), "aggregate-cell-without-value-not-reported",
                format!("a cell of the result table has no value ({} column(s) with such cells), an error must be reported; the implementation answered {} and printed {:?}", failing_columns, result.status, result.records()));
        } else if col_first.is_some() && !result.records().is_empty() {
            run.fail(desc.clone(), "aggregate-table-printed-with-error", format!("the implementation reports {} and printed {:?}", result.status, result.records()));
        }
        let differ = col_first != row_first;
        run.count(if differ { "error-order:orders-differ" } else { "error-order:orders-agree" });
        run.count(&format!("error-order:failing-columns:{}", failing_columns));
        run.count(&format!("error-order:status:{}", result.status));
        if let Some(case) = batch_case(&prepared, b"", &files, None) {
            let tag = format!("error-order|cols{}|groups{}|h{}|differ{}|{}", failing_columns.min(3), ng, !having.is_empty() as u8, differ as u8, result.status);
            run.case_with_desc(case, result.wire(), tag, desc);
        }
    }
}

pub fn run(p: &Params) -> Run {
    let mut run = Run::new("C04");
    let mut rng = Rng::new(p.seed ^ 0x04);
    // ---- stream 1: free-form statements, correspondence + Lean specification ----
    let n = p.n(1800, 80_000);
    let opts = QueryOpts { allow_limit: false, allow_distinct: false, allow_join: false, aggregate: Some(true) };
    for i in 0..n {
        let sch = gen_schema(&mut rng);
        let gq = gen_query(&mut rng, &sch, &opts, "");
        let prepared = match prepare(&sch.defs, &gq.text) {
            Ok(p) => p,
            Err(e) => { run.count(&format!("rejected:{}", e.split(':').next().unwrap_or(""))); continue; }
        };
        let nlines = match rng.below(4) { 0 => rng.below(3), 1 => rng.below(8), _ => rng.below(30) };
        let null_pct = *rng.pick(&[5u64, 20, 50, 80]);
        let lines = gen_input(&mut rng, nlines, null_pct, i % 7 == 0);
        let files = vec![join_lines(&lines)];
        let result = run_files(&prepared, &files);
        let case = match batch_case(&prepared, b"", &files, None) { Some(c) => c, None => continue };
        run.count(&format!("status:{}", result.status));
        let tag = agg_tag(&gq.text, &result);
        run.oracle_checks += 1;
        if result.status == "panic" {
            run.fail(format!("query={} input={:?}", gq.text, lines), "panic:aggregate", "aggregate run panicked".to_owned());
        }
        // the case description travels with the case so that spec failures can be reported with the SQL text
        run.case_with_desc(case, result.wire(), tag, format!("query={} input={:?}", gq.text, lines));
    }
    // ---- stream 1b: aggregate statements over a JOIN (the rows are the nested loop of C05), correspondence + Lean specification ----
    let nj = p.n(600, 25_000);
    let jpath = crate::runq::tmp_file(b"");
    let jp = jpath.display().to_string();
    let jopts = QueryOpts { allow_limit: false, allow_distinct: false, allow_join: true, aggregate: Some(true) };
    for _ in 0..nj {
        let sch = gen_schema(&mut rng);
        let mut gq = gen_query(&mut rng, &sch, &jopts, &jp);
        let mut tries = 0;
        while !gq.joined && tries < 6 { gq = gen_query(&mut rng, &sch, &jopts, &jp); tries += 1; }
        if !gq.joined { continue; }
        let njl = rng.below(10);
        let jlines: Vec<String> = (0..njl).map(|_| gen_join_line(&mut rng)).collect();
        let joined_bytes = join_lines(&jlines);
        std::fs::write(&jpath, &joined_bytes).unwrap();
        let prepared = match prepare(&sch.defs, &gq.text) {
            Ok(p) => p,
            Err(e) => { run.count(&format!("rejected:{}", e.split(':').next().unwrap_or(""))); continue; }
        };
        let nlines = rng.below(14);
        let null_pct = *rng.pick(&[5u64, 20, 50]);
        let lines = gen_input(&mut rng, nlines, null_pct, false);
        let files = vec![join_lines(&lines)];
        let result = run_files(&prepared, &files);
        let case = match batch_case(&prepared, &joined_bytes, &files, None) { Some(c) => c, None => continue };
        run.count(&format!("join-status:{}", result.status));
        run.oracle_checks += 1;
        if result.status == "panic" {
            run.fail(format!("query={} input={:?} joined={:?}", gq.text.replace(&jp, "J"), lines, jlines), "panic:aggregate", "aggregate run over a join panicked".to_owned());
        }
        let tag = format!("join|{}", agg_tag(&gq.text, &result));
        run.case_with_desc(case, result.wire(), tag, format!("query={} input={:?} joined={:?}", gq.text.replace(&jp, "J"), lines, jlines));
    }
    let _ = std::fs::remove_file(&jpath);
    // ---- stream 2: typed statements, independent reference ----
    let m = p.n(1800, 80_000);
    let tables = parse_tables(C04_DEF).expect("C04 definition");
    let table = tables.get("t").expect("table t");
    for _ in 0..m {
        let q = gen_typed_query(&mut rng);
        let large = rng.chance(1, 12);
        let lines = gen_typed_input(&mut rng, large);
        typed_case(&mut run, table, &q, &lines, "typed");
    }
    // ---- stream 2b: AVG / SUM / MIN / MAX / PERCENTILE / HAVING over SUB-SECOND intervals of either sign (finding D74, repaired) ----
    // 1-7 rows in one or two groups whose `t2 - ts` is a handful of microsecond amounts (many zeros, so that the count does not
    // divide the total: 1.002 s, 0, 0), sometimes four centuries; the reference divides the exact total of nanoseconds.
    for _ in 0..p.n(260, 8000) {
        let grouped = rng.chance(1, 3);
        let mut items = vec![Item::Agg(AggK::Avg(D), None)];
        for _ in 0..rng.below(3) { items.push(Item::Agg(rng.pick(&[AggK::Sum(D), AggK::Min(D), AggK::Max(D), AggK::CountStar, AggK::Percentile(D, "0.5"), AggK::Avg(IV), AggK::Sum(IV), AggK::ArrayAgg(D), AggK::Count(T2)]).clone(), None)); }
        if grouped { items.insert(0, Item::Key(0)); }
        let having = if rng.chance(1, 3) {
            Some(Having::CmpIv(rng.pick(&[AggK::Avg(D), AggK::Avg(D), AggK::Sum(D), AggK::Min(D)]).clone(), *rng.pick(&[">", ">=", "<", "<=", "=", "!="]), *rng.pick(&[0i64, 334_000, 333_999, -666, -667, 1_002_000, -2_000, 1, -1, 500_000])))
        } else { None };
        let q = TypedQuery { group: if grouped { vec![K] } else { vec![] }, items, wher: if rng.chance(1, 5) { Some(Pred::VPos) } else { None }, having };
        let n = 1 + rng.below(7);
        let far = rng.chance(1, 10);
        let lines: Vec<String> = (0..n).map(|_| {
            let (dsec, micro): (i64, i64) = *rng.pick(&[(0, 0), (0, 0), (0, 0), (1, 2000), (-1, 998_000), (0, 1), (-1, 999_999), (0, 333_334), (2, 500_000), (-2, 0), (0, 2000), (-1, 1), (7, 777_777)]);
            let yr = if far && rng.chance(1, 2) { *rng.pick(&[2400i64, 1600]) } else { 2000 };
            let t2 = if rng.chance(1, 9) { String::new() } else { format!("{}-03-04 05:06:{:02}.{:06}", yr, 30 + dsec, micro) };
            format!("{};{};;;~;;{};2000-03-04 05:06:30;{}", if grouped { *rng.pick(&["a", "b"]) } else { "a" }, rng.range(-1, 3), rng.pick(&["0:00:01", "-0:00:02", "0:00:00", "", "0:00:-01"]), t2)
        }).collect();
        typed_case(&mut run, table, &q, &lines, "subsecond-interval");
    }
    // ---- stream 3: VARIANCE / STDDEV of INT values of large magnitude (finding D72, repaired) ----
    // 1-6 values around ± a large base (Σx² up to 8.6e18 still fits an i64): equal values, tiny spreads on a huge mean, and
    // mixed signs whose numerator n·Σx² − (Σx)² is far beyond 53 bits. The oracle is the textbook variance over exact
    // integers (`ref_aggregate`), demanded BITWISE; the same case goes to the Lean model (correspondence: `F64.ofInt` of
    // numerators up to 2^66 against Rust's `i128 as f64`).
    let m3 = p.n(160, 4000);
    for _ in 0..m3 {
        let n = 1 + rng.below(6);
        let base: i64 = *rng.pick(&[0i64, 1_000_000_007, 300_000_007, -1_200_000_000, 94_906_267, 1 << 30, 3]);
        let shape = rng.below(3); // 0: equal values, 1: small spread, 2: mixed signs
        let vals: Vec<i64> = (0..n).map(|_| match shape {
            0 => base,
            1 => base + rng.range(-3, 4),
            _ => (if rng.chance(1, 2) { -base } else { base }) + rng.range(-3, 4),
        }).collect();
        let lines: Vec<String> = vals.iter().map(|v| format!("a;{};;;~;;;", v)).collect();
        let text = "SELECT VARIANCE(v), STDDEV(v), COUNT(*) FROM t";
        let desc = format!("defs={} query={} input={:?}", C04_DEF, text, lines);
        let rows: Vec<Vec<Value>> = vals.iter().map(|v| { let mut r = vec![Value::Null; NCOLS + 1]; r[V] = Value::Int(*v); r }).collect();
        let refs: Vec<&Vec<Value>> = rows.iter().collect();
        let want = vec![vec![ref_aggregate(&AggK::Stddev(V, true), &refs), ref_aggregate(&AggK::Stddev(V, false), &refs), Value::Int(n as i64)]];
        run.oracle_checks += 1;
        let outcome = match run_engine_batch(C04_DEF, text, &lines) {
            RowsOutcome::Rows { rows: got, .. } => {
                let same = got.len() == 1 && got[0].len() == 3 && got[0].iter().zip(want[0].iter()).all(|(x, y)| bits_equal(x, y));
                if !same {
                    run.fail(desc.clone(), "int-variance-is-not-the-rounded-exact-quotient", format!("implementation table {:?} but the exact numerator and denominator of the variance give {:?}", got, want));
                }
                "ok"
            }
            RowsOutcome::Error(e) => { run.fail(desc.clone(), "aggregate-error-on-typed-statement", format!("implementation reports `{}` but the values give {:?}", e, want)); "err" }
            RowsOutcome::Panic(msg) => { run.fail(desc.clone(), "panic:aggregate", msg); "panic" }
        };
        run.count(&format!("bigint-variance:{}", outcome));
        if let Ok(prepared) = prepare(C04_DEF, text) {
            let files = vec![join_lines(&lines)];
            let result = run_files(&prepared, &files);
            if let Some(case) = batch_case(&prepared, b"", &files, None) {
                run.case_with_desc(case, result.wire(), format!("bigint-variance|shape{}|n{}|{}", shape, n.min(3), outcome), desc);
            }
        }
    }
    // ---- stream 3b: VARIANCE / STDDEV of REAL values with a large mean and a small spread (finding D76, OPEN) ----
    // For REAL arguments the cell is the one-pass formula in REAL arithmetic: with values around 1e6 … 1e9 whose spread is a few
    // units or tenths, Σx² and (Σx)²/n agree in their leading ~16 digits and the subtraction leaves rounding noise. The oracle is
    // the EXACT variance (`exact_real_variance`, integers) with a relative tolerance of 1e-9; a cell outside it is the known finding
    // D76 only if it is bit for bit the one-pass formula's value (`judge_real_variance`), anything else is a violation. Small
    // means (the formula is accurate there) exercise the passing branch. The first two cases are the documented witnesses.
    let m3b = p.n(160, 4000);
    for i in 0..m3b {
        let texts: Vec<String> = match i {
            0 => vec!["100000001.0".to_owned(), "100000002.0".to_owned(), "100000003.0".to_owned()],
            1 => vec!["1000000.1".to_owned(), "1000000.2".to_owned(), "1000000.3".to_owned()],
            _ => {
                let n = 2 + rng.below(5);
                let base: i64 = *rng.pick(&[1_000_000i64, 10_000_000, 100_000_000, 1_000_000_000, 123_456_789, 500_000_000, 10, 0, 3, -100_000_000, 65_536]);
                let shape = rng.below(4); // 0: equal values, 1: integers base+k, 2: tenths, 3: quarters / halves (exactly representable)
                let k0 = rng.below(10) as i64;
                (0..n).map(|_| match shape {
                    0 => format!("{}.{}", base, k0),
                    1 => format!("{}.0", base + rng.range(0, 10)),
                    2 => format!("{}.{}", base, rng.below(10)),
                    _ => format!("{}.{}", base + rng.range(0, 3), rng.pick(&["0", "25", "5", "75"])),
                }).collect()
            }
        };
        let xs: Vec<f64> = texts.iter().map(|t| t.parse::<f64>().unwrap()).collect();
        let lines: Vec<String> = texts.iter().map(|t| format!("a;;;{};~;;;", t)).collect();
        let text = "SELECT VARIANCE(r), STDDEV(r), COUNT(*) FROM t";
        let desc = format!("defs={} query={} input={:?}", C04_DEF, text, lines);
        run.oracle_checks += 1;
        let outcome = match run_engine_batch(C04_DEF, text, &lines) {
            RowsOutcome::Rows { rows: got, .. } => match got.first().map(|r| r.as_slice()) {
                Some([Value::Float(v), Value::Float(sd), Value::Int(c)]) if got.len() == 1 && *c == xs.len() as i64 => match judge_real_variance(&xs, v.0, sd.0) {
                    Some(Ok(())) => "ok",
                    Some(Err(known)) => {
                        let exact = exact_real_variance(&xs).unwrap();
                        run.fail(desc.clone(), if known { "D76:real-variance-cancellation" } else { "real-variance-differs-from-exact-variance" },
                            format!("VARIANCE = {:?}, STDDEV = {:?}; the exact variance of the values is {:?} (square root {:?}); the one-pass formula (Σx² − (Σx)²/n)/n in REAL arithmetic gives {:?}", v.0, sd.0, exact, exact.sqrt(), onepass_real_variance(&xs)));
                        if known { "d76" } else { "differs" }
                    }
                    None => { run.count("oracle-abstains:real-variance"); "abstain" }
                },
                _ => { run.fail(desc.clone(), "aggregate-table-differs-from-reference", format!("implementation table {:?}: one row (VARIANCE, STDDEV, {}) expected", got, xs.len())); "shape" }
            },
            RowsOutcome::Error(e) => { run.fail(desc.clone(), "aggregate-error-on-typed-statement", format!("implementation reports `{}`", e)); "err" }
            RowsOutcome::Panic(msg) => { run.fail(desc.clone(), "panic:aggregate", msg); "panic" }
        };
        run.count(&format!("real-variance:{}", outcome));
        if let Ok(prepared) = prepare(C04_DEF, text) {
            let files = vec![join_lines(&lines)];
            let result = run_files(&prepared, &files);
            if let Some(case) = batch_case(&prepared, b"", &files, None) {
                run.case_with_desc(case, result.wire(), format!("real-variance|n{}|{}", xs.len().min(3), outcome), desc);
            }
        }
    }
    // ---- stream 4: PERCENTILE with fractions of more than two decimals over large groups ----
    // the rank min(⌊p·n⌋, n − 1) only moves with the third decimal of p once the group is large; values are the distinct numbers
    // 1..n in a shuffled order, so the cell names the rank. (Nearest-rank is the code's choice, see `code_choice`; given the
    // choice, every decimal of p counts.) Groups of up to 200 values also go to the Lean model.
    let m4 = p.n(40, 1500);
    for _ in 0..m4 {
        let n = *rng.pick(&[8usize, 100, 200, 1000, 2000]);
        let pt: &'static str = *rng.pick(&["0.125", "0.975", "0.999", "0.001", "0.333", "0.0625", "0.29", "0.57", "0.995"]);
        let mut vals: Vec<i64> = (1..=n as i64).collect();
        for i in (1..vals.len()).rev() { let j = rng.below(i + 1); vals.swap(i, j); }
        let lines: Vec<String> = vals.iter().map(|v| format!("a;{};;;~;;;", v)).collect();
        let text = format!("SELECT PERCENTILE(v, {}), COUNT(*) FROM t", pt);
        let desc = format!("defs={} query={} input=the numbers 1..{} in a shuffled order, one per line (`a;<v>;;;~;;;`)", C04_DEF, text, n);
        let rows: Vec<Vec<Value>> = vals.iter().map(|v| { let mut r = vec![Value::Null; NCOLS + 1]; r[V] = Value::Int(*v); r }).collect();
        let refs: Vec<&Vec<Value>> = rows.iter().collect();
        let want = vec![vec![ref_aggregate(&AggK::Percentile(V, pt), &refs), Value::Int(n as i64)]];
        run.oracle_checks += 1;
        let outcome = match run_engine_batch(C04_DEF, &text, &lines) {
            RowsOutcome::Rows { rows: got, .. } => {
                if got != want {
                    run.fail(desc.clone(), "code-choice:nearest-rank-percentile-cell-differs-from-reference", format!("implementation table {:?}; the element of rank min(floor(p*n), n-1) is {:?}", got, want));
                }
                "ok"
            }
            RowsOutcome::Error(e) => { run.fail(desc.clone(), "aggregate-error-on-typed-statement", format!("implementation reports `{}` but the values give {:?}", e, want)); "err" }
            RowsOutcome::Panic(msg) => { run.fail(desc.clone(), "panic:aggregate", msg); "panic" }
        };
        run.count(&format!("big-percentile:{}", outcome));
        if n <= 200 {
            if let Ok(prepared) = prepare(C04_DEF, &text) {
                let files = vec![join_lines(&lines)];
                let result = run_files(&prepared, &files);
                if let Some(case) = batch_case(&prepared, b"", &files, None) {
                    run.case_with_desc(case, result.wire(), format!("big-percentile|n{}|{}", n, outcome), desc);
                }
            }
        }
    }
    // ---- stream 5: which error the result table reports: cells without a value in several columns and groups ----
    error_order_stream(&mut run, &mut Rng::new(p.seed ^ 0x04e0), p.n(400, 12_000));
    run.notes.push("stream 5 (error-order): GROUP BY statements with 2-3 transforms of different error kinds that have no value in different groups (overflow of SUM(w) * 10, division by zero in a group of two / with SUM(v) = 0, upper / abs of the wrong type, CASE over an INT), with and without HAVING: an error must be reported and no table printed; WHICH error (the first cell in column-major order) is compared with the Lean model".to_owned());
    // ---- stream 6: how GROUP BY keys are WRITTEN must not matter ----
    // a key written twice is the same partition (`GROUP BY v + 1, v + 1, w` ≡ `GROUP BY v + 1, w`); an alias that equals the name of
    // ANOTHER key column does not redirect the key (`SELECT w AS v, v AS w … GROUP BY v, w` groups by the columns v, w). Oracle: the
    // rows of the statement equal the rows of its plainly written twin (metamorphic, both through the real engine); no panic.
    let m6 = p.n(60, 2000);
    for _ in 0..m6 {
        let lines = gen_typed_input(&mut rng, false);
        let pairs: &[(&str, &str)] = &[
            ("SELECT v + 1, w, COUNT(*) FROM t GROUP BY v + 1, v + 1, w", "SELECT v + 1, w, COUNT(*) FROM t GROUP BY v + 1, w"),
            ("SELECT k, w, MAX(v) FROM t GROUP BY k, k, w HAVING w > -5", "SELECT k, w, MAX(v) FROM t GROUP BY k, w HAVING w > -5"),
            ("SELECT upper(k), upper(k), v, SUM(w) FROM t GROUP BY upper(k), upper(k), v, w", "SELECT upper(k), upper(k), v, SUM(w) FROM t GROUP BY upper(k), v, w"),
            ("SELECT w AS v, v AS w, COUNT(*) FROM t GROUP BY v, w", "SELECT w AS x1, v AS x2, COUNT(*) FROM t GROUP BY v, w"),
            ("SELECT v AS k, COUNT(*) AS n FROM t GROUP BY k, v", "SELECT v AS x1, COUNT(*) AS n FROM t GROUP BY k, v"),
        ];
        let (a, b) = *rng.pick(pairs);
        run.oracle_checks += 1;
        let desc = format!("defs={} query={} (twin: {}) input={:?}", C04_DEF, a, b, lines);
        match (run_engine_batch(C04_DEF, a, &lines), run_engine_batch(C04_DEF, b, &lines)) {
            (RowsOutcome::Panic(m), _) | (_, RowsOutcome::Panic(m)) => run.fail(desc, "panic:aggregate", m),
            (RowsOutcome::Rows { rows: ra, .. }, RowsOutcome::Rows { rows: rb, .. }) => {
                run.count("key-spelling:rows");
                if ra != rb { run.fail(desc, "group-key-spelling-changes-table", format!("{:?} vs the twin's {:?}", ra, rb)); }
            }
            (RowsOutcome::Error(ea), RowsOutcome::Error(eb)) => { run.count("key-spelling:error"); if ea != eb { run.count("key-spelling:different-errors"); } }
            (x, y) => run.fail(desc, "group-key-spelling-changes-table", format!("one answers with a table, the twin with an error: {} / {}", match x { RowsOutcome::Error(e) => e, _ => "rows".to_owned() }, match y { RowsOutcome::Error(e) => e, _ => "rows".to_owned() })),
        }
    }
    run.notes.push("stream 1: free-form aggregate statements (1-4 select items mixing keys, aggregates, transforms; WHERE/GROUP BY/HAVING) over 0-30 lines with 5-80% NULL fields; stream 2: typed statements over TEXT/INT/REAL/BOOLEAN/TIMESTAMP columns with per-(group, column) NULL rates of 0/30/100%, single-row groups, p in {0, .5, .99, 1}, HAVING with hidden aggregates, arithmetic wrappers — compared with an independent reference".to_owned());
    // the end-to-end stream: the same property seen from raw texts and raw file bytes (`e2e.rs`, Lean `Pipeline.runText`)
    crate::e2e::stream(&mut run, &mut Rng::new(p.seed ^ 0xe2e04), p.n(250, 3000), "group");
    run
}
