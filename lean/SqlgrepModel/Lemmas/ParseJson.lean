import SqlgrepModel.Lemmas.ParseFuel
/-
The parser never builds a JSON column with an empty path (`JsonAccess::from_linear` is only reached with a
non-empty list of parts, so its `unwrap` cannot fail): `{ } => …` is answered with `ExpectedJsonColumnPartStart`.
-/
namespace Sqlgrep

def PRes.OkP {α : Type} (r : PRes α) (P : α → Prop) : Prop := ∀ a s', r = .ok a s' → P a

def PColDef.PathOk (c : PColDef) : Prop := c.parsing ≠ .json []
def PCreate.PathsOk (c : PCreate) : Prop := ∀ col ∈ c.columns, col.PathOk
def POp.PathsOk : POp → Prop
  | .select _ => True
  | .createTable c => c.PathsOk
  | .multiple cs => ∀ c ∈ cs, c.PathsOk

namespace Parse

theorem okP_err {α : Type} {e : PErr} {s : PSt} {P : α → Prop} : (PRes.err e s : PRes α).OkP P := by simp [PRes.OkP]
theorem okP_mkErr {α : Type} {k : PErrKind} {s : PSt} {P : α → Prop} : (mkErr s k : PRes α).OkP P := by simp [PRes.OkP, mkErr]
theorem okP_fuel {α : Type} {P : α → Prop} : (PRes.fuel : PRes α).OkP P := by simp [PRes.OkP]
theorem okP_ok {α : Type} {a : α} {s : PSt} {P : α → Prop} (h : P a) : (PRes.ok a s).OkP P := by
  intro b s' hb; cases hb; exact h

macro "jleaf" "[" ls:Lean.Parser.Tactic.grindParam,* "]" : tactic => `(tactic| first
  | exact okP_err
  | exact okP_mkErr
  | exact okP_fuel
  | (apply okP_ok; grind [PRes.OkP, PColDef.PathOk, PCreate.PathsOk, POp.PathsOk, $ls,*]))

theorem parseDefineColumn_parsing (T : PrecTables) (fuel : Nat) (p : PColParsing) (s : PSt) :
    (parseDefineColumn T fuel p s).OkP (fun c => c.parsing = p) := by
  unfold parseDefineColumn
  psplit
  all_goals jleaf []

theorem parsingOfRefs_ne (rs : List PRegexRef) : parsingOfRefs rs ≠ .json [] := by
  unfold parsingOfRefs; split <;> simp

theorem colItem_paths (T : PrecTables) (fuel : Nat) (ps : Patterns) (cs : List PColDef) (s : PSt)
    (hcs : ∀ c ∈ cs, c.PathOk) :
    (colItem T fuel ps cs s).OkP (fun r => ∀ pc, r = some pc → ∀ c ∈ pc.2, c.PathOk) := by
  have hd := parseDefineColumn_parsing T fuel
  have hr := parsingOfRefs_ne
  unfold colItem
  psplit
  all_goals jleaf [List.isEmpty_iff]

theorem colLoop_paths (T : PrecTables) : ∀ fuel ps cs s, (∀ c ∈ cs, c.PathOk) →
    (colLoop T fuel ps cs s).OkP (fun pc => ∀ c ∈ pc.2, c.PathOk) := by
  intro fuel
  induction fuel with
  | zero => intro ps cs s _; rw [colLoop]; exact okP_fuel
  | succ n ih =>
    intro ps cs s hcs
    have hi := colItem_paths T n ps cs s hcs
    rw [colLoop]
    psplit
    all_goals first
      | exact okP_err
      | exact okP_mkErr
      | exact okP_fuel
      | (apply okP_ok; grind [PRes.OkP])
      | (apply ih; grind [PRes.OkP])

theorem parseCreateTable_paths (T : PrecTables) (fuel : Nat) (s : PSt) :
    (parseCreateTable T fuel s).OkP PCreate.PathsOk := by
  have hl := colLoop_paths T fuel [] []
  unfold parseCreateTable
  psplit
  all_goals jleaf []

theorem opOfCreates_paths (cs : List PCreate) (h : ∀ c ∈ cs, c.PathsOk) : (opOfCreates cs).PathsOk := by
  unfold opOfCreates
  split
  · simp [POp.PathsOk]; exact h _ (by simp)
  · simpa [POp.PathsOk] using h

theorem multiCreateLoop_paths (T : PrecTables) : ∀ fuel acc s, (∀ c ∈ acc, c.PathsOk) →
    (multiCreateLoop T fuel acc s).OkP POp.PathsOk := by
  intro fuel
  induction fuel with
  | zero => intro acc s _; rw [multiCreateLoop]; exact okP_fuel
  | succ n ih =>
    intro acc s hacc
    have hc := parseCreateTable_paths T n s
    rw [multiCreateLoop]
    psplit
    all_goals first
      | exact okP_err
      | exact okP_fuel
      | (apply okP_ok; apply opOfCreates_paths; grind [PRes.OkP])
      | (apply ih; grind [PRes.OkP])

theorem parseSelect_paths (T : PrecTables) (fuel : Nat) (s : PSt) : (parseSelect T fuel s).OkP POp.PathsOk := by
  unfold parseSelect
  psplit
  all_goals first
    | exact okP_err
    | exact okP_fuel
    | (apply okP_ok; simp [POp.PathsOk])

theorem parseOp_paths (T : PrecTables) (fuel : Nat) (s : PSt) : (parseOp T fuel s).OkP POp.PathsOk := by
  have h1 := parseSelect_paths T fuel s
  have h2 := multiCreateLoop_paths T fuel [] s (by simp)
  unfold parseOp parseStatement
  psplit
  all_goals first
    | exact okP_err
    | exact okP_mkErr
    | exact okP_fuel
    | (apply okP_ok; grind [PRes.OkP])

end Parse
end Sqlgrep
