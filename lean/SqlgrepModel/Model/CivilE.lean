/- Proleptic Gregorian calendar arithmetic as chrono does it (UTC only): day numbers from CE, civil fields. -/
namespace Sqlgrep
namespace CivilE

def isLeap (y : Int) : Bool := (y % 4 == 0 && y % 100 != 0) || y % 400 == 0

def daysInMonth (y : Int) (m : Int) : Int :=
  if m == 2 then (if isLeap y then 29 else 28)
  else if m == 4 || m == 6 || m == 9 || m == 11 then 30 else 31

/-- chrono's `NaiveDate::from_ymd_opt` validity (year range −262143 ..= 262142) -/
def validDate (y m d : Int) : Bool :=
  -262143 ≤ y && y ≤ 262142 && 1 ≤ m && m ≤ 12 && 1 ≤ d && d ≤ daysInMonth y m

/-- `num_days_from_ce`: 0001-01-01 is day 1 -/
def daysFromCE (y m d : Int) : Int :=
  let y' := if m ≤ 2 then y - 1 else y
  let era := y' / 400
  let yoe := y' - era * 400
  let mp := (m + 9) % 12
  let doy := (153 * mp + 2) / 5 + d - 1
  let doe := yoe * 365 + yoe / 4 - yoe / 100 + doy
  era * 146097 + doe - 719468 + 719163

/-- inverse: (year, month, day) of a day number from CE -/
def civilOfDays (days : Int) : Int × Int × Int :=
  let z := days - 719163 + 719468
  let era := z / 146097
  let doe := z - era * 146097
  let yoe := (doe - doe / 1460 + doe / 36524 - doe / 146096) / 365
  let y := yoe + era * 400
  let doy := doe - (365 * yoe + yoe / 4 - yoe / 100)
  let mp := (5 * doy + 2) / 153
  let d := doy - (153 * mp + 2) / 5 + 1
  let m := if mp < 10 then mp + 3 else mp - 9
  (if m ≤ 2 then y + 1 else y, m, d)

def pad (width : Nat) (n : Int) : String :=
  let s := toString n.natAbs
  (if n < 0 then "-" else "") ++ String.ofList (List.replicate (width - s.length) '0') ++ s

end CivilE
end Sqlgrep
