import SqlgrepModel.Model.ExtractSpec
/-
Helper lemmas for C01 / C02 / C06: the executable model of extraction equals the specification
functions of `Model/ExtractSpec.lean`, column by column and row by row.
-/
namespace Sqlgrep.Extract
open Lit

theorem literal_eq (o : Oracles) (ty : VType) (t : Text) : fromOption (parseValue o ty t) = literal o ty t := by
  cases ty <;> simp only [parseValue, literal, fromOption]
  · cases parseI64 t <;> rfl
  · cases o.parseF64 t <;> rfl
  · cases parseBool t <;> rfl
  · cases parseTimestampLit t <;> rfl
  · cases parseInterval t <;> rfl

theorem extractUsingRegex_eq (o : Oracles) (ty : VType) (inp : ParsingInput) (r : Ref) (d : Value) :
    extractUsingRegex o ty inp r d = specScalar o ty inp r d := by
  unfold extractUsingRegex specScalar patternPresent groupText
  cases h : inp.regex.lookup r.pattern with
  | none => simp
  | some res =>
    simp only [Option.isSome_some, Bool.not_true, Bool.false_eq_true, if_false]
    by_cases hb : (ty == VType.bool) = true
    · simp [hb]
    · simp only [hb, Bool.false_eq_true, if_false]
      cases res.group r.group with
      | none => rfl
      | some t => exact literal_eq o ty t


theorem lookup_some_mem {α β : Type} [BEq α] (l : List (α × β)) (k : α) (v : β)
    (h : l.lookup k = some v) : ∃ k', (k', v) ∈ l := by
  induction l with
  | nil => simp [List.lookup] at h
  | cons p ps ih =>
    obtain ⟨a, b⟩ := p
    simp only [List.lookup] at h
    split at h
    · injection h with h; subst h; exact ⟨a, List.mem_cons_self⟩
    · obtain ⟨k', hk⟩ := ih h
      exact ⟨k', List.mem_cons_of_mem _ hk⟩

theorem monthOfName_bound {t : Text} {m : Nat} (h : monthOfName t = some m) : 1 ≤ m ∧ m ≤ 12 := by
  unfold monthOfName at h
  split at h
  · obtain ⟨k, hk⟩ := lookup_some_mem _ _ _ h
    have hall : ∀ p ∈ monthTable, 1 ≤ p.2 ∧ p.2 ≤ 12 := by decide
    exact hall _ hk
  · cases h



theorem specScalar_nonbool (o : Oracles) (ty : VType) (inp : ParsingInput) (r : Ref) (d : Value)
    (hb : (ty == VType.bool) = false) :
    specScalar o ty inp r d = match groupText inp r with | none => d | some t => literal o ty t := by
  unfold specScalar patternPresent groupText
  cases h : inp.regex.lookup r.pattern with
  | none => simp
  | some res =>
    simp only [Option.isSome_some, Bool.not_true, Bool.false_eq_true, if_false, hb]
    cases res.group r.group <;> rfl

theorem tsStep_int (c : Column) (idx : Nat) (n : Int) (p : TsParts) :
    (if idx == 0 then
      if fitsI32 n then TsStep.cont { p with year := n } else TsStep.ret c.defaultValue
    else if !fitsU32 n then TsStep.ret c.defaultValue
    else
      match idx with
      | 1 => TsStep.cont { p with month := n.toNat }
      | 2 => TsStep.cont { p with day := n.toNat }
      | 3 => TsStep.cont { p with hour := n.toNat }
      | 4 => TsStep.cont { p with minute := n.toNat }
      | 5 => TsStep.cont { p with second := n.toNat }
      | 6 =>
        if c.options.microseconds then TsStep.cont { p with micro := n.toNat }
        else if n.toNat * 1000 ≤ 4294967295 then TsStep.cont { p with micro := n.toNat * 1000 }
        else TsStep.ret c.defaultValue
      | _ => TsStep.cont p) =
    match setPart c.options.microseconds idx n p with
    | some p' => TsStep.cont p'
    | none => TsStep.ret c.defaultValue := by
  unfold setPart
  by_cases h0 : (idx == 0) = true
  · simp only [h0, if_true]; split <;> rfl
  · simp only [h0, Bool.false_eq_true, if_false]
    by_cases hu : fitsU32 n = true
    · simp only [hu, Bool.not_true, Bool.false_eq_true, if_false]
      rcases idx with _|_|_|_|_|_|_|k
      · simp at h0
      · rfl
      · rfl
      · rfl
      · rfl
      · rfl
      · simp only []
        split
        · rfl
        · split <;> rfl
      · rfl
    · simp [hu]

theorem tsStep_spec (o : Oracles) (c : Column) (inp : ParsingInput) (idx : Nat) (r : Ref) (p : TsParts) :
    tsStep o c inp idx r p =
      match specPart inp idx r with
      | .absent => .ret .null
      | .notLit => .ret .null
      | .num n =>
        match setPart c.options.microseconds idx n p with
        | some p' => .cont p'
        | none => .ret c.defaultValue := by
  unfold tsStep specPart
  rw [extractUsingRegex_eq, extractUsingRegex_eq, specScalar_nonbool _ _ _ _ _ (by decide),
    specScalar_nonbool _ _ _ _ _ (by decide)]
  cases hg : groupText inp r with
  | none => simp
  | some t =>
    simp only [literal]
    cases hp : parseI64 t with
    | some n => simp only []; exact tsStep_int c idx n p
    | none =>
      simp only []
      by_cases h1 : (idx == 1) = true
      · simp only [h1, if_true]
        cases hm : monthOfName t with
        | none => rfl
        | some m =>
          have hb := monthOfName_bound hm
          have h1' : idx = 1 := by simpa using h1
          subst h1'
          simp only [setPart]
          have hf : fitsU32 (m : Int) = true := by simp [fitsU32]; omega
          simp [hf]
      · simp [h1]

theorem tsLoop_eq (o : Oracles) (c : Column) (inp : ParsingInput) :
    ∀ (rs : List Ref) (idx : Nat) (p : TsParts),
      tsLoop o c inp rs idx p = specTsFrom c (specParts inp rs idx) idx p := by
  intro rs
  induction rs with
  | nil => intro idx p; rfl
  | cons r rs ih =>
    intro idx p
    simp only [tsLoop, specParts]
    rw [tsStep_spec]
    cases hs : specPart inp idx r with
    | absent => simp [specTsFrom]
    | notLit => simp [specTsFrom]
    | num n =>
      simp only [specTsFrom]
      cases hsp : setPart c.options.microseconds idx n p with
      | none => rfl
      | some p' => exact ih (idx + 1) p'


theorem getValue_eq_followPath (a : JsonAccess) : ∀ j : Json, a.getValue j = followPath a.steps j := by
  induction a with
  | last s =>
    intro j
    simp only [JsonAccess.getValue, JsonAccess.steps, followPath]
    cases JsonAccess.step j s <;> rfl
  | cons s inner ih =>
    intro j
    simp only [JsonAccess.getValue, JsonAccess.steps, followPath]
    cases JsonAccess.step j s with
    | none => rfl
    | some v => exact ih v

theorem convertFromJson_eq_noCoercion (ty : VType) : ∀ j : Json, convertFromJson ty j = noCoercion ty j := by
  induction ty with
  | int =>
    intro j
    cases j with
    | num n =>
      cases n with
      | posInt n f =>
        simp only [convertFromJson, noCoercion, Json.asI64]
        by_cases h : n ≤ 9223372036854775807 <;> simp [h]
      | negInt n f => rfl
      | float b => rfl
    | _ => rfl
  | real =>
    intro j
    cases j with
    | num n => cases n <;> rfl
    | _ => rfl
  | bool => intro j; cases j <;> rfl
  | text => intro j; cases j <;> rfl
  | timestamp => intro j; cases j <;> rfl
  | interval => intro j; cases j <;> rfl
  | array e ih =>
    intro j
    cases j with
    | arr xs =>
      simp only [convertFromJson, noCoercion, Json.asArray]
      congr 1
      exact List.map_congr_left (fun x _ => ih x)
    | _ => rfl


theorem any_not_isNull (vs : List Value) : vs.any (fun v => !v.isNull) = !vs.all Value.isNull := by
  induction vs with
  | nil => rfl
  | cons v vs ih => simp only [List.any_cons, List.all_cons, ih, Bool.not_and]

/-- the model's column value is the specified one -/
theorem columnValue_eq_spec (o : Oracles) (c : Column) (inp : ParsingInput) :
    columnValue o c inp = specColumn o c inp := by
  unfold columnValue specColumn extractColumn
  congr 1
  cases c.parsing with
  | regex r => exact extractUsingRegex_eq o c.type inp r c.defaultValue
  | multi rs =>
    simp only []
    cases c.type with
    | array e =>
      simp only []
      have hm : rs.map (fun r => extractUsingRegex o e inp r .null) = rs.map (fun r => specScalar o e inp r .null) :=
        List.map_congr_left (fun r _ => extractUsingRegex_eq o e inp r .null)
      rw [hm, any_not_isNull]
      cases (rs.map (fun r => specScalar o e inp r .null)).all Value.isNull <;> rfl
    | timestamp => exact tsLoop_eq o c inp rs 0 {}
    | _ => rfl
  | json a =>
    simp only []
    rw [getValue_eq_followPath]
    cases followPath a.steps inp.json with
    | none => rfl
    | some v =>
      simp only []
      cases c.options.convert with
      | false => exact convertFromJson_eq_noCoercion c.type v
      | true =>
        simp only [if_true]
        cases v <;> first | rfl | exact literal_eq o c.type _

theorem extractLoop_some (o : Oracles) (inp : ParsingInput) :
    ∀ (cols : List Column) (vs : List Value), extractLoop o inp cols = some vs →
      vs = cols.map (fun c => columnValue o c inp) := by
  intro cols
  induction cols with
  | nil => intro vs h; simp [extractLoop] at h; simp [h]
  | cons c cs ih =>
    intro vs h
    simp only [extractLoop] at h
    split at h
    · cases h
    · split at h
      · cases h
      · rename_i vs' hvs
        injection h with h
        subst h
        simp only [List.map_cons, ih _ hvs]

theorem extractLoop_none_iff (o : Oracles) (inp : ParsingInput) (cols : List Column) :
    extractLoop o inp cols = none ↔
      ∃ c ∈ cols, c.options.nullable = false ∧ (columnValue o c inp).isNull = true := by
  induction cols with
  | nil => simp [extractLoop]
  | cons c cs ih =>
    simp only [extractLoop, List.mem_cons, exists_eq_or_imp]
    by_cases hc : ((columnValue o c inp).isNull && !c.options.nullable) = true
    · simp only [hc, if_true, true_iff]
      left
      simp only [Bool.and_eq_true, Bool.not_eq_true'] at hc
      exact ⟨hc.2, hc.1⟩
    · simp only [hc, Bool.false_eq_true, if_false]
      have hc' : ¬(c.options.nullable = false ∧ (columnValue o c inp).isNull = true) := by
        intro h; apply hc; simp [h.1, h.2]
      constructor
      · intro h
        right
        apply ih.1
        cases he : extractLoop o inp cs with
        | none => rfl
        | some vs => simp [he] at h
      · intro h
        rcases h with h | h
        · exact absurd h hc'
        · rw [ih.2 h]


end Sqlgrep.Extract
