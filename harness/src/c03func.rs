// C03, the clause "functions, casts, EXTRACT and array subscripts (1-based) behave as the README describes":
// (1) `function_cases`: a deterministic table that calls EVERY function with arguments of every type (NULL included) and
//     with the boundary values of each (pow exponents around 64 and u32::MAX, abs at i64::MIN, date_trunc with each part
//     and unknown ones at the edges of the i64-nanosecond window, make_timestamp with each part just inside and outside
//     its range, casts between every pair of types, subscripts of the results of the array functions);
// (2) `spec_function`: the meaning of the ROOT function call / cast computed from the values of its operands without the
//     code under check (own arithmetic, Rust std, chrono called directly). Where neither the sentence nor the README fixes
//     the outcome (NULL operands, display formats, same-type pairs outside the README's signature) it answers
//     `Unspecified` and the correspondence with the Lean model (`Props/C03Func.lean`) is what judges.
use chrono::{DateTime, Datelike, Duration, Local, NaiveDate, TimeZone, Timelike};
use sqlgrep::model::*;

use crate::c03::{bx, call, check_expr, lit, Expect, NUM_TEXTS, PATTERNS};
use crate::exprs::Ev;
use crate::gen::{F64_EDGE_BITS, INT_EDGES};
use crate::run::Run;
use crate::util::Rng;

pub const REGEX_TEXTS: &[&str] = &["hello world", "1000", "100", "aab", "ab", "b", "l{2}", "a{2}", "{", "}", "a.c", "abc", "a+", "x", "", "10{3,}", "l{2", "a|b", "(", "[", "^a$", "\\", "é"];

fn days_in_month(y: i64, m: i64) -> i64 {
    let leap = (y % 4 == 0 && y % 100 != 0) || y % 400 == 0;
    match m { 2 => if leap { 29 } else { 28 }, 4 | 6 | 9 | 11 => 30, _ => 31 }
}

/// validity of civil parts by the README's plain reading (an existing calendar date, a time of day, microseconds below a
/// second — or below two at second 59, chrono's leap-second form) inside chrono's year range
fn civil_valid(y: i64, mo: i64, d: i64, h: i64, mi: i64, s: i64, us: i64) -> bool {
    (-262143..=262142).contains(&y) && (1..=12).contains(&mo) && d >= 1 && d <= days_in_month(y, mo)
        && (0..24).contains(&h) && (0..60).contains(&mi) && (0..60).contains(&s) && us >= 0 && (us < 1_000_000 || (s == 59 && us < 2_000_000))
}

pub fn mk_ts(y: i32, mo: u32, d: u32, h: u32, mi: u32, s: u32, nanos: u32) -> Option<DateTime<Local>> {
    let n = NaiveDate::from_ymd_opt(y, mo, d)?.and_hms_nano_opt(h, mi, s, nanos)?;
    Local.from_local_datetime(&n).single()
}

/// x^y over the integers when it is an i64 (own arithmetic, no `checked_pow`)
fn int_pow(x: i64, y: u64) -> Option<i64> {
    match x {
        0 => Some(if y == 0 { 1 } else { 0 }),
        1 => Some(1),
        -1 => Some(if y % 2 == 0 { 1 } else { -1 }),
        _ => {
            if y > 64 { return None; }
            let mut acc: i128 = 1;
            for _ in 0..y {
                acc *= x as i128;
                if acc > i64::MAX as i128 || acc < i64::MIN as i128 { return None; }
            }
            Some(acc as i64)
        }
    }
}

fn ascii_case(s: &str, upper: bool) -> String {
    s.chars().map(|c| if upper && ('a'..='z').contains(&c) { (c as u8 - 32) as char } else if !upper && ('A'..='Z').contains(&c) { (c as u8 + 32) as char } else { c }).collect()
}

fn instant(t: &DateTime<Local>) -> (i64, u32) { (t.timestamp(), t.timestamp_subsec_nanos()) }

pub(crate) fn spec_function(e: &ExpressionTree, ev: &dyn Fn(&ExpressionTree) -> Ev) -> (Expect, &'static str) {
    use Expect::{Error, Unspecified, ValueIfAny};
    fn val(v: Value) -> Expect { Expect::Value(v) }
    match e {
        ExpressionTree::FunctionCall { function, arguments } => {
            let mut vals: Vec<Value> = Vec::new();
            for a in arguments {
                match ev(a) { Ev::Ok(v) => vals.push(v), Ev::Panic(_) => return (Unspecified, ""), Ev::Err(_) => return (Error, "operand-error") }
            }
            let any_null = vals.iter().any(|v| v.is_null());
            match (function, vals.as_slice()) {
                (Function::Greatest | Function::Least, [a, b]) => {
                    let g = *function == Function::Greatest;
                    match (a, b) {
                        (Value::Int(x), Value::Int(y)) => (val(Value::Int(if g { *x.max(y) } else { *x.min(y) })), "least-greatest"),
                        (Value::Interval(x), Value::Interval(y)) => (val(Value::Interval(if g { *x.max(y) } else { *x.min(y) })), "least-greatest"),
                        (Value::Timestamp(x), Value::Timestamp(y)) => {
                            let first_is_answer = if g { instant(x) >= instant(y) } else { instant(x) <= instant(y) };
                            (val(Value::Timestamp(if first_is_answer { *x } else { *y })), "least-greatest")
                        }
                        (Value::Float(x), Value::Float(y)) => {
                            if x.0.is_nan() || y.0.is_nan() || (x.0 == 0.0 && y.0 == 0.0) { return (Unspecified, ""); }
                            (val(Value::Float(Float(if (x.0 > y.0) == g { x.0 } else { y.0 }))), "least-greatest")
                        }
                        _ if any_null => (Unspecified, ""),
                        (a, b) if a.value_type() == b.value_type() => (Unspecified, ""),
                        _ => (Error, "fn-type-mismatch"),
                    }
                }
                (Function::Abs, [a]) => match a {
                    Value::Int(x) => match x.checked_abs() { Some(v) => (val(Value::Int(v)), "abs"), None => (Error, "abs-overflow") },
                    Value::Interval(x) => (val(Value::Interval(if *x < Duration::zero() { -*x } else { *x })), "abs"),
                    Value::Float(x) => (val(Value::Float(Float(x.0.abs()))), "abs"),
                    Value::Null => (Unspecified, ""),
                    _ => (Error, "fn-type-mismatch"),
                },
                (Function::Sqrt, [a]) => match a {
                    Value::Float(x) => (val(Value::Float(Float(x.0.sqrt()))), "sqrt"),
                    Value::Null | Value::Int(_) => (Unspecified, ""),
                    _ => (Error, "fn-type-mismatch"),
                },
                (Function::Pow, [a, b]) => match (a, b) {
                    // no INT value may be emitted but the mathematical power; where that is not an i64 an error is due
                    (Value::Int(x), Value::Int(y)) => {
                        if *y < 0 { return (Unspecified, ""); }
                        match int_pow(*x, *y as u64) {
                            Some(v) if *y <= u32::MAX as i64 => (val(Value::Int(v)), "pow-int"),
                            Some(v) => (ValueIfAny(Value::Int(v)), "pow-int-huge-exponent"),
                            None => (Error, "pow-overflow"),
                        }
                    }
                    (Value::Float(_), Value::Float(_)) => (Unspecified, ""),
                    _ if any_null => (Unspecified, ""),
                    (Value::Int(_), Value::Float(_)) | (Value::Float(_), Value::Int(_)) => (Unspecified, ""),
                    _ => (Error, "fn-type-mismatch"),
                },
                (Function::StringLength, [a]) => match a {
                    Value::String(s) => (val(Value::Int(s.chars().count() as i64)), "length-code-points"),
                    Value::Null => (Unspecified, ""),
                    _ => (Error, "fn-type-mismatch"),
                },
                (Function::StringToUpper | Function::StringToLower, [a]) => match a {
                    Value::String(s) if s.is_ascii() => (val(Value::String(ascii_case(s, *function == Function::StringToUpper))), "ascii-case"),
                    Value::String(_) | Value::Null => (Unspecified, ""),
                    _ => (Error, "fn-type-mismatch"),
                },
                (Function::RegexMatches, [a, b]) => match (a, b) {
                    (Value::String(v), Value::String(p)) => match regex::Regex::new(p) {
                        Ok(re) => (val(Value::Bool(re.is_match(v))), "regex-matches"),
                        Err(_) => (Error, "regex-invalid-pattern"),
                    },
                    _ if any_null => (Unspecified, ""),
                    _ => (Error, "fn-type-mismatch"),
                },
                (Function::CreateArray, vs) => {
                    let types: Vec<ValueType> = vs.iter().filter_map(|v| v.value_type()).collect();
                    if types.is_empty() { return (Error, "array-without-element-type"); }
                    if types.iter().all(|t| *t == types[0]) { (val(Value::Array(types[0].clone(), vs.to_vec())), "array-constructor") } else { (Error, "array-mixed-types") }
                }
                (Function::ArrayLength, [a]) => match a {
                    Value::Array(_, xs) => (val(Value::Int(xs.len() as i64)), "array-length"),
                    Value::Null => (Unspecified, ""),
                    _ => (Error, "fn-type-mismatch"),
                },
                (Function::ArrayUnique, [a]) => match a { Value::Array(_, _) | Value::Null => (Unspecified, ""), _ => (Error, "fn-type-mismatch") },
                (Function::ArrayCat, [a, b]) => match (a, b) {
                    (Value::Array(t, xs), Value::Array(u, ys)) => if t == u { let mut z = xs.clone(); z.extend(ys.iter().cloned()); (val(Value::Array(t.clone(), z)), "array-cat") } else { (Error, "array-cat-type-mismatch") },
                    _ if any_null => (Unspecified, ""),
                    _ => (Error, "fn-type-mismatch"),
                },
                (Function::ArrayAppend, [a, b]) => match a {
                    Value::Array(t, xs) => if b.value_type().as_ref() == Some(t) { let mut z = xs.clone(); z.push(b.clone()); (val(Value::Array(t.clone(), z)), "array-append") } else if b.is_null() { (Unspecified, "") } else { (Error, "array-element-type-mismatch") },
                    Value::Null => (Unspecified, ""),
                    _ => (Error, "fn-type-mismatch"),
                },
                (Function::ArrayPrepend, [a, b]) => match b {
                    Value::Array(t, xs) => if a.value_type().as_ref() == Some(t) { let mut z = vec![a.clone()]; z.extend(xs.iter().cloned()); (val(Value::Array(t.clone(), z)), "array-prepend") } else if a.is_null() { (Unspecified, "") } else { (Error, "array-element-type-mismatch") },
                    Value::Null => (Unspecified, ""),
                    _ => (Error, "fn-type-mismatch"),
                },
                (Function::MakeTimestamp, [Value::Int(y), Value::Int(mo), Value::Int(d), Value::Int(h), Value::Int(mi), Value::Int(s), Value::Int(us), _]) => {
                    if civil_valid(*y, *mo, *d, *h, *mi, *s, *us) {
                        match mk_ts(*y as i32, *mo as u32, *d as u32, *h as u32, *mi as u32, *s as u32, (*us as u32) * 1000) {
                            Some(t) => (val(Value::Timestamp(t)), "make-timestamp"),
                            None => (Unspecified, ""),
                        }
                    } else {
                        // not a civil time: no timestamp may come out (the code answers NULL)
                        (ValueIfAny(Value::Null), "make-timestamp-invalid-parts")
                    }
                }
                // the README's form: seven INT parts (D64, repaired in /repo 7252aee: the evaluator only knew an eight-argument form)
                (Function::MakeTimestamp, [Value::Int(y), Value::Int(mo), Value::Int(d), Value::Int(h), Value::Int(mi), Value::Int(s), Value::Int(us)]) => {
                    if civil_valid(*y, *mo, *d, *h, *mi, *s, *us) {
                        match mk_ts(*y as i32, *mo as u32, *d as u32, *h as u32, *mi as u32, *s as u32, (*us as u32) * 1000) {
                            Some(t) => (val(Value::Timestamp(t)), "make-timestamp"),
                            None => (Unspecified, ""),
                        }
                    } else { (ValueIfAny(Value::Null), "make-timestamp-invalid-parts") }
                }
                (Function::MakeTimestamp, vs) if vs.len() == 8 || vs.len() == 7 => if vs[..7].iter().any(|v| !matches!(v, Value::Int(_) | Value::Null)) { (Error, "fn-type-mismatch") } else { (Unspecified, "") },
                (Function::TimestampExtractYear | Function::TimestampExtractMonth | Function::TimestampExtractDay | Function::TimestampExtractHour | Function::TimestampExtractMinute | Function::TimestampExtractSecond, [a]) => match a {
                    Value::Timestamp(t) => {
                        let v = match function {
                            Function::TimestampExtractYear => t.year() as i64,
                            Function::TimestampExtractMonth => t.month() as i64,
                            Function::TimestampExtractDay => t.day() as i64,
                            Function::TimestampExtractHour => t.hour() as i64,
                            Function::TimestampExtractMinute => t.minute() as i64,
                            _ => t.second() as i64,
                        };
                        (val(Value::Int(v)), "extract-field")
                    }
                    Value::Null => (Unspecified, ""),
                    _ => (Error, "fn-type-mismatch"),
                },
                (Function::TruncateTimestamp, [a, b]) => match (a, b) {
                    (Value::String(part), Value::Timestamp(t)) => {
                        let leap = t.nanosecond() >= 1_000_000_000;
                        let span: Option<i64> = match part.as_str() { "hour" => Some(3_600_000_000_000), "minute" => Some(60_000_000_000), "second" => Some(1_000_000_000), "milliseconds" => Some(1_000_000), "microseconds" => Some(1_000), _ => None };
                        match (part.as_str(), span) {
                            ("year", _) => (mk_ts(t.year(), 1, 1, 0, 0, 0, 0).map(|r| val(Value::Timestamp(r))).unwrap_or(Unspecified), "date-trunc-year"),
                            ("month", _) => (mk_ts(t.year(), t.month(), 1, 0, 0, 0, 0).map(|r| val(Value::Timestamp(r))).unwrap_or(Unspecified), "date-trunc-month"),
                            ("day", _) => (mk_ts(t.year(), t.month(), t.day(), 0, 0, 0, 0).map(|r| val(Value::Timestamp(r))).unwrap_or(Unspecified), "date-trunc-day"),
                            (_, Some(span)) => {
                                if leap { return (Unspecified, ""); }
                                // t minus (instant mod span); outside the i64-nanosecond window chrono gives up (left open)
                                let total: i128 = t.timestamp() as i128 * 1_000_000_000 + t.timestamp_subsec_nanos() as i128;
                                if total > i64::MAX as i128 || total < i64::MIN as i128 { return (Unspecified, ""); }
                                let down = total.rem_euclid(span as i128) as i64;
                                match t.checked_sub_signed(Duration::nanoseconds(down)) { Some(r) => (val(Value::Timestamp(r)), "date-trunc-span"), None => (Unspecified, "") }
                            }
                            _ => (Error, "date-trunc-unknown-part"),
                        }
                    }
                    _ if any_null => (Unspecified, ""),
                    _ => (Error, "fn-type-mismatch"),
                },
                // seconds since 1970-01-01 UTC with the milliseconds as fraction: a value for EVERY timestamp (also far outside
                // 1677..2262), from the instant's whole seconds and milliseconds
                (Function::TimestampExtractEpoch, [a]) => match a {
                    Value::Timestamp(t) if t.timestamp_subsec_nanos() < 1_000_000_000 => (val(Value::Float(Float((t.timestamp() as f64 * 1000.0 + t.timestamp_subsec_millis() as f64) / 1000.0))), "epoch"),
                    Value::Timestamp(_) | Value::Null => (Unspecified, ""),
                    _ => (Error, "fn-type-mismatch")
                },
                _ => (Unspecified, ""),
            }
        }
        ExpressionTree::TypeConversion { operand, convert_to_type } => {
            let v = match ev(operand) { Ev::Ok(v) => v, Ev::Panic(_) => return (Unspecified, ""), Ev::Err(_) => return (Error, "operand-error") };
            let t = convert_to_type;
            if v.value_type().as_ref() == Some(t) { return (val(v), "cast-identity"); }
            match (&v, t) {
                (Value::Null, ValueType::String) => (Unspecified, ""),
                // a cast of NULL: neither the sentence nor the README says (the code reports an error, SQL says NULL): model-vs-code only
                (Value::Null, _) => (Unspecified, ""),
                (Value::Int(n), ValueType::String) => (val(Value::String(n.to_string())), "cast-int-text"),
                (Value::Bool(b), ValueType::String) => (val(Value::String(if *b { "true" } else { "false" }.to_owned())), "cast-bool-text"),
                (_, ValueType::String) => (Unspecified, ""),
                (Value::String(s), ValueType::Int) => match s.parse::<i64>() { Ok(n) => (val(Value::Int(n)), "cast-text-int"), Err(_) => (Error, "cast-text-not-a-literal") },
                (Value::String(s), ValueType::Bool) => match s.as_str() { "true" => (val(Value::Bool(true)), "cast-text-bool"), "false" => (val(Value::Bool(false)), "cast-text-bool"), _ => (Error, "cast-text-not-a-literal") },
                (Value::String(s), ValueType::Float) => match s.parse::<f64>() { Ok(f) => (val(Value::Float(Float(f))), "cast-text-real"), Err(_) => (Error, "cast-text-not-a-literal") },
                (Value::String(_), ValueType::Array(_)) => (Error, "cast-text-not-a-literal"),
                // TEXT -> TIMESTAMP: the literal form `YYYY-MM-DD hh:mm:ss` as chrono reads it (independent call); anything else is an error
                (Value::String(s), ValueType::Timestamp) => match crate::exprs::ts_parse_oracle(s) { Some(v) => (val(v), "cast-text-timestamp"), None => (Error, "cast-text-not-a-literal") },
                // TEXT -> INTERVAL: `h:m:s` of three integers (moderate sizes decided here, huge ones left open)
                (Value::String(s), ValueType::Interval) => {
                    let parts: Vec<&str> = s.split(':').collect();
                    let nums: Vec<Option<i64>> = parts.iter().map(|p| p.parse::<i64>().ok()).collect();
                    if parts.len() != 3 || nums.iter().any(|n| n.is_none()) { (Error, "cast-text-not-a-literal") }
                    else {
                        let n: Vec<i64> = nums.iter().map(|n| n.unwrap()).collect();
                        if n.iter().all(|x| x.abs() < 10_000_000) { (val(Value::Interval(Duration::seconds(n[0] * 3600 + n[1] * 60 + n[2]))), "cast-text-interval") } else { (Unspecified, "") }
                    }
                }
                (Value::String(_), _) => (Unspecified, ""),
                (Value::Interval(d), ValueType::Int) => (val(Value::Int(d.num_seconds())), "cast-interval-seconds"),
                (Value::Interval(_), ValueType::Float) => (Unspecified, ""),
                // cast pairs no document lists (BOOLEAN::INT, arrays, TIMESTAMP::INT …): the code has no conversion and reports an
                // error; a conversion added later would not contradict the sentence, so only model-vs-code is compared here
                _ => (Unspecified, ""),
            }
        }
        _ => (Unspecified, ""),
    }
}

fn int_array(xs: &[Option<i64>]) -> Value { Value::Array(ValueType::Int, xs.iter().map(|x| x.map(Value::Int).unwrap_or(Value::Null)).collect()) }
fn text_array(xs: &[&str]) -> Value { Value::Array(ValueType::String, xs.iter().map(|x| Value::String((*x).to_owned())).collect()) }

pub fn sample_timestamps() -> Vec<DateTime<Local>> {
    let mut out = Vec::new();
    for (y, mo, d, h, mi, s, n) in [
        (2024, 2, 29, 13, 45, 12, 345_678_901u32), (2023, 12, 31, 23, 59, 59, 999_999_999), (2000, 1, 1, 0, 0, 0, 0), (1970, 1, 1, 0, 0, 0, 0),
        (1969, 12, 31, 23, 59, 59, 500_000_000), (1900, 3, 1, 12, 0, 0, 1), (1, 1, 1, 0, 0, 0, 0), (0, 12, 31, 6, 7, 8, 9), (-1, 2, 28, 1, 2, 3, 4), (-4, 2, 29, 23, 0, 0, 0),
        (9999, 12, 31, 23, 59, 59, 0), (10000, 1, 1, 0, 0, 0, 0), (262142, 12, 31, 23, 59, 59, 999_999_999), (-262143, 1, 1, 0, 0, 0, 0),
        // the i64-nanosecond window of chrono's duration_trunc: 1677-09-21T00:12:43.145224192 ..= 2262-04-11T23:47:16.854775807
        (1677, 9, 21, 0, 12, 43, 145_224_192), (1677, 9, 21, 0, 12, 43, 145_224_191), (1677, 9, 21, 0, 12, 44, 0), (1677, 9, 21, 1, 0, 0, 0), (1677, 9, 20, 23, 0, 0, 0),
        (2262, 4, 11, 23, 47, 16, 854_775_807), (2262, 4, 11, 23, 47, 16, 854_775_808), (2262, 4, 11, 23, 47, 17, 0), (2262, 4, 12, 0, 0, 0, 0),
        // chrono's leap-second form
        (2016, 12, 31, 23, 59, 59, 1_500_000_000), (2024, 6, 30, 12, 30, 59, 1_999_999_999),
    ] {
        if let Some(t) = mk_ts(y, mo, d, h, mi, s, n) { out.push(t); }
    }
    out
}

/// one or more representative values of every type, NULL included (`small` = one or two per type)
pub fn sample_values(small: bool) -> Vec<Value> {
    let ts = sample_timestamps();
    let mut out = vec![Value::Null];
    let ints: &[i64] = if small { &[3, -7] } else { INT_EDGES };
    out.extend(ints.iter().map(|i| Value::Int(*i)));
    let floats: Vec<u64> = if small { vec![0x3ff8000000000000, 0xc014000000000000] } else { F64_EDGE_BITS.iter().step_by(2).cloned().collect() };
    out.extend(floats.iter().map(|b| Value::Float(Float(f64::from_bits(*b)))));
    out.push(Value::Bool(true));
    if !small { out.push(Value::Bool(false)); }
    let texts: &[&str] = if small { &["Hello, World 42!", "é"] } else { &["", "a", "Hello, World 42!{`@[", "é", "zé€😀", "ß", "İ", "ǆ", "1", "-5", "+7", " 1", "true", "false", "TRUE", "1.5", "nan", "9223372036854775807", "9223372036854775808", "-9223372036854775808", "2021-03-04 05:06:07", "01:02:03", "-1:00:30", "999999999999:0:0", "year", "日本"] };
    out.extend(texts.iter().map(|s| Value::String((*s).to_owned())));
    let tsel: Vec<usize> = if small { vec![0, 4] } else { (0..ts.len()).collect() };
    out.extend(tsel.into_iter().filter_map(|i| ts.get(i).cloned()).map(Value::Timestamp));
    let ivs: Vec<Duration> = if small { vec![Duration::nanoseconds(-1_500_000_000), Duration::seconds(3723)] } else {
        vec![Duration::zero(), Duration::seconds(1), Duration::nanoseconds(-1_500_000_000), Duration::nanoseconds(1_999_999_999), Duration::nanoseconds(-1_999_999_999), Duration::nanoseconds(999_999), Duration::seconds(3723), Duration::milliseconds(i64::MAX), Duration::milliseconds(-i64::MAX), Duration::seconds(-86_400 * 400)]
    };
    out.extend(ivs.into_iter().map(Value::Interval));
    out.push(int_array(&[Some(1), Some(2), Some(3)]));
    out.push(text_array(&["a", "b"]));
    if !small {
        out.push(int_array(&[]));
        out.push(int_array(&[Some(5), None, Some(5)]));
        out.push(text_array(&[]));
        out.push(Value::Array(ValueType::Array(Box::new(ValueType::Int)), vec![int_array(&[Some(1)]), int_array(&[])]));
        out.push(Value::Array(ValueType::Float, vec![Value::Float(Float(1.5))]));
    }
    out
}

const UNARY: &[Function] = &[Function::Abs, Function::Sqrt, Function::StringLength, Function::StringToUpper, Function::StringToLower, Function::ArrayUnique, Function::ArrayLength,
    Function::TimestampExtractEpoch, Function::TimestampExtractYear, Function::TimestampExtractMonth, Function::TimestampExtractDay, Function::TimestampExtractHour, Function::TimestampExtractMinute, Function::TimestampExtractSecond];
const BINARY: &[Function] = &[Function::Greatest, Function::Least, Function::Pow, Function::RegexMatches, Function::ArrayCat, Function::ArrayAppend, Function::ArrayPrepend, Function::TruncateTimestamp];
const PARTS: &[&str] = &["year", "month", "day", "hour", "minute", "second", "milliseconds", "microseconds", "week", "HOUR", "Year", "", "millisecond", "hours", "day "];

fn all_types() -> Vec<ValueType> {
    vec![ValueType::Int, ValueType::Float, ValueType::Bool, ValueType::String, ValueType::Timestamp, ValueType::Interval,
        ValueType::Array(Box::new(ValueType::Int)), ValueType::Array(Box::new(ValueType::String)), ValueType::Array(Box::new(ValueType::Array(Box::new(ValueType::Int))))]
}

pub fn function_cases(run: &mut Run, rng: &mut Rng, thorough: bool) {
    let env: Vec<(String, Value)> = Vec::new();
    let all = sample_values(false);
    let small = sample_values(true);
    let before = run.impl_out.len();
    // every unary function × every sample value of every type
    for f in UNARY {
        for v in &all { check_expr(run, &env, &call(f.clone(), vec![lit(v.clone())]), "fn1:"); }
    }
    // every binary function × every pair of types (small samples), plus same-type pairs of all samples
    for f in BINARY {
        for a in &small { for b in &small { check_expr(run, &env, &call(f.clone(), vec![lit(a.clone()), lit(b.clone())]), "fn2:"); } }
    }
    for f in &[Function::Greatest, Function::Least] {
        for a in &all { for b in &all {
            if a.value_type() == b.value_type() && !a.is_null() && (thorough || rng.chance(1, 4)) { check_expr(run, &env, &call(f.clone(), vec![lit(a.clone()), lit(b.clone())]), "fn2:"); }
        } }
    }
    // wrong numbers of arguments
    for f in UNARY.iter().chain(BINARY.iter()).chain([Function::TimestampNow, Function::MakeTimestamp].iter()) {
        for n in [0usize, 1, 2, 3, 7, 9] {
            if *f == Function::TimestampNow && n == 0 { continue; }
            check_expr(run, &env, &call(f.clone(), (0..n).map(|_| lit(Value::Int(1))).collect()), "arity:");
        }
    }
    // pow: bases whose powers never / soon / immediately overflow × exponents around 64, u32::MAX, and beyond
    let bases: &[i64] = &[0, 1, -1, 2, -2, 3, -3, 7, 10, 15, 3037000499, 3037000500, -3037000500, 2097151, 2097152, i64::MAX, i64::MIN];
    let exps: &[i64] = &[0, 1, 2, 3, 31, 32, 39, 40, 62, 63, 64, 65, 4294967294, 4294967295, 4294967296, 4294967297, 4294967298, 8589934594, i64::MAX, -1, -2, i64::MIN];
    for x in bases { for y in exps { check_expr(run, &env, &call(Function::Pow, vec![lit(Value::Int(*x)), lit(Value::Int(*y))]), "pow:"); } }
    for xb in [0x4000000000000000u64, 0xc000000000000000, 0x0, 0x7ff0000000000000, 0x7ff8000000000000] { for yb in [0x3fe0000000000000u64, 0x4008000000000000, 0xbff0000000000000, 0x0, 0x7ff0000000000000] {
        check_expr(run, &env, &call(Function::Pow, vec![lit(Value::Float(Float(f64::from_bits(xb)))), lit(Value::Float(Float(f64::from_bits(yb))))]), "pow:");
    } }
    // abs / negation at the extremes
    for x in INT_EDGES { check_expr(run, &env, &call(Function::Abs, vec![lit(Value::Int(*x))]), "abs:"); }
    // date_trunc: every part (and unknown ones) × every sample timestamp; the result truncated again (idempotence)
    for part in PARTS {
        for t in sample_timestamps() {
            let once = call(Function::TruncateTimestamp, vec![lit(Value::String((*part).to_owned())), lit(Value::Timestamp(t))]);
            check_expr(run, &env, &once, "trunc:");
            if thorough || rng.chance(1, 3) {
                check_expr(run, &env, &call(Function::TruncateTimestamp, vec![lit(Value::String((*part).to_owned())), once.clone()]), "trunc2:");
            }
        }
    }
    // make_timestamp: one part at a time just inside / outside its range around valid bases, the February matrix, the
    // leap-second matrix; EXTRACT of every field of every result
    let mut tuples: Vec<[i64; 7]> = Vec::new();
    let base: [i64; 7] = [2024, 6, 15, 12, 30, 45, 500_000];
    let ranges: [&[i64]; 7] = [
        &[-262144, -262143, -4, -1, 0, 1, 1677, 1970, 2000, 9999, 10000, 262142, 262143, 2147483647, 2147483648, 4294969313, -2147483648, -2147483649, i64::MAX, i64::MIN],
        &[-1, 0, 1, 2, 12, 13, 4294967295, 4294967296, 4294967297, i64::MIN],
        &[-1, 0, 1, 28, 29, 30, 31, 32, 4294967297, i64::MAX],
        &[-1, 0, 23, 24, 4294967296, 4294967319],
        &[-1, 0, 59, 60, 4294967296],
        &[-1, 0, 58, 59, 60, 61, 4294967355],
        &[-1, 0, 1, 999_999, 1_000_000, 1_999_999, 2_000_000, 4_294_967, 4_294_968, 4294967296, i64::MAX],
    ];
    for (i, r) in ranges.iter().enumerate() { for v in r.iter() { let mut t = base; t[i] = *v; tuples.push(t); } }
    for y in [1900i64, 2000, 2023, 2024, 2100, -4, 0, 262142, -262143] { for mo in 1..=12i64 { for d in [28i64, 29, 30, 31, 32] { if mo == 2 || d >= 30 { tuples.push([y, mo, d, 0, 0, 0, 0]); } } } }
    for s in [58i64, 59] { for us in [999_999i64, 1_000_000, 1_500_000, 1_999_999, 2_000_000] { for (h, mi) in [(23i64, 59i64), (12, 30), (0, 0)] { tuples.push([2016, 12, 31, h, mi, s, us]); } } }
    let fields = [Function::TimestampExtractYear, Function::TimestampExtractMonth, Function::TimestampExtractDay, Function::TimestampExtractHour, Function::TimestampExtractMinute, Function::TimestampExtractSecond];
    for (k, t) in tuples.iter().enumerate() {
        let mut args: Vec<ExpressionTree> = t.iter().map(|v| lit(Value::Int(*v))).collect();
        args.push(lit(Value::Int(0)));
        let mk = call(Function::MakeTimestamp, args);
        check_expr(run, &env, &mk, "mkts:");
        if thorough { for f in &fields { check_expr(run, &env, &call(f.clone(), vec![mk.clone()]), "extract:"); } }
        else { check_expr(run, &env, &call(fields[k % 6].clone(), vec![mk.clone()]), "extract:"); }
    }
    for t in tuples.iter().take(40) {
        check_expr(run, &env, &call(Function::MakeTimestamp, t.iter().map(|v| lit(Value::Int(*v))).collect()), "mkts7:");
    }
    // a part of another type / NULL in each position
    for i in 0..8 { for v in &small {
        let mut args: Vec<ExpressionTree> = base.iter().map(|v| lit(Value::Int(*v))).collect();
        args.push(lit(Value::Int(0)));
        args[i] = lit(v.clone());
        check_expr(run, &env, &call(Function::MakeTimestamp, args), "mkts:");
    } }
    // casts: every sample value to every type; INT -> TEXT -> INT; TEXT literals to every type
    for v in &all { for t in all_types() {
        let c = ExpressionTree::TypeConversion { operand: bx(lit(v.clone())), convert_to_type: t.clone() };
        check_expr(run, &env, &c, "cast:");
    } }
    for x in INT_EDGES {
        let to_text = ExpressionTree::TypeConversion { operand: bx(lit(Value::Int(*x))), convert_to_type: ValueType::String };
        check_expr(run, &env, &ExpressionTree::TypeConversion { operand: bx(to_text), convert_to_type: ValueType::Int }, "cast-roundtrip:");
    }
    for s in NUM_TEXTS { for t in all_types() {
        check_expr(run, &env, &ExpressionTree::TypeConversion { operand: bx(lit(Value::String((*s).to_owned()))), convert_to_type: t.clone() }, "cast:");
    } }
    // arrays: constructor with every mix of two element types and NULL; subscripts of the results of cat / append / prepend
    for a in &small { for b in &small {
        check_expr(run, &env, &call(Function::CreateArray, vec![lit(a.clone()), lit(b.clone())]), "array:");
        check_expr(run, &env, &call(Function::CreateArray, vec![lit(Value::Null), lit(a.clone()), lit(b.clone())]), "array:");
    } }
    check_expr(run, &env, &call(Function::CreateArray, vec![]), "array:");
    check_expr(run, &env, &call(Function::CreateArray, vec![lit(Value::Null), lit(Value::Null)]), "array:");
    let a = int_array(&[Some(10), Some(20)]);
    let b = int_array(&[Some(30), None, Some(50)]);
    let built: Vec<ExpressionTree> = vec![
        call(Function::ArrayCat, vec![lit(a.clone()), lit(b.clone())]),
        call(Function::ArrayCat, vec![lit(int_array(&[])), lit(b.clone())]),
        call(Function::ArrayAppend, vec![lit(a.clone()), lit(Value::Int(99))]),
        call(Function::ArrayPrepend, vec![lit(Value::Int(99)), lit(a.clone())]),
        call(Function::CreateArray, vec![lit(Value::Int(1)), lit(Value::Null), lit(Value::Int(3))]),
        call(Function::ArrayUnique, vec![lit(int_array(&[Some(3), Some(1), Some(3)]))]),
        lit(a.clone()),
    ];
    for arr in &built {
        check_expr(run, &env, arr, "array:");
        check_expr(run, &env, &call(Function::ArrayLength, vec![arr.clone()]), "array:");
        for i in [i64::MIN, -1, 0, 1, 2, 3, 4, 5, 6, 7, 4294967297, i64::MAX] {
            check_expr(run, &env, &ExpressionTree::ArrayElementAccess { array: bx(arr.clone()), index: bx(lit(Value::Int(i))) }, "index:");
        }
        for v in &small { check_expr(run, &env, &ExpressionTree::ArrayElementAccess { array: bx(arr.clone()), index: bx(lit(v.clone())) }, "index:"); }
    }
    for v in &small { check_expr(run, &env, &ExpressionTree::ArrayElementAccess { array: bx(lit(v.clone())), index: bx(lit(Value::Int(1))) }, "index:"); }
    // regex_matches: every text of the pool × every pattern (counted repetitions, malformed patterns, plain substrings,
    // every single meta character)
    for (i, v) in REGEX_TEXTS.iter().enumerate() { for (j, p) in PATTERNS.iter().enumerate() {
        if thorough || (i + j) % 2 == 0 || p.contains('{') || p.contains('}') {
            check_expr(run, &env, &call(Function::RegexMatches, vec![lit(Value::String((*v).to_owned())), lit(Value::String((*p).to_owned()))]), "regex:");
        }
    } }
    leap_cases(run, rng, thorough);
    run.count("function-table");
    run.notes.push(format!("function table: {} cases — every function × every argument type (NULL included) and its boundary values; casts between every pair of types; judged node by node against the README meaning computed without the code under check", run.impl_out.len() - before));
}


fn interval_ns(i: &Duration) -> i128 { i.num_seconds() as i128 * 1_000_000_000 + i.subsec_nanos() as i128 }

/// the instant `ns` nanoseconds after an ordinary (non-leap) timestamp, by plain integer arithmetic
fn shift_plain(t: &DateTime<Local>, ns: i128) -> Option<DateTime<Local>> {
    let total = t.timestamp() as i128 * 1_000_000_000 + t.timestamp_subsec_nanos() as i128 + ns;
    let secs = total.div_euclid(1_000_000_000);
    if secs > i64::MAX as i128 || secs < i64::MIN as i128 { return None; }
    Local.timestamp_opt(secs as i64, total.rem_euclid(1_000_000_000) as u32).single()
}

/// TIMESTAMP / INTERVAL arithmetic: `ts + iv`, `iv + ts`, `ts - iv` move the instant; `ts - ts` is the distance of the
/// instants; `iv ± iv` the sum / difference; every other operator has no value. Timestamps in leap-second
/// representation are left to the correspondence (chrono's rules for entering / leaving a leap second).
/// (D63, repaired in /repo 91aa1f4: the code used to add whatever the operator was.)
pub(crate) fn spec_time_arith(op: &ArithmeticOperator, l: &Value, r: &Value) -> (Expect, &'static str) {
    use Expect::{Error, Unspecified};
    let leap = |t: &DateTime<Local>| t.nanosecond() >= 1_000_000_000;
    match (l, r) {
        (Value::Null, _) | (_, Value::Null) => (Unspecified, ""),
        (Value::Timestamp(t), Value::Interval(i)) | (Value::Interval(i), Value::Timestamp(t)) => {
            if leap(t) { return (Unspecified, ""); }
            let ts_first = matches!(l, Value::Timestamp(_));
            match op {
                ArithmeticOperator::Add => match shift_plain(t, interval_ns(i)) { Some(x) => (Expect::Value(Value::Timestamp(x)), "timestamp-plus-interval"), None => (Error, "timestamp-out-of-range") },
                ArithmeticOperator::Subtract if ts_first => match shift_plain(t, -interval_ns(i)) { Some(x) => (Expect::Value(Value::Timestamp(x)), "timestamp-minus-interval"), None => (Unspecified, "") },
                _ => (Error, "timestamp-interval-operator-without-meaning"),
            }
        }
        (Value::Timestamp(a), Value::Timestamp(b)) => match op {
            ArithmeticOperator::Subtract => {
                if leap(a) || leap(b) { return (Unspecified, ""); }
                let ns = (a.timestamp() as i128 - b.timestamp() as i128) * 1_000_000_000 + a.timestamp_subsec_nanos() as i128 - b.timestamp_subsec_nanos() as i128;
                let secs = ns.div_euclid(1_000_000_000);
                match Duration::new(secs as i64, ns.rem_euclid(1_000_000_000) as u32) { Some(d) => (Expect::Value(Value::Interval(d)), "timestamp-difference"), None => (Unspecified, "") }
            }
            _ => (Error, "arith-type-mismatch"),
        },
        (Value::Interval(a), Value::Interval(b)) => match op {
            ArithmeticOperator::Add => match a.checked_add(b) { Some(d) => (Expect::Value(Value::Interval(d)), "interval-sum"), None => (Error, "interval-overflow") },
            ArithmeticOperator::Subtract => match a.checked_sub(b) { Some(d) => (Expect::Value(Value::Interval(d)), "interval-sum"), None => (Error, "interval-overflow") },
            _ => (Error, "arith-type-mismatch"),
        },
        _ => (Error, "arith-type-mismatch"),
    }
}

pub fn leap_timestamps() -> Vec<DateTime<Local>> {
    let mut out = Vec::new();
    for (y, mo, d, h, mi) in [(2016, 12, 31, 23, 59), (2015, 6, 30, 23, 59), (2021, 3, 4, 5, 6), (1969, 12, 31, 23, 59), (1970, 1, 1, 0, 0), (1677, 9, 21, 0, 12), (2262, 4, 11, 23, 47), (1677, 9, 21, 0, 11), (2262, 4, 11, 23, 48), (262142, 12, 31, 23, 59), (-262143, 1, 1, 0, 0)] {
        for n in [1_000_000_000u32, 1_000_000_001, 1_500_000_000, 1_999_999_999] {
            if let Some(t) = mk_ts(y, mo, d, h, mi, 59, n) { out.push(t); }
        }
    }
    out
}

/// leap-second timestamps (`:60`) in every place where chrono has special rules: ± intervals that stay inside, reach the
/// end of, or leave the leap second in either direction (1 ns, half a second, a second, a day, and the exact boundaries),
/// differences with neighbours on both sides (also across midnight and between two leap seconds), date_trunc with every
/// part (twice), EXTRACT of every field and of the epoch, comparisons, casts to and from text
pub fn leap_cases(run: &mut Run, rng: &mut Rng, thorough: bool) {
    let env: Vec<(String, Value)> = Vec::new();
    let before = run.impl_out.len();
    let leaps = leap_timestamps();
    let steps: &[i64] = &[0, 1, -1, 2, 499_999_999, 500_000_000, 500_000_001, -499_999_999, -500_000_000, -500_000_001, 999_999_999, -999_999_999, 1_000_000_000, -1_000_000_000,
        1_000_000_001, -1_000_000_001, 1_500_000_000, -1_500_000_000, 59_000_000_000, -59_000_000_000, 60_000_000_000, 86_399_000_000_000, 86_400_000_000_000, -86_400_000_000_000, 86_400_500_000_000, -86_400_500_000_000, 31_536_000_000_000_000];
    let iv = |ns: i64| lit(Value::Interval(Duration::nanoseconds(ns)));
    for (k, t) in leaps.iter().enumerate() {
        let tl = lit(Value::Timestamp(*t));
        let frac = t.nanosecond() as i64;
        let mut my_steps: Vec<i64> = steps.to_vec();
        // exactly to the end of the leap second, one short of it, and back to its start / one before
        my_steps.extend_from_slice(&[2_000_000_000 - frac, 1_999_999_999 - frac, 1_000_000_000 - frac, 999_999_999 - frac]);
        for ns in &my_steps {
            if !thorough && k >= 8 && !rng.chance(1, 3) { continue; }
            for op in [ArithmeticOperator::Add, ArithmeticOperator::Subtract] {
                check_expr(run, &env, &ExpressionTree::Arithmetic { operator: op.clone(), left: bx(tl.clone()), right: bx(iv(*ns)) }, "leap-add:");
            }
            check_expr(run, &env, &ExpressionTree::Arithmetic { operator: ArithmeticOperator::Add, left: bx(iv(*ns)), right: bx(tl.clone()) }, "leap-add:");
            // (t + iv) - t: does the difference give the interval back?
            let moved = ExpressionTree::Arithmetic { operator: ArithmeticOperator::Add, left: bx(tl.clone()), right: bx(iv(*ns)) };
            check_expr(run, &env, &ExpressionTree::Arithmetic { operator: ArithmeticOperator::Subtract, left: bx(moved.clone()), right: bx(tl.clone()) }, "leap-diff:");
            check_expr(run, &env, &ExpressionTree::Arithmetic { operator: ArithmeticOperator::Subtract, left: bx(tl.clone()), right: bx(moved) }, "leap-diff:");
        }
        // differences with every other leap timestamp and with ordinary neighbours
        for u in leaps.iter() {
            if thorough || rng.chance(1, 5) || u.date_naive() == t.date_naive() {
                check_expr(run, &env, &ExpressionTree::Arithmetic { operator: ArithmeticOperator::Subtract, left: bx(tl.clone()), right: bx(lit(Value::Timestamp(*u))) }, "leap-diff:");
            }
        }
        for u in sample_timestamps().iter().take(if thorough { 100 } else { 6 }) {
            check_expr(run, &env, &ExpressionTree::Arithmetic { operator: ArithmeticOperator::Subtract, left: bx(tl.clone()), right: bx(lit(Value::Timestamp(*u))) }, "leap-diff:");
            check_expr(run, &env, &ExpressionTree::Arithmetic { operator: ArithmeticOperator::Subtract, left: bx(lit(Value::Timestamp(*u))), right: bx(tl.clone()) }, "leap-diff:");
        }
        for part in PARTS.iter().take(9) {
            let once = call(Function::TruncateTimestamp, vec![lit(Value::String((*part).to_owned())), tl.clone()]);
            check_expr(run, &env, &once, "leap-trunc:");
            check_expr(run, &env, &call(Function::TruncateTimestamp, vec![lit(Value::String((*part).to_owned())), once]), "leap-trunc2:");
        }
        for f in [Function::TimestampExtractEpoch, Function::TimestampExtractYear, Function::TimestampExtractMonth, Function::TimestampExtractDay, Function::TimestampExtractHour, Function::TimestampExtractMinute, Function::TimestampExtractSecond] {
            check_expr(run, &env, &call(f, vec![tl.clone()]), "leap-extract:");
        }
        check_expr(run, &env, &ExpressionTree::TypeConversion { operand: bx(tl.clone()), convert_to_type: ValueType::String }, "leap-cast:");
        for u in leaps.iter().skip(k / 4 * 4).take(4) {
            for op in [CompareOperator::Equal, CompareOperator::LessThan, CompareOperator::GreaterThanOrEqual] {
                check_expr(run, &env, &ExpressionTree::Compare { operator: op.clone(), left: bx(tl.clone()), right: bx(lit(Value::Timestamp(*u))) }, "leap-cmp:");
            }
            for f in [Function::Greatest, Function::Least] { check_expr(run, &env, &call(f, vec![tl.clone(), lit(Value::Timestamp(*u))]), "leap-cmp:"); }
        }
    }
    // second 60 from text literals and from make_timestamp, then the same steps
    for text in ["2016-12-31 23:59:60", "2015-06-30 23:59:60", "2021-03-04 05:06:60", "2021-03-04 05:60:00", "2021-03-04 24:00:00", "2016-12-31 23:59:61"] {
        let cast = ExpressionTree::TypeConversion { operand: bx(lit(Value::String(text.to_owned()))), convert_to_type: ValueType::Timestamp };
        check_expr(run, &env, &cast, "leap-text:");
        for ns in [1i64, -1, 999_999_999, 1_000_000_000, -1_000_000_000, 86_400_000_000_000] {
            check_expr(run, &env, &ExpressionTree::Arithmetic { operator: ArithmeticOperator::Add, left: bx(cast.clone()), right: bx(iv(ns)) }, "leap-text:");
        }
        check_expr(run, &env, &call(Function::TimestampExtractEpoch, vec![cast.clone()]), "leap-text:");
        check_expr(run, &env, &call(Function::TruncateTimestamp, vec![lit(Value::String("minute".to_owned())), cast.clone()]), "leap-text:");
    }
    for us in [999_999i64, 1_000_000, 1_500_000, 1_999_999] {
        let mk = call(Function::MakeTimestamp, [2016i64, 12, 31, 23, 59, 59, us, 0].iter().map(|v| lit(Value::Int(*v))).collect());
        for ns in [1i64, -1, 500_000_000, -500_000_000, 1_000_000_000, -1_000_000_000, 86_400_000_000_000, -86_400_000_000_000] {
            check_expr(run, &env, &ExpressionTree::Arithmetic { operator: ArithmeticOperator::Add, left: bx(mk.clone()), right: bx(iv(ns)) }, "leap-mk:");
        }
        check_expr(run, &env, &ExpressionTree::Arithmetic { operator: ArithmeticOperator::Subtract, left: bx(mk.clone()), right: bx(call(Function::MakeTimestamp, [2016i64, 12, 31, 23, 59, 59, 1_250_000, 0].iter().map(|v| lit(Value::Int(*v))).collect())) }, "leap-mk:");
        check_expr(run, &env, &call(Function::TimestampExtractEpoch, vec![mk.clone()]), "leap-mk:");
        check_expr(run, &env, &call(Function::TruncateTimestamp, vec![lit(Value::String("second".to_owned())), mk.clone()]), "leap-mk:");
    }
    // ordinary timestamps with every operator and an interval (D63 regression), intervals with intervals
    for t in sample_timestamps().iter().take(12) {
        for ns in [3_600_000_000_000i64, -1, 1_500_000_000] {
            for op in [ArithmeticOperator::Add, ArithmeticOperator::Subtract, ArithmeticOperator::Multiply, ArithmeticOperator::Divide] {
                check_expr(run, &env, &ExpressionTree::Arithmetic { operator: op.clone(), left: bx(lit(Value::Timestamp(*t))), right: bx(iv(ns)) }, "ts-iv:");
                check_expr(run, &env, &ExpressionTree::Arithmetic { operator: op.clone(), left: bx(iv(ns)), right: bx(lit(Value::Timestamp(*t))) }, "ts-iv:");
            }
        }
    }
    run.count("leap-table");
    run.notes.push(format!("leap-second table: {} cases — timestamps in chrono's leap representation (from values, `'…:60'::timestamp` and make_timestamp(…, 59, ≥10^6 µs)) ± intervals that stay inside / reach the end of / leave the leap second, differences (also across midnight and between two leap seconds), date_trunc with every part (twice), EXTRACT incl. EPOCH, comparisons, display; every operator between TIMESTAMP and INTERVAL", run.impl_out.len() - before));
}
