import SqlgrepModel.Props.C03
import SqlgrepModel.Lemmas.ValueOrder
/-
C03 (expression level, third file; audited with the other `Props/C03*.lean` by `./check C03`) —

* **NOT IN at full strength** (audit item M15). `Props/C03.lean` states `x NOT IN (…)` for literal members that `=`
  compares as they are (`notin_is_and_of_ne`, `notin_is_and_chain`); `IN` has the full statement (`in_is_or_of_eq`:
  arbitrary member expressions, values and errors). Here NOT IN gets the same: for ARBITRARY operand and member
  expressions (TEXT↔TIMESTAMP coercion, members of other types, members without a value, NULLs anywhere)
  - `notin_is_in_negated_unless_null`: NOT IN walks the members exactly as IN does — it has an error exactly when IN
    has one, the SAME error —; it is FALSE when IN is TRUE; when IN is FALSE it is TRUE unless NULL is involved (the
    operand or some member is NULL), in which case it is FALSE. With `C03.in_is_or_of_eq` this fixes every outcome;
  - `notin_is_and_chain_full`: against the sentence's `x != v1 AND x != v2` (the evaluator's own `!=` and its own
    two-valued, short-circuiting AND): NOT IN is that AND-chain — same value, same error — EXCEPT that an AND-chain
    that is FALSE stops at the member that made it FALSE (a NULL, or an equal member), while NOT IN stops only at an
    equal member: after a NULL operand / member it still evaluates (and, for a non-NULL operand, compares) the
    remaining members, so an error there surfaces although the conjunction is already FALSE. Never the other way round:
    `notin_value_is_and_chain_value` (whenever NOT IN has a value, it is the AND-chain's value) and
    `notin_true_iff_and_chain_true`.
    `5 NOT IN (NULL, 'a')` is the witness: a type error, where `5 != NULL AND 5 != 'a'` is FALSE (the sentence does
    not say whether that error surfaces; the C03 oracle abstains there — DESIGN.md §0, false alarm (1)).
  - `notin_empty`: the empty list (not produced by the parser — `parse_list` wants a first member —, only by a tree
    built through the API): `x NOT IN ()` is TRUE unless `x` is NULL, `x IN ()` is FALSE.

* **`e IS v` / `e IS NOT v` for a right-hand side that is not the literal NULL** (audit item L16). The parser accepts
  any expression after IS / IS NOT (`parse_binary_operator_rhs`, precedence 4); the evaluator compares the two VALUES
  with `Value`'s derived `==` (`NullableCompare`): `is_value_meaning`. That is equality of the derived total order
  (`is_is_order_equality`): same variant and same payload — so `1 IS 1.0` is FALSE although `1 = 1.0` is TRUE, `1 IS 'a'`
  is FALSE where `=` is a type error, NULL IS NULL is TRUE, `0.0 IS -0.0` is TRUE; never an error of its own
  (`is_value_never_fails`), never NULL. The sentence speaks about IS NULL / IS NOT NULL only (`C03.is_null_test`); on
  a non-NULL right-hand side the model mirrors the code and the correspondence check compares them
  (`oracle-abstains:is-value`).
-/
namespace Sqlgrep.Props.C03In
open Sqlgrep Sqlgrep.Props.C03

variable (O : Oracles) (env : Env)

/-! ### NOT IN -/

/-- the member expression evaluates to NULL -/
def isNullMember (m : Expr) : Bool :=
  match eval O env m with
  | .ok v => v.isNull
  | _ => false

/-- some member expression evaluates to NULL -/
def anyNullMember (ms : List Expr) : Bool := ms.any (isNullMember O env)

/-- what NOT IN makes of the value of IN over the same operand and members: the negation, except that FALSE stays
FALSE when NULL is involved -/
def notInOfIn (nullInvolved : Bool) : Value → Value
  | .bool true => .bool false
  | _ => .bool (!nullInvolved)

theorem anyNullMember_cons (m : Expr) (ms : List Expr) (x : Value) (hm : eval O env m = .ok x) :
    anyNullMember O env (m :: ms) = (x.isNull || anyNullMember O env ms) := by
  simp [anyNullMember, isNullMember, hm]

/-- the two walks over the members differ in what they answer only: same members evaluated, same comparisons, same
stopping point (the first member equal to the operand) -/
theorem evalIn_not_of_in (v : Value) : ∀ (ms : List Expr) (a a' : Bool),
    evalIn O env true v a ms =
      (evalIn O env false v a' ms).bind (fun r => .ok (notInOfIn (a || anyNullMember O env ms) r)) := by
  intro ms
  induction ms with
  | nil => intro a a'; simp [evalIn, notInOfIn, anyNullMember, Outcome.bind]
  | cons m ms ih =>
    intro a a'
    simp only [evalIn, bind, pure]
    cases hm : eval O env m with
    | error k => rfl
    | panic s => rfl
    | oracleMissing w => rfl
    | ok x =>
      simp only [Outcome.bind]
      have hnm := anyNullMember_cons O env m ms x hm
      by_cases hx : x.isNull = true
      · simp only [hx, if_true]
        rw [ih true true, hnm, hx]
        simp only [Bool.true_or, Bool.or_true]
        cases evalIn O env false v true ms <;> rfl
      · have hx' : x.isNull = false := by simpa using hx
        simp only [hx', Bool.false_eq_true, if_false]
        rw [hnm, hx', Bool.false_or]
        by_cases hv : v.isNull = true
        · simp only [hv, if_true]
          rw [ih a a']
          cases evalIn O env false v a' ms <;> rfl
        · have hv' : v.isNull = false := by simpa using hv
          simp only [hv', Bool.false_eq_true, if_false]
          cases hp : prepCompare O v x with
          | error k => rfl
          | panic s => rfl
          | oracleMissing w => rfl
          | ok p =>
            obtain ⟨a1, b1⟩ := p
            simp only []
            by_cases hc : (compareValues a1 b1 == Ordering.eq) = true
            · simp [hc, notInOfIn]
            · have hc' : (compareValues a1 b1 == Ordering.eq) = false := by simpa using hc
              simp only [hc', Bool.false_eq_true, if_false]
              rw [ih a a']
              cases evalIn O env false v a' ms <;> rfl

/-- NULL is involved in `e [NOT] IN (ms)`: the operand or some member evaluates to NULL -/
def nullInvolved (e : Expr) (ms : List Expr) : Bool := isNullMember O env e || anyNullMember O env ms

/-- **`x NOT IN (m1, …, mn)` is `x IN (m1, …, mn)` negated, unless NULL is involved** — for arbitrary operand and
member expressions. NOT IN evaluates and compares exactly what IN does (each member like `=`: timestamp text is parsed,
a member of another type is a type error), so it has an error — the same one — exactly when IN has one
(`C03.in_is_or_of_eq` says which: that of the OR-chain of `=`); it is FALSE when IN is TRUE; when IN is FALSE it is TRUE
if neither the operand nor any member is NULL, and FALSE otherwise. -/
theorem notin_is_in_negated_unless_null (e : Expr) (ms : List Expr) :
    eval O env (.inList true e ms) =
      (eval O env (.inList false e ms)).bind (fun r => .ok (notInOfIn (nullInvolved O env e ms) r)) := by
  cases he : eval O env e with
  | ok v =>
    have hin : ∀ n, eval O env (.inList n e ms) = evalIn O env n v v.isNull ms := by
      intro n; simp only [eval, he, bind, Outcome.bind]
    rw [hin true, hin false, evalIn_not_of_in O env v ms v.isNull v.isNull]
    simp only [nullInvolved, isNullMember, he]
  | error k => simp [eval, he, bind, Outcome.bind]
  | panic s => simp [eval, he, bind, Outcome.bind]
  | oracleMissing w => simp [eval, he, bind, Outcome.bind]

/-- the value of IN is a BOOLEAN -/
theorem evalIn_bool (isNot : Bool) (v : Value) : ∀ (ms : List Expr) (a : Bool) (r : Value),
    evalIn O env isNot v a ms = .ok r → ∃ b, r = .bool b := by
  intro ms
  induction ms with
  | nil => intro a r h; simp only [evalIn, Outcome.ok.injEq] at h; exact ⟨_, h.symm⟩
  | cons m ms ih =>
    intro a r h
    simp only [evalIn, bind, pure] at h
    cases hm : eval O env m with
    | error k => rw [hm] at h; simp [Outcome.bind] at h
    | panic s => rw [hm] at h; simp [Outcome.bind] at h
    | oracleMissing w => rw [hm] at h; simp [Outcome.bind] at h
    | ok x =>
      rw [hm] at h
      simp only [Outcome.bind] at h
      split at h
      · exact ih _ _ h
      · split at h
        · exact ih _ _ h
        · cases hp : prepCompare O v x with
          | error k => rw [hp] at h; simp at h
          | panic s => rw [hp] at h; simp at h
          | oracleMissing w => rw [hp] at h; simp at h
          | ok p =>
            rw [hp] at h
            simp only [] at h
            split at h
            · simp only [Outcome.ok.injEq] at h; exact ⟨_, h.symm⟩
            · exact ih _ _ h

/-- the AND-chain `e != m1 AND (… AND (e != mn AND TRUE))` has a BOOLEAN value when it has one -/
theorem eval_andOfNe_bool (e : Expr) (ms : List Expr) (r : Value) (h : eval O env (andOfNe e ms) = .ok r) :
    ∃ b, r = .bool b := by
  cases ms with
  | nil => simp only [andOfNe, eval, Outcome.ok.injEq] at h; exact ⟨true, h.symm⟩
  | cons m ms => exact bool_ops_two_valued O env true _ _ r h

/-- what NOT IN is, given the outcome of the AND-chain of `!=` over the same operand and members and the outcome of
IN: the chain's outcome — except that where the chain is FALSE (it stopped at the first NULL or equal member) NOT IN
went on to the first EQUAL member, as IN does, and has IN's error if IN has one -/
def notInOfChain (chain inOutcome : Outcome Value) : Outcome Value :=
  match chain with
  | .ok (.bool false) => inOutcome.bind (fun _ => .ok (.bool false))
  | o => o

theorem evalIn_false_of_true (v : Value) (ms : List Expr) :
    evalIn O env true v true ms = (evalIn O env false v true ms).bind (fun _ => .ok (.bool false)) := by
  rw [evalIn_not_of_in O env v ms true true]
  cases hr : evalIn O env false v true ms with
  | ok r =>
    obtain ⟨b, rfl⟩ := evalIn_bool O env false v ms true r hr
    cases b <;> simp [notInOfIn, Outcome.bind]
  | error k => rfl
  | panic s => rfl
  | oracleMissing w => rfl

/-- one step of the AND-chain: `e != m` is a condition; the rest is evaluated exactly when it holds -/
theorem eval_andOfNe_cons (e m : Expr) (ms : List Expr) :
    eval O env (andOfNe e (m :: ms)) =
      (eval O env (.compare .ne e m)).bind (fun lv => (condHolds lv).bind (fun lb =>
        if lb = true then eval O env (andOfNe e ms) else .ok (.bool false))) := by
  show eval O env (.boolOp true (.compare .ne e m) (andOfNe e ms)) = _
  rw [eval_boolOp]
  cases hc : eval O env (.compare .ne e m) with
  | error k => rfl
  | panic s => rfl
  | oracleMissing w => rfl
  | ok lv =>
    simp only [Outcome.bind]
    cases hl : condHolds lv with
    | error k => rfl
    | panic s => rfl
    | oracleMissing w => rfl
    | ok lb =>
      cases lb with
      | false => simp
      | true =>
        simp only [if_true]
        cases hr : eval O env (andOfNe e ms) with
        | ok r => obtain ⟨b, rfl⟩ := eval_andOfNe_bool O env e ms r hr; simp
        | error k => rfl
        | panic s => rfl
        | oracleMissing w => rfl

/-- `notInOfChain` with the NULL flag the walk carries (`anyNull`: the operand or a member seen so far is NULL) -/
def notInOfChainAcc (a : Bool) (chain inOutcome : Outcome Value) : Outcome Value :=
  match chain with
  | .ok (.bool true) => .ok (.bool (!a))
  | .ok (.bool false) => inOutcome.bind (fun _ => .ok (.bool false))
  | o => o

theorem evalIn_notIn_chain (e : Expr) (v : Value) (he : eval O env e = .ok v) :
    ∀ (ms : List Expr) (a : Bool), (v.isNull = true → a = true) →
      evalIn O env true v a ms = notInOfChainAcc a (eval O env (andOfNe e ms)) (evalIn O env false v a ms) := by
  intro ms
  induction ms with
  | nil => intro a _; simp [evalIn, andOfNe, eval, notInOfChainAcc]
  | cons m ms ih =>
    intro a ha
    rw [eval_andOfNe_cons]
    simp only [evalIn, eval, he, bind, pure]
    cases hm : eval O env m with
    | error k => rfl
    | panic s => rfl
    | oracleMissing w => rfl
    | ok x =>
      simp only [Outcome.bind]
      by_cases hx : x.isNull = true
      · -- a NULL member: `e != NULL` is FALSE, the chain stops; NOT IN goes on (the answer can only be FALSE or an error)
        have hxn : x = .null := by cases x <;> simp_all [Value.isNull]
        subst hxn
        simp only [Value.isNull, if_true, prepCompare_null_right, Bool.not_true, Bool.and_false, Bool.false_eq_true,
          if_false, condHolds_bool, notInOfChainAcc]
        exact evalIn_false_of_true O env v ms
      · have hx' : x.isNull = false := by simpa using hx
        simp only [hx', Bool.false_eq_true, if_false]
        by_cases hv : v.isNull = true
        · -- a NULL operand: no comparison; `NULL != x` is FALSE
          have hvn : v = .null := by cases v <;> simp_all [Value.isNull]
          subst hvn
          have hat : a = true := ha rfl
          subst hat
          simp only [Value.isNull, if_true, prepCompare_null_left O x hx', Bool.not_true, Bool.false_and,
            Bool.false_eq_true, if_false, condHolds_bool, notInOfChainAcc]
          exact evalIn_false_of_true O env .null ms
        · have hv' : v.isNull = false := by simpa using hv
          simp only [hv', Bool.false_eq_true, if_false]
          cases hp : prepCompare O v x with
          | error k => rfl
          | panic s => rfl
          | oracleMissing w => rfl
          | ok p =>
            obtain ⟨a', b'⟩ := p
            obtain ⟨hna, hnb⟩ := prepCompare_nonnull O v x a' b' hv' hx' hp
            simp only [hna, hnb, Bool.not_false, Bool.and_self, if_true, applyCmp, condHolds_bool]
            by_cases hc : (compareValues a' b' == Ordering.eq) = true
            · have hne : (compareValues a' b' != Ordering.eq) = false := by simp [bne, hc]
              simp [hc, hne, notInOfChainAcc, Outcome.bind]
            · have hc' : (compareValues a' b' == Ordering.eq) = false := by simpa using hc
              have hne : (compareValues a' b' != Ordering.eq) = true := by simp [bne, hc']
              simp only [hc', hne, Bool.false_eq_true, if_false, if_true]
              exact ih a ha

/-- **`x NOT IN (m1, …, mn)` (n ≥ 1) against `x != m1 AND … AND x != mn`**, for arbitrary operand and member
expressions — the AND-chain built from the evaluator's own `!=` (FALSE on a NULL operand, timestamp text parsed, a
member of another type a type error) and its own two-valued, short-circuiting AND:

* the chain is TRUE: NOT IN is TRUE;
* the chain has no value (an operand or member without a value, a member `!=` cannot compare with `x`, reached before
  any `!=` was FALSE): NOT IN has no value, with the same error;
* the chain is FALSE: NOT IN is FALSE — unless a member AFTER the NULL (operand or member) that made the chain FALSE has
  no value, or cannot be compared with a non-NULL `x`, before a member equal to `x` is met: NOT IN does not stop at a
  NULL, only at an equal member, exactly as IN walks; it then has IN's error. (`5 NOT IN (NULL, 'a')`, below.) -/
theorem notin_is_and_chain_full (e m : Expr) (ms : List Expr) :
    eval O env (.inList true e (m :: ms)) =
      (eval O env e).bind (fun _ =>
        notInOfChain (eval O env (andOfNe e (m :: ms))) (eval O env (.inList false e (m :: ms)))) := by
  cases he : eval O env e with
  | error k => simp [eval, he, bind, Outcome.bind]
  | panic s => simp [eval, he, bind, Outcome.bind]
  | oracleMissing w => simp [eval, he, bind, Outcome.bind]
  | ok v =>
    have hin : ∀ n, eval O env (.inList n e (m :: ms)) = evalIn O env n v v.isNull (m :: ms) := by
      intro n; simp only [eval, he, bind, Outcome.bind]
    rw [hin true, hin false, evalIn_notIn_chain O env e v he (m :: ms) v.isNull (fun h => h)]
    simp only [Outcome.bind]
    by_cases hv : v.isNull = true
    · -- a NULL operand: the chain over a non-empty list is FALSE or has no value, never TRUE
      have hvn : v = .null := by cases v <;> simp_all [Value.isNull]
      subst hvn
      rw [eval_andOfNe_cons]
      simp only [eval, he, bind, pure]
      cases hm : eval O env m with
      | error k => rfl
      | panic s => rfl
      | oracleMissing w => rfl
      | ok x =>
        simp only [Outcome.bind]
        by_cases hx : x.isNull = true
        · have hxn : x = .null := by cases x <;> simp_all [Value.isNull]
          subst hxn
          simp [prepCompare_null_right, Value.isNull, Outcome.bind, notInOfChainAcc, notInOfChain]
        · have hx' : x.isNull = false := by simpa using hx
          simp [prepCompare_null_left O x hx', Value.isNull, Outcome.bind, notInOfChainAcc, notInOfChain]
    · have hv' : v.isNull = false := by simpa using hv
      rw [hv']
      cases hch : eval O env (andOfNe e (m :: ms)) with
      | ok r =>
        obtain ⟨b, rfl⟩ := eval_andOfNe_bool O env e (m :: ms) r hch
        cases b <;> rfl
      | error k => rfl
      | panic s => rfl
      | oracleMissing w => rfl

/-- **whenever NOT IN has a value it is the value of the AND-chain of `!=`** (never a different value: the deviation
of `notin_is_and_chain_full` is an error in place of FALSE, never a value in place of another) -/
theorem notin_value_is_and_chain_value (e m : Expr) (ms : List Expr) (r : Value)
    (h : eval O env (.inList true e (m :: ms)) = .ok r) : eval O env (andOfNe e (m :: ms)) = .ok r := by
  rw [notin_is_and_chain_full] at h
  cases he : eval O env e with
  | error k => rw [he] at h; simp [Outcome.bind] at h
  | panic s => rw [he] at h; simp [Outcome.bind] at h
  | oracleMissing w => rw [he] at h; simp [Outcome.bind] at h
  | ok v =>
    rw [he] at h
    simp only [Outcome.bind] at h
    cases hch : eval O env (andOfNe e (m :: ms)) with
    | ok r' =>
      obtain ⟨b, rfl⟩ := eval_andOfNe_bool O env e (m :: ms) r' hch
      rw [hch] at h
      cases b with
      | true => exact h
      | false =>
        simp only [notInOfChain] at h
        cases hi : eval O env (.inList false e (m :: ms)) <;> rw [hi] at h <;> simp [Outcome.bind] at h
        rw [h]
    | error k => rw [hch] at h; simp [notInOfChain] at h
    | panic s => rw [hch] at h; simp [notInOfChain] at h
    | oracleMissing w => rw [hch] at h; simp [notInOfChain] at h

/-- NOT IN is TRUE exactly when the AND-chain of `!=` is TRUE -/
theorem notin_true_iff_and_chain_true (e m : Expr) (ms : List Expr) :
    eval O env (.inList true e (m :: ms)) = .ok (.bool true) ↔ eval O env (andOfNe e (m :: ms)) = .ok (.bool true) := by
  refine ⟨notin_value_is_and_chain_value O env e m ms _, fun h => ?_⟩
  rw [notin_is_and_chain_full, h]
  cases he : eval O env e with
  | ok v => rfl
  | error k => rw [eval_andOfNe_cons] at h; simp [eval, he, bind, Outcome.bind] at h
  | panic s => rw [eval_andOfNe_cons] at h; simp [eval, he, bind, Outcome.bind] at h
  | oracleMissing w => rw [eval_andOfNe_cons] at h; simp [eval, he, bind, Outcome.bind] at h

/-- an AND-chain without a value (reached before any `!=` was FALSE) leaves NOT IN without a value: the same error -/
theorem notin_error_of_and_chain_error (e m : Expr) (ms : List Expr) (v : Value) (k : ErrKind)
    (he : eval O env e = .ok v) (h : eval O env (andOfNe e (m :: ms)) = .error k) :
    eval O env (.inList true e (m :: ms)) = .error k := by
  rw [notin_is_and_chain_full, he, h]; rfl

/-- the empty list (the parser never produces it: `parse_list` reads a first member before it looks for `)`): NOT IN is
TRUE unless the operand is NULL; IN is FALSE -/
theorem notin_empty (e : Expr) :
    eval O env (.inList true e []) = (eval O env e).bind (fun v => .ok (.bool (!v.isNull))) ∧
    eval O env (.inList false e []) = (eval O env e).bind (fun _ => .ok (.bool false)) := by
  cases he : eval O env e <;> simp [eval, evalIn, he, bind, Outcome.bind]

/-! #### examples (kernel-evaluated): the three cases of `notin_is_and_chain_full`, and the coercion -/

/-- `5 NOT IN (NULL, 'a')`: the AND-chain `5 != NULL AND 5 != 'a'` is FALSE (it stops at the NULL), IN is a type error
(`5 = 'a'`), and NOT IN is that type error — an error in place of FALSE, the one deviation from the AND-chain -/
example :
    eval {} {} (andOfNe (.value (.int 5)) [.value .null, .value (.text [97])]) = .ok (.bool false) ∧
    eval {} {} (.inList false (.value (.int 5)) [.value .null, .value (.text [97])]) = .error .typeError ∧
    eval {} {} (.inList true (.value (.int 5)) [.value .null, .value (.text [97])]) = .error .typeError := ⟨rfl, rfl, rfl⟩

/-- … with the members the other way round the chain has the error too (`5 != 'a'` comes first) -/
example :
    eval {} {} (andOfNe (.value (.int 5)) [.value (.text [97]), .value .null]) = .error .typeError ∧
    eval {} {} (.inList true (.value (.int 5)) [.value (.text [97]), .value .null]) = .error .typeError := ⟨rfl, rfl⟩

/-- an equal member stops both: `5 NOT IN (5, 'a')` is FALSE, no error -/
example : eval {} {} (.inList true (.value (.int 5)) [.value (.int 5), .value (.text [97])]) = .ok (.bool false) := rfl

/-- NULL involved, every member comparable: FALSE (`5 NOT IN (7, NULL)`, `NULL NOT IN (7)`), never NULL, never TRUE -/
example :
    eval {} {} (.inList true (.value (.int 5)) [.value (.int 7), .value .null]) = .ok (.bool false) ∧
    eval {} {} (.inList true (.value .null) [.value (.int 7)]) = .ok (.bool false) ∧
    eval {} {} (.inList true (.value (.int 5)) [.value (.int 7), .value (.int 9)]) = .ok (.bool true) := ⟨rfl, rfl, rfl⟩

/-- member expressions, INT with REAL: `5 NOT IN (2 + 3.0 …)` — here `5 NOT IN (4 + 1, 7)` is FALSE and `5 NOT IN (5.0)` is
FALSE (compared numerically, like `=`) -/
example :
    eval {} {} (.inList true (.value (.int 5)) [.arith .add (.value (.int 4)) (.value (.int 1)), .value (.int 7)]) = .ok (.bool false) ∧
    eval {} {} (.inList true (.value (.int 5)) [.value (.real 0x4014000000000000)]) = .ok (.bool false) := ⟨rfl, rfl⟩

/-- a member without a value: `5 NOT IN (7, 1 / 0)` is that error; `5 NOT IN (5, 1 / 0)` is FALSE (the equal member
comes first) -/
example :
    eval {} {} (.inList true (.value (.int 5)) [.value (.int 7), .arith .div (.value (.int 1)) (.value (.int 0))]) = .error .undefinedOperation ∧
    eval {} {} (.inList true (.value (.int 5)) [.value (.int 5), .arith .div (.value (.int 1)) (.value (.int 0))]) = .ok (.bool false) := ⟨rfl, rfl⟩

/-- TEXT↔TIMESTAMP: a TEXT member of a TIMESTAMP operand is parsed as a timestamp, as `=` does: 2021-03-04 05:06:07
`NOT IN ('2021-03-04 05:06:07')` is FALSE, `NOT IN ('2021-03-04 05:06:08')` is TRUE, and a text that is no timestamp is
the error `=` gives -/
example :
    (match eval {} {} (.inList true (.value (.timestamp 737853 18367 0)) [.value (.text (strBytes "2021-03-04 05:06:07"))]),
           eval {} {} (.inList true (.value (.timestamp 737853 18367 0)) [.value (.text (strBytes "2021-03-04 05:06:08"))]),
           eval {} {} (.inList true (.value (.timestamp 737853 18367 0)) [.value (.text (strBytes "noon"))]) with
     | .ok (.bool false), .ok (.bool true), .error .failedToParseTimestamp => true
     | _, _, _ => false) = true := by decide +kernel

/-! ### `e IS v` / `e IS NOT v` for any right-hand side -/

/-- **`l IS r` is TRUE exactly when the two values are equal under `Value`'s derived `==`, `l IS NOT r` exactly when they
are not** — whatever the right-hand side is (the literal NULL is the special case `C03.is_null_test`). The operands are
NOT brought to a common type and nothing is parsed: no coercion, no type error. -/
theorem is_value_meaning (isNot : Bool) (l r : Expr) (lv rv : Value)
    (hl : eval O env l = .ok lv) (hr : eval O env r = .ok rv) :
    eval O env (.nullCmp isNot l r) = .ok (.bool (if isNot then !(Value.beq lv rv) else Value.beq lv rv)) := by
  simp only [eval, hl, hr, bind, Outcome.bind, pure]

/-- IS has no error of its own and is never NULL: when both operands have values the result is a BOOLEAN … -/
theorem is_value_never_fails (isNot : Bool) (l r : Expr) (lv rv : Value)
    (hl : eval O env l = .ok lv) (hr : eval O env r = .ok rv) : ∃ b, eval O env (.nullCmp isNot l r) = .ok (.bool b) :=
  ⟨_, is_value_meaning O env isNot l r lv rv hl hr⟩

/-- … and IS NOT is its negation -/
theorem is_not_negates_is (l r : Expr) (lv rv : Value) (hl : eval O env l = .ok lv) (hr : eval O env r = .ok rv) :
    ∃ b, eval O env (.nullCmp false l r) = .ok (.bool b) ∧ eval O env (.nullCmp true l r) = .ok (.bool (!b)) :=
  ⟨Value.beq lv rv, by simp [is_value_meaning O env _ l r lv rv hl hr]⟩

/-- the equality IS tests is the equality of the derived total order on values (the order of GROUP BY / DISTINCT /
`array_unique`, `Props/C16.lean`): two values are IS-equal exactly when neither is below the other -/
theorem is_is_order_equality (lv rv : Value) : Value.beq lv rv = true ↔ Value.cmp lv rv = .eq :=
  (Value.cmp_eq_iff_beq lv rv).symm

/-- IS-equal values are of the same variant: NULL with NULL, INT with INT, REAL with REAL, … — so `1 IS 1.0` and
`1 IS '1'` are FALSE (no numeric comparison, no parse, no error) -/
theorem is_equal_same_variant (lv rv : Value) (h : Value.beq lv rv = true) : lv.rank = rv.rank := by
  cases lv <;> cases rv <;> simp_all [Value.beq, Value.rank]

/-- values without a REAL inside: NULL, INT, BOOLEAN, TEXT, TIMESTAMP, INTERVAL -/
def plainScalar : Value → Bool
  | .real _ => false
  | .array _ _ => false
  | _ => true

/-- on such values IS-equality is identity of the values -/
theorem is_scalar_iff_eq (lv rv : Value) (h : plainScalar lv = true) : Value.beq lv rv = true ↔ lv = rv := by
  cases lv <;> cases rv <;> simp_all [Value.beq, plainScalar, and_assoc]

/-- on REALs it is `Float::eq`: the total order's equality (`-0.0` equals `0.0`, NaN equals NaN) -/
theorem is_real (a b : Nat) : Value.beq (.real a) (.real b) = (F64.cmp a b == .eq) := rfl

/-- on arrays: the same element type and IS-equal elements, position by position -/
theorem is_array (t u : VType) (xs ys : List Value) :
    Value.beq (.array t xs) (.array u ys) = (t == u && Value.beqList xs ys) := by
  simp [Value.beq]

/-- INT IS REAL is FALSE, IS NOT is TRUE, whatever the numbers -/
theorem is_int_real (l r : Expr) (x : Int) (b : Nat) (hl : eval O env l = .ok (.int x)) (hr : eval O env r = .ok (.real b)) :
    eval O env (.nullCmp false l r) = .ok (.bool false) ∧ eval O env (.nullCmp true l r) = .ok (.bool true) := by
  simp [is_value_meaning O env _ l r _ _ hl hr, Value.beq]

/-! #### examples: `x IS 5`, and where IS differs from `=` -/

/-- `v IS 5` on a row with v = 5 / v = 6 / v NULL; `v IS NOT 5` -/
example :
    eval {} { table := [("v", .int 5)] } (.nullCmp false (.column "v") (.value (.int 5))) = .ok (.bool true) ∧
    eval {} { table := [("v", .int 6)] } (.nullCmp false (.column "v") (.value (.int 5))) = .ok (.bool false) ∧
    eval {} { table := [("v", .null)] } (.nullCmp false (.column "v") (.value (.int 5))) = .ok (.bool false) ∧
    eval {} { table := [("v", .null)] } (.nullCmp true (.column "v") (.value (.int 5))) = .ok (.bool true) := ⟨rfl, rfl, rfl, rfl⟩

/-- `1 IS 1.0` is FALSE although `1 = 1.0` is TRUE; `1 IS 'a'` is FALSE where `1 = 'a'` is a type error;
`NULL IS NULL` is TRUE where `NULL = NULL` is FALSE; `0.0 IS -0.0` is TRUE -/
example :
    eval {} {} (.nullCmp false (.value (.int 1)) (.value (.real 0x3ff0000000000000))) = .ok (.bool false) ∧
    eval {} {} (.compare .eq (.value (.int 1)) (.value (.real 0x3ff0000000000000))) = .ok (.bool true) ∧
    eval {} {} (.nullCmp false (.value (.int 1)) (.value (.text [97]))) = .ok (.bool false) ∧
    eval {} {} (.compare .eq (.value (.int 1)) (.value (.text [97]))) = .error .typeError ∧
    eval {} {} (.nullCmp false (.value .null) (.value .null)) = .ok (.bool true) ∧
    eval {} {} (.compare .eq (.value .null) (.value .null)) = .ok (.bool false) ∧
    eval {} {} (.nullCmp false (.value (.real 0)) (.value (.real 0x8000000000000000))) = .ok (.bool true) := by
  refine ⟨rfl, ?_, rfl, rfl, rfl, rfl, ?_⟩ <;> rfl

example : plainScalar (.int 5) = true ∧ Value.beq (.int 5) (.int 5) = true := ⟨rfl, rfl⟩

end Sqlgrep.Props.C03In
