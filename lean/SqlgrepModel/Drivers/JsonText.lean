import SqlgrepModel.Codec
import SqlgrepModel.Model.Text
import SqlgrepModel.Lemmas.JsonParser
/- Driver handler validating the RFC 8259 grammar of `Spec/JsonGrammar.lean` itself:
`jsontext xHEX` → `ok CANON` when the UTF-8 text is a `JSON-text` with a denotation (decided by `parseJson`,
`parseJson_iff`), `reject` otherwise. The harness asks `serde_json` the same question about the same text.
CANON: `n` `t` `f`, `#` for any number (numbers are compared by acceptance only), `s` + the hex of the string's
UTF-8 bytes, `[a,b]`, `{k:v,…}` with the keys as strings and a repeated key keeping its first position and
its last value (what `serde_json::Map` with `preserve_order` does). -/
namespace Sqlgrep.Drivers.JsonText
open Sqlgrep Sqlgrep.JsonGrammar

def insertMember (m : List (String × String)) (k v : String) : List (String × String) :=
  match m with
  | [] => [(k, v)]
  | (k', v') :: rest => if k' = k then (k', v) :: rest else (k', v') :: insertMember rest k v

def strCanon (s : List Char) : String := "s" ++ Sexp.showBytes (Utf8.encode s)

mutual
def canon : JVal → String
  | .null => "n"
  | .bool true => "t"
  | .bool false => "f"
  | .num _ => "#"
  | .str s => strCanon s
  | .arr xs => "[" ++ ",".intercalate (canonList xs) ++ "]"
  | .obj ms =>
    "{" ++ ",".intercalate (((canonMembers ms).foldl (fun m kv => insertMember m kv.1 kv.2) []).map
      fun kv => kv.1 ++ ":" ++ kv.2) ++ "}"
def canonList : List JVal → List String
  | [] => []
  | x :: xs => canon x :: canonList xs
def canonMembers : List (List Char × JVal) → List (String × String)
  | [] => []
  | (k, x) :: ms => (strCanon k, canon x) :: canonMembers ms
end

def handle (args : List Sexp) : String :=
  match args with
  | [t] =>
    match t.bytes? with
    | some bs =>
      match Utf8.decode bs with
      | some cs =>
        match parseJson cs with
        | some x => "ok " ++ canon x
        | none => "reject"
      | none => "not-utf8"
    | none => "bad-case"
  | _ => "bad-case"

end Sqlgrep.Drivers.JsonText
