// C16: value equality, ordering and hashing — correspondence cases and the laws evaluated on the implementation.
use std::cmp::Ordering;
use std::collections::hash_map::DefaultHasher;
use std::hash::{Hash, Hasher};

use sqlgrep::model::{Float, Value, ValueType};

use crate::gen::*;
use crate::run::{Params, Run};
use crate::util::{value_sexp, Rng};

fn ord(o: Ordering) -> &'static str {
    match o { Ordering::Less => "lt", Ordering::Equal => "eq", Ordering::Greater => "gt" }
}

fn fnv(v: &Value) -> u64 { let mut h = fnv::FnvHasher::default(); v.hash(&mut h); h.finish() }
fn sip(v: &Value) -> u64 { let mut h = DefaultHasher::new(); v.hash(&mut h); h.finish() }

fn b(x: bool) -> &'static str { if x { "1" } else { "0" } }

fn kind(v: &Value) -> String {
    match v {
        Value::Null => "null".into(),
        Value::Int(_) => "int".into(),
        Value::Float(Float(f)) => if f.is_nan() { "nan".into() } else if *f == 0.0 { "zero".into() } else if f.is_infinite() { "inf".into() } else { "real".into() },
        Value::Bool(_) => "bool".into(),
        Value::String(_) => "text".into(),
        Value::Array(_, xs) => format!("array{}", xs.len().min(2)),
        Value::Timestamp(_) => "ts".into(),
        Value::Interval(_) => "iv".into(),
    }
}

/// exact numeric comparison of an integer with a non-NaN float (independent of the implementation)
fn exact_int_float(i: i64, f: f64) -> Ordering {
    if f >= 9223372036854775808.0 { return Ordering::Less; }
    if f < -9223372036854775808.0 { return Ordering::Greater; }
    let t = f.trunc();
    let ti = t as i128;
    match (i as i128).cmp(&ti) {
        Ordering::Equal => {
            let frac = f - t;
            if frac > 0.0 { Ordering::Less } else if frac < 0.0 { Ordering::Greater } else { Ordering::Equal }
        }
        o => o,
    }
}

fn check_laws(run: &mut Run, a: &Value, b_: &Value, c: &Value) {
    let desc = || format!("a={} b={} c={}", value_sexp(a), value_sexp(b_), value_sexp(c));
    run.oracle_checks += 1;
    let ab = a.cmp(b_);
    let ba = b_.cmp(a);
    let bc = b_.cmp(c);
    let ac = a.cmp(c);
    if ab != ba.reverse() {
        run.fail(desc(), "antisymmetry", format!("cmp(a,b)={:?} but cmp(b,a)={:?}", ab, ba));
    }
    if (a == b_) != (ab == Ordering::Equal) {
        run.fail(desc(), "eq-vs-cmp", format!("a==b is {} but cmp(a,b)={:?}", a == b_, ab));
    }
    if a != a {
        run.fail(desc(), "eq-irreflexive", "a != a".to_owned());
    }
    if a.partial_cmp(b_) != Some(ab) {
        run.fail(desc(), "partial-cmp", format!("partial_cmp={:?} cmp={:?}", a.partial_cmp(b_), ab));
    }
    if ab != Ordering::Greater && bc != Ordering::Greater && ac == Ordering::Greater {
        run.fail(desc(), "transitivity", format!("a<=b, b<=c but cmp(a,c)={:?}", ac));
    }
    if ab == Ordering::Less && bc == Ordering::Less && ac != Ordering::Less {
        run.fail(desc(), "transitivity", format!("a<b, b<c but cmp(a,c)={:?}", ac));
    }
    if ab == Ordering::Equal && ac != bc {
        run.fail(desc(), "eq-congruence", format!("a=b but cmp(a,c)={:?} cmp(b,c)={:?}", ac, bc));
    }
    if a == b_ && (fnv(a) != fnv(b_) || sip(a) != sip(b_)) {
        run.fail(desc(), "eq-hash", "a == b but they hash differently".to_owned());
    }
    // numbers compare by numeric value, not by type (derived order)
    match (a, b_) {
        (Value::Int(i), Value::Float(Float(f))) if !f.is_nan() => {
            let want = exact_int_float(*i, *f);
            if ab != want {
                // known finding D45 only if the answer is EXACTLY what the finding says: every INT below every REAL
                let class = if ab == Ordering::Less { "D45:int-real-derived-order" } else { "int-real-order-wrong" };
                run.fail(desc(), class, format!("derived cmp(Int {}, Float {})={:?}, numeric order is {:?}", i, f, ab, want));
            }
        }
        (Value::Float(Float(f)), Value::Int(i)) if !f.is_nan() => {
            let want = exact_int_float(*i, *f).reverse();
            if ab != want {
                let class = if ab == Ordering::Greater { "D45:int-real-derived-order" } else { "int-real-order-wrong" };
                run.fail(desc(), class, format!("derived cmp(Float {}, Int {})={:?}, numeric order is {:?}", f, i, ab, want));
            }
        }
        (Value::Float(Float(x)), Value::Float(Float(y))) if !x.is_nan() && !y.is_nan() => {
            let want = x.partial_cmp(y).unwrap();
            if ab != want {
                run.fail(desc(), "real-order", format!("cmp(Float {}, Float {})={:?}, numeric order is {:?}", x, y, ab, want));
            }
        }
        (Value::Int(x), Value::Int(y)) => {
            if ab != x.cmp(y) {
                run.fail(desc(), "int-order", format!("cmp(Int {}, Int {})={:?}", x, y, ab));
            }
        }
        _ => {}
    }
}

/// what the code's `compare_values(l, r)` answers, read off the public evaluator: `l < r`, `l = r` (else Greater)
fn compare_values_real(l: &Value, r: &Value) -> Result<Ordering, String> {
    use sqlgrep::model::{CompareOperator, ExpressionTree};
    let ev = |op: CompareOperator| {
        let e = ExpressionTree::Compare { operator: op, left: crate::c03::bx(crate::c03::lit(l.clone())), right: crate::c03::bx(crate::c03::lit(r.clone())) };
        match crate::exprs::eval_real(&[], &e) {
            crate::exprs::Ev::Ok(Value::Bool(b)) => Ok(b),
            other => Err(format!("{} gave {}", e, other.wire())),
        }
    };
    let (lt, eq, gt) = (ev(CompareOperator::LessThan)?, ev(CompareOperator::Equal)?, ev(CompareOperator::GreaterThan)?);
    match (lt, eq, gt) {
        (true, false, false) => Ok(Ordering::Less),
        (false, true, false) => Ok(Ordering::Equal),
        (false, false, true) => Ok(Ordering::Greater),
        _ => Err(format!("<, =, > of {} and {} answer {} {} {}", l, r, lt, eq, gt)),
    }
}

/// `cmpir`: the ALGORITHM of `compare_int_float` as modelled (`Model/CompareIntFloat.lean`: NaN test, thresholds ±2^63,
/// trunc, saturating cast, sign of the fraction) against the real `compare_values` on one INT and one REAL, both operand
/// orders; the oracle demands the exact numeric order (NaN: above every INT, as the code documents)
fn cmpir(run: &mut Run, i: i64, bits: u64) {
    let f = f64::from_bits(bits);
    let (vi, vf) = (Value::Int(i), Value::Float(Float(f)));
    let desc = format!("int={} real={:#018x} ({:e})", i, bits, f);
    let (fwd, rev) = match (compare_values_real(&vi, &vf), compare_values_real(&vf, &vi)) {
        (Ok(a), Ok(b)) => (a, b),
        (Err(m), _) | (_, Err(m)) => { run.fail(desc, "cmpir-evaluation", m); return; }
    };
    let class = if f.is_nan() { "nan" } else if f.is_infinite() { "inf" } else if f.abs() >= 9223372036854775808.0 { "beyond-i64" }
        else if f.fract() != 0.0 { "fraction" } else if f.abs() > 9007199254740992.0 { "above-2^53" } else { "integral" };
    run.count(&format!("cmpir:{}", class));
    run.case(format!("cmpir (int {}) (real {})", i, bits), format!("cmpir algo {} spec {} rev {}", ord(fwd), ord(fwd), ord(rev)),
        format!("cmpir:{}:{}", class, ord(fwd)));
    run.oracle_checks += 1;
    if f.is_nan() {
        // the sentence asks for ONE total order in which NaN does not break the laws, not for where NaN stands: either end is
        // fine as long as the two operand orders agree (antisymmetry) and the answer is not `Equal` (NaN is no INT)
        if fwd == Ordering::Equal || rev != fwd.reverse() {
            run.fail(desc, "int-real-where-order", format!("compare_values(Int, NaN)={:?}, (NaN, Int)={:?}: not antisymmetric, or an INT equal to NaN", fwd, rev));
        }
        return;
    }
    let want = exact_int_float(i, f);
    if fwd != want || rev != want.reverse() {
        run.fail(desc, "int-real-where-order", format!("compare_values(Int, Float)={:?}, (Float, Int)={:?}; numeric order is {:?}", fwd, rev, want));
    }
}

/// INT edges × the REALs around them (the cases where rounding the INT, truncating the REAL, the cast or the sign of the
/// fraction could go wrong), then random pairs
fn cmpir_cases(run: &mut Run, rng: &mut Rng, n: usize) {
    for x in INT_EDGES {
        let mut floats: Vec<u64> = F64_EDGE_BITS.to_vec();
        let near = (*x as f64).to_bits();
        for d in 0..3u64 { floats.push(near.wrapping_add(d)); floats.push(near.wrapping_sub(d)); }
        // ±2^63 and their neighbours, ±2^53 and neighbours, halves around small integers
        for c in &[0x43e0000000000000u64, 0xc3e0000000000000, 0x4340000000000000, 0xc340000000000000] {
            for d in 0..2u64 { floats.push(c.wrapping_add(d)); floats.push(c.wrapping_sub(d)); }
        }
        if x.unsigned_abs() < (1u64 << 51) {
            let xf = *x as f64;
            for h in &[0.5f64, -0.5, 0.25, -0.75] { floats.push((xf + h).to_bits()); }
        }
        for fb in floats { cmpir(run, *x, fb); }
    }
    for _ in 0..n {
        let i = gen_int(rng);
        let bits = match rng.below(6) {
            0 => gen_f64_bits(rng),
            1 => (i as f64).to_bits().wrapping_add(rng.below(5) as u64).wrapping_sub(2),                     // the neighbours of `i as f64`
            2 => ((i as f64) + (rng.range(-4, 4) as f64) * 0.25).to_bits(),                           // quarters around i
            3 => { let e = 1023 + rng.below(70) as u64; (rng.next() & 0x800fffffffffffff) | (e << 52) }      // magnitudes 1 .. 2^69
            4 => { let e = 1023 + 50 + rng.below(16) as u64; (rng.next() & 0x800fffffffffffff) | (e << 52) } // 2^50 .. 2^65: ulp from 1/4 to 8192
            _ => rng.next(),
        };
        cmpir(run, i, bits);
    }
}

fn emit(run: &mut Run, a: &Value, b_: &Value, c: &Value) {
    let line = format!("cmp3 {} {} {}", value_sexp(a), value_sexp(b_), value_sexp(c));
    let answer = format!(
        "cmp {} {} {} {} eq {} {} {} {} hash {} {} {}",
        ord(a.cmp(b_)), ord(b_.cmp(c)), ord(a.cmp(c)), ord(b_.cmp(a)),
        b(a == b_), b(b_ == c), b(a == c), b(a == a),
        b(fnv(a) == fnv(b_)), b(fnv(b_) == fnv(c)), b(fnv(a) == fnv(c))
    );
    let tag = format!("{}/{}/{}:{}{}{}", kind(a), kind(b_), kind(c), ord(a.cmp(b_)), ord(b_.cmp(c)), b(a == b_));
    run.count(&format!("kind:{}", kind(a)));
    run.case(line, answer, tag);
    check_laws(run, a, b_, c);
}

fn boundary_set() -> Vec<Value> {
    let mut v = vec![Value::Null, Value::Bool(false), Value::Bool(true)];
    for i in &[0i64, 1, -1, 5, i64::MAX, i64::MIN, 9007199254740993] { v.push(Value::Int(*i)); }
    for bits in &[0u64, 0x8000000000000000, 1, 0x8000000000000001, 0x3ff0000000000000, 0x4014000000000000, 0x7ff0000000000000, 0xfff0000000000000, 0x7ff8000000000000, 0xfff8000000000001, 0x43e0000000000000, 0x4340000000000000] {
        v.push(Value::Float(Float(f64::from_bits(*bits))));
    }
    for s in &["", "a", "ab", "b", "é", "\u{10000}", "\u{ffff}"] { v.push(Value::String((*s).to_owned())); }
    v.push(Value::Array(ValueType::Int, vec![]));
    v.push(Value::Array(ValueType::Int, vec![Value::Int(1)]));
    v.push(Value::Array(ValueType::Int, vec![Value::Int(1), Value::Null]));
    v.push(Value::Array(ValueType::Int, vec![Value::Null]));
    v.push(Value::Array(ValueType::Float, vec![Value::Float(Float(-0.0))]));
    v.push(Value::Array(ValueType::Float, vec![Value::Float(Float(0.0))]));
    v.push(Value::Array(ValueType::Float, vec![Value::Float(Float(f64::NAN))]));
    v.push(Value::Array(ValueType::String, vec![]));
    let mut rng = Rng::new(7);
    for _ in 0..2 { v.push(gen_timestamp(&mut rng)); v.push(gen_interval(&mut rng)); }
    v
}

/// "any two values … joined are equal": the join lookup on INT keys that are neighbours where a REAL cannot tell them apart
/// (2^53 ± k, i64 extremes ± k) and on REAL keys (±0.0, whole numbers in several spellings, NaN, infinities): every pair the real
/// program joins has equal keys, and every pair of lines with equal keys is joined (the count of pairs)
fn join_lookup_cases(run: &mut Run, rng: &mut Rng, n: usize) {
    use crate::engine_run::{prepare, run_files};
    let defs = crate::c05::defs();
    let jpath = crate::runq::tmp_file(b"");
    let jp = jpath.display().to_string();
    const BASES: &[i64] = &[0, 1, -1, 1 << 53, -(1 << 53), (1 << 53) + 2, 1 << 62, i64::MAX - 3, i64::MIN + 3, 3037000500, 1 << 24];
    for _ in 0..n {
        let base = *rng.pick(BASES);
        let key = |rng: &mut Rng| base.saturating_add(rng.range(-3, 4));
        let main: Vec<i64> = (0..1 + rng.below(5)).map(|_| key(rng)).collect();
        let joined: Vec<i64> = (0..1 + rng.below(5)).map(|_| key(rng)).collect();
        let main_text: String = main.iter().map(|v| format!("a;{};;;x;\n", v)).collect();
        let joined_text: String = joined.iter().map(|v| format!("#b;{};y;\n", v)).collect();
        std::fs::write(&jpath, joined_text.as_bytes()).unwrap();
        let query = format!("SELECT t.v AS a, u.v AS b FROM t INNER JOIN u::'{}' ON t.v = u.v", jp);
        let prepared = match prepare(&defs, &query) { Ok(p) => p, Err(_) => { run.count("join-lookup:rejected"); continue; } };
        let out = run_files(&prepared, &[main_text.clone().into_bytes()]);
        run.oracle_checks += 1;
        let desc = format!("query={} main keys={:?} joined keys={:?}", query.replace(&jp, "J"), main, joined);
        if out.status != "ok" { run.fail(desc, "join-lookup-error", format!("the join answers {}", out.status)); continue; }
        let mut pairs = 0usize;
        let mut bad = None;
        for rec in out.records() {
            let cells: Vec<&str> = rec.split(", ").collect();
            let val = |i: usize| cells.get(i).and_then(|c| c.splitn(2, ": ").nth(1)).unwrap_or("");
            pairs += 1;
            if val(0) != val(1) { bad = Some(rec.clone()); }
        }
        let want: usize = main.iter().map(|a| joined.iter().filter(|b| *b == a).count()).sum();
        run.count(if want > 0 { "join-lookup:pairs" } else { "join-lookup:no-pairs" });
        if let Some(rec) = bad {
            run.fail(desc, "joined-values-not-equal", format!("the record `{}` joins two different keys", rec));
        } else if pairs != want {
            run.fail(desc, "join-lookup-pair-count", format!("{} pairs are joined, {} pairs of lines have equal keys", pairs, want));
        }
    }
    // REAL keys: 0.0 and -0.0 are equal values (joined), whole numbers in several spellings, NaN equal to itself in the one order;
    // the oracle compares the keys by the REAL total order of the property (`-0.0 = 0.0`, every NaN = every NaN)
    const REALS: &[&str] = &["0.0", "-0.0", "1.0", "1", "1e0", "2.5", "-2.5", "NaN", "nan", "inf", "-inf", "100000000000000000000", "1e20"];
    for _ in 0..n / 2 {
        let main: Vec<&str> = (0..1 + rng.below(4)).map(|_| *rng.pick(REALS)).collect();
        let joined: Vec<&str> = (0..1 + rng.below(4)).map(|_| *rng.pick(REALS)).collect();
        let main_text: String = main.iter().map(|v| format!("a;1;;{};x;\n", v)).collect();
        let joined_text: String = joined.iter().map(|v| format!("#b;1;y;{}\n", v)).collect();
        std::fs::write(&jpath, joined_text.as_bytes()).unwrap();
        let query = format!("SELECT t.r AS a, u.r AS b FROM t INNER JOIN u::'{}' ON t.r = u.r", jp);
        let prepared = match prepare(&defs, &query) { Ok(p) => p, Err(_) => { run.count("join-lookup:rejected"); continue; } };
        let out = run_files(&prepared, &[main_text.clone().into_bytes()]);
        run.oracle_checks += 1;
        let desc = format!("query={} main keys={:?} joined keys={:?}", query.replace(&jp, "J"), main, joined);
        if out.status != "ok" { run.fail(desc, "join-lookup-error", format!("the join answers {}", out.status)); continue; }
        let same = |a: &str, b: &str| -> bool {
            match (a.parse::<f64>(), b.parse::<f64>()) { (Ok(x), Ok(y)) => (x.is_nan() && y.is_nan()) || x == y, _ => false }
        };
        let want: usize = main.iter().map(|a| joined.iter().filter(|b| same(a, b)).count()).sum();
        run.count(if want > 0 { "join-lookup:real-pairs" } else { "join-lookup:real-no-pairs" });
        if out.records().len() != want {
            run.fail(desc, "join-lookup-pair-count", format!("{} pairs are joined ({:?}), {} pairs of lines have equal REAL keys", out.records().len(), out.records(), want));
        }
    }
    let _ = std::fs::remove_file(&jpath);
}

/// "MIN/MAX, PERCENTILE, GROUP BY order … use ONE total order": over REAL values incl. NaN, the infinities and ±0.0 the groups come
/// out in that order, MIN is the value of the first group and MAX that of the last, PERCENTILE(0.0) / (1.0) likewise — whatever
/// the order of the lines (values compared as numbers: every NaN is one value, -0.0 is 0.0)
fn minmax_order_cases(run: &mut Run, rng: &mut Rng, n: usize) {
    use crate::engine_run::{prepare, run_files};
    const DEF: &str = "CREATE TABLE t(line = '^r=(.*)$', line[1] => r REAL);";
    const POOL: &[&str] = &["1.5", "NaN", "-inf", "inf", "2.5", "-0.0", "0.0", "-2.5", "1e300", "-1e300", "nan", "5e-324"];
    let same = |a: &str, b: &str| -> bool { match (a.parse::<f64>(), b.parse::<f64>()) { (Ok(x), Ok(y)) => (x.is_nan() && y.is_nan()) || x == y, _ => a == b } };
    let cell = |rec: &str, i: usize| -> String { rec.split(", ").nth(i).and_then(|c| c.splitn(2, ": ").nth(1)).unwrap_or("").to_owned() };
    for _ in 0..n {
        let k = 2 + rng.below(5);
        let vals: Vec<&str> = (0..k).map(|_| *rng.pick(POOL)).collect();
        let text: String = vals.iter().map(|v| format!("r={}\n", v)).collect();
        let desc = format!("defs={} values in line order {:?}", DEF, vals);
        let (pg, pm) = match (prepare(DEF, "SELECT r, COUNT(*) AS n FROM t GROUP BY r"), prepare(DEF, "SELECT MIN(r) AS lo, MAX(r) AS hi, PERCENTILE(r, 0.0) AS p0, PERCENTILE(r, 1.0) AS p1 FROM t")) { (Ok(a), Ok(b)) => (a, b), _ => { run.count("minmax:rejected"); continue; } };
        let groups = run_files(&pg, &[text.clone().into_bytes()]);
        let mm = run_files(&pm, &[text.clone().into_bytes()]);
        run.oracle_checks += 1;
        if groups.status != "ok" || mm.status != "ok" || mm.records().len() != 1 || groups.records().is_empty() { run.count("minmax:no-table"); continue; }
        let keys: Vec<String> = groups.records().iter().map(|r| cell(r, 0)).collect();
        let rec = mm.records()[0].clone();
        let (lo, hi, p0, p1) = (cell(&rec, 0), cell(&rec, 1), cell(&rec, 2), cell(&rec, 3));
        let (first, last) = (keys.first().unwrap().clone(), keys.last().unwrap().clone());
        run.count("minmax:decided");
        if !same(&lo, &first) || !same(&hi, &last) || !same(&p0, &first) || !same(&p1, &last) {
            run.fail(desc, "min-max-not-ends-of-group-order", format!("GROUP BY lists the values as {:?}; MIN {} MAX {} PERCENTILE(0.0) {} PERCENTILE(1.0) {}", keys, lo, hi, p0, p1));
        }
    }
}

pub fn run(p: &Params) -> Run {
    let mut run = Run::new("C16");
    let mut rng = Rng::new(p.seed ^ 0x16);
    // boundary set: all triples in thorough, all pairs (+ one third element) in quick
    let bs = boundary_set();
    if p.tier_thorough {
        for a in &bs { for b_ in &bs { for c in &bs { emit(&mut run, a, b_, c); } } }
        run.notes.push(format!("exhaustive: all {} triples over the {}-value boundary set", bs.len() * bs.len() * bs.len(), bs.len()));
    } else {
        for a in &bs { for b_ in &bs { let c = rng.pick(&bs).clone(); emit(&mut run, a, b_, &c); } }
        run.notes.push(format!("all {} ordered pairs over the {}-value boundary set, random third element", bs.len() * bs.len(), bs.len()));
    }
    // the comparison used by WHERE / IN for an INT with a REAL (numbers compare by numeric value)
    let env = crate::c03::gen_env(&mut rng);
    crate::c03::boundary_cases(&mut run, &env, p.tier_thorough);
    // the same comparison, algorithm against code: INT edges x neighbouring REALs, then random pairs
    cmpir_cases(&mut run, &mut rng, p.n(1500, 60_000));
    // array_unique (named in the sentence): unique by the one order, also for NaN / -0.0 / NULL elements
    crate::c03::array_unique_cases(&mut run, &mut rng, p.n(600, 20_000));
    // MIN / MAX / PERCENTILE against the GROUP BY order (all named in the sentence) over REALs incl. NaN, infinities, signed zeros
    minmax_order_cases(&mut run, &mut rng, p.n(300, 8000));
    // join lookup (named in the sentence): joined values are equal, equal values are joined
    join_lookup_cases(&mut run, &mut rng, p.n(150, 4000));
    let n = p.n(4000, 200_000);
    for _ in 0..n {
        // mostly same-typed triples (where the order matters), sometimes mixed
        let (a, b_, c) = if rng.chance(3, 4) {
            let t = gen_type(&mut rng, 2);
            let a = gen_value_of(&mut rng, &t, 6);
            // related values: copies and near-copies make equalities frequent
            let b_ = if rng.chance(1, 4) { a.clone() } else { gen_value_of(&mut rng, &t, 6) };
            let c = if rng.chance(1, 5) { b_.clone() } else { gen_value_of(&mut rng, &t, 6) };
            (a, b_, c)
        } else {
            (gen_value(&mut rng), gen_value(&mut rng), gen_value(&mut rng))
        };
        emit(&mut run, &a, &b_, &c);
    }
    run
}
