import SqlgrepModel.Lemmas.Pipeline
import SqlgrepModel.Props.C20
import SqlgrepModel.Lemmas.ParseBlind
/-
END-TO-END theorems: the stage theorems composed over `Pipeline.runText` (`Model/Pipeline.lean`), the function the
compiled driver executes for every `e2e` case — raw definition text, raw query text, raw file bytes, output format
in; the lines handed to `Printer::println` (or the error) out. This file has no property id of its own; each
theorem says which properties it carries from their stage to the whole program:

* `runText_never_panics`, `runText_total`          C09 (no panic on any input) + C14 (parser / lowering total) + the
                                                   printer's index accesses (C17's model), over any texts and bytes
* `runText_select_is_spec`                         C03 C05 C07 C08: the run of the texts is the run of `Spec.Select`
* `runText_agg_is_spec`                            C04 (C07 C08 for aggregates): the run of the texts is `Spec.Agg`
* `lowered_aggregate_is_wellformed`                C04: the side condition `StmtWF` of the refinement theorem is
                                                   discharged by the lowering itself
* `printed_is_text_of_calls`                       C17 ↔ engine properties: the engine models' text output is the text
                                                   rendering of exactly the tables handed to the printer model
* `runText_depends_on_statements`, `location_blind`, `parseText_layout_invariance`, `same_statement_same_output`
                                                   C20: layout of the texts is irrelevant to the statement and to the run

Helper lemmas: `Lemmas/ExecT.lean`, `Lemmas/PipelineAligned.lean`, `Lemmas/Pipeline.lean`.
-/
namespace Sqlgrep.Props.Pipeline
open Sqlgrep Sqlgrep.Pipeline Sqlgrep.Spec.Pipeline

/-- **The whole program never panics** (supports C09, C14, C17). For every definition text, every query text, every
output format and display option, every list of input files with any bytes (valid UTF-8 or not), every state of the
file system around the joined file and ALL oracle tables — also wrong or incomplete ones — the end-to-end model never
answers `panic`: not in the tokenizer (`tokenize` is total), not in the parser (`parse_never_panics`,
`parse_never_out_of_fuel`, with `tokenize_ends_eof` discharging their non-emptiness hypothesis), not in the lowering
(`lower_never_panics`, with `no_empty_json_path_in_a_tree` discharging its hypothesis), not in the engines
(`run_never_panics`, lifted over the table lookups and the missing-file / missing-table branches), and not in
`OutputPrinter::print`, whose two index accesses are in range because every result table the engines emit is aligned
(`runStatement_aligned`: one cell per column name). -/
theorem runText_never_panics (F : Facts) (defsText queryText : List Char) (fmt : Print.Format) (single : Bool)
    (files : List (List Nat)) : ∀ site, runText F defsText queryText fmt single files ≠ .panic site :=
  runText_no_panic F defsText queryText fmt single files

/-- **Totality, spelled out**: every invocation ends in printed records (with `Ok` or a reported error kind), in a
rejected text (a located tokenizer / parser / conversion error), in "not a CREATE TABLE" / "not a query", or — only
when the case did not ship a fact about the outside world the run needed — in `skip` -/
theorem runText_total (F : Facts) (defsText queryText : List Char) (fmt : Print.Format) (single : Bool)
    (files : List (List Nat)) :
    (∃ e n ls, runText F defsText queryText fmt single files = .records e n ls) ∨
    (∃ w p, runText F defsText queryText fmt single files = .rejected w p) ∨
    runText F defsText queryText fmt single files = .notCreateTable ∨
    runText F defsText queryText fmt single files = .notAQuery ∨
    (∃ w, runText F defsText queryText fmt single files = .skip w) := by
  have hp := runText_never_panics F defsText queryText fmt single files
  cases h : runText F defsText queryText fmt single files with
  | records e n ls => exact .inl ⟨e, n, ls, rfl⟩
  | rejected w p => exact .inr (.inl ⟨w, p, rfl⟩)
  | notCreateTable => exact .inr (.inr (.inl rfl))
  | notAQuery => exact .inr (.inr (.inr (.inl rfl)))
  | skip w => exact .inr (.inr (.inr (.inr ⟨w, rfl⟩)))
  | panic site => exact absurd h (hp site)

/-- **The engine text is the text of the printed tables** (supports C17 together with C03 C04 C05 C07 C08): on every
prepared run the lines `Model/Exec.lean` prints (the object of the engine theorems) are the text-format rendering of
exactly the sequence of result tables the end-to-end model hands to the printer model `Print.printAll`, and its
`RunOut` is `runBatch`'s — so what the engine theorems say about printed text records they say about the tables the
printer receives in any format. -/
theorem printed_is_text_of_calls (F : Facts) (tables : List Table) (stmt : Stmt) (fromTable : String) (join : Option LJoin)
    (files : List (List Nat)) (p : Prepared) (h : prepare F tables stmt fromTable join files = some p) :
    ∃ t, runStatement F tables stmt fromTable join files = some t ∧
      t.out = runBatch F.eval p.qy p.joined p.files none ∧
      renderCalls t.calls = (runBatch F.eval p.qy p.joined p.files none).printed ∧
      CallsAligned t.calls := by
  obtain ⟨hr, _⟩ := runStatement_of_prepare F tables stmt fromTable join files p h
  refine ⟨_, hr, runBatchT_some_out _ _ _ _, ?_, runBatchT_aligned _ _ _ _⟩
  rw [← runBatchT_some_out, runBatchT_printed]

/-- **End to end, a SELECT is its specification** (supports C03 — rows, `*`, `input`, column names as lowered —,
C05 with a join, C07 with LIMIT, C08 with DISTINCT). When the two texts parse and lower to table definitions and to a
non-aggregate statement, the tables it names exist (`prepare`), and the statement-level specification answers on the
rows extracted from the file bytes (`batchBlocks`: every line readable, every expression with a value), then the
end-to-end run reports `Ok`, has consumed exactly the lines the specification says, and prints — in the requested
format, through the printer model — a sequence of aligned result tables whose text rendering is exactly the
specification's output `Spec.Select.runOf` (by `runBatch_select_eq_spec`). The hypotheses `hc`, `hp`, `hr` only say
that the case shipped the facts the run needs (else the answer is `skip`). -/
theorem runText_select_is_spec (F : Facts) (defsText queryText : List Char) (fmt : Print.Format) (single : Bool)
    (files : List (List Nat)) (defs : LStmt) (tables : List Table) (s : SelectStmt) (fromTable : String)
    (file : Option String) (join : Option LJoin) (p : Prepared) (blocks : List (List (List Value)))
    (hc : classesCover F defsText = true ∧ classesCover F queryText = true)
    (hd : parseText (lexOracles F) (regexValidFn F) defsText = .stmt defs)
    (hp : (createPatterns defs).all (fun re => ((Utf8.decode re).bind (regexValidOf F)).isSome) = true)
    (hq : parseText (lexOracles F) (regexValidFn F) queryText = .stmt (.select s fromTable file join))
    (ht : addTables defs = some tables)
    (hprep : prepare F tables (.select s) fromTable join files = some p)
    (hb : Spec.Select.batchBlocks F.eval p.qy s p.joined p.files = some blocks)
    (hr : realsCover F (runBatchT F.eval p.qy (some p.joined) p.files).calls = true) :
    ∃ calls, runText F defsText queryText fmt single files =
        .records none (Spec.Select.runOf p.qy s blocks).totalLines
          ((Print.printAll (realOracle F) fmt true (printCalls single calls)).map Print.Line.bytes) ∧
      renderCalls calls = (Spec.Select.runOf p.qy s blocks).printed ∧ CallsAligned calls := by
  obtain ⟨hrun, hstmt⟩ := runStatement_of_prepare F tables (.select s) fromTable join files p hprep
  have hspec : (runBatchT F.eval p.qy (some p.joined) p.files).out = Spec.Select.runOf p.qy s blocks := by
    rw [runBatchT_some_out]
    exact runBatch_select_eq_spec F.eval p.qy s hstmt p.joined p.files blocks hb
  refine ⟨(runBatchT F.eval p.qy (some p.joined) p.files).calls, ?_, ?_, runBatchT_aligned _ _ _ _⟩
  · rw [runText_eq_runLowered F defsText queryText fmt single files defs _ hc hd hp hq,
      runLowered_eq F defs _ fmt single files tables (.select s) fromTable join _ ht rfl hrun,
      answerOf_records F fmt single _ (runBatchT_no_panic _ _ _ _) (runBatchT_aligned _ _ _ _) (by rw [hspec]; rfl) hr,
      hspec]
    rfl
  · rw [← runBatchT_printed, hspec]

/-- **An aggregate statement that comes out of `parsing::parse` is well-formed** (supports C04): `StmtWF`, the side
condition of `batch_model_eq_spec` (the aggregates of HAVING listed as the HAVING walk meets them), holds for every
aggregate statement any text lowers to — so the refinement applies to the real front end, not only to statements
constructed by hand -/
theorem lowered_aggregate_is_wellformed (lo : Lex.Oracles) (rv : List Char → Bool) (text : List Char) (a : AggStmt)
    (f : String) (file : Option String) (j : Option LJoin) (h : parseText lo rv text = .stmt (.aggregate a f file j)) :
    StmtWF a :=
  parseText_aggregate_wf lo rv text a f file j h

/-- **End to end, an aggregate statement is its specification** (supports C04; C07 / C08 for aggregates). When the
texts lower to table definitions and to an aggregate statement, the FROM table exists, and `Spec.Agg.batch` answers on
the extracted rows without naming a known deviation class (D10, D15), the end-to-end run reports `Ok`, counts the
lines the specification counts, and prints — in the requested format — aligned result tables whose text rendering is
the specification's table (`batch_model_eq_spec`, with `StmtWF` discharged by `lowered_aggregate_is_wellformed`). -/
theorem runText_agg_is_spec (F : Facts) (defsText queryText : List Char) (fmt : Print.Format) (single : Bool)
    (files : List (List Nat)) (defs : LStmt) (tables : List Table) (a : AggStmt) (fromTable : String)
    (file : Option String) (join : Option LJoin) (p : Prepared) (ro : RunOut)
    (hc : classesCover F defsText = true ∧ classesCover F queryText = true)
    (hd : parseText (lexOracles F) (regexValidFn F) defsText = .stmt defs)
    (hp : (createPatterns defs).all (fun re => ((Utf8.decode re).bind (regexValidOf F)).isSome) = true)
    (hq : parseText (lexOracles F) (regexValidFn F) queryText = .stmt (.aggregate a fromTable file join))
    (ht : addTables defs = some tables)
    (hprep : prepare F tables (.aggregate a) fromTable join files = some p)
    (hb : Spec.Agg.batch F.eval p.qy a p.joined p.files = some (ro, ""))
    (hok : ro.error = none ∧ ro.skipped = none)
    (hr : realsCover F (runBatchT F.eval p.qy (some p.joined) p.files).calls = true) :
    ∃ calls, runText F defsText queryText fmt single files =
        .records none ro.totalLines
          ((Print.printAll (realOracle F) fmt true (printCalls single calls)).map Print.Line.bytes) ∧
      renderCalls calls = ro.printed ∧ CallsAligned calls := by
  obtain ⟨hrun, hstmt⟩ := runStatement_of_prepare F tables (.aggregate a) fromTable join files p hprep
  have hwf := lowered_aggregate_is_wellformed _ _ _ a fromTable file join hq
  have hspec : (runBatchT F.eval p.qy (some p.joined) p.files).out = ro := by
    rw [runBatchT_some_out]
    exact Props.C04.batch_model_eq_spec hstmt hwf p.joined p.files hb
  refine ⟨(runBatchT F.eval p.qy (some p.joined) p.files).calls, ?_, ?_, runBatchT_aligned _ _ _ _⟩
  · rw [runText_eq_runLowered F defsText queryText fmt single files defs _ hc hd hp hq,
      runLowered_eq F defs _ fmt single files tables (.aggregate a) fromTable join _ ht rfl hrun,
      answerOf_records F fmt single _ (runBatchT_no_panic _ _ _ _) (runBatchT_aligned _ _ _ _) (by rw [hspec]; exact hok.2) hr,
      hspec, hok.1]
  · rw [← runBatchT_printed, hspec]

/-- **Only the statements matter** (supports C20): two definition texts that lower to the same statement — whatever
their letter case, whitespace, line breaks, comments, trailing `;` — give the same end-to-end answer on every query,
every input and every format (likewise for two query texts: the run reads nothing of a text but the statement) -/
theorem runText_depends_on_statements (F : Facts) (defs₁ defs₂ query₁ query₂ : List Char) (fmt : Print.Format)
    (single : Bool) (files : List (List Nat)) (d q : LStmt)
    (hc₁ : classesCover F defs₁ = true ∧ classesCover F query₁ = true)
    (hc₂ : classesCover F defs₂ = true ∧ classesCover F query₂ = true)
    (hd₁ : parseText (lexOracles F) (regexValidFn F) defs₁ = .stmt d)
    (hd₂ : parseText (lexOracles F) (regexValidFn F) defs₂ = .stmt d)
    (hp : (createPatterns d).all (fun re => ((Utf8.decode re).bind (regexValidOf F)).isSome) = true)
    (hq₁ : parseText (lexOracles F) (regexValidFn F) query₁ = .stmt q)
    (hq₂ : parseText (lexOracles F) (regexValidFn F) query₂ = .stmt q) :
    runText F defs₁ query₁ fmt single files = runText F defs₂ query₂ fmt single files := by
  rw [runText_eq_runLowered F defs₁ query₁ fmt single files d q hc₁ hd₁ hp hq₁,
    runText_eq_runLowered F defs₂ query₂ fmt single files d q hc₂ hd₂ hp hq₂]

/-- what of a token vector the parser and the lowering are allowed to look at for the statement: the tokens, not
their locations (locations only ever enter error values and the `loc` fields of the parse tree, which the lowering
copies into conversion errors only) -/
def LocationBlind (rv : List Char → Bool) : Prop :=
  ∀ ts₁ ts₂ : List PTok, ts₁.map (·.tok) = ts₂.map (·.tok) → ∀ s, parseToks rv ts₁ = .stmt s → parseToks rv ts₂ = .stmt s

/-- **Parser and lowering are location-blind** (supports C20): proved for the six expression functions
(`Lemmas/ParseLoc.lean` `strip_all`), the whole statement parser — SELECT, JOIN, the clause loop, CREATE TABLE, column
definitions, types — (`Lemmas/ParseStripStmt.lean` `parseTokens_strip`: on the token vector with all locations reset
`Parser::parse` answers the same tree up to locations, or the same error kind) and the lowering
(`Lemmas/LowerStrip.lean` `lowerStatement_erase`: trees equal up to locations lower to the same statement, or to a
conversion error of the same kind). -/
theorem location_blind (rv : List Char → Bool) : LocationBlind rv :=
  fun ts₁ ts₂ h s h₁ => parseToks_stmt_of_same_tokens rv ts₁ ts₂ h s h₁

/-- … and in full: the same tokens at other locations give the same answer up to the locations inside errors — the
same statement, or a parser / conversion error of the same kind -/
theorem parse_answer_depends_on_tokens_only (rv : List Char → Bool) (ts₁ ts₂ : List PTok)
    (h : ts₁.map (·.tok) = ts₂.map (·.tok)) : (parseToks rv ts₁).stripLoc = (parseToks rv ts₂).stripLoc :=
  parseToks_locations_irrelevant rv ts₁ ts₂ h

/-- **Layout invariance of the front end** (supports C20): two texts that are layouts of the same lexemes
(`Props/C20.lean` `layout_invariance`: they differ in letter case of keywords, whitespace, line breaks, comments,
leading zeros, string escapes) parse and lower to the same statement — from the tokenizer's `layout_invariance`
(same tokens, other locations) and `location_blind`. -/
theorem parseText_layout_invariance (o : Lex.Oracles) (rv : List Char → Bool)
    (L₁ L₂ : Lex.Layout) (h₁ : L₁.Ok o) (h₂ : L₂.Ok o) (same : L₁.lexemes.map (·.tok o) = L₂.lexemes.map (·.tok o))
    (s : LStmt) (h : parseText o rv L₁.text = .stmt s) : parseText o rv L₂.text = .stmt s := by
  have hinv := Props.C20.layout_invariance o L₁ L₂ h₁ h₂ same
  have e₂ := Props.C20.tokenize_render o L₂ h₂
  unfold Lex.tokens at hinv e₂
  unfold parseText at h ⊢
  cases ht₁ : Lex.tokenize o L₁.text with
  | ok ts₁ =>
    rw [ht₁] at h hinv
    cases ht₂ : Lex.tokenize o L₂.text with
    | ok ts₂ =>
      rw [ht₂] at hinv
      simp only [Option.some.injEq] at hinv
      exact location_blind rv ts₁ ts₂ hinv s h
    | error l e => rw [ht₂] at e₂; cases e₂
    | missing w => rw [ht₂] at e₂; cases e₂
  | error l e => rw [ht₁] at h; cases h
  | missing w => rw [ht₁] at h; cases h

/-- **Same statement, therefore same output** (C20 end to end): definition texts and query texts that are layouts of
the same lexemes (letter case of keywords, whitespace, line breaks, comments, …) give the same end-to-end answer — the
same printed records or the same error — on every input, every format and every state of the outside world, whenever
the first pair lowers to statements (`parseText_layout_invariance` for both texts, then
`runText_depends_on_statements`). -/
theorem same_statement_same_output (F : Facts) (D₁ D₂ Q₁ Q₂ : Lex.Layout)
    (hD₁ : D₁.Ok (lexOracles F)) (hD₂ : D₂.Ok (lexOracles F)) (hQ₁ : Q₁.Ok (lexOracles F)) (hQ₂ : Q₂.Ok (lexOracles F))
    (sameD : D₁.lexemes.map (·.tok (lexOracles F)) = D₂.lexemes.map (·.tok (lexOracles F)))
    (sameQ : Q₁.lexemes.map (·.tok (lexOracles F)) = Q₂.lexemes.map (·.tok (lexOracles F)))
    (fmt : Print.Format) (single : Bool) (files : List (List Nat)) (d q : LStmt)
    (hc₁ : classesCover F D₁.text = true ∧ classesCover F Q₁.text = true)
    (hc₂ : classesCover F D₂.text = true ∧ classesCover F Q₂.text = true)
    (hd : parseText (lexOracles F) (regexValidFn F) D₁.text = .stmt d)
    (hp : (createPatterns d).all (fun re => ((Utf8.decode re).bind (regexValidOf F)).isSome) = true)
    (hq : parseText (lexOracles F) (regexValidFn F) Q₁.text = .stmt q) :
    runText F D₁.text Q₁.text fmt single files = runText F D₂.text Q₂.text fmt single files :=
  runText_depends_on_statements F D₁.text D₂.text Q₁.text Q₂.text fmt single files d q hc₁ hc₂ hd
    (parseText_layout_invariance _ _ D₁ D₂ hD₁ hD₂ sameD d hd) hp hq
    (parseText_layout_invariance _ _ Q₁ Q₂ hQ₁ hQ₂ sameQ q hq)

/-! ### non-vacuity: a concrete run through every stage (kernel-evaluated) -/

/-- facts about `a;1`, `b;2` and `zzz` under the pattern `^([a-z]+);([0-9]+)$` (what the `regex` crate answers) -/
def exFacts : Facts :=
  { regexValid := [("^([a-z]+);([0-9]+)$".toList, true)]
    lines := [(strBytes "a;1", { captures := [(strBytes "^([a-z]+);([0-9]+)$", some [some (strBytes "a;1"), some (strBytes "a"), some (strBytes "1")])] }),
              (strBytes "b;2", { captures := [(strBytes "^([a-z]+);([0-9]+)$", some [some (strBytes "b;2"), some (strBytes "b"), some (strBytes "2")])] }),
              (strBytes "zzz", { captures := [(strBytes "^([a-z]+);([0-9]+)$", none)] })] }

def exDefs : List Char := "CREATE TABLE t(line = '^([a-z]+);([0-9]+)$', line[1] => k TEXT, line[2] => v INT);".toList

/-- the observable part of an answer that is a run -/
def recordsOf : Answer → Option (Option ErrKind × Nat × List (List Nat))
  | .records e n ls => some (e, n, ls)
  | _ => none

/-- the whole pipeline on raw text and raw bytes: two records in the CSV format, the header once, before the first -/
example : recordsOf (runText exFacts exDefs "select k, v + 1, v + 1 from t where v > 0".toList (.csv [59]) false [strBytes "a;1\r\nb;2"]) =
    some (none, 2, [strBytes "k;p1;p2", strBytes "'a';2;2", strBytes "'b';3;3"]) := by decide +kernel

/-- … and an aggregate statement in the JSON format -/
example : recordsOf (runText exFacts exDefs "SELECT COUNT(*), MAX(v) FROM t".toList .json true [strBytes "a;1\nb;2\n", strBytes "zzz\n"]) =
    some (none, 3, [strBytes "{\"count0\":2,\"max1\":2}"]) := by decide +kernel

/-- a statement over a table that is not defined: `TableNotFound` after the first line -/
example : recordsOf (runText exFacts exDefs "SELECT x FROM nosuch".toList .text false [strBytes "a;1\n"]) =
    some (some .tableNotFound, 1, []) := by decide +kernel

/-- the hypotheses of `runText_select_is_spec` hold together on a concrete invocation: both texts lower, the table
exists, the specification answers on the extracted rows, every REAL rendering needed is there -/
def exSelectHyps (F : Facts) (defsText queryText : List Char) (files : List (List Nat)) : Bool :=
  classesCover F defsText && classesCover F queryText &&
  match parseText (lexOracles F) (regexValidFn F) defsText, parseText (lexOracles F) (regexValidFn F) queryText with
  | .stmt defs, .stmt (.select s fromTable _ join) =>
    (createPatterns defs).all (fun re => ((Utf8.decode re).bind (regexValidOf F)).isSome) &&
    match addTables defs with
    | some tables =>
      match prepare F tables (.select s) fromTable join files with
      | some p => (Spec.Select.batchBlocks F.eval p.qy s p.joined p.files).isSome &&
          realsCover F (runBatchT F.eval p.qy (some p.joined) p.files).calls
      | none => false
    | none => false
  | _, _ => false

example : exSelectHyps exFacts exDefs "select distinct k, v + 1 from t where v > 0 limit 5".toList [strBytes "a;1\r\nb;2", strBytes "zzz\na;1\n"] = true := by
  decide +kernel

/-- … and those of `runText_agg_is_spec` (the specification answers with an empty deviation class) -/
def exAggHyps (F : Facts) (defsText queryText : List Char) (files : List (List Nat)) : Bool :=
  classesCover F defsText && classesCover F queryText &&
  match parseText (lexOracles F) (regexValidFn F) defsText, parseText (lexOracles F) (regexValidFn F) queryText with
  | .stmt defs, .stmt (.aggregate a fromTable _ join) =>
    (createPatterns defs).all (fun re => ((Utf8.decode re).bind (regexValidOf F)).isSome) &&
    match addTables defs with
    | some tables =>
      match prepare F tables (.aggregate a) fromTable join files with
      | some p =>
        (match Spec.Agg.batch F.eval p.qy a p.joined p.files with
          | some (ro, cls) => cls == "" && ro.error.isNone && ro.skipped.isNone && ro.totalLines == 3
          | none => false) &&
          realsCover F (runBatchT F.eval p.qy (some p.joined) p.files).calls
      | none => false
    | none => false
  | _, _ => false

example : exAggHyps exFacts exDefs "SELECT k, COUNT(*), MAX(v) FROM t GROUP BY k HAVING COUNT(*) > 0".toList [strBytes "a;1\nb;2\n", strBytes "a;1"] = true := by
  decide +kernel

/-- `runText_depends_on_statements` on two layouts of the same texts (keyword case, line breaks, a comment, `;`) -/
example :
    recordsOf (runText exFacts exDefs "SELECT k FROM t WHERE v > 1".toList .text false [strBytes "a;1\nb;2\n"]) =
    recordsOf (runText exFacts "create table t(line =\n'^([a-z]+);([0-9]+)$', -- the pattern\n line[1] => k text, line[2] => v int) ;".toList
      "select k\nfrom t -- rows\n where v > 1;".toList .text false [strBytes "a;1\nb;2\n"]) := by
  decide +kernel

end Sqlgrep.Props.Pipeline
