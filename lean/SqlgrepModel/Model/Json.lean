import SqlgrepModel.Model.Value
/-
JSON side of extraction (`src/data_model.rs` `JsonAccess`, `src/model.rs` `convert_from_json`).
The tree itself is the answer of `serde_json::from_str` (oracle); numbers are serde_json's `N`:
`PosInt(u64) | NegInt(i64) | Float(f64)`; for the two integer forms the `as f64` conversion done by
`as_f64` is shipped with the number (`f`), so that REAL conversion needs no rounding model.
-/
namespace Sqlgrep

inductive JNum where
  | posInt (n : Nat) (f : Nat)     -- 0 ≤ n < 2^64, f = bits of `n as f64`
  | negInt (n : Int) (f : Nat)     -- -2^63 ≤ n < 0
  | float (bits : Nat)
  deriving Repr, Inhabited

inductive Json where
  | null
  | bool (b : Bool)
  | num (n : JNum)
  | str (s : List Nat)
  | arr (xs : List Json)
  | obj (kvs : List (List Nat × Json))
  deriving Repr, Inhabited

namespace Json

/-- `Value::get(&str)`: member of an object, `None` on anything else -/
def getField : Json → List Nat → Option Json
  | obj kvs, k => kvs.lookup k
  | _, _ => none

/-- `as_array()?.get(i)` -/
def getIndex : Json → Nat → Option Json
  | arr xs, i => xs[i]?
  | _, _ => none

/-- `as_i64`: integers that fit `i64` only -/
def asI64 : Json → Option Int
  | num (.posInt n _) => if n ≤ 9223372036854775807 then some (n : Int) else none
  | num (.negInt n _) => some n
  | _ => none

/-- `as_f64`: any number -/
def asF64 : Json → Option Nat
  | num (.posInt _ f) => some f
  | num (.negInt _ f) => some f
  | num (.float b) => some b
  | _ => none

def asBool : Json → Option Bool
  | bool b => some b
  | _ => none

def asStr : Json → Option (List Nat)
  | str s => some s
  | _ => none

def asArray : Json → Option (List Json)
  | arr xs => some xs
  | _ => none

end Json

inductive JsonStep where
  | field (name : List Nat)
  | index (i : Nat)
  deriving Repr, Inhabited, DecidableEq

/-- `JsonAccess::{Field, Array} { .., inner: Option<Box<JsonAccess>> }`: a non-empty chain of steps -/
inductive JsonAccess where
  | last (s : JsonStep)                       -- inner = None
  | cons (s : JsonStep) (inner : JsonAccess)  -- inner = Some(..)
  deriving Repr, Inhabited, DecidableEq

namespace JsonAccess

/-- one step of `get_value` -/
def step (j : Json) : JsonStep → Option Json
  | .field name => j.getField name
  | .index i => j.getIndex i

/-- `JsonAccess::get_value` -/
def getValue : JsonAccess → Json → Option Json
  | last s, j => step j s
  | cons s inner, j =>
    match step j s with
    | some v => getValue inner v
    | none => none

/-- `set_inner(new_inner)`: only `Some(..)` replaces -/
def setInner (part : JsonAccess) (newInner : Option JsonAccess) : JsonAccess :=
  match newInner, part with
  | some i, last s => cons s i
  | some i, cons s _ => cons s i
  | none, p => p

/-- `JsonAccess::from_linear`: `None` models the `unwrap` on an empty list (the parser rejects `{ }` before) -/
def fromLinear (parts : List JsonStep) : Option JsonAccess :=
  parts.reverse.foldl (fun current part => some (setInner (last part) current)) none

/-- the path as the list of its steps -/
def steps : JsonAccess → List JsonStep
  | last s => [s]
  | cons s inner => s :: inner.steps

end JsonAccess

/-- follow a path (list of steps) through a JSON value: the specification of `get_value` -/
def followPath : List JsonStep → Json → Option Json
  | [], j => some j
  | s :: rest, j =>
    match JsonAccess.step j s with
    | some v => followPath rest v
    | none => none

/-- `ValueType::convert_from_json` -/
def convertFromJson : VType → Json → Value
  | .int, j => match j.asI64 with | some n => .int n | none => .null
  | .real, j => match j.asF64 with | some b => .real b | none => .null
  | .bool, j => match j.asBool with | some b => .bool b | none => .null
  | .text, j => match j.asStr with | some s => .text s | none => .null
  | .array e, j =>
    match j.asArray with
    | some xs => .array e (xs.map (convertFromJson e))
    | none => .null
  | .timestamp, _ => .null
  | .interval, _ => .null

end Sqlgrep
