import SqlgrepModel.Props.C13
import SqlgrepModel.Lemmas.ParseStripStmt
import SqlgrepModel.Lemmas.ParseLift
import SqlgrepModel.Lemmas.PrHead
import SqlgrepModel.Props.Pipeline
/-
C13 at the level of whole statements (second review, L8). `Props/C13.lean` is about `parse_expression_internal` on a token
vector that holds an expression followed by "something that stops it". Here the expression stands where a user writes it:

  SELECT <e₁> FROM t WHERE <e₂>

`Parser::parse` (`Parse.parseTokens` with the tables of the running code and the fuel the model is executed with) reads the
token vector in which `e₁`, `e₂` are written with minimal parentheses and the one in which they are fully parenthesised as
the same tree — the SELECT statement whose projection is the tree the reference grammar assigns to `e₁` and whose filter is
that of `e₂` — whatever the locations of the tokens (`select_where_minimal_parens`); hence both token vectors lower alike
(`select_where_same_statement`), two TEXTS whose tokens spell the two forms parse alike (`select_where_same_text`) and the whole
program prints the same (`select_where_same_output`). Scope, said plainly: ONE statement shape — one projection without alias,
FROM, WHERE; expressions in the other positions (further projections, GROUP BY keys, HAVING, LIMIT) are covered by the
expression-level theorems of `Props/C13.lean` plus the clause-level determinism of `Props/C20Parse.lean`, not composed here.
-/
namespace Sqlgrep.Props.C13Stmt
open Sqlgrep Sqlgrep.Parse Sqlgrep.Spec

/-- a token at the default location -/
def D (t : Tok) : PTok := ⟨default, t⟩

/-- the token vector of a state -/
def toksOf (s : PSt) : List PTok := s.cur :: s.rest

theorem toksOf_push (t : Tok) (s : PSt) : toksOf (push t s) = D t :: toksOf s := rfl

theorem toksOf_pushAll (p : List Tok) (s : PSt) : toksOf (pushAll p s) = p.map D ++ toksOf s := by
  induction p with
  | nil => rfl
  | cons t p ih => rw [pushAll_cons, toksOf_push, ih]; rfl

theorem remaining_push (t : Tok) (s : PSt) : (push t s).remaining = s.remaining + 1 := by
  simp [PSt.remaining, push]

theorem remaining_pushAll (p : List Tok) (s : PSt) : (pushAll p s).remaining = p.length + s.remaining := by
  induction p with
  | nil => simp
  | cons t p ih => rw [pushAll_cons, remaining_push, ih]; simp; omega

theorem next_push (t : Tok) (s : PSt) : next (push t s) = .ok () s := rfl

/-- the end of the vector -/
def endSt : PSt := ⟨D .eof, []⟩

/-- `… WHERE <w> End` -/
def whereSt (w : List Tok) : PSt := push (.kw .where) (pushAll w endSt)

/-- `<p> FROM tbl WHERE <w> End` -/
def bodySt (p : List Tok) (tbl : List Char) (w : List Tok) : PSt :=
  pushAll p (push (.kw .from) (push (.ident tbl) (whereSt w)))

/-- the tokens of `SELECT <p> FROM tbl WHERE <w>` followed by `End` -/
def selectWhere (p : List Tok) (tbl : List Char) (w : List Tok) : List Tok :=
  [.kw .select] ++ p ++ [.kw .from, .ident tbl, .kw .where] ++ w ++ [.eof]

theorem selectWhere_eq (p : List Tok) (tbl : List Char) (w : List Tok) :
    (selectWhere p tbl w).map D = D (.kw .select) :: toksOf (bodySt p tbl w) := by
  unfold selectWhere bodySt whereSt
  rw [toksOf_pushAll, toksOf_push, toksOf_push, toksOf_push, toksOf_pushAll]
  simp [toksOf, endSt]

theorem pushAll_cur_loc (p : List Tok) (s : PSt) (h : s.cur.loc = default) : (pushAll p s).cur.loc = default := by
  cases p with
  | nil => exact h
  | cons t p => rfl

/-- the tree of `SELECT e₁ FROM tbl WHERE e₂` under the reference grammar (all locations default) -/
def selectTree (e₁ : RExpr) (tbl : List Char) (e₂ : RExpr) : POp :=
  .select { loc := default, projections := [(none, e₁.embed)], fromTable := tbl, fromFile := none,
            filter := some e₂.embed, groupBy := none, having := none, join := none, limit := none, distinct := false }

theorem stops_end : Stops specTables 0 endSt :=
  Props.C13.stops_of_plain_token (by simp [endSt, D]) (by simp [endSt, D]) (by decide)

theorem stops_from (s : PSt) : Stops specTables 0 (push (.kw .from) s) :=
  Props.C13.stops_of_plain_token (by simp [push]) (by simp [push])
    (by show lookupTok specTables.other (.kw .from) = none; decide)

/-- `parse_select` on the stripped vector, at every fuel of at least three times the vector's length: the projection and the
filter are read as the reference grammar's trees, whichever way the two expressions are printed as long as the expression
parser reads the printings as those trees -/
theorem parseSelect_body (T : PrecTables) (e₁ e₂ : RExpr) (p w : List Tok) (tbl : List Char) (sel : PTok) (F : Nat)
    (hp : ∀ f, 3 * (bodySt p tbl w).remaining ≤ f →
      parseExpr T f (bodySt p tbl w) = .ok e₁.embed (push (.kw .from) (push (.ident tbl) (whereSt w))))
    (hw : ∀ f, 3 * (pushAll w endSt).remaining ≤ f → parseExpr T f (pushAll w endSt) = .ok e₂.embed endSt)
    (hd : (bodySt p tbl w).cur.tok ≠ .kw .distinct)
    (hF : 3 * (bodySt p tbl w).remaining + 1 ≤ F) :
    parseSelect T F ⟨sel, toksOf (bodySt p tbl w)⟩ = .ok (selectTree e₁ tbl e₂) endSt := by
  obtain ⟨F', rfl⟩ : ∃ F', F = F' + 1 := ⟨F - 1, by omega⟩
  have hrem : (bodySt p tbl w).remaining = p.length + ((pushAll w endSt).remaining + 3) := by
    simp only [bodySt, whereSt, remaining_pushAll, remaining_push]
  have h1 : next (⟨sel, toksOf (bodySt p tbl w)⟩ : PSt) = .ok () (bodySt p tbl w) := rfl
  have h2 : optDistinct (bodySt p tbl w) = .ok false (bodySt p tbl w) := by
    unfold optDistinct; rw [if_neg hd]
  have h3 : projLoop T (F' + 1) [] (bodySt p tbl w) = .ok [(none, e₁.embed)] (push (.ident tbl) (whereSt w)) := by
    rw [projLoop, hp F' (by omega)]
    simp only [optAlias, push, List.nil_append]
    simp
    rfl
  have h4 : consumeIdentifier (push (.ident tbl) (whereSt w)) = .ok tbl (whereSt w) := rfl
  have h5 : optFile (whereSt w) = .ok none (whereSt w) := by
    unfold optFile whereSt; simp [push]
  have h6 : clauses T (F' + 1) (whereSt w) = .ok { filter := some e₂.embed } endSt := by
    unfold clauses
    rw [if_pos (by simp [whereSt, push])]
    rw [clauseLoop, clauseTurn]
    rw [if_pos (by simp [whereSt, push])]
    have : next (whereSt w) = .ok () (pushAll w endSt) := rfl
    rw [this]
    simp only [Option.isSome_none, Bool.false_eq_true, if_false]
    rw [hw F' (by omega)]
    simp [endSt, D]
  unfold parseSelect
  rw [h1]; simp only []
  rw [h2]; simp only []
  rw [h3]; simp only []
  rw [h4]; simp only []
  rw [h5]; simp only []
  rw [h6]
  have hl : (bodySt p tbl w).cur.loc = default := pushAll_cur_loc p _ rfl
  simp only [hl]
  rfl

/-- `Parser::parse` on the stripped vector, with the fuel the model is executed with -/
theorem parseTokens_stripped (T : PrecTables) (e₁ e₂ : RExpr) (p w : List Tok) (tbl : List Char)
    (hp : ∀ f, 3 * (bodySt p tbl w).remaining ≤ f →
      parseExpr T f (bodySt p tbl w) = .ok e₁.embed (push (.kw .from) (push (.ident tbl) (whereSt w))))
    (hw : ∀ f, 3 * (pushAll w endSt).remaining ≤ f → parseExpr T f (pushAll w endSt) = .ok e₂.embed endSt)
    (hd : (bodySt p tbl w).cur.tok ≠ .kw .distinct) :
    parseTokens T ((selectWhere p tbl w).map D) = .tree (selectTree e₁ tbl e₂) := by
  rw [selectWhere_eq]
  unfold parseTokens parseTokensFuel
  simp only []
  have hF : 3 * (bodySt p tbl w).remaining + 1 ≤ fuelBound (D (.kw .select) :: toksOf (bodySt p tbl w)).length := by
    simp only [fuelBound, toksOf, List.length_cons, PSt.remaining]; omega
  have hs := parseSelect_body T e₁ e₂ p w tbl (D (.kw .select)) _ hp hw hd hF
  have : parseOp T (fuelBound (D (.kw .select) :: toksOf (bodySt p tbl w)).length)
      { cur := D (.kw .select), rest := toksOf (bodySt p tbl w) } = .ok (selectTree e₁ tbl e₂) endSt := by
    unfold parseOp
    rw [if_neg (by simp [D])]
    unfold parseStatement
    rw [if_pos (by simp [D]), hs]
    simp [optSemi, endSt, D]
  rw [this]

/-- the first token of the printed projection is not `DISTINCT` (hypothesis of the theorems below; it holds for every
expression: `notDistinctFirst_minimal`, `notDistinctFirst_full`, and the `_all` theorems have it discharged) -/
def NotDistinctFirst (p : List Tok) : Prop := p.head? ≠ some (.kw .distinct)

instance (p : List Tok) : Decidable (NotDistinctFirst p) := by unfold NotDistinctFirst; infer_instance

/-- … and it never is: no printed expression begins with `DISTINCT` (`Lemmas/PrHead.lean`) -/
theorem notDistinctFirst_minimal (e : RExpr) : NotDistinctFirst (RExpr.minimal e) := by
  obtain ⟨t, r, h, ht⟩ := RExpr.minimal_goodHead e
  unfold NotDistinctFirst; rw [h]; simpa using ht

theorem notDistinctFirst_full (e : RExpr) : NotDistinctFirst (RExpr.full e) := by
  obtain ⟨t, r, h, ht⟩ := RExpr.full_goodHead e
  unfold NotDistinctFirst; rw [h]; simpa using ht

theorem cur_tok_of_notDistinctFirst (p : List Tok) (s : PSt) (h : NotDistinctFirst p) (hs : s.cur.tok ≠ .kw .distinct) :
    (pushAll p s).cur.tok ≠ .kw .distinct := by
  cases p with
  | nil => exact hs
  | cons t p =>
    intro hc
    apply h
    show some t = some (.kw .distinct)
    rw [← hc]; rfl

/-- **C13 for whole statements, stripped vector**: `SELECT e₁ FROM tbl WHERE e₂` with both expressions written with minimal
parentheses, and with both fully parenthesised, are read by `Parser::parse` — tables of the running code, executed fuel — as
the SELECT statement whose projection and filter are the trees of the reference grammar -/
theorem select_where_stripped (e₁ e₂ : RExpr) (hwf₁ : RExpr.WF specTables e₁) (hwf₂ : RExpr.WF specTables e₂) (tbl : List Char)
    (hd₁ : NotDistinctFirst (RExpr.minimal e₁)) (hd₂ : NotDistinctFirst (RExpr.full e₁)) :
    parseTokens Generated.precTables ((selectWhere (RExpr.minimal e₁) tbl (RExpr.minimal e₂)).map D) = .tree (selectTree e₁ tbl e₂) ∧
    parseTokens Generated.precTables ((selectWhere (RExpr.full e₁) tbl (RExpr.full e₂)).map D) = .tree (selectTree e₁ tbl e₂) := by
  have key : ∀ (w : List Tok), ∀ (p₁ : List Tok),
      (p₁ = RExpr.minimal e₁ ∨ p₁ = RExpr.full e₁) → (w = RExpr.minimal e₂ ∨ w = RExpr.full e₂) →
      parseTokens Generated.precTables ((selectWhere p₁ tbl w).map D) = .tree (selectTree e₁ tbl e₂) := by
    intro w p₁ hp₁ hw
    apply parseTokens_stripped
    · intro f hf
      obtain ⟨f0, h0⟩ := Props.C13.parse_minimal_parens e₁ hwf₁ (push (.kw .from) (push (.ident tbl) (whereSt w))) rfl (stops_from _)
      apply Props.C13.answer_at_linear_fuel _ _ _ _ ?_ f hf
      rcases hp₁ with rfl | rfl
      · exact ⟨f0, fun g hg => (h0 g hg).1⟩
      · exact ⟨f0, fun g hg => (h0 g hg).2⟩
    · intro f hf
      obtain ⟨f0, h0⟩ := Props.C13.parse_minimal_parens e₂ hwf₂ endSt rfl stops_end
      apply Props.C13.answer_at_linear_fuel _ _ _ _ ?_ f hf
      rcases hw with rfl | rfl
      · exact ⟨f0, fun g hg => (h0 g hg).1⟩
      · exact ⟨f0, fun g hg => (h0 g hg).2⟩
    · apply cur_tok_of_notDistinctFirst
      · rcases hp₁ with rfl | rfl <;> assumption
      · simp [push]
  exact ⟨key _ _ (.inl rfl) (.inl rfl), key _ _ (.inr rfl) (.inr rfl)⟩

theorem map_strip_of_toks (toks : List PTok) (l : List Tok) (h : toks.map (·.tok) = l) : toks.map PTok.strip = l.map D := by
  subst h
  rw [List.map_map]
  rfl

/-- a token vector at arbitrary locations whose stripped version is read as the tree `X` is read as a tree equal to `X` up to
locations -/
theorem tree_of_stripped (T : PrecTables) (toks : List PTok) (l : List Tok) (X : POp) (h : toks.map (·.tok) = l)
    (hX : parseTokens T (l.map D) = .tree X) : ∃ op, parseTokens T toks = .tree op ∧ op.eraseLoc = X := by
  have := parseTokens_strip T toks
  rw [map_strip_of_toks toks l h, hX] at this
  cases hp : parseTokens T toks with
  | tree op => rw [hp] at this; exact ⟨op, rfl, by injection this with h'; exact h'.symm⟩
  | error e => rw [hp] at this; cases this
  | fuel => rw [hp] at this; cases this
  | panic => rw [hp] at this; cases this

/-- **C13 for whole statements.** Let `toks₁` be any token vector — tokens at any locations — that spells
`SELECT e₁ FROM tbl WHERE e₂` with the two expressions written with minimal parentheses under the reference grammar, and
`toks₂` one that spells it with both fully parenthesised. `Parser::parse` (tables of the running code, executed fuel) reads
both as the same SELECT statement up to locations: projection = the tree of `e₁`, filter = the tree of `e₂`. -/
theorem select_where_minimal_parens (e₁ e₂ : RExpr) (hwf₁ : RExpr.WF specTables e₁) (hwf₂ : RExpr.WF specTables e₂)
    (tbl : List Char) (hd₁ : NotDistinctFirst (RExpr.minimal e₁)) (hd₂ : NotDistinctFirst (RExpr.full e₁))
    (toks₁ toks₂ : List PTok)
    (h₁ : toks₁.map (·.tok) = selectWhere (RExpr.minimal e₁) tbl (RExpr.minimal e₂))
    (h₂ : toks₂.map (·.tok) = selectWhere (RExpr.full e₁) tbl (RExpr.full e₂)) :
    ∃ op₁ op₂, parseTokens PrecTables.code toks₁ = .tree op₁ ∧ parseTokens PrecTables.code toks₂ = .tree op₂ ∧
      op₁.eraseLoc = selectTree e₁ tbl e₂ ∧ op₂.eraseLoc = selectTree e₁ tbl e₂ := by
  rw [Props.C13.code_tables_are_the_generated_tables]
  obtain ⟨a, b⟩ := select_where_stripped e₁ e₂ hwf₁ hwf₂ tbl hd₁ hd₂
  obtain ⟨op₁, p₁, q₁⟩ := tree_of_stripped _ toks₁ _ _ h₁ a
  obtain ⟨op₂, p₂, q₂⟩ := tree_of_stripped _ toks₂ _ _ h₂ b
  exact ⟨op₁, op₂, p₁, p₂, q₁, q₂⟩

/-- … hence `parsing::parse` answers the same for both (the same statement, or conversion errors of the same kind): an
expression means the same as its fully parenthesised form, in the statement a user writes -/
theorem select_where_same_statement (rv : List Char → Bool) (e₁ e₂ : RExpr) (hwf₁ : RExpr.WF specTables e₁)
    (hwf₂ : RExpr.WF specTables e₂) (tbl : List Char) (hd₁ : NotDistinctFirst (RExpr.minimal e₁))
    (hd₂ : NotDistinctFirst (RExpr.full e₁)) (toks₁ toks₂ : List PTok)
    (h₁ : toks₁.map (·.tok) = selectWhere (RExpr.minimal e₁) tbl (RExpr.minimal e₂))
    (h₂ : toks₂.map (·.tok) = selectWhere (RExpr.full e₁) tbl (RExpr.full e₂)) :
    (Pipeline.parseToks rv toks₁).stripLoc = (Pipeline.parseToks rv toks₂).stripLoc ∧
    ∀ s, Pipeline.parseToks rv toks₁ = .stmt s ↔ Pipeline.parseToks rv toks₂ = .stmt s := by
  obtain ⟨op₁, op₂, p₁, p₂, q₁, q₂⟩ := select_where_minimal_parens e₁ e₂ hwf₁ hwf₂ tbl hd₁ hd₂ toks₁ toks₂ h₁ h₂
  have he : op₁.eraseLoc = op₂.eraseLoc := q₁.trans q₂.symm
  exact ⟨Pipeline.parseToks_of_sameTree rv p₁ p₂ he,
    fun s => ⟨Pipeline.parseToks_stmt_of_sameTree rv p₁ p₂ he s, Pipeline.parseToks_stmt_of_sameTree rv p₂ p₁ he.symm s⟩⟩

/-- **… for texts**: two query texts whose tokens (as the tokenizer of the running code reads them: any layout, letter case of
keywords, comments) spell `SELECT e₁ FROM tbl WHERE e₂` with minimal and with full parentheses are answered alike by
`parsing::parse`: the same statement, or errors of the same kind -/
theorem select_where_same_text (lo : Lex.Oracles) (rv : List Char → Bool) (e₁ e₂ : RExpr) (hwf₁ : RExpr.WF specTables e₁)
    (hwf₂ : RExpr.WF specTables e₂) (tbl : List Char) (hd₁ : NotDistinctFirst (RExpr.minimal e₁))
    (hd₂ : NotDistinctFirst (RExpr.full e₁)) (text₁ text₂ : List Char) (toks₁ toks₂ : List PTok)
    (ht₁ : Lex.tokenize lo text₁ = .ok toks₁) (ht₂ : Lex.tokenize lo text₂ = .ok toks₂)
    (h₁ : toks₁.map (·.tok) = selectWhere (RExpr.minimal e₁) tbl (RExpr.minimal e₂))
    (h₂ : toks₂.map (·.tok) = selectWhere (RExpr.full e₁) tbl (RExpr.full e₂)) (s : LStmt) :
    Pipeline.parseText lo rv text₁ = .stmt s ↔ Pipeline.parseText lo rv text₂ = .stmt s := by
  unfold Pipeline.parseText
  rw [ht₁, ht₂]
  exact (select_where_same_statement rv e₁ e₂ hwf₁ hwf₂ tbl hd₁ hd₂ toks₁ toks₂ h₁ h₂).2 s

/-- **… and for the output of the whole program** (`Pipeline.runText`: definitions text, query text, format, files ↦ printed
records or error): the statement written with minimal parentheses and the fully parenthesised one give the same answer on
every input, in every format, whatever the outside world answers (`Facts`) -/
theorem select_where_same_output (F : Pipeline.Facts) (defs text₁ text₂ : List Char) (fmt : Print.Format) (single : Bool)
    (files : List (List Nat)) (e₁ e₂ : RExpr) (hwf₁ : RExpr.WF specTables e₁) (hwf₂ : RExpr.WF specTables e₂) (tbl : List Char)
    (hd₁ : NotDistinctFirst (RExpr.minimal e₁)) (hd₂ : NotDistinctFirst (RExpr.full e₁)) (toks₁ toks₂ : List PTok)
    (ht₁ : Lex.tokenize (Pipeline.lexOracles F) text₁ = .ok toks₁) (ht₂ : Lex.tokenize (Pipeline.lexOracles F) text₂ = .ok toks₂)
    (h₁ : toks₁.map (·.tok) = selectWhere (RExpr.minimal e₁) tbl (RExpr.minimal e₂))
    (h₂ : toks₂.map (·.tok) = selectWhere (RExpr.full e₁) tbl (RExpr.full e₂))
    (d q : LStmt)
    (hc₁ : Pipeline.classesCover F defs = true ∧ Pipeline.classesCover F text₁ = true) (hc₂ : Pipeline.classesCover F text₂ = true)
    (hd : Pipeline.parseText (Pipeline.lexOracles F) (Pipeline.regexValidFn F) defs = .stmt d)
    (hp : (Pipeline.createPatterns d).all (fun re => ((Utf8.decode re).bind (Pipeline.regexValidOf F)).isSome) = true)
    (hq : Pipeline.parseText (Pipeline.lexOracles F) (Pipeline.regexValidFn F) text₁ = .stmt q) :
    Pipeline.runText F defs text₁ fmt single files = Pipeline.runText F defs text₂ fmt single files :=
  Props.Pipeline.runText_depends_on_statements F defs defs text₁ text₂ fmt single files d q hc₁ ⟨hc₁.1, hc₂⟩ hd hd hp hq
    ((select_where_same_text _ _ e₁ e₂ hwf₁ hwf₂ tbl hd₁ hd₂ text₁ text₂ toks₁ toks₂ ht₁ ht₂ h₁ h₂ q).1 hq)

/-- **C13 for whole statements, without side condition**: `select_where_minimal_parens` for EVERY pair of well-formed expressions —
the `DISTINCT` hypothesis is discharged (`notDistinctFirst_minimal`, `notDistinctFirst_full`) -/
theorem select_where_minimal_parens_all (e₁ e₂ : RExpr) (hwf₁ : RExpr.WF specTables e₁) (hwf₂ : RExpr.WF specTables e₂)
    (tbl : List Char) (toks₁ toks₂ : List PTok)
    (h₁ : toks₁.map (·.tok) = selectWhere (RExpr.minimal e₁) tbl (RExpr.minimal e₂))
    (h₂ : toks₂.map (·.tok) = selectWhere (RExpr.full e₁) tbl (RExpr.full e₂)) :
    ∃ op₁ op₂, parseTokens PrecTables.code toks₁ = .tree op₁ ∧ parseTokens PrecTables.code toks₂ = .tree op₂ ∧
      op₁.eraseLoc = selectTree e₁ tbl e₂ ∧ op₂.eraseLoc = selectTree e₁ tbl e₂ :=
  select_where_minimal_parens e₁ e₂ hwf₁ hwf₂ tbl (notDistinctFirst_minimal e₁) (notDistinctFirst_full e₁) toks₁ toks₂ h₁ h₂

/-- … and the text-level statement without side condition -/
theorem select_where_same_text_all (lo : Lex.Oracles) (rv : List Char → Bool) (e₁ e₂ : RExpr) (hwf₁ : RExpr.WF specTables e₁)
    (hwf₂ : RExpr.WF specTables e₂) (tbl : List Char) (text₁ text₂ : List Char) (toks₁ toks₂ : List PTok)
    (ht₁ : Lex.tokenize lo text₁ = .ok toks₁) (ht₂ : Lex.tokenize lo text₂ = .ok toks₂)
    (h₁ : toks₁.map (·.tok) = selectWhere (RExpr.minimal e₁) tbl (RExpr.minimal e₂))
    (h₂ : toks₂.map (·.tok) = selectWhere (RExpr.full e₁) tbl (RExpr.full e₂)) (s : LStmt) :
    Pipeline.parseText lo rv text₁ = .stmt s ↔ Pipeline.parseText lo rv text₂ = .stmt s :=
  select_where_same_text lo rv e₁ e₂ hwf₁ hwf₂ tbl (notDistinctFirst_minimal e₁) (notDistinctFirst_full e₁) text₁ text₂ toks₁ toks₂
    ht₁ ht₂ h₁ h₂ s

/-! ### non-vacuity: `SELECT a OR b AND c FROM t WHERE NOT x = y` -/

/-- `a OR b AND c` -/
def exProj : RExpr := .bin .or (.col ['a'] []) (.bin .and (.col ['b'] []) (.col ['c'] []))
/-- `NOT x = y` -/
def exFilter : RExpr := .not (.bin (.sym (.single '=')) (.col ['x'] []) (.col ['y'] []))

theorem exProj_wf : RExpr.WF specTables exProj := by simp [exProj, RExpr.WF]; try decide
theorem exFilter_wf : RExpr.WF specTables exFilter := by simp [exFilter, RExpr.WF]; try decide
example : NotDistinctFirst (RExpr.minimal exProj) ∧ NotDistinctFirst (RExpr.full exProj) := by decide
/-- the minimal printing has no parenthesis at all, the full one has them all -/
example : RExpr.minimal exProj = [.ident ['a'], .kw .or, .ident ['b'], .kw .and, .ident ['c']] := by decide
example : RExpr.full exFilter = [.lp, .kw .not, .lp, .ident ['x'], .op (.single '='), .ident ['y'], .rp, .rp] := by decide
/-- the hypotheses hold and the theorem applies: both vectors are read as the tree with `OR` at the root of the projection and
`NOT` at the root of the filter -/
example : parseTokens Generated.precTables ((selectWhere (RExpr.minimal exProj) ['t'] (RExpr.minimal exFilter)).map D) =
      .tree (selectTree exProj ['t'] exFilter) ∧
    parseTokens Generated.precTables ((selectWhere (RExpr.full exProj) ['t'] (RExpr.full exFilter)).map D) =
      .tree (selectTree exProj ['t'] exFilter) :=
  select_where_stripped exProj exFilter exProj_wf exFilter_wf ['t'] (by decide) (by decide)
/-- … and the kernel evaluating the executed definition agrees: the root of the projection is OR with AND below it on the right,
the root of the filter is NOT -/
example : (match parseTokens PrecTables.code ((selectWhere (RExpr.minimal exProj) ['t'] (RExpr.minimal exFilter)).map D) with
    | .tree (.select q) => (match q.projections, q.filter with
        | [(none, .boolop _ false (.column _ _) (.boolop _ true _ _))], some (.invert _ (.binop _ _ _ _)) => true
        | _, _ => false)
    | _ => false) = true := by decide +kernel

/-- the hypotheses of the text-level theorems on real texts (other layout, letter case and a comment in the second): the tokenizer
reads them as the two spellings -/
example : (match Lex.tokenize Lex.Tables.asciiOnly "SELECT a OR b AND c FROM t WHERE NOT x = y".toList with
    | .ok ts => decide (ts.map (·.tok) = selectWhere (RExpr.minimal exProj) ['t'] (RExpr.minimal exFilter)) | _ => false) = true ∧
    (match Lex.tokenize Lex.Tables.asciiOnly "select (a or (b and c)) -- fully parenthesised\n  from t\n  where (not (x = y))".toList with
    | .ok ts => decide (ts.map (·.tok) = selectWhere (RExpr.full exProj) ['t'] (RExpr.full exFilter)) | _ => false) = true := by
  decide +kernel

/-- through the whole program (`runText`: tokenizer, parser, lowering, extraction, engine, printer): a statement written with
minimal parentheses and its fully parenthesised form print the same records — and not the records of the other grouping -/
example :
    Props.Pipeline.recordsOf (Pipeline.runText Props.Pipeline.exFacts Props.Pipeline.exDefs
      "SELECT v + 2 * 3 FROM t WHERE NOT v = 1 OR v = 1 AND k = 'b'".toList .text false [strBytes "a;1\nb;2\n"]) =
    Props.Pipeline.recordsOf (Pipeline.runText Props.Pipeline.exFacts Props.Pipeline.exDefs
      "SELECT (v + (2 * 3)) FROM t WHERE ((NOT (v = 1)) OR ((v = 1) AND (k = 'b')))".toList .text false [strBytes "a;1\nb;2\n"]) ∧
    Props.Pipeline.recordsOf (Pipeline.runText Props.Pipeline.exFacts Props.Pipeline.exDefs
      "SELECT v + 2 * 3 FROM t WHERE NOT v = 1 OR v = 1 AND k = 'b'".toList .text false [strBytes "a;1\nb;2\n"]) ≠
    Props.Pipeline.recordsOf (Pipeline.runText Props.Pipeline.exFacts Props.Pipeline.exDefs
      "SELECT (v + 2) * 3 FROM t WHERE NOT (v = 1 OR v = 1) AND k = 'b'".toList .text false [strBytes "a;1\nb;2\n"]) ∧
    (Props.Pipeline.recordsOf (Pipeline.runText Props.Pipeline.exFacts Props.Pipeline.exDefs
      "SELECT v + 2 * 3 FROM t WHERE NOT v = 1 OR v = 1 AND k = 'b'".toList .text false [strBytes "a;1\nb;2\n"])).isSome = true := by
  decide +kernel

end Sqlgrep.Props.C13Stmt
