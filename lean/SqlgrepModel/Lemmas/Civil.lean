import SqlgrepModel.Model.Civil
/- Calendar lemmas: the civil date recovered from the day number of a valid date is that date. -/
namespace Sqlgrep.Civil

theorem dby_decomp (a b c d : Int) (hb : 0 ≤ b ∧ b ≤ 3) (hc : 0 ≤ c ∧ c ≤ 24) (hd : 0 ≤ d ∧ d ≤ 3) :
    daysBeforeYear (400 * a + 100 * b + 4 * c + d + 1) = 146097 * a + 36524 * b + 1461 * c + 365 * d := by
  unfold daysBeforeYear
  omega

theorem yod_decomp (a b c d k : Int) (hb : 0 ≤ b ∧ b ≤ 3) (hc : 0 ≤ c ∧ c ≤ 24) (hd : 0 ≤ d ∧ d ≤ 3)
    (hk : 0 ≤ k ∧ k ≤ 365) (hl : k = 365 → d = 3 ∧ (c ≠ 24 ∨ b = 3)) :
    yearOfDays (146097 * a + 36524 * b + 1461 * c + 365 * d + k + 1) = 400 * a + 100 * b + 4 * c + d + 1 := by
  unfold yearOfDays
  have hz : 146097 * a + 36524 * b + 1461 * c + 365 * d + k + 1 - 1 = 146097 * a + (36524 * b + 1461 * c + 365 * d + k) := by omega
  simp only [hz]
  have hq : (146097 * a + (36524 * b + 1461 * c + 365 * d + k)) / 146097 = a := by omega
  have hr : (146097 * a + (36524 * b + 1461 * c + 365 * d + k)) % 146097 = 36524 * b + 1461 * c + 365 * d + k := by omega
  simp only [hq, hr]
  have h100 : (if (36524 * b + 1461 * c + 365 * d + k) / 36524 ≥ 4 then 3 else (36524 * b + 1461 * c + 365 * d + k) / 36524) = b := by
    split <;> omega
  simp only [h100]
  have hr2 : 36524 * b + 1461 * c + 365 * d + k - b * 36524 = 1461 * c + (365 * d + k) := by omega
  simp only [hr2]
  have h4 : (1461 * c + (365 * d + k)) / 1461 = c := by omega
  have hr3 : (1461 * c + (365 * d + k)) % 1461 = 365 * d + k := by omega
  simp only [h4, hr3]
  have h1 : (if (365 * d + k) / 365 ≥ 4 then 3 else (365 * d + k) / 365) = d := by
    split <;> omega
  simp only [h1]

theorem isLeap_iff (y : Int) :
    isLeap y = true ↔ (y - 1) % 4 = 3 ∧ ((y - 1) % 100 / 4 ≠ 24 ∨ (y - 1) % 400 / 100 = 3) := by
  unfold isLeap
  simp only [Bool.and_eq_true, Bool.or_eq_true, beq_iff_eq, bne_iff_ne, ne_eq]
  omega

/-- the year of the `k`-th day (0-based) of year `y` is `y` -/
theorem yearOfDays_dby (y : Int) (k : Int) (hk0 : 0 ≤ k) (hk : k < (yearLen y : Int)) :
    yearOfDays (daysBeforeYear y + k + 1) = y := by
  have hy : y = 400 * ((y - 1) / 400) + 100 * ((y - 1) % 400 / 100) + 4 * ((y - 1) % 100 / 4) + (y - 1) % 4 + 1 := by omega
  have hb : 0 ≤ (y - 1) % 400 / 100 ∧ (y - 1) % 400 / 100 ≤ 3 := by omega
  have hc : 0 ≤ (y - 1) % 100 / 4 ∧ (y - 1) % 100 / 4 ≤ 24 := by omega
  have hd : 0 ≤ (y - 1) % 4 ∧ (y - 1) % 4 ≤ 3 := by omega
  have hl := isLeap_iff y
  have hk' : k ≤ 365 ∧ (k = 365 → (y - 1) % 4 = 3 ∧ ((y - 1) % 100 / 4 ≠ 24 ∨ (y - 1) % 400 / 100 = 3)) := by
    unfold yearLen at hk
    by_cases h : isLeap y = true
    · simp only [h, if_true] at hk
      exact ⟨by omega, fun _ => hl.1 h⟩
    · simp only [h, Bool.false_eq_true, if_false] at hk
      exact ⟨by omega, fun hk' => by omega⟩
  have h1 := dby_decomp ((y - 1) / 400) _ _ _ hb hc hd
  have h2 := yod_decomp ((y - 1) / 400) _ _ _ k hb hc hd ⟨hk0, hk'.1⟩ hk'.2
  rw [← hy] at h1 h2
  rw [h1]
  exact h2


theorem dbm_add_le (y : Int) (m d : Nat) (hm : 1 ≤ m ∧ m ≤ 12) (hd : 1 ≤ d ∧ d ≤ monthLen y m) :
    daysBeforeMonth y m + d ≤ yearLen y := by
  unfold daysBeforeMonth monthLen yearLen at *
  obtain ⟨h1, h2⟩ := hm
  have : m = 1 ∨ m = 2 ∨ m = 3 ∨ m = 4 ∨ m = 5 ∨ m = 6 ∨ m = 7 ∨ m = 8 ∨ m = 9 ∨ m = 10 ∨ m = 11 ∨ m = 12 := by omega
  rcases this with h | h | h | h | h | h | h | h | h | h | h | h <;> subst h <;>
    cases hL : isLeap y <;> simp [hL] at hd ⊢ <;> omega

theorem monthOfDoy_spec (y : Int) (m d : Nat) (hm : 1 ≤ m ∧ m ≤ 12) (hd : 1 ≤ d ∧ d ≤ monthLen y m) :
    monthOfDoy y (daysBeforeMonth y m + d) = m := by
  unfold monthOfDoy daysBeforeMonth monthLen at *
  obtain ⟨h1, h2⟩ := hm
  have : m = 1 ∨ m = 2 ∨ m = 3 ∨ m = 4 ∨ m = 5 ∨ m = 6 ∨ m = 7 ∨ m = 8 ∨ m = 9 ∨ m = 10 ∨ m = 11 ∨ m = 12 := by omega
  rcases this with h | h | h | h | h | h | h | h | h | h | h | h <;> subst h <;>
    cases hL : isLeap y <;> simp only [hL, if_true, Bool.false_eq_true, if_false] at hd ⊢ <;>
    simp (disch := omega) only [if_pos, if_neg]

/-- no date field is altered: the civil date of the day number of a valid date is that date -/
theorem civilOfDays_daysFromCE (y : Int) (m d : Nat) (h : validDate y m d = true) :
    civilOfDays (daysFromCE y m d) = (y, m, d) := by
  unfold validDate at h
  simp only [Bool.and_eq_true, decide_eq_true_eq] at h
  obtain ⟨⟨⟨⟨⟨_, _⟩, hm1⟩, hm2⟩, hd1⟩, hd2⟩ := h
  have hle := dbm_add_le y m d ⟨hm1, hm2⟩ ⟨hd1, hd2⟩
  have hyear : yearOfDays (daysFromCE y m d) = y := by
    have he : daysFromCE y m d = daysBeforeYear y + ((daysBeforeMonth y m : Int) + (d : Int) - 1) + 1 := by
      unfold daysFromCE
      omega
    rw [he]
    exact yearOfDays_dby y ((daysBeforeMonth y m : Int) + (d : Int) - 1) (by omega) (by omega)
  unfold civilOfDays
  simp only [hyear]
  have hdoy : (daysFromCE y m d - daysBeforeYear y).toNat = daysBeforeMonth y m + d := by
    unfold daysFromCE
    omega
  rw [hdoy, monthOfDoy_spec y m d ⟨hm1, hm2⟩ ⟨hd1, hd2⟩]
  simp

end Sqlgrep.Civil
