import SqlgrepModel.Lemmas.ExecT
import SqlgrepModel.Lemmas.SelectEngine
import SqlgrepModel.Lemmas.NoPanicEngine
import SqlgrepModel.Model.Print
/-
Every result table the batch loop hands to `OutputPrinter::print` is ALIGNED: each row has exactly one cell per
column name. This is what makes the indexing `row.columns[projection_index]` / `result_row.columns[0]` of
`OutputPrinter::print` safe on every run (`Print.resultPanics = false`), i.e. the glue fact between the engine
models and the printer model that the end-to-end "never panics" theorem needs.
-/
namespace Sqlgrep
open Sqlgrep.Spec.Select

def RowOut.Aligned (r : RowOut) : Prop := ∀ row ∈ r.rows, row.length = r.columns.length

def OptAligned : Option RowOut → Prop
  | none => True
  | some r => r.Aligned

/-! ### SELECT -/

theorem dedupFrom_mem {α : Type} (same : α → α → Bool) (seen xs : List α) : ∀ x ∈ dedupFrom same seen xs, x ∈ xs := by
  induction xs generalizing seen with
  | nil => intro x hx; simp [dedupFrom] at hx
  | cons y ys ih =>
    intro x hx
    unfold dedupFrom at hx
    split at hx
    · exact List.mem_cons_of_mem _ (ih _ x hx)
    · cases hx with
      | head => exact List.mem_cons_self ..
      | tail _ h => exact List.mem_cons_of_mem _ (ih _ x h)

theorem keepRows_mem (d : Bool) (seen rs : List (List Value)) : ∀ r ∈ keepRows d seen rs, r ∈ rs := by
  unfold keepRows
  cases d
  · intro r hr; simpa using hr
  · intro r hr; exact dedupFrom_mem _ _ _ r (by simpa using hr)

theorem outNames_length (q : SelectStmt) (keys : List String) : (outExprs q keys).length = (outNames q keys).length := by
  unfold outExprs outNames
  split <;> simp

theorem envRow_width {O : Oracles} {q : SelectStmt} {env : Env} {keys : List String} {r : Option (List Value)}
    (h : envRow O q env keys = .ok r) : ∀ v ∈ r.toList, v.length = (outNames q keys).length := by
  unfold envRow at h
  have core : ∀ valid : Bool, (if valid = true then (do
        let vals ← evalList O env (outExprs q keys)
        pure (some vals)) else pure none : Outcome (Option (List Value))) = .ok r →
      ∀ v ∈ r.toList, v.length = (outNames q keys).length := by
    intro valid hv
    cases valid with
    | false =>
      simp only [Bool.false_eq_true, if_false, pure, Outcome.ok.injEq] at hv
      subst hv; intro v hv; cases hv
    | true =>
      simp only [if_true, bind, pure] at hv
      cases he : evalList O env (outExprs q keys) with
      | ok vals =>
        rw [he] at hv
        simp only [Outcome.bind, Outcome.ok.injEq] at hv
        subst hv
        intro v hv
        simp only [Option.toList, List.mem_singleton] at hv
        subst hv
        rw [NoPanicEngine.evalList_length he, outNames_length]
      | error k => rw [he] at hv; cases hv
      | panic s => rw [he] at hv; cases hv
      | oracleMissing w => rw [he] at hv; cases hv
  cases hf : q.filter with
  | none => rw [hf] at h; exact core true h
  | some f =>
    rw [hf] at h
    simp only [bind] at h
    cases hv : eval O env f with
    | ok v =>
      rw [hv] at h
      simp only [Outcome.bind] at h
      cases hc : condHolds v with
      | ok b => rw [hc] at h; exact core b h
      | error k => rw [hc] at h; cases h
      | panic s => rw [hc] at h; cases h
      | oracleMissing w => rw [hc] at h; cases h
    | error k => rw [hv] at h; cases h
    | panic s => rw [hv] at h; cases h
    | oracleMissing w => rw [hv] at h; cases h

theorem envsRows_width {O : Oracles} {q : SelectStmt} {K : List String} :
    ∀ {envs : List (Env × List String)} {rs : List (List Value)}, (∀ p ∈ envs, p.2 = K) → envsRows O q envs = .ok rs →
      ∀ r ∈ rs, r.length = (outNames q K).length := by
  intro envs
  induction envs with
  | nil =>
    intro rs _ h
    simp only [envsRows, Outcome.ok.injEq] at h
    subst h; intro r hr; cases hr
  | cons p rest ih =>
    intro rs hK h
    obtain ⟨env, keys⟩ := p
    have hk : keys = K := hK (env, keys) (List.mem_cons_self ..)
    subst hk
    simp only [envsRows, bind] at h
    cases h1 : envRow O q env keys with
    | ok r =>
      rw [h1] at h
      simp only [Outcome.bind] at h
      cases h2 : envsRows O q rest with
      | ok rs' =>
        rw [h2] at h
        simp only [Outcome.bind, pure, Outcome.ok.injEq] at h
        subst h
        intro x hx
        rcases List.mem_append.1 hx with hx | hx
        · exact envRow_width h1 x hx
        · exact ih (fun p hp => hK p (List.mem_cons_of_mem _ hp)) h2 x hx
      | error k => rw [h2] at h; cases h
      | panic s => rw [h2] at h; cases h
      | oracleMissing w => rw [h2] at h; cases h
    | error k => rw [h1] at h; cases h
    | panic s => rw [h1] at h; cases h
    | oracleMissing w => rw [h1] at h; cases h

theorem lineRows_width {O : Oracles} {qy : Query} {q : SelectStmt} {idx : JoinIndex} {l : Line} {rs : List (List Value)}
    (h : lineRows O qy q idx l = .ok rs) : ∀ r ∈ rs, r.length = (columnsOf qy q).length := by
  unfold lineRows at h
  split at h
  · simp only [Outcome.ok.injEq] at h
    subst h; intro r hr; cases hr
  · simp only [bind] at h
    cases he : lineEnvs qy idx true l with
    | ok envs =>
      rw [he] at h
      exact envsRows_width (lineEnvs_keys qy idx true l envs he) h
    | error k => rw [he] at h; cases h
    | panic s => rw [he] at h; cases h
    | oracleMissing w => rw [he] at h; cases h

theorem tableOf_aligned (names : List String) (rows : List (List Value)) (h : ∀ r ∈ rows, r.length = names.length) :
    OptAligned (tableOf names rows) := by
  unfold tableOf appendRows
  cases rows with
  | nil => exact True.intro
  | cons r rs => exact h

theorem updateLimit_aligned (isSelect : Bool) (limit : Option Nat) (es : EngineState) (r : Option RowOut)
    (h : OptAligned r) : OptAligned (updateLimit isSelect limit es r).2.result := by
  unfold updateLimit
  cases r with
  | none => exact True.intro
  | some out =>
    cases limit with
    | none => exact h
    | some n =>
      cases isSelect with
      | false => exact h
      | true =>
        intro row hrow
        exact h row (List.mem_of_mem_take hrow)

theorem executeLine_select_aligned {O : Oracles} {qy : Query} {q : SelectStmt} (hq : qy.stmt = .select q)
    {idx : JoinIndex} {w : Bool} {es es' : EngineState} {l : Line} {lo : LineOut}
    (h : executeLine O qy idx w es l = .ok (es', lo)) : OptAligned lo.result := by
  rw [executeLine_select O qy q hq] at h
  cases hr : lineRows O qy q idx l with
  | ok rs =>
    rw [hr] at h
    simp only [Outcome.bind, Outcome.ok.injEq] at h
    have : lo = (updateLimit true q.limit { es with seen := seenAfter q.distinct es.seen (keepRows q.distinct es.seen rs) }
        (tableOf (columnsOf qy q) (keepRows q.distinct es.seen rs))).2 := by rw [h]
    rw [this]
    exact updateLimit_aligned _ _ _ _ (tableOf_aligned _ _ (fun r hr' => lineRows_width hr r (keepRows_mem _ _ _ r hr')))
  | error k => rw [hr] at h; cases h
  | panic s => rw [hr] at h; cases h
  | oracleMissing w => rw [hr] at h; cases h

/-! ### aggregates -/

theorem rowOf_length {O : Oracles} {q : AggStmt} {key : List Value} {subs : List (Nat × Value)} :
    ∀ {items : List (Nat × AggItem)} {row : List Value}, rowOf O q key subs items = .ok row → row.length = items.length := by
  intro items
  induction items with
  | nil => intro row h; simp only [rowOf, Outcome.ok.injEq] at h; subst h; rfl
  | cons it rest ih =>
    intro row h
    obtain ⟨i, item⟩ := it
    simp only [rowOf, bind] at h
    cases hc : cellOf O q i item key subs with
    | ok c =>
      rw [hc] at h
      simp only [Outcome.bind] at h
      cases hr : rowOf O q key subs rest with
      | ok cs =>
        rw [hr] at h
        simp only [Outcome.bind, pure, Outcome.ok.injEq] at h
        subst h
        simp [ih hr]
      | error k => rw [hr] at h; cases h
      | panic s => rw [hr] at h; cases h
      | oracleMissing w => rw [hr] at h; cases h
    | error k => rw [hc] at h; cases h
    | panic s => rw [hc] at h; cases h
    | oracleMissing w => rw [hc] at h; cases h

theorem enumFrom_length {α : Type} (l : List α) (n : Nat) : (enumFrom n l).length = l.length := by
  induction l generalizing n with
  | nil => rfl
  | cons x xs ih => simp [enumFrom, ih]

/-- HAVING on one group (named so that lemmas can speak about it) -/
def havingKeep (O : Oracles) (q : AggStmt) (key : List Value) (subs : List (Nat × Value)) : Outcome Bool :=
  match q.having with
  | some h => acceptGroup O q h key subs
  | none => .ok true

/-- what `resultRows` does with a group's row once HAVING has answered -/
def keepTail (O : Oracles) (q : AggStmt) (rest : List (List Value × List (Nat × Value))) (seen : List (List Value))
    (row : List Value) (keep : Bool) : Outcome (List (List Value)) :=
  if !keep then resultRows O q rest seen
  else if q.distinct then
    if (distinctAdd seen row).2 then (resultRows O q rest (distinctAdd seen row).1).bind (fun more => .ok (row :: more))
    else resultRows O q rest (distinctAdd seen row).1
  else (resultRows O q rest seen).bind (fun more => .ok (row :: more))

theorem resultRows_cons_keepTail (O : Oracles) (q : AggStmt) (key : List Value) (subs : List (Nat × Value))
    (rest : List (List Value × List (Nat × Value))) (seen : List (List Value)) :
    resultRows O q ((key, subs) :: rest) seen =
      (rowOf O q key subs (enumFrom 0 q.items)).bind (fun row =>
        (havingKeep O q key subs).bind (fun keep => keepTail O q rest seen row keep)) := rfl

theorem bind_cons_width {n : Nat} {x : Outcome (List (List Value))} {row : List Value} {rows : List (List Value)}
    (hrow : row.length = n) (hx : ∀ more, x = .ok more → ∀ r ∈ more, r.length = n)
    (h : x.bind (fun more => .ok (row :: more)) = .ok rows) : ∀ r ∈ rows, r.length = n := by
  cases x with
  | ok more =>
    simp only [Outcome.bind, Outcome.ok.injEq] at h
    subst h
    intro r hr
    cases hr with
    | head => exact hrow
    | tail _ hr => exact hx more rfl r hr
  | error k => cases h
  | panic s => cases h
  | oracleMissing w => cases h

theorem resultRows_width {O : Oracles} {q : AggStmt} :
    ∀ {groups : List (List Value × List (Nat × Value))} {seen rows : List (List Value)},
      resultRows O q groups seen = .ok rows → ∀ r ∈ rows, r.length = q.items.length := by
  intro groups
  induction groups with
  | nil => intro seen rows h; simp only [resultRows, Outcome.ok.injEq] at h; subst h; intro r hr; cases hr
  | cons g rest ih =>
    intro seen rows h
    obtain ⟨key, subs⟩ := g
    rw [resultRows_cons_keepTail] at h
    cases hrow : rowOf O q key subs (enumFrom 0 q.items) with
    | ok row =>
      have hlen : row.length = q.items.length := by rw [rowOf_length hrow, enumFrom_length]
      rw [hrow] at h
      simp only [Outcome.bind] at h
      cases hk : havingKeep O q key subs with
      | ok keep =>
        rw [hk] at h
        simp only at h
        unfold keepTail at h
        cases keep with
        | false => exact ih h
        | true =>
          simp only [Bool.not_true, Bool.false_eq_true, if_false] at h
          by_cases hd : q.distinct = true
          · simp only [hd, if_true] at h
            by_cases hf : (distinctAdd seen row).2 = true
            · simp only [hf, if_true] at h
              exact bind_cons_width hlen (fun more hm => ih hm) h
            · simp only [hf, Bool.false_eq_true, if_false] at h
              exact ih h
          · simp only [hd, Bool.false_eq_true, if_false] at h
            exact bind_cons_width hlen (fun more hm => ih hm) h
      | error k => rw [hk] at h; cases h
      | panic s => rw [hk] at h; cases h
      | oracleMissing w => rw [hk] at h; cases h
    | error k => rw [hrow] at h; cases h
    | panic s => rw [hrow] at h; cases h
    | oracleMissing w => rw [hrow] at h; cases h

theorem aggResult_aligned {O : Oracles} {q : AggStmt} {st st' : AggState} {out : RowOut}
    (h : aggResult O q st = .ok (st', out)) : out.Aligned := by
  unfold aggResult at h
  simp only [bind] at h
  generalize aggColumns O q (publishPercentiles st).vals (enumFrom 0 q.items) = X at h
  cases X with
  | ok u =>
    simp only [Outcome.bind] at h
    cases h2 : resultRows O q (publishPercentiles st).vals [] with
    | ok rows =>
      rw [h2] at h
      simp only [pure, Outcome.ok.injEq, Prod.mk.injEq] at h
      obtain ⟨_, rfl⟩ := h
      intro r hr
      simp only [List.length_map]
      exact resultRows_width h2 r hr
    | error k => rw [h2] at h; cases h
    | panic s => rw [h2] at h; cases h
    | oracleMissing w => rw [h2] at h; cases h
  | error k => cases h
  | panic s => cases h
  | oracleMissing w => cases h

theorem finalResult_aligned {O : Oracles} {q : AggStmt} {es : EngineState} {r : RowOut}
    (h : finalResult O q es = .ok r) : r.Aligned := by
  unfold finalResult at h
  simp only [bind] at h
  cases h1 : aggResult O q es.agg with
  | ok p =>
    obtain ⟨st', out⟩ := p
    rw [h1] at h
    simp only [Outcome.bind, pure, Outcome.ok.injEq] at h
    have ha := aggResult_aligned h1
    subst h
    cases q.limit with
    | none => exact ha
    | some n => intro row hrow; exact ha row (List.mem_of_mem_take hrow)
  | error k => rw [h1] at h; cases h
  | panic s => rw [h1] at h; cases h
  | oracleMissing w => rw [h1] at h; cases h

/-- an aggregate statement gives no per-line result in batch mode (update only) -/
theorem executeLine_aggregate_noresult {O : Oracles} {qy : Query} {q : AggStmt} (hq : qy.stmt = .aggregate q)
    {idx : JoinIndex} {es es' : EngineState} {l : Line} {lo : LineOut}
    (h : executeLine O qy idx false es l = .ok (es', lo)) : lo.result = none := by
  unfold executeLine at h
  simp only [hq] at h
  split at h
  · simp only [Bool.false_eq_true, if_false, Outcome.ok.injEq, Prod.mk.injEq] at h
    rw [← h.2]
  · simp only [bind, Bool.false_eq_true, if_false] at h
    cases he : lineEnvs qy idx false l with
    | ok envs =>
      rw [he] at h
      simp only [Outcome.bind] at h
      cases ha : aggEnvs O q envs es.agg false with
      | ok p =>
        rw [ha] at h
        simp only [Outcome.bind, pure, Outcome.ok.injEq, Prod.mk.injEq] at h
        rw [← h.2]
      | error k => rw [ha] at h; cases h
      | panic s => rw [ha] at h; cases h
      | oracleMissing w => rw [ha] at h; cases h
    | error k => rw [he] at h; cases h
    | panic s => rw [he] at h; cases h
    | oracleMissing w => rw [he] at h; cases h

/-! ### the traced loop -/

def CallsAligned (cs : List PrintCall) : Prop := ∀ c ∈ cs, c.result.Aligned

def isAggStmt (qy : Query) : Bool :=
  match qy.stmt with
  | .aggregate _ => true
  | _ => false

/-- the per-line result of the batch loop (`withResult = !isAgg`) is aligned -/
theorem executeLine_batch_aligned {O : Oracles} {qy : Query} {idx : JoinIndex} {es es' : EngineState} {l : Line} {lo : LineOut}
    (h : executeLine O qy idx (!isAggStmt qy) es l = .ok (es', lo)) : OptAligned lo.result := by
  cases hq : qy.stmt with
  | select q => exact executeLine_select_aligned hq h
  | aggregate q =>
    have hw : (!isAggStmt qy) = false := by simp [isAggStmt, hq]
    rw [hw] at h
    rw [executeLine_aggregate_noresult hq h]
    exact True.intro

theorem callsOf_aligned (r : Option RowOut) (h : OptAligned r) : CallsAligned (callsOf r) := by
  cases r with
  | none => intro c hc; cases hc
  | some r =>
    intro c hc
    simp only [callsOf, List.mem_singleton] at hc
    subst hc; exact h

theorem CallsAligned.append {a b : List PrintCall} (ha : CallsAligned a) (hb : CallsAligned b) : CallsAligned (a ++ b) := by
  intro c hc
  rcases List.mem_append.1 hc with h | h
  · exact ha c h
  · exact hb c h

theorem runFileT_aligned (O : Oracles) (qy : Query) (idx : JoinIndex) (fls : List FileLine) (s : TraceState)
    (h : CallsAligned s.calls) : CallsAligned (runFileT O qy idx (!isAggStmt qy) fls s).calls := by
  induction fls generalizing s with
  | nil => simpa [runFileT] using h
  | cons fl rest ih =>
    rw [runFileT]
    by_cases hr : fl.readable = true
    · simp only [hr, Bool.not_true, Bool.false_eq_true, if_false]
      cases hx : executeLine O qy idx (!isAggStmt qy) s.ls.es fl.line with
      | ok p =>
        obtain ⟨es, lo⟩ := p
        simp only
        have hc : CallsAligned (s.calls ++ callsOf lo.result) :=
          h.append (callsOf_aligned _ (executeLine_batch_aligned hx))
        by_cases hl : lo.reachedLimit = true
        · simp only [hl, if_true]; exact hc
        · simp only [hl, Bool.false_eq_true, if_false]; exact ih _ hc
      | error k => exact h
      | panic site => exact h
      | oracleMissing what => exact h
    · have : fl.readable = false := by simpa using hr
      simp only [this, Bool.not_false, if_true]
      exact h

theorem runFilesT_aligned (O : Oracles) (qy : Query) (idx : JoinIndex) (files : List (List FileLine)) (s : TraceState)
    (h : CallsAligned s.calls) : CallsAligned (runFilesT O qy idx (!isAggStmt qy) files s).calls := by
  induction files generalizing s with
  | nil => simpa [runFilesT] using h
  | cons f rest ih =>
    rw [runFilesT]
    split
    · exact h
    · have h1 := runFileT_aligned O qy idx f s h
      by_cases h2 : (runFileT O qy idx (!isAggStmt qy) f s).ls.stop = true
      · simp only [h2, if_true]; exact h1
      · simp only [h2, Bool.false_eq_true, if_false]; exact ih _ h1

/-- **every print call of a batch run is aligned** -/
theorem runWithIndexT_aligned (O : Oracles) (qy : Query) (idxO : Outcome JoinIndex) (files : List (List FileLine)) :
    CallsAligned (runWithIndexT O qy idxO files).calls := by
  unfold runWithIndexT
  cases idxO with
  | ok idx =>
    have hloop := runFilesT_aligned O qy idx files {} (by intro c hc; cases hc)
    cases hq : qy.stmt with
    | select q =>
      have hw : (!isAggStmt qy) = (!false) := by simp [isAggStmt, hq]
      rw [hw] at hloop
      simp only
      split <;> exact hloop
    | aggregate q =>
      have hw : (!isAggStmt qy) = (!true) := by simp [isAggStmt, hq]
      rw [hw] at hloop
      simp only
      split
      · exact hloop
      · cases hf : finalResult O q (runFilesT O qy idx (!true) files {}).ls.es with
        | ok r =>
          simp only
          refine hloop.append ?_
          intro c hc
          simp only [List.mem_singleton] at hc
          subst hc
          exact finalResult_aligned hf
        | error k => exact hloop
        | panic s => exact hloop
        | oracleMissing w => exact hloop
  | error k => intro c hc; cases hc
  | panic s => intro c hc; cases hc
  | oracleMissing w => intro c hc; cases hc

/-! ### an aligned table never makes `OutputPrinter::print` index out of range -/

theorem aligned_no_print_panic (fmt : Print.Format) (r : RowOut) (h : r.Aligned) :
    Print.resultPanics fmt { columns := r.columns.map strBytes, rows := r.rows } = false := by
  unfold Print.resultPanics
  simp only [List.any_eq_false]
  intro row hrow
  have hl := h row hrow
  unfold Print.rowPanics
  simp only [List.length_map, hl, Nat.lt_irrefl, decide_false, Bool.and_false, Bool.or_false]
  cases hc : r.columns with
  | nil => simp [hc] at hl ⊢
  | cons c cs => simp

end Sqlgrep
