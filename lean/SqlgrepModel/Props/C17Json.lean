import SqlgrepModel.Spec.JsonGrammar
import SqlgrepModel.Lemmas.PrintGrammar
import SqlgrepModel.Lemmas.PrintReal
import SqlgrepModel.Lemmas.JsonParser
import SqlgrepModel.Lemmas.Utf8Valid
import SqlgrepModel.Props.C17
/-
C17, the JSON clause — "In JSON format each record is a valid JSON object whose keys are the (distinct)
output column names in order and whose values recover the row exactly ..." — against the grammar of
RFC 8259 itself.

`Spec/JsonGrammar.lean` transcribes the RFC's ABNF as inductive predicates over character lists
(`JsonGrammar.Val`, `.Obj`, `.Arr`, `.Str`, `.Num`, `.Ws`, ...; written from the RFC, importing nothing of
the model) together with the denotation of a text (`ValD`, `ObjD`, `StrD`, `NumD`: the same rules, each
carrying the JSON value it stands for — strings by the escape table of §7, numbers as `mant × 10^exp`).
The grammar is unambiguous: a text has at most one denotation (`json_denotation_unique`, proved through an
executable parser that decides the denotation — sound and complete —, `Lemmas/JsonParser.lean`), so "the denotation of the
printed line" is a function of the line and any reader that implements the RFC reads exactly it.
"Valid JSON object" in this file means `JsonGrammar.Obj`, and "values recover the row" means the
denotation `JsonGrammar.ObjD`; neither `readObject` nor `jsonUnescape` (the readers of
`Lemmas/PrintJson.lean` / `PrintString.lean` used by `Props/C17.lean`) occurs in any statement below.

Bytes and characters: the model prints UTF-8 bytes, the grammar speaks about Unicode characters, and
RFC 8259 §8.1 says how the two meet: a JSON text is exchanged as the UTF-8 encoding of its characters.
So "the printed line `b` is a JSON object" is stated as `∃ line, Utf8.encode line = b ∧ Obj line`.
TEXT payloads and column names are byte strings in the model; they are Rust `String`s in the code, hence
valid UTF-8, which is the hypothesis `IsUtf8` (decided by `Reader.validUtf8`, see `utf8_check_decides`).

What the theorems are about: `Print.renderRecord o .json` — the record line inside `Print.printAll`, the
function the `print` driver executes — for ANY row: INT, finite REAL (the shipped ryu text, assumed to be
a JSON number: `RealTextsOk`, a decidable check per text that the `print` driver evaluates on every case) and non-finite REAL (→ `null`), TEXT with any
characters, BOOLEAN, NULL, arrays of any depth, timestamps, intervals; and any column names.
-/
namespace Sqlgrep.Props.C17Json
open Sqlgrep Sqlgrep.Print Sqlgrep.Utf8 Sqlgrep.JsonGrammar

/-! ## the denotation refines the grammar; numbers are decided exactly -/

/-- A text that has a denotation is a text of the plain RFC grammar, for every nonterminal: the
denotation relations of `Spec/JsonGrammar.lean` Part 2 never accept more than Part 1. -/
theorem denotation_refines_grammar :
    (∀ cs x, ValD cs x → Val cs) ∧ (∀ cs ms, ObjD cs ms → Obj cs) ∧ (∀ cs xs, ArrD cs xs → Arr cs)
    ∧ (∀ cs s, StrD cs s → Str cs) ∧ (∀ cs d, NumD cs d → Num cs) :=
  ⟨fun _ _ h => h.val, fun _ _ h => h.obj, fun _ _ h => h.arr, fun _ _ h => h.str, fun _ _ h => h.num⟩

/-- an `object` is a `value`, and a `value` without surrounding whitespace is a `JSON-text` (§2) -/
theorem object_is_json_text (cs : List Char) (h : Obj cs) : JsonText cs :=
  ⟨[], cs, [], ws_nil, .object h, ws_nil, by simp⟩

/-- **The grammar is unambiguous, and decidable.** A text denotes at most one JSON value, an object text
has exactly one member list, a string text one character sequence. `parseJson` (an executable parser,
`Lemmas/JsonParser.lean`) DECIDES the grammar's denotation: it returns `x` exactly when the text is a
`JSON-text = ws value ws` whose value denotes `x`. So the inductive grammar can be evaluated on concrete
texts (`decide`), acceptance and rejection alike, and any conforming reader reads the same value. -/
theorem json_denotation_unique :
    (∀ cs x x', ValD cs x → ValD cs x' → x = x')
    ∧ (∀ cs ms ms', ObjD cs ms → ObjD cs ms' → ms = ms')
    ∧ (∀ cs s s', StrD cs s → StrD cs s' → s = s')
    ∧ (∀ cs x, parseJson cs = some x ↔ JsonTextD cs x) :=
  ⟨fun _ _ _ h h' => h.unique h', fun _ _ _ h h' => h.unique h', fun _ _ _ h h' => h.unique h', parseJson_iff⟩

/-- `numValue` / `isJsonNumber` (the executable check assumed of the REAL texts) is exact for §6:
it computes `d` iff the grammar says the text is a `number` denoting `d`. In particular a `number` has
one denotation, and `isJsonNumber cs = true` implies `Num cs`. -/
theorem isJsonNumber_exact (cs : List Char) :
    (∀ d, numValue cs = some d ↔ NumD cs d) ∧ (isJsonNumber cs = true → Num cs) :=
  ⟨fun _ => ⟨numValue_sound, numValue_complete⟩, isJsonNumber_sound⟩

/-- `intText_is_json_number`: the decimal rendering of ANY integer (all of i64 and beyond) is a `number`
of RFC 8259 §6 — outright, no oracle —, the number it denotes is that integer (`i × 10^0`), its bytes are
ASCII, and it passes the check `isJsonNumberBytes` that is assumed of the REAL texts. -/
theorem intText_is_json_number (i : Int) :
    Num (chars (renderInt i)) ∧ NumD (chars (renderInt i)) ⟨i, 0⟩
    ∧ encode (chars (renderInt i)) = renderInt i ∧ isJsonNumberBytes (renderInt i) = true :=
  ⟨(renderInt_denotes i).num, renderInt_denotes i, encode_chars (renderInt_ascii i), isJsonNumberBytes_renderInt i⟩

/-! ## strings: every text, by the RFC's escape table -/

/-- String-level faithfulness, for EVERY sequence of Unicode characters `cs` (quotes, backslashes, all
control characters, characters outside the BMP, ...): the token serde_json's writer emits for the text
(`renderString` on its UTF-8 bytes) is the UTF-8 encoding of a `string` of RFC 8259 §7, and that string
denotes exactly `cs` — by the grammar's escape table (`JsonGrammar.escapeTable`, `\uXXXX`), not by
`jsonUnescape`. -/
theorem printed_string_is_json_string (cs : List Char) :
    ∃ t, encode t = renderString (encode cs) ∧ Str t ∧ StrD t cs := by
  obtain ⟨t, h1, h2⟩ := renderString_denotes cs
  exact ⟨t, h1, h2.str, h2⟩

/-- the same for a TEXT cell / a column name given as bytes: valid UTF-8 is all that is needed -/
theorem printed_text_is_json_string (s : Bytes) (h : IsUtf8 s) :
    ∃ t cs, encode t = renderString s ∧ Str t ∧ StrD t cs ∧ encode cs = s := by
  obtain ⟨cs, rfl⟩ := h
  obtain ⟨t, h1, h2, h3⟩ := printed_string_is_json_string cs
  exact ⟨t, cs, h1, h2, h3, rfl⟩

/-- `IsUtf8` is what `std::str::from_utf8` checks (`Reader.validUtf8`, the model of that check): every
byte string it accepts is the encoding of a character sequence. Every Rust `String` passes it. -/
theorem utf8_check_decides (s : Bytes) (h : Reader.validUtf8 s = true) : IsUtf8 s := isUtf8_of_valid h

/-! ## every printed JSON record is a JSON object of RFC 8259 -/

/-- **Every result row, any column names.** The line the JSON printer emits for a row is the UTF-8
encoding of a text derived from `object` (RFC 8259 §4) — for rows of any values (INT, finite and
non-finite REAL, TEXT with any characters, BOOLEAN, NULL, arrays at any depth, timestamps, intervals),
for any column names (repeated names and a column list shorter or longer than the row included: neither
`Nodup` nor equal lengths is assumed). Hypotheses: column names and TEXT payloads are valid
UTF-8 (Rust `String`s), and the text shipped for each finite REAL of the row is a JSON number (`RealTextsOk`, decidable;
`RealTextOk o` — the same for all REALs — implies it). -/
theorem printed_record_is_json (o : RealOracle) (cols : List Bytes) (row : List Value)
    (hreal : ∀ v ∈ row, RealTextsOk o v) (hcols : ∀ c ∈ cols, IsUtf8 c) (htexts : ∀ v ∈ row, ∀ s ∈ allTexts v, IsUtf8 s) :
    ∃ line : List Char, encode line = renderRecord o .json cols row ∧ Obj line ∧ JsonText line := by
  obtain ⟨line, ms, h1, h2⟩ := record_is_object o cols row hreal hcols htexts
  exact ⟨line, h1, h2.obj, object_is_json_text line h2.obj⟩

/-- **The whole output of a JSON printer** (`printAll`: any sequence of `print` calls, any state): every
line handed to `println` is either the blank separator line or the UTF-8 encoding of a JSON object. -/
theorem printed_json_lines_are_json (o : RealOracle) (first : Bool) (seq : List (ResultRow × Bool))
    (hreal : ∀ cr ∈ allRows seq, ∀ v ∈ cr.2, RealTextsOk o v)
    (hcols : ∀ cr ∈ allRows seq, ∀ c ∈ cr.1, IsUtf8 c)
    (htexts : ∀ cr ∈ allRows seq, ∀ v ∈ cr.2, ∀ s ∈ allTexts v, IsUtf8 s) :
    ∀ l ∈ printAll o .json first seq,
      l = .separator ∨ ∃ line : List Char, encode line = l.bytes ∧ Obj line := by
  intro l hl
  cases mem_printAll_json o l first seq hl with
  | inl h => exact Or.inl h
  | inr h =>
    obtain ⟨cr, hcr, rfl⟩ := h
    obtain ⟨line, h1, h2, _⟩ := printed_record_is_json o cr.1 cr.2 (hreal cr hcr) (hcols cr hcr) (htexts cr hcr)
    exact Or.inr ⟨line, h1, h2⟩

/-! ## ... whose members are the column names in order with the row's values -/

/-- **Keys in order, values recover the row — by the grammar's denotation.** Under distinct column names
(one cell per column), the printed line is a JSON object by the RFC grammar AND the grammar's denotation
of that text has as members, in document order, exactly the column names (`names`, whose UTF-8 bytes are
`cols`) paired with JSON values `xs` that are the cells' values (`CellDoc`): NULL → `null`, BOOLEAN →
`true`/`false`, INT `i` → the number `i × 10^0`, finite REAL → the number denoted by the shipped ryu text,
non-finite REAL → `null`, TEXT → the string of exactly its characters, arrays → arrays element by element,
TIMESTAMP / INTERVAL → the string of their text form. This is `json_record_recovers_row` of `Props/C17.lean`
with the RFC grammar in the place of `readObject` and the RFC string / number denotation in the place of
`jsonUnescape` / `parseInt`, and with REAL cells included. The member list is THE denotation of the line
(any other derivation denotes the same members), and it is what the parser `parseJson` returns. -/
theorem json_record_denotes_row (o : RealOracle) (cols : List Bytes) (row : List Value)
    (hreal : ∀ v ∈ row, RealTextsOk o v) (hd : cols.Nodup) (hl : cols.length = row.length)
    (hcols : ∀ c ∈ cols, IsUtf8 c) (htexts : ∀ v ∈ row, ∀ s ∈ allTexts v, IsUtf8 s) :
    ∃ (line : List Char) (names : List (List Char)) (xs : List JVal),
      encode line = renderRecord o .json cols row
      ∧ Obj line ∧ ObjD line (names.zip xs)
      ∧ names.map encode = cols ∧ names.length = xs.length
      ∧ AllRel (CellDoc o) row xs
      ∧ (∀ ms', ObjD line ms' → ms' = names.zip xs) ∧ parseJson line = some (.obj (names.zip xs)) := by
  obtain ⟨line, names, xs, h1, h2, h3, h4⟩ := record_denotes_row o cols row hreal hd hl hcols htexts
  refine ⟨line, names, xs, h1, h2.obj, h2, h3, ?_, h4, fun ms' h' => h'.unique h2, parseJson_complete (.object h2)⟩
  rw [← h4.length_eq, ← hl, ← h3, List.length_map]

/-- ... and for a REAL-free row the denoted members determine the row: reading every member value back
(`cellOfJVal`: number with exponent 0 → INT, string → TEXT of its UTF-8 bytes, array → array) gives the
cells, in order, up to `jsonMeaning` (timestamps / intervals as their text form, arrays without their
static element type) — the conclusion of `json_record_recovers_row`, through the grammar. -/
theorem json_record_recovers_row_rfc (o : RealOracle) (cols : List Bytes)
    (row : List Value) (hd : cols.Nodup) (hl : cols.length = row.length)
    (hcols : ∀ c ∈ cols, IsUtf8 c) (htexts : ∀ v ∈ row, ∀ s ∈ allTexts v, IsUtf8 s)
    (hnr : ∀ v ∈ row, noReal v = true) :
    ∃ (line : List Char) (ms : List (List Char × JVal)),
      encode line = renderRecord o .json cols row ∧ Obj line ∧ ObjD line ms
      ∧ ms.map (fun m => encode m.1) = cols
      ∧ ms.map (fun m => cellOfJVal m.2) = row.map (fun v => some (jsonMeaning v)) := by
  obtain ⟨line, names, xs, h1, h2, h3, h4, h5, h6, _, _⟩ := json_record_denotes_row o cols row
    (fun v hv b hb => by rw [noReal_allReals (hnr v hv)] at hb; cases hb) hd hl hcols htexts
  refine ⟨line, names.zip xs, h1, h2, h3, ?_, ?_⟩
  · have : (names.zip xs).map (fun m => encode m.1) = (names.zip xs).unzip.1.map encode := by
      simp [List.unzip_eq_map, List.map_map]
    rw [this, List.unzip_zip h5, h4]
  · have : (names.zip xs).map (fun m => cellOfJVal m.2) = (names.zip xs).unzip.2.map cellOfJVal := by
      simp [List.unzip_eq_map, List.map_map]
    rw [this, List.unzip_zip h5]
    exact map_cellOfJVal o h6 hnr

/-- REAL cells: the JSON value of a finite REAL is the number that the shipped text denotes by §6 (what
ties that number to the f64 is ryu's shortest-round-trip guarantee — outside Lean, checked on the
implementation by the harness); a non-finite REAL is `null`. -/
theorem json_real_cell (o : RealOracle) (b : Nat) (ho : RealTextsOk o (.real b)) :
    ∃ x, CellDoc o (.real b) x ∧ Renders (jsonValue o (.real b)) x
      ∧ (isFinite b = true → ∃ d, x = .num d ∧ NumD (chars (o.json b)) d)
      ∧ (isFinite b = false → x = .null) := by
  obtain ⟨x, h1, h2⟩ := cell_renders o (.real b) ho (by intro s hs; simp [allTexts] at hs)
  refine ⟨x, h1, h2, ?_, ?_⟩
  · intro hf
    cases h1 with
    | real _ hd => exact ⟨_, rfl, numValue_sound hd⟩
    | realNonFinite hn => rw [hf] at hn; cases hn
  · intro hf
    cases h1 with
    | real hn _ => rw [hf] at hn; cases hn
    | realNonFinite _ => rfl

/-! ## finite REAL "without loss": the printed number reads back as the same REAL (L3) -/

/-- **json_real_reads_back.** A finite REAL cell, printed in JSON format and parsed again by the RFC 8259 grammar with
nearest rounding, gives the same REAL. Hypotheses, both decidable and both evaluated on every case by the `print` driver
(a case violating one answers `hypothesis-violated`; `Drivers/FactCheck.lean` answers `fact-mismatch real-json-roundtrip` /
`real-roundtrip`): the shipped text is an ASCII JSON number (`RealTextsOk`) and reads back (`RealReadsBack`:
`JsonDoc.readReal (chars (o.json b)) = some b`). Conclusion: the printed cell is the UTF-8 of a `number` text `cs` denoting
the decimal `d` (the `d` of `CellDoc` / `json_record_denotes_row`), and
* `decToF64` of `d` with the sign of the text is `b` — so `-0.0`, printed `-0.0`, comes back as `-0.0` although its
  denotation `⟨0, -1⟩` carries no sign (L1 on the output side);
* for `b` other than `±0` that is `nearestReal d = b`: the REAL is recovered from the DENOTATION alone;
* `f64::from_str` of the text (`DecFloat.parseF64`) is `b` — when the text's exponent digits' value is below 65 536
  (`FloatGrammar.ExpSmall`, decidable on the text; beyond it Rust stops reading the exponent: observation N3 of DESIGN.md —
  ryu never prints more than three exponent digits);
* sqlgrep's own JSON reader (`JsonDoc.serdeNumber`, the one `docOfLine` executes) reads a number whose REAL is `b`: feeding
  the printed record back into a REAL JSON-path column returns the cell. -/
theorem json_real_reads_back (o : RealOracle) (b : Nat) (hf : isFinite b = true)
    (ho : RealTextsOk o (.real b)) (hr : RealReadsBack o (.real b)) :
    ∃ (cs : List Char) (d : Dec),
      encode cs = (jsonValue o (.real b)).render ∧ NumD cs d ∧ CellDoc o (.real b) (.num d)
      ∧ JsonDoc.realOfDec (JsonDoc.lexNeg cs) d = b
      ∧ (b % 2 ^ 63 ≠ 0 → JsonDoc.nearestReal d = b)
      ∧ (FloatGrammar.ExpSmall cs → DecFloat.parseF64 cs = some b)
      ∧ ∃ n, JsonDoc.serdeNumber cs = some n ∧ (Sqlgrep.Json.num n).asF64 = some b := by
  have hmem : b ∈ allReals (.real b) := by simp [allReals]
  obtain ⟨ha, _⟩ := isJsonNumberBytes_sound (ho b hmem hf)
  obtain ⟨d, hd, hD, h1, h2, h3, h4⟩ := readsBack_spec o b hf (hr b hmem hf)
  refine ⟨chars (o.json b), d, ?_, hD, .real hf hd, h1, h2, h3, h4⟩
  simp only [jsonValue, hf, if_true]
  exact encode_chars ha

/-- … for every REAL of a row (array elements at any depth included): with the two checked hypotheses on each cell, every
finite REAL `b` of the row is printed as a `number` whose denotation, rounded to the nearest REAL with the sign of the
text, is `b`. Together with `json_record_denotes_row` (whose `CellDoc` pins the member's value to that denotation):
"finite REAL as numbers without loss". -/
theorem json_record_reals_read_back (o : RealOracle) (row : List Value)
    (hr : ∀ v ∈ row, RealReadsBack o v) :
    ∀ v ∈ row, ∀ b ∈ allReals v, isFinite b = true →
      ∃ d, numValue (chars (o.json b)) = some d ∧ NumD (chars (o.json b)) d
        ∧ JsonDoc.realOfDec (JsonDoc.lexNeg (chars (o.json b))) d = b
        ∧ (b % 2 ^ 63 ≠ 0 → JsonDoc.nearestReal d = b)
        ∧ (FloatGrammar.ExpSmall (chars (o.json b)) → DecFloat.parseF64 (chars (o.json b)) = some b) := by
  intro v hv b hb hf
  obtain ⟨d, hd, hD, h1, h2, h3, _⟩ := readsBack_spec o b hf (hr v hv b hb hf)
  exact ⟨d, hd, hD, h1, h2, h3⟩

/-! ## non-vacuity -/

/-- `a"b\c⏎␁😀` — a quote, a backslash, a line feed, the control character U+0001, a non-BMP character -/
def awkward : List Char := ['a', '"', 'b', '\\', 'c', '\n', Char.ofNat 1, '😀']

-- its UTF-8 bytes (the TEXT payload the model sees), and what the printer writes for it
example : encode awkward = [97, 34, 98, 92, 99, 10, 1, 240, 159, 152, 128] := by decide

example : renderString (encode awkward)
    = encode ['"', 'a', '\\', '"', 'b', '\\', '\\', 'c', '\\', 'n', '\\', 'u', '0', '0', '0', '1', '😀', '"'] := by
  decide

-- that token is a `string` of the grammar denoting `awkward` (instance of `printed_string_is_json_string`)
example : StrD ['"', 'a', '\\', '"', 'b', '\\', '\\', 'c', '\\', 'n', '\\', 'u', '0', '0', '0', '1', '😀', '"'] awkward :=
  .mk (escape_denotes awkward)

-- the grammar also reads what the printer never writes: `\/`, upper-case hex, a surrogate pair (U+1F600)
example : StrCharD ['\\', '/'] '/' := .escape (by decide)
example : StrCharD ['\\', 'u', '0', '0', 'E', '9'] 'é' := .unicode (n := 0xE9) (by decide) (Or.inl (by decide))
example : StrCharD ['\\', 'u', 'D', '8', '3', 'D', '\\', 'u', 'D', 'E', '0', '0'] '😀' :=
  .surrogates (hi := 0xD83D) (lo := 0xDE00) (by decide) (by decide) (by decide) (by decide) (by decide) (by decide)

-- numbers: accepted with their denotation, and rejected
example : numValue ['-', '1', '2', '.', '5', '0', 'e', '+', '3'] = some ⟨-1250, 1⟩ := by decide
example : numValue ['0'] = some ⟨0, 0⟩ ∧ numValue ['-', '0'] = some ⟨0, 0⟩
    ∧ numValue ['1', 'E', '-', '7'] = some ⟨1, -7⟩ := by decide
example : isJsonNumber ['0', '1'] = false ∧ isJsonNumber ['1', '.'] = false ∧ isJsonNumber ['+', '1'] = false
    ∧ isJsonNumber ['.', '5'] = false ∧ isJsonNumber ['-'] = false ∧ isJsonNumber ['1', 'e'] = false
    ∧ isJsonNumber [] = false ∧ isJsonNumber ['N', 'a', 'N'] = false ∧ isJsonNumber ['1', ' '] = false := by decide

-- the i64 extremes and a negative INT (instances of `intText_is_json_number`)
example : chars (renderInt (-9223372036854775808))
    = ['-', '9', '2', '2', '3', '3', '7', '2', '0', '3', '6', '8', '5', '4', '7', '7', '5', '8', '0', '8'] := by
  simp [renderInt, natDigits, chars]
example : NumD (chars (renderInt (-9223372036854775808))) ⟨-9223372036854775808, 0⟩ := renderInt_denotes _
example : NumD (chars (renderInt 9223372036854775807)) ⟨9223372036854775807, 0⟩ := renderInt_denotes _
example : NumD (chars (renderInt (-42))) ⟨-42, 0⟩ := renderInt_denotes _

/-- an oracle shipping `1.5` for every REAL (as in `Props/C17.lean`), and one shipping an exponent form -/
def o1 : RealOracle := { fixed2 := fun _ => [49, 46, 53, 48], json := fun _ => [49, 46, 53] }
def o2 : RealOracle := { fixed2 := fun _ => [], json := fun _ => [49, 46, 55, 101, 51, 48, 56] }   -- 1.7e308

theorem o1_ok : RealTextOk o1 := by intro b _; show isJsonNumberBytes [49, 46, 53] = true; decide
example : RealTextOk o2 := by intro b _; show isJsonNumberBytes [49, 46, 55, 101, 51, 48, 56] = true; decide
-- an oracle shipping `NaN` or `inf` does not satisfy the assumption
example : isJsonNumberBytes [78, 97, 78] = false ∧ isJsonNumberBytes [105, 110, 102] = false := by decide

/-- a row with awkward TEXT, NULL, BOOLEAN, a nested array, a timestamp-free mix, under names with a quote -/
def cols1 : List Bytes := [encode ['k', '"'], [110], [120, 115]]
def row1 : List Value :=
  [.text (encode awkward), .null, .array (.array .bool) [.array .bool [], .array .bool [.bool true, .null], .text []]]

-- the printed line, concretely
example : renderRecord o1 .json cols1 row1
    = encode ("{\"k\\\"\":\"a\\\"b\\\\c\\n\\u0001😀\",\"n\":null,\"xs\":[[],[true,null],\"\"]}".toList) := by
  decide

-- the denotation of that very line, computed by the (complete) parser: the names and the cells' values
example : parseJson "{\"k\\\"\":\"a\\\"b\\\\c\\n\\u0001😀\",\"n\":null,\"xs\":[[],[true,null],\"\"]}".toList
    = some (.obj [(['k', '"'], .str awkward), (['n'], .null),
        (['x', 's'], .arr [.arr [], .arr [.bool true, .null], .str []])]) := by decide +kernel

-- the grammar on texts the printer never writes: whitespace everywhere, exponents, `\/`, a surrogate pair ...
example : JsonTextD " { \"a\" : [ 1 , -2.50e+1 , true ] ,\t\"\\/\\uD83D\\uDE00\" : { } }\n".toList
    (.obj [(['a'], .arr [.num ⟨1, 0⟩, .num ⟨-250, -1⟩, .bool true]), (['/', '😀'], .obj [])]) :=
  (parseJson_iff _ _).mp (by decide +kernel)
-- ... and on texts that are not JSON: none of these is a JSON text with a denotation (`parseJson_iff`)
example : parseJson "{\"a\":1,}".toList = none ∧ parseJson "{\"a\" 1}".toList = none
    ∧ parseJson "{a:1}".toList = none ∧ parseJson "[1 2]".toList = none ∧ parseJson "[1,]".toList = none
    ∧ parseJson "01".toList = none ∧ parseJson "\"a\nb\"".toList = none ∧ parseJson "\"\\x\"".toList = none
    ∧ parseJson "\"\\uD83D\"".toList = none ∧ parseJson "{\"a\":1}}".toList = none
    ∧ parseJson "'a'".toList = none ∧ parseJson "NaN".toList = none ∧ parseJson "".toList = none := by
  decide +kernel
example : ¬ ∃ x, JsonTextD "{\"a\":1,}".toList x := fun ⟨x, h⟩ => by
  have h1 := (parseJson_iff _ _).mpr h
  have h2 : parseJson "{\"a\":1,}".toList = none := by decide +kernel
  rw [h2] at h1; cases h1

-- the hypotheses of `json_record_denotes_row` / `json_record_recovers_row_rfc` hold of it
example : cols1.Nodup ∧ cols1.length = row1.length ∧ (∀ v ∈ row1, noReal v = true) := by decide
example : (∀ c ∈ cols1, IsUtf8 c) ∧ (∀ v ∈ row1, ∀ s ∈ allTexts v, IsUtf8 s) := by
  constructor
  · intro c hc
    apply utf8_check_decides
    revert c; decide
  · intro v hv s hs
    apply utf8_check_decides
    revert s; revert v; decide

-- the empty row prints `{}`, an object; a row with a REAL, the i64 minimum and duplicate names is an object too
example : renderRecord o1 .json [] [] = encode ['{', '}'] := by decide
example : Obj ['{', '}'] := .empty (sep_bare '{') (sep_bare '}')
example : ∃ line, encode line = renderRecord o1 .json [[97], [97], [98]] [.real 0, .int (-9223372036854775808), .real 0x7ff0000000000000]
    ∧ Obj line ∧ JsonText line :=
  printed_record_is_json o1 _ _ (fun v _ => o1_ok.value v) (by intro c hc; apply utf8_check_decides; revert c; decide)
    (by intro v hv s hs; apply utf8_check_decides; revert s; revert v; decide)

-- a TEXT payload that is not UTF-8 (impossible for a Rust `String`) is outside the hypotheses
example : Reader.validUtf8 [255] = false := by decide

-- whitespace is part of the grammar although the compact printer writes none: `{ "a" : [ 1 , 2 ] }`
example : Ws [' ', '\t', '\n', '\r'] := by decide

-- L3: texts as serde_json ships them read back as the REAL they were printed for (instances of `RealReadsBack`) ...
/-- an oracle shipping serde_json's text for five REALs: 1.5, 0.1, -0.0, 1e300 (`1e300`), 5e-324 -/
def o3 : RealOracle :=
  { fixed2 := fun _ => []
    json := fun b =>
      if b = 0x3ff8000000000000 then [49, 46, 53]                               -- 1.5
      else if b = 0x3fb999999999999a then [48, 46, 49]                          -- 0.1
      else if b = 0x8000000000000000 then [45, 48, 46, 48]                      -- -0.0
      else if b = 0x7e37e43c8800759c then [49, 101, 51, 48, 48]                 -- 1e300
      else [53, 101, 45, 51, 50, 52] }                                          -- 5e-324
def row3 : List Value :=
  [.real 0x3ff8000000000000, .array .real [.real 0x3fb999999999999a, .real 0x8000000000000000], .real 0x7e37e43c8800759c, .real 1]

example : ∀ v ∈ row3, RealTextsOk o3 v := by decide +kernel
example : ∀ v ∈ row3, RealReadsBack o3 v := by decide +kernel
-- `-0.0` is printed `-0.0`, denotes ⟨0, -1⟩ (no sign), and reads back with its sign
example : numValue (chars (o3.json 0x8000000000000000)) = some ⟨0, -1⟩
    ∧ JsonDoc.readReal (chars (o3.json 0x8000000000000000)) = some 0x8000000000000000 := by decide +kernel
-- ... and a text one unit in the last place off (`0.10000000000000002` for 0.1) does not: the check can fail
example : JsonDoc.readReal "0.10000000000000002".toList = some 0x3fb999999999999b := by decide +kernel
example : ¬ RealReadsBack { fixed2 := fun _ => [], json := fun _ => [49, 46, 53] } (.real 0x3fb999999999999a) := by decide +kernel

end Sqlgrep.Props.C17Json
