import SqlgrepModel.Lemmas.Extract
/-
Row level: the NOT NULL cut, `any_result` / admission (exported for C06), and non-interference
(a column value depends on its own definition, on the results of the patterns it names and — for
JSON columns — on the JSON tree; on nothing else).
-/
namespace Sqlgrep.Extract
open Lit

/-- some NOT NULL column is NULL -/
def cutBy (o : Oracles) (inp : ParsingInput) (cols : List Column) : Prop :=
  ∃ c ∈ cols, c.options.nullable = false ∧ (columnValue o c inp).isNull = true

theorem extractWith_cut (o : Oracles) (d : TableDef) (inp : ParsingInput) (h : cutBy o inp d.columns) :
    extractWith o d inp = [] := by
  unfold extractWith
  rw [(extractLoop_none_iff o inp d.columns).2 h]
  rfl

theorem extractWith_kept (o : Oracles) (d : TableDef) (inp : ParsingInput) (h : ¬ cutBy o inp d.columns) :
    extractWith o d inp = d.columns.map (fun c => columnValue o c inp) := by
  unfold extractWith
  cases he : extractLoop o inp d.columns with
  | none => exact absurd ((extractLoop_none_iff o inp d.columns).1 he) h
  | some vs => simp [extractLoop_some o inp _ _ he]

theorem anyResult_map (o : Oracles) (inp : ParsingInput) (cols : List Column) :
    anyResult (cols.map (fun c => columnValue o c inp)) = true ↔
      ∃ c ∈ cols, (columnValue o c inp).isNull = false := by
  unfold anyResult
  simp only [List.any_map, List.any_eq_true, Function.comp, Bool.not_eq_true']

/-- admission (`any_result` of the extracted row), in terms of the model's column values -/
theorem admitted_iff_columnValue (o : Oracles) (d : TableDef) (lo : LineOracle) :
    admitted o d lo = true ↔
      (∃ c ∈ d.columns, (columnValue o c (ParsingInput.new d lo)).isNull = false) ∧
      (∀ c ∈ d.columns, c.options.nullable = false → (columnValue o c (ParsingInput.new d lo)).isNull = false) := by
  unfold admitted extractRow
  by_cases hc : cutBy o (ParsingInput.new d lo) d.columns
  · rw [extractWith_cut o d _ hc]
    constructor
    · intro h; simp [anyResult] at h
    · intro h
      obtain ⟨c, hm, hn, hnull⟩ := hc
      have := h.2 c hm hn
      rw [this] at hnull
      cases hnull
  · rw [extractWith_kept o d _ hc, anyResult_map]
    constructor
    · intro h
      refine ⟨h, ?_⟩
      intro c hm hn
      cases hv : (columnValue o c (ParsingInput.new d lo)).isNull with
      | false => rfl
      | true => exact absurd ⟨c, hm, hn, hv⟩ hc
    · intro h; exact h.1

/-- **admission lemma for C06**: a line is admitted ⇔ at least one column obtains a non-NULL value (a declared
DEFAULT counts: it is what `specColumn` returns for an absent pattern / group / path) ∧ every NOT NULL column is
non-NULL. Column values are the *specified* ones (`specColumn`). -/
theorem admitted_iff (o : Oracles) (d : TableDef) (lo : LineOracle) :
    admitted o d lo = true ↔
      (∃ c ∈ d.columns, (specColumn o c (ParsingInput.new d lo)).isNull = false) ∧
      (∀ c ∈ d.columns, c.options.nullable = false → (specColumn o c (ParsingInput.new d lo)).isNull = false) := by
  rw [admitted_iff_columnValue]
  simp only [columnValue_eq_spec]

/-! ### non-interference -/

/-- the pattern references of a column -/
def Column.refs (c : Column) : List Ref :=
  match c.parsing with
  | .regex r => [r]
  | .multi rs => rs
  | .json _ => []

/-- two parsing inputs look the same to column `c` -/
def agreeFor (c : Column) (inp inp' : ParsingInput) : Prop :=
  (∀ r ∈ c.refs, inp.regex.lookup r.pattern = inp'.regex.lookup r.pattern) ∧
  (c.isJson = true → inp.json = inp'.json)

theorem specScalar_congr (o : Oracles) (ty : VType) (inp inp' : ParsingInput) (r : Ref) (dv : Value)
    (h : inp.regex.lookup r.pattern = inp'.regex.lookup r.pattern) :
    specScalar o ty inp r dv = specScalar o ty inp' r dv := by
  unfold specScalar patternPresent groupText
  rw [h]

theorem specParts_congr (inp inp' : ParsingInput) :
    ∀ (rs : List Ref) (idx : Nat),
      (∀ r ∈ rs, inp.regex.lookup r.pattern = inp'.regex.lookup r.pattern) →
      specParts inp rs idx = specParts inp' rs idx := by
  intro rs
  induction rs with
  | nil => intro idx _; rfl
  | cons r rs ih =>
    intro idx h
    simp only [specParts]
    have h1 : specPart inp idx r = specPart inp' idx r := by
      unfold specPart groupText
      rw [h r List.mem_cons_self]
    rw [h1, ih (idx + 1) (fun r' hr' => h r' (List.mem_cons_of_mem _ hr'))]

theorem specColumn_congr (o : Oracles) (c : Column) (inp inp' : ParsingInput) (h : agreeFor c inp inp') :
    specColumn o c inp = specColumn o c inp' := by
  obtain ⟨hr, hj⟩ := h
  unfold specColumn
  congr 1
  unfold Column.refs at hr
  unfold Column.isJson at hj
  cases hp : c.parsing with
  | regex r =>
    rw [hp] at hr
    exact specScalar_congr o c.type inp inp' r _ (hr r (List.mem_singleton.2 rfl))
  | multi rs =>
    rw [hp] at hr
    simp only []
    cases c.type with
    | array e =>
      simp only []
      have hm : rs.map (fun r => specScalar o e inp r .null) = rs.map (fun r => specScalar o e inp' r .null) :=
        List.map_congr_left (fun r hr' => specScalar_congr o e inp inp' r .null (hr r hr'))
      rw [hm]
    | timestamp =>
      simp only []
      rw [specParts_congr inp inp' rs 0 hr]
    | _ => rfl
  | json a =>
    rw [hp] at hj
    simp only []
    rw [hj rfl]

theorem columnValue_congr (o : Oracles) (c : Column) (inp inp' : ParsingInput) (h : agreeFor c inp inp') :
    columnValue o c inp = columnValue o c inp' := by
  rw [columnValue_eq_spec, columnValue_eq_spec, specColumn_congr o c inp inp' h]

/-! ### which patterns a reference sees -/

theorem lookup_cons (name : Text) (k : Text) (v : RegexResult) (acc : List (Text × RegexResult)) :
    List.lookup name ((k, v) :: acc) = if name == k then some v else List.lookup name acc := by
  simp only [List.lookup]
  cases name == k <;> rfl

theorem buildResults_congr_acc (lo : LineOracle) (name : Text) :
    ∀ (ps : List Pattern) (acc acc' : List (Text × RegexResult)),
      List.lookup name acc = List.lookup name acc' →
      List.lookup name (buildResults lo ps acc) = List.lookup name (buildResults lo ps acc') := by
  intro ps
  induction ps with
  | nil => intro acc acc' h; exact h
  | cons p ps ih =>
    intro acc acc' h
    simp only [buildResults]
    cases p.mode with
    | captures =>
      simp only []
      cases lo.captures p.regex with
      | none => exact ih acc acc' h
      | some gs => exact ih _ _ (by rw [lookup_cons, lookup_cons, h])
    | split => exact ih _ _ (by rw [lookup_cons, lookup_cons, h])

/-- what a reference to `name` sees depends only on the patterns called `name` -/
theorem buildResults_filter (lo : LineOracle) (name : Text) :
    ∀ (ps : List Pattern) (acc : List (Text × RegexResult)),
      List.lookup name (buildResults lo ps acc) =
      List.lookup name (buildResults lo (ps.filter (fun p => name == p.name)) acc) := by
  intro ps
  induction ps with
  | nil => intro acc; rfl
  | cons p ps ih =>
    intro acc
    by_cases hn : (name == p.name) = true
    · simp only [List.filter_cons, hn, if_true, buildResults]
      cases p.mode with
      | captures =>
        simp only []
        cases lo.captures p.regex with
        | none => exact ih acc
        | some gs => exact ih _
      | split => exact ih _
    · simp only [List.filter_cons, hn, Bool.false_eq_true, if_false, buildResults]
      rw [← ih acc]
      have hn' : (name == p.name) = false := by simpa using hn
      cases p.mode with
      | captures =>
        simp only []
        cases lo.captures p.regex with
        | none => rfl
        | some gs => exact buildResults_congr_acc lo name ps _ _ (by rw [lookup_cons, hn']; rfl)
      | split => exact buildResults_congr_acc lo name ps _ _ (by rw [lookup_cons, hn']; rfl)

theorem lookup_new_congr (d d' : TableDef) (lo : LineOracle) (name : Text)
    (h : d.patterns.filter (fun p => name == p.name) = d'.patterns.filter (fun p => name == p.name)) :
    List.lookup name (ParsingInput.new d lo).regex = List.lookup name (ParsingInput.new d' lo).regex := by
  unfold ParsingInput.new
  simp only []
  rw [buildResults_filter lo name d.patterns, buildResults_filter lo name d'.patterns, h]

theorem anyJson_of_mem (d : TableDef) (c : Column) (hm : c ∈ d.columns) (hj : c.isJson = true) :
    d.anyJson = true := by
  unfold TableDef.anyJson
  exact List.any_eq_true.2 ⟨c, hm, hj⟩

/-- a column that occurs in two definitions which agree on the patterns it names has the same value in both -/
theorem columnValue_two_defs (o : Oracles) (d d' : TableDef) (lo : LineOracle) (c : Column)
    (hm : c ∈ d.columns) (hm' : c ∈ d'.columns)
    (hp : ∀ r ∈ c.refs, d.patterns.filter (fun p => r.pattern == p.name) =
                          d'.patterns.filter (fun p => r.pattern == p.name)) :
    columnValue o c (ParsingInput.new d lo) = columnValue o c (ParsingInput.new d' lo) := by
  apply columnValue_congr
  constructor
  · intro r hr
    exact lookup_new_congr d d' lo r.pattern (hp r hr)
  · intro hj
    unfold ParsingInput.new
    simp only [anyJson_of_mem d c hm hj, anyJson_of_mem d' c hm' hj]

/-! ### the binding of a pattern name -/

/-- what pattern `p` contributes on this line: nothing if a capture pattern does not match -/
def resultOf (lo : LineOracle) (p : Pattern) : Option RegexResult :=
  match p.mode with
  | .captures => (lo.captures p.regex).map .captures
  | .split => some (.split (lo.line :: lo.split p.regex))

/-- the last pattern called `name` that took part -/
def lastNamed (lo : LineOracle) (name : Text) : List Pattern → Option RegexResult
  | [] => none
  | p :: ps =>
    match lastNamed lo name ps with
    | some r => some r
    | none => if name == p.name then resultOf lo p else none

theorem lookup_buildResults (lo : LineOracle) (name : Text) :
    ∀ (ps : List Pattern) (acc : List (Text × RegexResult)),
      List.lookup name (buildResults lo ps acc) =
        match lastNamed lo name ps with
        | some r => some r
        | none => List.lookup name acc := by
  intro ps
  induction ps with
  | nil => intro acc; rfl
  | cons p ps ih =>
    intro acc
    simp only [buildResults, lastNamed]
    cases hm : p.mode with
    | captures =>
      simp only []
      cases hc : lo.captures p.regex with
      | none =>
        rw [ih acc]
        cases lastNamed lo name ps with
        | some r => rfl
        | none =>
          simp only [resultOf, hm, hc, Option.map_none, ite_self]
      | some gs =>
        rw [ih]
        cases lastNamed lo name ps with
        | some r => rfl
        | none =>
          simp only [resultOf, hm, hc, Option.map_some, lookup_cons]
          by_cases hn : (name == p.name) = true <;> simp [hn]
    | split =>
      simp only []
      rw [ih]
      cases lastNamed lo name ps with
      | some r => rfl
      | none =>
        simp only [resultOf, hm, lookup_cons]
        by_cases hn : (name == p.name) = true <;> simp [hn]

/-- a reference to `name` sees the result of the last pattern of that name that took part on the line -/
theorem lookup_new (d : TableDef) (lo : LineOracle) (name : Text) :
    List.lookup name (ParsingInput.new d lo).regex = lastNamed lo name d.patterns := by
  unfold ParsingInput.new
  simp only []
  rw [lookup_buildResults]
  cases lastNamed lo name d.patterns <;> rfl

end Sqlgrep.Extract
