import SqlgrepModel.Props.C18Text
import SqlgrepModel.Lemmas.DefsConcat
/-
C18, "irrespective of which other tables are defined", for definition TEXTS that are sequences of statements (audit item
M14; audited with `Props/C18.lean` and `Props/C18Text.lean` by `./check C18`).

A definition text is a sequence of `CREATE TABLE … ;` statements; `parsing::parse` turns it into the list of the lowered
statements (`stmtsOf`), `Tables::add_tables` inserts them into a `HashMap` in that order. This file states, over the whole
program `Pipeline.runText`:

* **statements under other names, anywhere** (`unrelated_statements_irrelevant`, `unrelated_definitions_irrelevant`): two
  accepted definition texts whose statements *that define the queried table's name or the joined table's name* are the
  same, in the same order — whatever other statements stand before, between or after them, in whatever order — give the
  same answer for every query text, format and input. (`Props/C18Text.other_definitions_irrelevant` is the special case
  "the second text has further statements before and after".) In particular the order of the definitions of DIFFERENT
  names is immaterial (`definition_order_irrelevant` as an example).
* **a name defined twice: the last definition wins** (`earlier_definition_of_same_name_irrelevant`,
  `redefinition_replaces`): a statement whose name is defined again later in the text might as well not be there; so a
  text that defines `t` twice answers like the text with the second definition only. (`HashMap::insert`; the sentence of
  C18 does not speak about this case, the model mirrors the code and the `e2e` cases of `harness/src/c18.rs` compare them.)
* **honest limits** (`rejected_definitions_never_run`, `not_create_table_never_run`): a definition text of which ANY part
  is not accepted — a statement that does not parse, a pattern `Regex::new` rejects, an unknown type, a statement that is
  not a CREATE TABLE — is rejected as a whole: the answer is `rejected` / `notCreateTable`, never a run, so never a run over
  a different set of tables. Adding a broken definition is therefore NOT harmless, and is not claimed to be.
* **concatenating texts** (section "texts", below): what `parsing::parse` makes of `A ++ B` when `A` ends cleanly after a
  `;` (`Lex.CleanEnd`: not inside a string, a comment, an escape, a word or a number) — the statements of `A` followed by
  the statements of `B` — and what it makes of it otherwise (examples: an unterminated comment or string at the end of
  `A` swallows the beginning of `B`; then the tables of `B` are NOT defined and a query over them fails with
  `TableNotFound` — the answer changes, which is why the hypothesis is there).

`\d` and tab completion of the interactive shell list `Tables::tables()` in hash order; they are outside `runText` and
outside the property, which is about query output.
-/
namespace Sqlgrep.Props.C18Defs
open Sqlgrep Sqlgrep.Pipeline Sqlgrep.Pipeline.Concat
open Sqlgrep.Props.Pipeline (exFacts exDefs recordsOf)

/-! ### statements and the tables they define -/

/-- the statements of a lowered definition text (`Lower.stmtsOf`: the list of a `multiple`, else the statement itself) -/
abbrev stmtsOf : LStmt → List LStmt := Lower.Concat.stmtsOf

/-- the name a CREATE TABLE statement defines -/
def definedName : LStmt → Option String
  | .createTable n _ _ => some n
  | _ => none

/-- the statement defines the queried table's name or the joined table's name -/
def relevant (fromTable : String) (join : Option LJoin) (s : LStmt) : Bool :=
  match definedName s with
  | some n => n == fromTable || (match join with
    | some j => n == j.joinedTable
    | none => false)
  | none => false

/-- `Tables::add_tables`: every statement must be a CREATE TABLE; the tables in statement order -/
theorem addTables_eq (defs : LStmt) : addTables defs = (stmtsOf defs).mapM Pipeline.tableOf := by
  cases defs <;> simp [addTables, stmtsOf, Lower.Concat.stmtsOf, Option.map] <;> cases Pipeline.tableOf _ <;> rfl

theorem tableOf_name (s : LStmt) (t : Table) (h : Pipeline.tableOf s = some t) : definedName s = some t.name := by
  cases s <;> simp [Pipeline.tableOf] at h
  subst h; rfl

/-- the tables of a given name, in order, are the tables of the statements that define that name -/
theorem tables_named (n : String) : ∀ (ss : List LStmt) (ts : List Table), ss.mapM Pipeline.tableOf = some ts →
    ts.filter (fun t => t.name == n) = (ss.filter (fun s => definedName s == some n)).filterMap Pipeline.tableOf := by
  intro ss
  induction ss with
  | nil => intro ts h; simp at h; subst h; rfl
  | cons s ss ih =>
    intro ts h
    rw [List.mapM_cons] at h
    cases hs : Pipeline.tableOf s with
    | none => rw [hs] at h; simp at h
    | some t =>
      rw [hs] at h
      cases hr : ss.mapM Pipeline.tableOf with
      | none => rw [hr] at h; simp at h
      | some tr =>
        rw [hr] at h
        simp only [Option.pure_def, Option.bind_eq_bind, Option.bind_some, Option.some.injEq] at h
        subst h
        have hn := tableOf_name s t hs
        by_cases hq : (t.name == n) = true
        · have : (definedName s == some n) = true := by rw [hn]; simpa using hq
          simp [List.filter, hq, this, hs, ih tr hr]
        · have hq' : (t.name == n) = false := by simpa using hq
          have : (definedName s == some n) = false := by rw [hn]; simpa using hq
          simp [List.filter, hq', this, ih tr hr]

/-- among the statements that matter to the query, those that define one given name -/
theorem filter_named_of_relevant (fromTable : String) (join : Option LJoin) (n : String)
    (hn : n = fromTable ∨ ∃ j, join = some j ∧ n = j.joinedTable) (ss : List LStmt) :
    ss.filter (fun s => definedName s == some n) =
      (ss.filter (relevant fromTable join)).filter (fun s => definedName s == some n) := by
  rw [List.filter_filter]
  congr 1
  funext s
  by_cases h : (definedName s == some n) = true
  · have hd : definedName s = some n := by simpa using h
    have : relevant fromTable join s = true := by
      unfold relevant
      rw [hd]
      rcases hn with rfl | ⟨j, rfl, rfl⟩ <;> simp
    simp [h, this]
  · have : (definedName s == some n) = false := by simpa using h
    simp [this]

/-- **statements under other names are irrelevant, wherever they stand.** Two lists of CREATE TABLE statements whose
sub-lists of the statements defining the queried name or the joined name coincide: the run of the statement is the same -/
theorem unrelated_statements_irrelevant (F : Facts) (ss ss' : List LStmt) (ts ts' : List Table)
    (stmt : Stmt) (fromTable : String) (join : Option LJoin) (files : List (List Nat))
    (ht : ss.mapM Pipeline.tableOf = some ts) (ht' : ss'.mapM Pipeline.tableOf = some ts')
    (hrel : ss.filter (relevant fromTable join) = ss'.filter (relevant fromTable join)) :
    runStatement F ts stmt fromTable join files = runStatement F ts' stmt fromTable join files := by
  apply Props.C18.other_tables_irrelevant
  · rw [tables_named fromTable ss ts ht, tables_named fromTable ss' ts' ht',
      filter_named_of_relevant fromTable join fromTable (Or.inl rfl) ss,
      filter_named_of_relevant fromTable join fromTable (Or.inl rfl) ss', hrel]
  · intro j hj
    rw [tables_named j.joinedTable ss ts ht, tables_named j.joinedTable ss' ts' ht',
      filter_named_of_relevant fromTable join j.joinedTable (Or.inr ⟨j, hj, rfl⟩) ss,
      filter_named_of_relevant fromTable join j.joinedTable (Or.inr ⟨j, hj, rfl⟩) ss', hrel]

/-- a definition text is accepted by the program (and the case ships `Regex::new` for its patterns): it lowers to `defs`,
whose statements are all CREATE TABLE -/
structure Accepted (F : Facts) (defsText : List Char) (defs : LStmt) (tables : List Table) : Prop where
  classes : classesCover F defsText = true
  parsed : parseText (lexOracles F) (regexValidFn F) defsText = .stmt defs
  shipped : (createPatterns defs).all (fun re => ((Utf8.decode re).bind (regexValidOf F)).isSome) = true
  tables : addTables defs = some tables

/-- **C18 at text level, statements interleaved.** Two accepted definition texts whose statements defining the queried
table's name / the joined table's name are the same and in the same order — further CREATE TABLE statements under other
names before, between, after them, in any order — : for every query text, output format and input the program answers
the same (printed lines, error, line count). -/
theorem unrelated_definitions_irrelevant (F : Facts) (defsText defsText' queryText : List Char) (fmt : Print.Format)
    (single : Bool) (files : List (List Nat)) (defs defs' query : LStmt) (tables tables' : List Table)
    (stmt : Stmt) (fromTable : String) (join : Option LJoin)
    (ha : Accepted F defsText defs tables) (ha' : Accepted F defsText' defs' tables')
    (hcq : classesCover F queryText = true)
    (hq : parseText (lexOracles F) (regexValidFn F) queryText = .stmt query)
    (hs : stmtOf query = some (stmt, fromTable, join))
    (hrel : (stmtsOf defs).filter (relevant fromTable join) = (stmtsOf defs').filter (relevant fromTable join)) :
    runText F defsText' queryText fmt single files = runText F defsText queryText fmt single files := by
  have ht := ha.tables; have ht' := ha'.tables
  rw [runText_eq_runLowered F defsText' queryText fmt single files defs' query ⟨ha'.classes, hcq⟩ ha'.parsed ha'.shipped hq,
    runText_eq_runLowered F defsText queryText fmt single files defs query ⟨ha.classes, hcq⟩ ha.parsed ha.shipped hq,
    runLowered_eq_opt F defs' query fmt single files _ stmt fromTable join ht' hs,
    runLowered_eq_opt F defs query fmt single files _ stmt fromTable join ht hs]
  rw [addTables_eq] at ht ht'
  rw [unrelated_statements_irrelevant F (stmtsOf defs') (stmtsOf defs) tables' tables stmt fromTable join files ht' ht hrel.symm]

/-! ### a name defined twice -/

/-- looking a name up does not see a definition that is followed by another definition of the same name -/
theorem getTable_drop_shadowed (pre post : List Table) (t : Table) (h : ∃ u ∈ post, u.name = t.name) (n : String) :
    getTable (pre ++ t :: post) n = getTable (pre ++ post) n := by
  rw [Props.C18.lookup_depends_on_same_named_tables (pre ++ t :: post), Props.C18.lookup_depends_on_same_named_tables (pre ++ post)]
  simp only [List.filter_append, List.filter_cons]
  by_cases hn : (t.name == n) = true
  · -- the shadowed definition is of the name looked up: a later one of that name is found instead
    simp only [hn, if_true]
    obtain ⟨u, hu, hname⟩ := h
    have hun : (u.name == n) = true := by rw [hname]; exact hn
    have hmem : u ∈ post.filter (fun t => t.name == n) := List.mem_filter.2 ⟨hu, hun⟩
    unfold getTable
    simp only [List.reverse_append, List.reverse_cons, List.append_assoc]
    -- the reversed list starts with the (non-empty) reversed later definitions, all of that name
    have hall : ∀ x ∈ (post.filter (fun t => t.name == n)).reverse, (x.name == n) = true := by
      intro x hx; exact (List.mem_filter.1 (List.mem_reverse.1 hx)).2
    have hne : (post.filter (fun t => t.name == n)).reverse ≠ [] := by
      intro he; rw [List.reverse_eq_nil_iff] at he; rw [he] at hmem; simp at hmem
    cases hr : (post.filter (fun t => t.name == n)).reverse with
    | nil => exact absurd hr hne
    | cons x xs =>
      have hx : (x.name == n) = true := hall x (by rw [hr]; exact List.mem_cons_self)
      simp [hx]
  · have hn' : (t.name == n) = false := by simpa using hn
    simp [hn']

/-- **the last definition of a name wins**: a table whose name is defined again later in the list does not matter to any
statement -/
theorem earlier_definition_of_same_name_irrelevant (F : Facts) (pre post : List Table) (t : Table)
    (h : ∃ u ∈ post, u.name = t.name) (stmt : Stmt) (fromTable : String) (join : Option LJoin) (files : List (List Nat)) :
    runStatement F (pre ++ t :: post) stmt fromTable join files = runStatement F (pre ++ post) stmt fromTable join files := by
  have e := getTable_drop_shadowed pre post t h
  unfold runStatement
  rw [e fromTable]
  cases join with
  | none => cases getTable (pre ++ post) fromTable <;> rfl
  | some j =>
    cases getTable (pre ++ post) fromTable with
    | none => rfl
    | some t1 => simp only [e j.joinedTable]

/-- … at text level: a definition text with a statement whose name a LATER statement defines again answers like the text
without that statement. (`defs'` = `defs` with the earlier statement removed; both texts accepted.) -/
theorem redefinition_replaces (F : Facts) (defsText defsText' queryText : List Char) (fmt : Print.Format)
    (single : Bool) (files : List (List Nat)) (defs defs' query : LStmt) (tables tables' : List Table)
    (stmt : Stmt) (fromTable : String) (join : Option LJoin)
    (ha : Accepted F defsText defs tables) (ha' : Accepted F defsText' defs' tables')
    (hcq : classesCover F queryText = true)
    (hq : parseText (lexOracles F) (regexValidFn F) queryText = .stmt query)
    (hs : stmtOf query = some (stmt, fromTable, join))
    (pre post : List LStmt) (c : LStmt) (hd : stmtsOf defs = pre ++ c :: post) (hd' : stmtsOf defs' = pre ++ post)
    (hlater : ∃ c' ∈ post, definedName c' = definedName c) :
    runText F defsText queryText fmt single files = runText F defsText' queryText fmt single files := by
  have ht := ha.tables; have ht' := ha'.tables
  rw [runText_eq_runLowered F defsText' queryText fmt single files defs' query ⟨ha'.classes, hcq⟩ ha'.parsed ha'.shipped hq,
    runText_eq_runLowered F defsText queryText fmt single files defs query ⟨ha.classes, hcq⟩ ha.parsed ha.shipped hq,
    runLowered_eq_opt F defs' query fmt single files _ stmt fromTable join ht' hs,
    runLowered_eq_opt F defs query fmt single files _ stmt fromTable join ht hs]
  rw [addTables_eq, hd] at ht
  rw [addTables_eq, hd'] at ht'
  -- the tables of `pre ++ c :: post` are those of `pre`, of `c`, of `post`
  rw [List.mapM_append] at ht ht'
  cases hp : pre.mapM Pipeline.tableOf with
  | none => rw [hp] at ht; simp at ht
  | some tp =>
    rw [hp] at ht ht'
    rw [List.mapM_cons] at ht
    cases hc : Pipeline.tableOf c with
    | none => rw [hc] at ht; simp at ht
    | some tc =>
      cases hpo : post.mapM Pipeline.tableOf with
      | none => rw [hpo] at ht'; simp at ht'
      | some tpo =>
        rw [hc, hpo] at ht
        rw [hpo] at ht'
        simp only [Option.pure_def, Option.bind_eq_bind, Option.bind_some, Option.some.injEq] at ht ht'
        subst ht; subst ht'
        obtain ⟨c', hc'm, hc'n⟩ := hlater
        -- the later statement's table is in `tpo` and has the same name
        have hex : ∃ u ∈ tpo, u.name = tc.name := by
          have : ∀ (ss : List LStmt) (ts : List Table), ss.mapM Pipeline.tableOf = some ts → ∀ s ∈ ss, ∃ u ∈ ts, Pipeline.tableOf s = some u := by
            intro ss
            induction ss with
            | nil => intro ts _ s hs; simp at hs
            | cons a ss ih =>
              intro ts h s hs
              rw [List.mapM_cons] at h
              cases ha : Pipeline.tableOf a with
              | none => rw [ha] at h; simp at h
              | some ta =>
                cases hr : ss.mapM Pipeline.tableOf with
                | none => rw [ha, hr] at h; simp at h
                | some tr =>
                  rw [ha, hr] at h
                  simp only [Option.pure_def, Option.bind_eq_bind, Option.bind_some, Option.some.injEq] at h
                  subst h
                  rcases List.mem_cons.1 hs with rfl | hin
                  · exact ⟨ta, List.mem_cons_self, ha⟩
                  · obtain ⟨u, hu, hus⟩ := ih tr hr s hin
                    exact ⟨u, List.mem_cons_of_mem _ hu, hus⟩
          obtain ⟨u, hu, hus⟩ := this post tpo hpo c' hc'm
          refine ⟨u, hu, ?_⟩
          have h1 := tableOf_name c' u hus
          have h2 := tableOf_name c tc hc
          rw [hc'n, h2] at h1
          exact (Option.some.inj h1).symm
        rw [earlier_definition_of_same_name_irrelevant F tp tpo tc hex stmt fromTable join files]

/-! ### honest limits: a definition text that is not accepted as a whole is rejected as a whole -/

/-- a definition text that `parsing::parse` does not turn into a statement (a tokenizer, parser or conversion error
anywhere in it — one broken CREATE TABLE among good ones is enough) never leads to a run: no records, no run-time error
kind, for any query, format and input. So a broken extra definition cannot make the program read "a different table" — it
makes it refuse to start. -/
theorem rejected_definitions_never_run (F : Facts) (defsText queryText : List Char) (fmt : Print.Format) (single : Bool)
    (files : List (List Nat)) (h : ∀ d, parseText (lexOracles F) (regexValidFn F) defsText ≠ .stmt d) :
    recordsOf (runText F defsText queryText fmt single files) = none := by
  unfold runText
  split
  · rfl
  · cases hp : parseText (lexOracles F) (regexValidFn F) defsText with
    | stmt d => exact absurd hp (h d)
    | _ => rfl

/-- … and when it is rejected for a definite reason the answer says so: `rejected definitions` with the error -/
theorem rejected_definitions_reported (F : Facts) (defsText queryText : List Char) (fmt : Print.Format) (single : Bool)
    (files : List (List Nat)) (hc : classesCover F defsText = true ∧ classesCover F queryText = true) (p : Parsed)
    (hp : parseText (lexOracles F) (regexValidFn F) defsText = p)
    (herr : (∃ l e, p = .lexError l e) ∨ (∃ e, p = .parseError e) ∨ (∃ e, p = .convertError e)) :
    runText F defsText queryText fmt single files = .rejected .definitions p := by
  unfold runText
  simp only [hc.1, hc.2, Bool.not_true, Bool.or_self, Bool.false_eq_true, if_false, hp]
  rcases herr with ⟨l, e, rfl⟩ | ⟨e, rfl⟩ | ⟨e, rfl⟩ <;> rfl

/-- a definition text that parses but holds a statement that is not a CREATE TABLE (`Tables::add_tables` answers false) -/
theorem not_create_table_never_run (F : Facts) (defs query : LStmt) (fmt : Print.Format) (single : Bool)
    (files : List (List Nat)) (h : addTables defs = none) : runLowered F defs query fmt single files = .notCreateTable := by
  unfold runLowered; rw [h]

/-! ### texts: concatenating definition texts

`Lemmas/DefsConcat.lean` `parseText_append`: for a text `A` that is accepted and ends behind the `) ;` of its last
statement (`EndsStatement`: outside strings, comments, escapes; decidable by running the tokenizer on `A`) and a text `B`
whose first token is `CREATE` (`FirstCreate`), `parsing::parse (A ++ B)` is the statements of `A` followed by those of
`B`, or `B`'s rejection. Both hypotheses are needed — see the examples at the end. -/

theorem creates_of_tables (defs : LStmt) (tables : List Table) (h : addTables defs = some tables) :
    ∀ s ∈ stmtsOf defs, ∃ n t cols, s = LStmt.createTable n t cols := by
  rw [addTables_eq] at h
  generalize stmtsOf defs = ss at h
  induction ss generalizing tables with
  | nil => intro s hs; simp at hs
  | cons a ss ih =>
    intro s hs
    rw [List.mapM_cons] at h
    cases ha : Pipeline.tableOf a with
    | none => rw [ha] at h; simp at h
    | some ta =>
      cases hr : ss.mapM Pipeline.tableOf with
      | none => rw [ha, hr] at h; simp at h
      | some tr =>
        rcases List.mem_cons.1 hs with rfl | hin
        · cases s <;> simp [Pipeline.tableOf] at ha
          exact ⟨_, _, _, rfl⟩
        · exact ih tr hr s hin

theorem createPatterns_stmts (defs : LStmt) (h : ∀ s ∈ stmtsOf defs, ∃ n t cols, s = LStmt.createTable n t cols) :
    createPatterns defs = createPatternsList (stmtsOf defs) := by
  cases defs with
  | multiple ss => rfl
  | createTable n t cols => simp [stmtsOf, Lower.Concat.stmtsOf, createPatterns, createPatternsList]
  | select a b c d => obtain ⟨n, t, cols, h'⟩ := h (LStmt.select a b c d) (by simp [stmtsOf, Lower.Concat.stmtsOf]); cases h'
  | aggregate a b c d => obtain ⟨n, t, cols, h'⟩ := h (LStmt.aggregate a b c d) (by simp [stmtsOf, Lower.Concat.stmtsOf]); cases h'

theorem createPatternsList_append (a b : List LStmt) :
    createPatternsList (a ++ b) = createPatternsList a ++ createPatternsList b := by
  induction a with
  | nil => rfl
  | cons x xs ih => simp [createPatternsList, ih]

theorem classesCover_append (F : Facts) (a b : List Char) :
    classesCover F (a ++ b) = (classesCover F a && classesCover F b) := by
  simp [classesCover, List.all_append]

theorem stmt_of_stripLoc {p : Parsed} {d : LStmt} (h : p.stripLoc = .stmt d) : p = .stmt d := by
  cases p <;> simp [Parsed.stripLoc] at h
  rw [h]

/-- **two accepted definition texts, concatenated, are an accepted definition text with the statements of the first
followed by the statements of the second** — when the first ends behind the `) ;` of its last statement and the second
starts with `CREATE`. -/
theorem accepted_append (F : Facts) (A B : List Char) (dA dB : LStmt) (tA tB : List Table)
    (hA : Accepted F A dA tA) (hB : Accepted F B dB tB)
    (hend : EndsStatement (lexOracles F) A) (hfirst : FirstCreate (lexOracles F) B) :
    Accepted F (A ++ B) (.multiple (stmtsOf dA ++ stmtsOf dB)) (tA ++ tB) := by
  have hcA := creates_of_tables dA tA hA.tables
  have hcB := creates_of_tables dB tB hB.tables
  refine ⟨?_, ?_, ?_, ?_⟩
  · rw [classesCover_append, hA.classes, hB.classes]; rfl
  · have := parseText_append (lexOracles F) (regexValidFn F) A B dA hend hA.parsed hcA hfirst
    rw [hB.parsed] at this
    exact stmt_of_stripLoc this
  · have h1 := hA.shipped
    have h2 := hB.shipped
    rw [createPatterns_stmts dA hcA] at h1
    rw [createPatterns_stmts dB hcB] at h2
    show (createPatternsList (stmtsOf dA ++ stmtsOf dB)).all _ = true
    rw [createPatternsList_append, List.all_append, h1, h2]; rfl
  · have h1 := hA.tables
    have h2 := hB.tables
    rw [addTables_eq] at h1 h2
    show (stmtsOf dA ++ stmtsOf dB).mapM Pipeline.tableOf = some (tA ++ tB)
    rw [List.mapM_append, h1, h2]; rfl

/-- the first token of `B ++ A2` is the first token of `B` -/
theorem firstCreate_append (o : Lex.Oracles) (B A2 : List Char) (hend : EndsStatement o B) (hfirst : FirstCreate o B) :
    FirstCreate o (B ++ A2) := by
  obtain ⟨st, hclean, q, p, rest, htoks, hp⟩ := hend
  obtain ⟨eB, htokB⟩ := tokenize_of_cleanEnd o B st hclean
  have happ := Lex.Concat.tokenize_append o B A2 st hclean
  unfold FirstCreate at hfirst ⊢
  rw [htokB] at hfirst
  -- the first token of `B`
  have hrev : st.toks.reverse = rest.reverse ++ [p, q] := by simp [htoks]
  cases hA2 : Lex.tokenize o A2 with
  | error loc e => rw [hA2] at happ; obtain ⟨l, hl⟩ := happ; rw [hl]; trivial
  | missing w => rw [hA2] at happ; simp only [] at happ; rw [happ]; trivial
  | ok ts2 =>
    rw [hA2] at happ
    obtain ⟨ts, hts, hmap⟩ := happ
    rw [hts]
    rw [hrev] at hfirst hmap
    cases hr : rest.reverse with
    | nil =>
      rw [hr] at hfirst hmap
      simp only [List.nil_append, List.cons_append] at hfirst hmap
      cases ts with
      | nil => simp at hmap
      | cons t ts' => simp only [List.map_cons, List.cons_append, List.cons.injEq] at hmap; simp only []; rw [hmap.1]; exact hfirst
    | cons r0 rs =>
      rw [hr] at hfirst hmap
      simp only [List.cons_append] at hfirst hmap
      cases ts with
      | nil => simp at hmap
      | cons t ts' => simp only [List.map_cons, List.cons_append, List.cons.injEq] at hmap; simp only []; rw [hmap.1]; exact hfirst

/-- the statements of a text none of which defines a name the query reads -/
def Unrelated (fromTable : String) (join : Option LJoin) (defs : LStmt) : Prop :=
  (stmtsOf defs).filter (relevant fromTable join) = []

/-- **C18 on concatenated texts: further definitions appended.** `A` and `B` accepted, `A` ending behind `) ;`, `B`
starting with `CREATE` and defining only tables under names the query does not read: the program answers on `A ++ B`
what it answers on `A`. -/
theorem unrelated_text_appended (F : Facts) (A B queryText : List Char) (fmt : Print.Format) (single : Bool)
    (files : List (List Nat)) (dA dB query : LStmt) (tA tB : List Table) (stmt : Stmt) (fromTable : String)
    (join : Option LJoin) (hA : Accepted F A dA tA) (hB : Accepted F B dB tB)
    (hend : EndsStatement (lexOracles F) A) (hfirst : FirstCreate (lexOracles F) B)
    (hcq : classesCover F queryText = true) (hq : parseText (lexOracles F) (regexValidFn F) queryText = .stmt query)
    (hs : stmtOf query = some (stmt, fromTable, join)) (hun : Unrelated fromTable join dB) :
    runText F (A ++ B) queryText fmt single files = runText F A queryText fmt single files :=
  unrelated_definitions_irrelevant F A (A ++ B) queryText fmt single files dA _ query tA (tA ++ tB) stmt fromTable join
    hA (accepted_append F A B dA dB tA tB hA hB hend hfirst) hcq hq hs
    (by show _ = List.filter _ (stmtsOf dA ++ stmtsOf dB); rw [List.filter_append, hun, List.append_nil])

/-- **… prepended**: the same with the further definitions FIRST (now `B` has to end behind `) ;` and `A` to start with
`CREATE`) -/
theorem unrelated_text_prepended (F : Facts) (A B queryText : List Char) (fmt : Print.Format) (single : Bool)
    (files : List (List Nat)) (dA dB query : LStmt) (tA tB : List Table) (stmt : Stmt) (fromTable : String)
    (join : Option LJoin) (hA : Accepted F A dA tA) (hB : Accepted F B dB tB)
    (hend : EndsStatement (lexOracles F) B) (hfirst : FirstCreate (lexOracles F) A)
    (hcq : classesCover F queryText = true) (hq : parseText (lexOracles F) (regexValidFn F) queryText = .stmt query)
    (hs : stmtOf query = some (stmt, fromTable, join)) (hun : Unrelated fromTable join dB) :
    runText F (B ++ A) queryText fmt single files = runText F A queryText fmt single files :=
  unrelated_definitions_irrelevant F A (B ++ A) queryText fmt single files dA _ query tA (tB ++ tA) stmt fromTable join
    hA (accepted_append F B A dB dA tB tA hB hA hend hfirst) hcq hq hs
    (by show _ = List.filter _ (stmtsOf dB ++ stmtsOf dA); rw [List.filter_append, hun, List.nil_append])

/-- **… in between**: `A1 ++ B ++ A2` answers as `A1 ++ A2` -/
theorem unrelated_text_between (F : Facts) (A1 A2 B queryText : List Char) (fmt : Print.Format) (single : Bool)
    (files : List (List Nat)) (d1 d2 dB query : LStmt) (t1 t2 tB : List Table) (stmt : Stmt) (fromTable : String)
    (join : Option LJoin) (h1 : Accepted F A1 d1 t1) (h2 : Accepted F A2 d2 t2) (hB : Accepted F B dB tB)
    (hend1 : EndsStatement (lexOracles F) A1) (hendB : EndsStatement (lexOracles F) B)
    (hfirstB : FirstCreate (lexOracles F) B) (hfirst2 : FirstCreate (lexOracles F) A2)
    (hcq : classesCover F queryText = true) (hq : parseText (lexOracles F) (regexValidFn F) queryText = .stmt query)
    (hs : stmtOf query = some (stmt, fromTable, join)) (hun : Unrelated fromTable join dB) :
    runText F (A1 ++ (B ++ A2)) queryText fmt single files = runText F (A1 ++ A2) queryText fmt single files := by
  have hBA2 := accepted_append F B A2 dB d2 tB t2 hB h2 hendB hfirst2
  have hall := accepted_append F A1 (B ++ A2) d1 _ t1 _ h1 hBA2 hend1 (firstCreate_append _ B A2 hendB hfirstB)
  have h12 := accepted_append F A1 A2 d1 d2 t1 t2 h1 h2 hend1 hfirst2
  refine unrelated_definitions_irrelevant F (A1 ++ A2) (A1 ++ (B ++ A2)) queryText fmt single files _ _ query _ _ stmt
    fromTable join h12 hall hcq hq hs ?_
  show List.filter _ (stmtsOf d1 ++ stmtsOf d2) = List.filter _ (stmtsOf d1 ++ (stmtsOf dB ++ stmtsOf d2))
  rw [List.filter_append, List.filter_append, List.filter_append, hun, List.nil_append]

/-- **a broken definition text appended: the whole is rejected, with the same kind of error.** `A` accepted and ending
behind `) ;`, `B` starting with `CREATE` and NOT accepted by `parsing::parse` (a tokenizer, parser or conversion error —
an unparsable statement, a pattern `Regex::new` rejects, an unknown type): then `A ++ B` is rejected with an error of the
same kind (only its location differs: it is counted from the beginning of `A`), and no query runs. -/
theorem broken_text_appended_is_rejected (F : Facts) (A B queryText : List Char) (fmt : Print.Format) (single : Bool)
    (files : List (List Nat)) (dA : LStmt) (tA : List Table) (hA : Accepted F A dA tA)
    (hend : EndsStatement (lexOracles F) A) (hfirst : FirstCreate (lexOracles F) B)
    (hcB : classesCover F B = true) (hcq : classesCover F queryText = true) (p : Parsed)
    (hp : parseText (lexOracles F) (regexValidFn F) B = p)
    (herr : (∃ l e, p = .lexError l e) ∨ (∃ e, p = .parseError e) ∨ (∃ e, p = .convertError e)) :
    ∃ p', runText F (A ++ B) queryText fmt single files = .rejected .definitions p' ∧ p'.stripLoc = p.stripLoc := by
  have hcat := parseText_append (lexOracles F) (regexValidFn F) A B dA hend hA.parsed (creates_of_tables dA tA hA.tables) hfirst
  rw [hp] at hcat
  have hcc : classesCover F (A ++ B) = true ∧ classesCover F queryText = true := by
    rw [classesCover_append, hA.classes, hcB]; exact ⟨rfl, hcq⟩
  refine ⟨parseText (lexOracles F) (regexValidFn F) (A ++ B), ?_, ?_⟩
  · apply rejected_definitions_reported F (A ++ B) queryText fmt single files hcc _ rfl
    rcases herr with ⟨l, e, rfl⟩ | ⟨e, rfl⟩ | ⟨e, rfl⟩
    · left
      cases hx : parseText (lexOracles F) (regexValidFn F) (A ++ B) <;> rw [hx] at hcat <;>
        simp [Parsed.stripLoc, concatParsed] at hcat
      exact ⟨_, _, rfl⟩
    · right; left
      cases hx : parseText (lexOracles F) (regexValidFn F) (A ++ B) <;> rw [hx] at hcat <;>
        simp [Parsed.stripLoc, concatParsed] at hcat
      exact ⟨_, rfl⟩
    · right; right
      cases hx : parseText (lexOracles F) (regexValidFn F) (A ++ B) <;> rw [hx] at hcat <;>
        simp [Parsed.stripLoc, concatParsed] at hcat
      exact ⟨_, rfl⟩
  · rw [hcat]
    rcases herr with ⟨l, e, rfl⟩ | ⟨e, rfl⟩ | ⟨e, rfl⟩ <;> rfl

/-! ### examples: the hypotheses checked by evaluation, and why they are there -/

/-- `EndsStatement`, decided by running the tokenizer -/
def endsStatementB (o : Lex.Oracles) (A : List Char) : Bool :=
  match Lex.run o {} A with
  | .run st =>
    st.cur.isNone && !st.esc && !st.com && !st.prevOp && (st.pend == .none) &&
    (match st.toks with
     | q :: p :: _ => (q.tok == .semi) && (p.tok == .rp)
     | _ => false)
  | _ => false

theorem endsStatement_of_check (o : Lex.Oracles) (A : List Char) (h : endsStatementB o A = true) : EndsStatement o A := by
  unfold endsStatementB at h
  cases hr : Lex.run o {} A with
  | fail l e => rw [hr] at h; cases h
  | missing w => rw [hr] at h; cases h
  | run st =>
    rw [hr] at h
    simp only [Bool.and_eq_true, Bool.not_eq_eq_eq_not, Bool.not_true, beq_iff_eq, Option.isNone_iff_eq_none] at h
    obtain ⟨⟨⟨⟨⟨hcur, hesc⟩, hcom⟩, hprev⟩, hpend⟩, htoks⟩ := h
    cases ht : st.toks with
    | nil => rw [ht] at htoks; cases htoks
    | cons q r =>
      cases r with
      | nil => rw [ht] at htoks; cases htoks
      | cons p rest =>
        rw [ht] at htoks
        simp only [Bool.and_eq_true, beq_iff_eq] at htoks
        exact ⟨st, ⟨hr, hcur, hesc, hcom, hprev, hpend, by simp [Lex.St.lastTok, ht, htoks.1]⟩, q, p, rest, ht, htoks.2⟩

/-- `FirstCreate`, decided by running the tokenizer -/
def firstCreateB (o : Lex.Oracles) (B : List Char) : Bool :=
  match Lex.tokenize o B with
  | .ok (t :: _) => t.tok == .kw .create
  | .ok [] => false
  | _ => true

theorem firstCreate_of_check (o : Lex.Oracles) (B : List Char) (h : firstCreateB o B = true) : FirstCreate o B := by
  unfold firstCreateB at h
  unfold FirstCreate
  cases ht : Lex.tokenize o B with
  | ok ts => rw [ht] at h; cases ts with
    | nil => cases h
    | cons t r => simpa using h
  | error l e => trivial
  | missing w => trivial

/-- `Accepted`, decided by running the program's front end -/
def acceptedB (F : Facts) (D : List Char) : Bool :=
  classesCover F D &&
  match parseText (lexOracles F) (regexValidFn F) D with
  | .stmt defs =>
    (createPatterns defs).all (fun re => ((Utf8.decode re).bind (regexValidOf F)).isSome) && (addTables defs).isSome
  | _ => false

theorem accepted_of_check (F : Facts) (D : List Char) (h : acceptedB F D = true) : ∃ defs tables, Accepted F D defs tables := by
  unfold acceptedB at h
  simp only [Bool.and_eq_true] at h
  obtain ⟨hc, h⟩ := h
  cases hp : parseText (lexOracles F) (regexValidFn F) D with
  | stmt defs =>
    rw [hp] at h
    simp only [Bool.and_eq_true] at h
    obtain ⟨hs, ht⟩ := h
    obtain ⟨tables, htab⟩ := Option.isSome_iff_exists.1 ht
    exact ⟨defs, tables, hc, hp, hs, htab⟩
  | _ => rw [hp] at h; cases h

def exB : List Char := " CREATE TABLE other(line = '^([a-z]+);([0-9]+)$', line[1] => x TEXT);".toList
def exU : List Char := "\nCREATE TABLE u(line = '^([a-z]+);([0-9]+)$', line[2] => w INT);".toList

/-- the hypotheses of `accepted_append` / `unrelated_text_appended` / `unrelated_text_prepended` /
`unrelated_text_between` hold for these texts (each decided by evaluation) -/
example : acceptedB exFacts exDefs = true ∧ acceptedB exFacts exB = true ∧ acceptedB exFacts exU = true ∧
    endsStatementB (lexOracles exFacts) exDefs = true ∧ endsStatementB (lexOracles exFacts) exB = true ∧
    firstCreateB (lexOracles exFacts) exB = true ∧ firstCreateB (lexOracles exFacts) exDefs = true ∧
    firstCreateB (lexOracles exFacts) exU = true := by decide +kernel

/-- … and the program's answers: `other` appended, prepended, and between `t` and `u` — the same records -/
example :
    recordsOf (runText exFacts (exDefs ++ exB) "select k, v from t".toList .text false [strBytes "a;1\nb;2\n"]) =
      some (none, 2, [strBytes "k: 'a', v: 1", strBytes "k: 'b', v: 2"]) ∧
    recordsOf (runText exFacts (exB ++ exDefs) "select k, v from t".toList .text false [strBytes "a;1\nb;2\n"]) =
      some (none, 2, [strBytes "k: 'a', v: 1", strBytes "k: 'b', v: 2"]) ∧
    recordsOf (runText exFacts (exDefs ++ (exB ++ exU)) "select k, v from t".toList .text false [strBytes "a;1\nb;2\n"]) =
      recordsOf (runText exFacts (exDefs ++ exU) "select k, v from t".toList .text false [strBytes "a;1\nb;2\n"]) := by
  decide +kernel

/-- `unrelated_text_appended` applied: the checks above discharge its hypotheses -/
example (queryText : List Char) (fmt : Print.Format) (single : Bool) (files : List (List Nat)) (query : LStmt) (stmt : Stmt)
    (join : Option LJoin) (dA dB : LStmt) (tA tB : List Table) (hA : Accepted exFacts exDefs dA tA)
    (hB : Accepted exFacts exB dB tB) (hcq : classesCover exFacts queryText = true)
    (hq : parseText (lexOracles exFacts) (regexValidFn exFacts) queryText = .stmt query)
    (hs : stmtOf query = some (stmt, "t", join)) (hun : Unrelated "t" join dB) :
    runText exFacts (exDefs ++ exB) queryText fmt single files = runText exFacts exDefs queryText fmt single files :=
  unrelated_text_appended exFacts exDefs exB queryText fmt single files dA dB query tA tB stmt "t" join hA hB
    (endsStatement_of_check (lexOracles exFacts) exDefs (by decide +kernel))
    (firstCreate_of_check (lexOracles exFacts) exB (by decide +kernel)) hcq hq hs hun

/-- **why `EndsStatement` is a hypothesis (1): a text that ends inside a comment.** `exDefs ++ " -- the tables"` is accepted
on its own and does NOT end a statement in the sense above (the comment is still open); appending `exB` to it puts the
beginning of `exB` — here all of it — into the comment: table `other` is not defined, and a query over it fails with
`TableNotFound`, whereas with a line break after the comment it answers. -/
example :
    acceptedB exFacts (exDefs ++ " -- the tables".toList) = true ∧
    endsStatementB (lexOracles exFacts) (exDefs ++ " -- the tables".toList) = false ∧
    recordsOf (runText exFacts (exDefs ++ " -- the tables".toList ++ exB) "select x from other".toList .text false [strBytes "a;1\n"]) =
      some (some .tableNotFound, 1, []) ∧
    recordsOf (runText exFacts (exDefs ++ " -- the tables\n".toList ++ exB) "select x from other".toList .text false [strBytes "a;1\n"]) =
      some (none, 1, [strBytes "x: 'a'"]) := by decide +kernel

/-- **(2): a text that ends inside a string literal, (3): a text that ends in `;;`.** Each is accepted on its own (an
unterminated string is dropped at the end of a text; `Parser::parse` tolerates one extra `;` at the very end), and
each followed by `exB` is REJECTED (the string swallows the beginning of `exB`; the second `;` ends the statement list
and `CREATE` is one token too many) — the answer is an error for every query, not the answer over `exDefs` -/
example :
    acceptedB exFacts (exDefs ++ " '".toList) = true ∧ endsStatementB (lexOracles exFacts) (exDefs ++ " '".toList) = false ∧
    acceptedB exFacts (exDefs ++ ";".toList) = true ∧ endsStatementB (lexOracles exFacts) (exDefs ++ ";".toList) = false ∧
    recordsOf (runText exFacts (exDefs ++ " '".toList ++ exB) "select k from t".toList .text false [strBytes "a;1\n"]) = none ∧
    recordsOf (runText exFacts (exDefs ++ ";".toList ++ exB) "select k from t".toList .text false [strBytes "a;1\n"]) = none ∧
    (match runText exFacts (exDefs ++ ";".toList ++ exB) "select k from t".toList .text false [strBytes "a;1\n"] with
     | .rejected .definitions (.parseError e) => e.kind == .tooManyTokens
     | _ => false) = true := by decide +kernel

/-- **why `FirstCreate` is a hypothesis of `broken_text_appended_is_rejected`**: the empty text and a lone `;` are rejected
on their own (no statement) but appended to `exDefs` they change nothing — `exDefs ++ ""` and `exDefs ++ ";"` are accepted -/
example :
    acceptedB exFacts [] = false ∧ acceptedB exFacts ";".toList = false ∧
    firstCreateB (lexOracles exFacts) [] = false ∧ firstCreateB (lexOracles exFacts) ";".toList = false ∧
    acceptedB exFacts (exDefs ++ []) = true ∧ acceptedB exFacts (exDefs ++ ";".toList) = true := by decide +kernel

/-- a broken statement appended (`broken_text_appended_is_rejected`): an unparsable one, one with an unknown type — the
whole text is rejected with the error the broken text has on its own (kinds compared) -/
example :
    (match runText exFacts (exDefs ++ " CREATE TABLE u(".toList) "select k from t".toList .text false [strBytes "a;1\n"],
           parseText (lexOracles exFacts) (regexValidFn exFacts) " CREATE TABLE u(".toList with
     | .rejected .definitions (.parseError e), .parseError e' => e.kind == e'.kind
     | _, _ => false) = true ∧
    (match runText exFacts (exDefs ++ " CREATE TABLE u(line = 'x', line[1] => a NOSUCH);".toList) "select k from t".toList .text false [strBytes "a;1\n"],
           parseText (lexOracles exFacts) (regexValidFn exFacts) " CREATE TABLE u(line = 'x', line[1] => a NOSUCH);".toList with
     | .rejected .definitions (.parseError e), .parseError e' => e.kind == e'.kind
     | _, _ => false) = true := by decide +kernel

/-- the last definition of a name wins (`redefinition_replaces`): `t` defined twice answers like the second definition alone -/
example :
    recordsOf (runText exFacts (exDefs ++ " CREATE TABLE t(line = '^([a-z]+);([0-9]+)$', line[2] => only INT);".toList)
      "select * from t".toList .text false [strBytes "a;1\nb;2\n"]) =
    recordsOf (runText exFacts "CREATE TABLE t(line = '^([a-z]+);([0-9]+)$', line[2] => only INT);".toList
      "select * from t".toList .text false [strBytes "a;1\nb;2\n"]) := by decide +kernel

end Sqlgrep.Props.C18Defs
