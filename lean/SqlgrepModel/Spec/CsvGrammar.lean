/-
The record grammar of CSV (RFC 4180 §2, with the program's delimiter in the place of COMMA), restricted
to non-escaped fields — the guard of property C17: "text values free of delimiter, quote and line-break
characters". Over bytes: the delimiter, `"`, CR and LF are ASCII, and no byte of a multi-byte UTF-8
sequence is ASCII, so the byte-level and the character-level reading of these rules coincide.
Written from the RFC; imports nothing of the model.

```
   record      = field *(COMMA field)
   field       = (escaped / non-escaped)
   non-escaped = *TEXTDATA
   TEXTDATA    = every character except COMMA, DQUOTE, CR, LF      ; RFC 4180 lists %x20-21 / %x23-2B / %x2D-7E;
                                                                   ; other characters (UTF-8, tab) are admitted
                                                                   ; by every CSV reader and by RFC 4180 §3 ("charset")
```
The printer never writes an `escaped` field (`DQUOTE *(TEXTDATA / COMMA / CR / LF / 2DQUOTE) DQUOTE`), so
only `non-escaped` is transcribed.
-/
namespace Sqlgrep.CsvGrammar

/-- `TEXTDATA` for delimiter `d`: any byte except the delimiter, `"` (%x22), CR (%x0D), LF (%x0A) -/
def TextData (d c : Nat) : Prop := c ≠ d ∧ c ≠ 0x22 ∧ c ≠ 0x0D ∧ c ≠ 0x0A

/-- `field = non-escaped = *TEXTDATA` -/
def Field (d : Nat) (f : List Nat) : Prop := ∀ c ∈ f, TextData d c

/-- `record = field *(COMMA field)`, together with the fields it consists of, in order -/
inductive Record (d : Nat) : List Nat → List (List Nat) → Prop
  | last {f : List Nat} : Field d f → Record d f [f]
  | cons {f rest : List Nat} {fs : List (List Nat)} : Field d f → Record d rest fs →
      Record d (f ++ d :: rest) (f :: fs)

instance (d : Nat) : DecidablePred (TextData d) := fun c => by unfold TextData; infer_instance
instance (d : Nat) : DecidablePred (Field d) := fun f => by unfold Field; infer_instance

end Sqlgrep.CsvGrammar
