import SqlgrepModel.Lemmas.NoiseFollow
import SqlgrepModel.Drivers.Run
/- The `incr` driver (Drivers/Run.lean `incrLoop`) is a rendering of `feedLines`: the theorems about `feedLines`
are theorems about what the driver executes. -/
namespace Sqlgrep
open Sqlgrep.Drivers.Run

/-- the driver's rendering of one engine answer (`incr` case kind) -/
def incrItem (lo : LineOut) : String :=
  (match lo.result with
    | some r => rowOutToWire r
    | none => "-") ++ (if lo.reachedLimit then "!" else "")

/-- the `incr` driver is a rendering of `feedLines` (update + result): one item per answer, then the failure -/
theorem incrLoop_eq_feedLines (O : Oracles) (qy : Query) (idx : JoinIndex) (fls : List FileLine) (es : EngineState)
    (acc : List String) :
    incrLoop O qy idx fls es acc =
      match (feedLines O qy idx true (fls.map (·.line)) es).2 with
      | .ok _ => acc.reverse ++ (feedLines O qy idx true (fls.map (·.line)) es).1.map incrItem
      | .error k => acc.reverse ++ (feedLines O qy idx true (fls.map (·.line)) es).1.map incrItem ++ ["err:" ++ k.name]
      | .panic _ => acc.reverse ++ (feedLines O qy idx true (fls.map (·.line)) es).1.map incrItem ++ ["panic"]
      | .oracleMissing w => ["skip " ++ w] := by
  induction fls generalizing es acc with
  | nil => simp [incrLoop, feedLines]
  | cons fl rest ih =>
    simp only [incrLoop, List.map_cons, feedLines]
    cases executeLine O qy idx true es fl.line with
    | ok p =>
      obtain ⟨es1, lo⟩ := p
      simp only
      rw [ih]
      cases (feedLines O qy idx true (rest.map (·.line)) es1).2 <;> simp [incrItem] <;> cases lo.result <;> rfl
    | error k => simp
    | panic s => simp
    | oracleMissing s => simp

end Sqlgrep
