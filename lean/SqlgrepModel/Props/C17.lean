import SqlgrepModel.Lemmas.PrintLines
import SqlgrepModel.Lemmas.PrintString
/-
C17 — printed records faithfully carry the result rows in every output format.

Model (`Model/Print.lean`): `printResult`/`printAll` = `OutputPrinter::print` over any sequence of
results on one printer (state `first_line`), `renderRecord` = the record line of one row in the three
formats, `displayValue` = `impl Display for Value`, `jsonValue` + `Json.render`/`renderObject` =
`Value::json_value` + serde_json's compact writer with `preserve_order`. Every printed line is
tagged with the `println` that emitted it (`Line.header` / `.record` / `.separator`); the bytes
handed to the printer are `Line.bytes`.

Oracle (not modelled): `{:.2}` and ryu renderings of REAL (`RealOracle`); REAL fidelity in JSON is
ryu's shortest-round-trip guarantee and is checked on the implementation by the harness only.
Only this file states property theorems; helper lemmas live in `Lemmas/Print*.lean`.
-/
namespace Sqlgrep.Props.C17
open Sqlgrep Sqlgrep.Print

/-! ## every row is printed exactly once, as one record, in result order -/

/-- One `print` call, any format, any state: the record lines (everything except the CSV header and
the blank separator) are exactly the rows, rendered, in order. -/
theorem one_record_per_row_in_order (o : RealOracle) (fmt : Format) (first : Bool) (r : ResultRow)
    (single : Bool) :
    records (printResult o fmt first r single).1 = r.rows.map (renderRecord o fmt r.columns) :=
  records_printResult o fmt first r single

/-- Any sequence of `print` calls on one printer: the record lines are the rows of all results in
order, each rendered with the column names of its own result. -/
theorem one_record_per_row_in_order_seq (o : RealOracle) (fmt : Format) (first : Bool)
    (seq : List (ResultRow × Bool)) :
    records (printAll o fmt first seq) = (allRows seq).map (fun cr => renderRecord o fmt cr.1 cr.2) :=
  records_printAll o fmt first seq

/-- The lines that are not records: at most the separator after the rows, and (CSV only) the header
before the first row; i.e. the whole output of one call has this shape. -/
theorem print_shape (o : RealOracle) (fmt : Format) (first : Bool) (cols : List Bytes)
    (row : List Value) (more : List (List Value)) (single : Bool) :
    (printResult o fmt first ⟨cols, row :: more⟩ single).1
      = headerLines fmt cols first ++ .record (renderRecord o fmt cols row)
          :: (more.map (fun r => Line.record (renderRecord o fmt cols r))
              ++ (if more ≠ [] ∧ single = false then [Line.separator] else [])) := by
  have hrows : ∀ rows : List (List Value),
      printRows o fmt cols false rows = rows.map (fun r => Line.record (renderRecord o fmt cols r)) := by
    intro rows
    induction rows with
    | nil => rfl
    | cons r rs ih => cases fmt <;> simp [printRows, printRow, headerLines, ih]
  simp only [printResult, printRows, printRow, hrows, separatorLines, List.append_assoc,
    List.cons_append, List.nil_append, List.length_cons]
  cases more <;> cases single <;> simp

/-! ## CSV header -/

/-- Over any sequence of results printed by a fresh CSV printer: nothing is printed before the first
row; the first row is printed as the header (column names joined by the delimiter) immediately
followed by its record; no other line of the whole output is a header. -/
theorem csv_header_once_before_first (o : RealOracle) (d : Bytes) (seq : List (ResultRow × Bool))
    (cols : List Bytes) (row : List Value) (more : List (List Bytes × List Value))
    (h : allRows seq = (cols, row) :: more) :
    ∃ rest, printAll o (.csv d) true seq
        = .header (joinWith d cols) :: .record (renderRecord o (.csv d) cols row) :: rest
      ∧ headers rest = [] ∧ (headers (printAll o (.csv d) true seq)).length = 1 := by
  obtain ⟨rest, h1, h2⟩ := (printAll_csv_first o d seq).2 cols row more h
  exact ⟨rest, h1, h2, by rw [h1]; simp [headers, h2]⟩

/-- a sequence without rows prints nothing at all (so no header either) -/
theorem csv_no_rows_no_header (o : RealOracle) (d : Bytes) (seq : List (ResultRow × Bool))
    (h : allRows seq = []) : printAll o (.csv d) true seq = [] :=
  (printAll_csv_first o d seq).1 h

/-- text and JSON output never contain a header line -/
theorem no_header_unless_csv (o : RealOracle) (first : Bool) (seq : List (ResultRow × Bool)) :
    headers (printAll o .text first seq) = [] ∧ headers (printAll o .json first seq) = [] :=
  ⟨headers_not_csv o .text (by intro d h; cases h) first seq,
   headers_not_csv o .json (by intro d h; cases h) first seq⟩

/-! ## JSON strings and integers survive -/

/-- `jsonUnescape` (a reader of JSON string bodies) inverts serde_json's escaping for every byte
string: quotes, backslashes, all control characters, and every UTF-8 byte ≥ 0x20 verbatim. -/
theorem json_string_roundtrip (s : Bytes) : jsonUnescape (jsonEscape s) = some s :=
  jsonUnescape_jsonEscape s

/-- inside a document: reading a rendered string token stops exactly after its closing quote -/
theorem json_string_token_roundtrip (s rest : Bytes) :
    ∃ body, renderString s ++ rest = 34 :: body ∧ readStr body = some (s, rest) :=
  ⟨jsonEscape s ++ 34 :: rest, by simp [renderString], readStr_jsonEscape s rest⟩

/-- the decimal rendering of any integer (all of i64 included) parses back to it -/
theorem json_int_roundtrip (i : Int) : parseInt (renderInt i) = some i := parseInt_renderInt i

/-! ## non-vacuity -/

def o0 : RealOracle := { fixed2 := fun _ => [49, 46, 53, 48], json := fun _ => [49, 46, 53] }

example : (printAll o0 (.csv [59]) true
    [(⟨[[97], [98]], []⟩, false),
     (⟨[[97], [98]], [[.bool false, .text [104, 105]], [.null, .bool true]]⟩, false),
     (⟨[[97], [98]], [[.real 0, .null]]⟩, true)]).map Line.bytes
  = [[97, 59, 98], [102, 97, 108, 115, 101, 59, 39, 104, 105, 39], [78, 85, 76, 76, 59, 116, 114, 117, 101], [],
     [49, 46, 53, 48, 59, 78, 85, 76, 76]] := by decide

example : ∃ cols row more, allRows [((⟨[[97]], []⟩ : ResultRow), false), (⟨[[97]], [[.int 1]]⟩, true)]
    = (cols, row) :: more := ⟨_, _, _, rfl⟩

example : jsonEscape [34, 92, 10, 1, 31, 127, 195, 169] =
    [92, 34, 92, 92, 92, 110, 92, 117, 48, 48, 48, 49, 92, 117, 48, 48, 49, 102, 127, 195, 169] := by decide

example : renderInt (-9223372036854775808) = [45, 57, 50, 50, 51, 51, 55, 50, 48, 51, 54, 56, 53, 52, 55, 55, 53, 56, 48, 56] := by
  simp [renderInt, natDigits]

end Sqlgrep.Props.C17
