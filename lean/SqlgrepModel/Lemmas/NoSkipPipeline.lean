import SqlgrepModel.Lemmas.Pipeline
import SqlgrepModel.Lemmas.NoSkipEngine
/-
"Never skipped for a missing evaluator fact", lifted from `runBatch` (`Lemmas/NoSkipEngine.lean`) to the end-to-end
model: `runBatchT` (the traced loop `Pipeline.runStatement` calls), `runStatement` with all its table / file lookups,
and the answer `runLowered` makes of it.
-/
namespace Sqlgrep.Pipeline
open Sqlgrep Sqlgrep.Spec.Pipeline

section
variable (O : Oracles) (ok : Func → Bool) (hok : ∀ f, ok f = true → ∀ args, NM (callFunction O f args))
include hok

theorem runBatchT_not_skipped (qy : Query) (joined : Option (List FileLine)) (files : List (List FileLine))
    (hq : qy.stmt.allFuncs ok = true) : (runBatchT O qy joined files).out.skipped = none := by
  cases joined with
  | some jl => rw [runBatchT_some_out]; exact NoSkipEngine.runBatch_not_skipped O ok hok qy jl files none hq
  | none =>
    cases hj : qy.join with
    | none =>
      rw [runBatchT_nojoin O qy hj, runBatchT_some_out]
      exact NoSkipEngine.runBatch_not_skipped O ok hok qy [] files none hq
    | some j =>
      obtain ⟨k, hk⟩ := joinSetup_none_file qy j hj
      unfold runBatchT
      rw [hk]
      rfl

theorem runNoTable_not_skipped (stmt : Stmt) (fromTable : String) (files : List (List Nat))
    (hq : stmt.allFuncs ok = true) : (runNoTable O stmt fromTable files).out.skipped = none := by
  unfold runNoTable
  simp only
  split
  · exact runBatchT_not_skipped O ok hok _ _ _ hq
  · split
    · exact runBatchT_not_skipped O ok hok _ _ _ hq
    · rfl
    · rfl

end

/-- **the engine part of the end-to-end run is not skipped** when the statement's functions are answered under the
evaluator's tables `F.eval` (whatever tables exist, whatever files exist) -/
theorem runStatement_not_skipped (F : Facts) (ok : Func → Bool)
    (hok : ∀ f, ok f = true → ∀ args, NM (callFunction F.eval f args))
    (tables : List Table) (stmt : Stmt) (fromTable : String) (join : Option LJoin)
    (files : List (List Nat)) (t : TraceOut) (hq : stmt.allFuncs ok = true)
    (h : runStatement F tables stmt fromTable join files = some t) : t.out.skipped = none := by
  unfold runStatement at h
  cases hg : getTable tables fromTable with
  | none =>
    rw [hg] at h
    cases join with
    | none => simp only [Option.some.injEq] at h; subst h; exact runNoTable_not_skipped F.eval ok hok _ _ _ hq
    | some j => simp only [Option.some.injEq] at h; subst h; rfl
  | some tb =>
    rw [hg] at h
    cases join with
    | none =>
      simp only [bind, Option.bind] at h
      cases hf : files.mapM (fileLines F tb.defn) with
      | none => rw [hf] at h; cases h
      | some fs =>
        rw [hf] at h
        simp only [pure, Option.some.injEq] at h
        subst h
        exact runBatchT_not_skipped F.eval ok hok _ _ _ hq
    | some j =>
      simp only [bind, Option.bind] at h
      cases hf : files.mapM (fileLines F tb.defn) with
      | none => rw [hf] at h; cases h
      | some fs =>
        rw [hf] at h
        simp only at h
        cases hu : getTable tables j.joinedTable with
        | none =>
          rw [hu] at h
          simp only [pure, Option.some.injEq] at h
          subst h
          obtain ⟨k, hk⟩ := setupJoin_error tb.info (joinInfo j { name := j.joinedTable, columns := [] }) .tableNotFound
          rw [hk]
          rfl
        | some u =>
          rw [hu] at h
          simp only at h
          cases ho : openJoined F j with
          | none =>
            rw [ho] at h
            simp only [pure, Option.some.injEq] at h
            subst h
            exact runBatchT_not_skipped F.eval ok hok _ _ _ hq
          | some bytes =>
            rw [ho] at h
            simp only at h
            cases hjl : fileLines F u.defn bytes with
            | none => rw [hjl] at h; cases h
            | some jl =>
              rw [hjl] at h
              simp only [pure, Option.some.injEq] at h
              subst h
              exact runBatchT_not_skipped F.eval ok hok _ _ _ hq

/-- the answer made of a run that did not skip for an evaluator fact: printed records, unless the rendering of a REAL
that gets printed was not shipped -/
theorem answerOf_of_not_skipped (F : Facts) (fmt : Print.Format) (single : Bool) (t : TraceOut)
    (hp : t.out.panicked = false) (ha : CallsAligned t.calls) (hs : t.out.skipped = none) :
    answerOf F fmt single t =
      if realsCover F t.calls then
        .records t.out.error t.out.totalLines
          ((Print.printAll (realOracle F) fmt true (printCalls single t.calls)).map Print.Line.bytes)
      else .skip "REAL rendering" := by
  cases hc : realsCover F t.calls with
  | true => simp only [if_true]; exact answerOf_records F fmt single t hp ha hs hc
  | false =>
    unfold answerOf
    simp [hp, hs, hc]

end Sqlgrep.Pipeline
