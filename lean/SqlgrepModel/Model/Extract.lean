import SqlgrepModel.Model.ParseLit
import SqlgrepModel.Model.Json
import SqlgrepModel.Model.DecFloat
/-
Line → row extraction: `TableDefinition::extract`, `ParsingInput::new`, `ColumnParsing::extract`,
`extract_using_regex`, `Row::any_result` (`src/data_model.rs`), `ValueType::parse` (`src/model.rs`).

External facts enter as oracles, for *all* of which the theorems are stated:
* `LineOracle.captures re` / `split re`: the answer of `Regex::captures(line)` / `Regex::split(line)` for the
  regular expression with source text `re` (optional group texts, group 0 = whole match / field list);
* `LineOracle.json`: `serde_json::from_str(line)` (`none` = not JSON);
* `Oracles.parseF64`: `f64::from_str` (bits); `Oracles.computed` is the instance computed by `Model/DecFloat.lean`.
-/
namespace Sqlgrep
namespace Extract
open Lit

inductive RegexMode where
  | captures | split
  deriving Repr, Inhabited, DecidableEq

structure Pattern where
  name : Text
  regex : Text      -- source text of the regular expression
  mode : RegexMode
  deriving Repr, Inhabited

/-- `RegexResultReference` -/
structure Ref where
  pattern : Text
  group : Nat
  deriving Repr, Inhabited, DecidableEq

inductive Parsing where
  | regex (r : Ref)
  | multi (rs : List Ref)
  | json (a : JsonAccess)
  deriving Repr, Inhabited

/-- `ColumnOptions` -/
structure Options where
  nullable : Bool := true
  trim : Bool := false
  convert : Bool := false
  microseconds : Bool := false
  default : Option Value := none
  deriving Repr, Inhabited

structure Column where
  parsing : Parsing
  type : VType
  options : Options := {}
  deriving Repr, Inhabited

structure TableDef where
  patterns : List Pattern
  columns : List Column
  deriving Repr, Inhabited

def Column.isJson (c : Column) : Bool :=
  match c.parsing with
  | .json _ => true
  | _ => false

def TableDef.anyJson (d : TableDef) : Bool := d.columns.any Column.isJson

/-- `ColumnDefinition::default_value` -/
def Column.defaultValue (c : Column) : Value := c.options.default.getD .null

/-- line-independent oracles -/
structure Oracles where
  parseF64 : Text → Option Nat

/-- the oracle-free instance: `f64::from_str` as computed by `Model/DecFloat.lean` -/
def Oracles.computed : Oracles := { parseF64 := DecFloat.parseF64N }

/-- what the drivers run: a shipped `f64::from_str` fact where the case has one (the facts are a cross-check of the
Lean function against the real one), the computed answer for every other text -/
def Oracles.withFacts (tbl : List (Text × Option Nat)) : Oracles :=
  { parseF64 := fun t => match tbl.lookup t with | some r => r | none => DecFloat.parseF64N t }

/-- what the external libraries say about one line -/
structure LineOracle where
  line : Text
  captures : Text → Option (List (Option Text))
  split : Text → List Text
  json : Option Json

inductive RegexResult where
  | captures (groups : List (Option Text))
  | split (fields : List Text)
  deriving Repr, Inhabited

/-- `ParsingInput`: `regex` is the `HashMap` as an association list, newest binding first (`insert` overwrites) -/
structure ParsingInput where
  regex : List (Text × RegexResult)
  json : Json

def buildResults (lo : LineOracle) : List Pattern → List (Text × RegexResult) → List (Text × RegexResult)
  | [], acc => acc
  | p :: ps, acc =>
    match p.mode with
    | .captures =>
      match lo.captures p.regex with
      | some gs => buildResults lo ps ((p.name, .captures gs) :: acc)
      | none => buildResults lo ps acc
    | .split => buildResults lo ps ((p.name, .split (lo.line :: lo.split p.regex)) :: acc)

/-- `ParsingInput::new` -/
def ParsingInput.new (d : TableDef) (lo : LineOracle) : ParsingInput :=
  { regex := buildResults lo d.patterns [],
    json := if d.anyJson then lo.json.getD .null else .null }

/-- `ValueType::parse` -/
def parseValue (o : Oracles) : VType → Text → Option Value
  | .int, s => (parseI64 s).map .int
  | .real, s => (o.parseF64 s).map .real
  | .bool, s => (parseBool s).map .bool
  | .text, s => some (.text s)
  | .array _, _ => none
  | .timestamp, s => parseTimestampLit s
  | .interval, s => parseInterval s

/-- `Captures::get(i).map(as_str)` / `Vec::get(i)` -/
def RegexResult.group (r : RegexResult) (i : Nat) : Option Text :=
  match r with
  | .captures gs => (gs[i]?).join
  | .split fs => fs[i]?

/-- `Value::from_option` -/
def fromOption : Option Value → Value
  | some v => v
  | none => .null

/-- `ColumnParsing::extract_using_regex` -/
def extractUsingRegex (o : Oracles) (ty : VType) (inp : ParsingInput) (r : Ref) (dflt : Value) : Value :=
  match inp.regex.lookup r.pattern with
  | some res =>
    if ty == .bool then .bool (res.group r.group).isSome
    else
      match res.group r.group with
      | some t => fromOption (parseValue o ty t)
      | none => dflt
  | none => dflt

/-- the seven local variables of the TIMESTAMP branch -/
structure TsParts where
  year : Int := 0
  month : Nat := 1
  day : Nat := 1
  hour : Nat := 0
  minute : Nat := 0
  second : Nat := 0
  micro : Nat := 0
  deriving Repr, Inhabited, DecidableEq

def fitsI32 (n : Int) : Bool := decide (-2147483648 ≤ n) && decide (n ≤ 2147483647)
def fitsU32 (n : Int) : Bool := decide (0 ≤ n) && decide (n ≤ 4294967295)

/-- one loop iteration of the TIMESTAMP branch: continue with new parts, or return a value -/
inductive TsStep where
  | cont (p : TsParts)
  | ret (v : Value)

def tsStep (o : Oracles) (c : Column) (inp : ParsingInput) (idx : Nat) (r : Ref) (p : TsParts) : TsStep :=
  match extractUsingRegex o .int inp r .null with
  | .int n =>
    if idx == 0 then
      if fitsI32 n then .cont { p with year := n } else .ret c.defaultValue
    else if !fitsU32 n then .ret c.defaultValue
    else
      let u := n.toNat
      match idx with
      | 1 => .cont { p with month := u }
      | 2 => .cont { p with day := u }
      | 3 => .cont { p with hour := u }
      | 4 => .cont { p with minute := u }
      | 5 => .cont { p with second := u }
      | 6 =>
        if c.options.microseconds then .cont { p with micro := u }
        else if u * 1000 ≤ 4294967295 then .cont { p with micro := u * 1000 }
        else .ret c.defaultValue
      | _ => .cont p
  | _ =>
    if idx == 1 then
      match extractUsingRegex o .text inp r .null with
      | .text t =>
        match monthOfName t with
        | some m => .cont { p with month := m }
        | none => .ret .null
      | _ => .ret .null
    else .ret .null

def tsLoop (o : Oracles) (c : Column) (inp : ParsingInput) : List Ref → Nat → TsParts → Value
  | [], _, p =>
    match mkTimestamp p.year p.month p.day p.hour p.minute p.second p.micro with
    | some t => t
    | none => c.defaultValue
  | r :: rs, idx, p =>
    match tsStep o c inp idx r p with
    | .ret v => v
    | .cont p' => tsLoop o c inp rs (idx + 1) p'

/-- `ColumnParsing::extract` -/
def extractColumn (o : Oracles) (c : Column) (inp : ParsingInput) : Value :=
  match c.parsing with
  | .regex r => extractUsingRegex o c.type inp r c.defaultValue
  | .multi rs =>
    match c.type with
    | .array e =>
      let vs := rs.map (fun r => extractUsingRegex o e inp r .null)
      if vs.any (fun v => !v.isNull) then .array e vs else c.defaultValue
    | .timestamp => tsLoop o c inp rs 0 {}
    | _ => c.defaultValue
  | .json a =>
    match a.getValue inp.json with
    | some v =>
      if c.options.convert then
        match v.asStr with
        | some s => fromOption (parseValue o c.type s)
        | none => .null
      else convertFromJson c.type v
    | none => c.defaultValue

/-- the TRIM step of `TableDefinition::extract` -/
def applyTrim (c : Column) (v : Value) : Value :=
  if c.options.trim then
    match v with
    | .text s => .text (trim s)
    | v => v
  else v

/-- value pushed for one column: extraction then TRIM -/
def columnValue (o : Oracles) (c : Column) (inp : ParsingInput) : Value :=
  applyTrim c (extractColumn o c inp)

/-- the column loop of `TableDefinition::extract`; `none` = the NOT NULL cut (`columns.clear(); break`) -/
def extractLoop (o : Oracles) (inp : ParsingInput) : List Column → Option (List Value)
  | [] => some []
  | c :: cs =>
    let v := columnValue o c inp
    if v.isNull && !c.options.nullable then none
    else
      match extractLoop o inp cs with
      | none => none
      | some vs => some (v :: vs)

/-- `TableDefinition::extract` given the parsing input: a cut row is empty -/
def extractWith (o : Oracles) (d : TableDef) (inp : ParsingInput) : List Value :=
  (extractLoop o inp d.columns).getD []

/-- `TableDefinition::extract(line)` -/
def extractRow (o : Oracles) (d : TableDef) (lo : LineOracle) : List Value :=
  extractWith o d (ParsingInput.new d lo)

/-- `Row::any_result` -/
def anyResult (row : List Value) : Bool := row.any (fun v => !v.isNull)

/-- a line is admitted (becomes a row for the engines) iff `extract(line).any_result()` -/
def admitted (o : Oracles) (d : TableDef) (lo : LineOracle) : Bool := anyResult (extractRow o d lo)

end Extract
end Sqlgrep
