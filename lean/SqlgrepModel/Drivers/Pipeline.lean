import SqlgrepModel.CodecStmt
import SqlgrepModel.Model.Pipeline
import SqlgrepModel.Model.PipelineFollow
import SqlgrepModel.Spec.Pipeline
import SqlgrepModel.Drivers.Lex
import SqlgrepModel.Drivers.ParseStmt
import SqlgrepModel.Drivers.Extract
import SqlgrepModel.Drivers.Print
/- Driver handler for the END-TO-END cases (kind `e2e`): raw texts, raw file bytes, all oracle tables.

  e2e xDEFS xQUERY FMT SINGLE (files xBYTES…) (fs (xPATH xBYTES)…) CLS NUMS (rx (xPATTERN 0|1)…)
      (lines (l xLINE (caps (xRE none|(G…))…) (splits (xRE xFIELD…)…) nojson|notjson|compute|(json J))…) (f64 (xTEXT BITS|none)…)
      (oracles …) (reals (BITS xFIXED2 xJSON)…)

  FMT = text | json | (csv xDELIM); SINGLE = 0|1 (display option `single_result`); CLS / NUMS as in kind `tok`
  (`lexcases::class_table` / `number_table` of both texts); G = none | xHEX; J as in kind `extract`; `oracles` as in
  kind `batch`; `reals` as in kind `print`.

answer (the same string `harness/src/e2e.rs` builds from the real run):
  `rejected defs|query perr L C KIND` | `rejected defs|query cerr L C KIND` | `not-create-table` | `not-a-query`
  | `ok total=N out=xLINE,…` | `err:KIND total=N out=xLINE,…` | `panic` | `skip WHAT`
  For the text format with SINGLE = 0 the answer of the end-to-end specification travels along where it answers:
  `MODEL ## SPEC ## CLASS` (`Spec/Pipeline.lean` `specText`; CLASS names the known deviation class or `e2e-spec-mismatch`).
  | `glue-mismatch …` when the text rendering of `Model/Exec.lean` and the printer model of `Model/Print.lean`
    disagree on the run (a self-check of the conversion `printCalls`; never equal to an implementation answer). -/
namespace Sqlgrep.Drivers.Pipeline
open Sqlgrep Sqlgrep.Pipeline

def textOf (s : Sexp) : Option (List Char) := s.bytes?.bind Utf8.decode

def capEntry? : Sexp → Option (Text × Option (List (Option Text)))
  | .list [re, .atom "none"] => re.bytes?.map (fun r => (r, none))
  | .list [re, .list gs] => do pure (← re.bytes?, some (← gs.mapM Drivers.Extract.groupOfSexp))
  | _ => none

def splitEntry? : Sexp → Option (Text × List Text)
  | .list (re :: fs) => do pure (← re.bytes?, ← fs.mapM Sexp.bytes?)
  | _ => none

def lineEntry? : Sexp → Option (Text × LineFacts)
  | .list [.atom "l", line, .list (.atom "caps" :: caps), .list (.atom "splits" :: splits), json] => do
    let j : Option (Option Json) ← match json with
      | .atom "nojson" => some (some none)
      | .atom "notjson" => some (some none)
      | .atom "compute" => some none
      | .list [.atom "json", j] => (Drivers.Extract.jsonOfSexp j).map (fun d => some (some d))
      | _ => none
    pure (← line.bytes?, { captures := ← caps.mapM capEntry?, splits := ← splits.mapM splitEntry?, json := j })
  | _ => none

def fsEntry? : Sexp → Option (String × List Nat)
  | .list [p, b] => do pure (← str? p, ← b.bytes?)
  | _ => none

def factsOf (cls nums rx lines f64 oracles reals fs : Sexp) : Option Facts := do
  let cls ← (← cls.list?).mapM Drivers.Lex.classEntry?
  let nums ← (← nums.list?).mapM Drivers.Lex.numEntry?
  let rx ← Drivers.ParseStmt.regexTable (← Drivers.Extract.section? "rx" rx)
  let lines ← (← Drivers.Extract.section? "lines" lines).mapM lineEntry?
  let f64 ← (← Drivers.Extract.section? "f64" f64).mapM Drivers.Extract.f64EntryOfSexp
  let ev ← Oracles.ofSexp oracles
  let reals ← (← Drivers.Extract.section? "reals" reals).mapM Drivers.Print.oracleEntry?
  let fs ← (← Drivers.Extract.section? "fs" fs).mapM fsEntry?
  pure { classes := cls, numbers := nums, regexValid := rx, lines := lines, f64 := f64, eval := ev, reals := reals, fs := fs }

def showParsed : Parsed → String
  | .lexError loc e => "perr " ++ Drivers.ParseStmt.showLoc loc ++ " " ++ Drivers.Lex.errName e
  | .parseError e => "perr " ++ Drivers.ParseStmt.showLoc e.loc ++ " " ++ Drivers.ParseStmt.renderKind e.kind
  | .convertError e => "cerr " ++ Drivers.ParseStmt.showLoc e.loc ++ " " ++ Drivers.ParseStmt.renderCKind e.kind
  | .stmt _ => "stmt"
  | .panic _ => "panic"
  | .fuel => "fuel"
  | .missing w => "missing " ++ w

def showLines (ls : List Print.Bytes) : String := ",".intercalate (ls.map Sexp.showBytes)

def showAnswer : Answer → String
  | .rejected .definitions p => "rejected defs " ++ showParsed p
  | .rejected .query p => "rejected query " ++ showParsed p
  | .notCreateTable => "not-create-table"
  | .notAQuery => "not-a-query"
  | .records none n ls => "ok total=" ++ toString n ++ " out=" ++ showLines ls
  | .records (some k) n ls => "err:" ++ k.name ++ " total=" ++ toString n ++ " out=" ++ showLines ls
  | .panic _ => "panic"
  | .skip w => "skip " ++ w

def showRunOut (ro : RunOut) : String :=
  (match ro.error with
    | some k => "err:" ++ k.name
    | none => "ok") ++ " total=" ++ toString ro.totalLines ++ " out=" ++ showLines (ro.printed.map strBytes)

/-- self-check of the glue between the engine's own text rendering and the printer model: for the text format and
`single_result = false` the lines of `Print.printAll` over the recorded calls must be `RunOut.printed` -/
def textConsistent (F : Facts) (defsText queryText : List Char) (files : List (List Nat)) : Bool :=
  match parseText (lexOracles F) (regexValidFn F) defsText, parseText (lexOracles F) (regexValidFn F) queryText with
  | .stmt defs, .stmt query =>
    match addTables defs, stmtOf query with
    | some tables, some (stmt, fromTable, join) =>
      match runStatement F tables stmt fromTable join files with
      | some t =>
        if t.out.skipped.isSome || t.out.panicked || !realsCover F t.calls then true
        else
          let calls := printCalls false t.calls
          calls.any (fun c => Print.resultPanics .text c.1) ||
            (Print.printAll (realOracle F) .text true calls).map Print.Line.bytes == t.out.printed.map strBytes
      | none => true
    | _, _ => true
  | _, _ => true

def handle (args : List Sexp) : String :=
  match args with
  | [defs, query, fmt, single, .list (.atom "files" :: files), fs, cls, nums, rx, lines, f64, oracles, reals] =>
    match textOf defs, textOf query, Drivers.Print.format? fmt, single.nat?, files.mapM Sexp.bytes?,
          factsOf cls nums rx lines f64 oracles reals fs with
    | some defs, some query, some fmt, some single, some files, some F =>
      let a := showAnswer (runText F defs query fmt (single != 0) files)
      if fmt == .text && !textConsistent F defs query files then "glue-mismatch text rendering: " ++ a
      else if fmt == .text && single == 0 then
        -- three-way comparison: the statement-level specifications on the extracted rows (`Spec/Pipeline.lean`)
        match Spec.Pipeline.specText F defs query files with
        | some (ro, cls) => a ++ " ## " ++ showRunOut ro ++ " ## " ++ (if cls.isEmpty then "e2e-spec-mismatch" else cls) ++
            (match Spec.Pipeline.predictedText F defs query files with
              | some pr => " ## " ++ showRunOut pr
              | none => "")
        | none => a
      else a
    | none, _, _, _, _, _ => "bad-defs"
    | _, none, _, _, _, _ => "bad-query"
    | _, _, none, _, _, _ => "bad-format"
    | _, _, _, none, _, _ => "bad-single"
    | _, _, _, _, none, _ => "bad-files"
    | _, _, _, _, _, none => "bad-facts"
  | _ => "bad-case"

/-! ### follow mode (kind `e2ef`)

  e2ef xDEFS xQUERY FMT HEAD xINITIAL (acts (I xCHUNK)…) CLS NUMS (rx …) (lines …) (f64 …) (oracles …) (reals …)
       (lossy (xLINE xTEXT)…)

  HEAD = 0|1 (`--head`); `xINITIAL` the file at start-up; one `(I xCHUNK)` per call of the retry hook of
  `FollowFileIterator`: `I` = 1 clears the `running` flag there, then `xCHUNK` is appended; after the last one the hook
  ends the iteration. `lossy`: `String::from_utf8_lossy` of the complete lines that are not valid UTF-8.
answer: `rejected …` | `not-create-table` | `not-a-query` | `ok out=ITEM,…` | `err:KIND out=ITEM,…` | `panic` | `skip WHAT`
  with ITEM = `C` (the screen is cleared) or `xLINE` (one printed line); `JoinNotSupported` is `err:JoinNotSupported out=`. -/

def lossyEntry? : Sexp → Option (List Nat × List Nat)
  | .list [a, b] => do pure (← a.bytes?, ← b.bytes?)
  | _ => none

def actEntry? : Sexp → Option (Bool × List Nat)
  | .list [i, c] => do pure ((← i.nat?) != 0, ← c.bytes?)
  | _ => none

/-- the terminal is a byte stream: a printed line whose text contains a line feed (a TEXT value from a JSON escape)
cannot be told from two printed lines, so the answer is cut at every line feed, as the harness cuts the captured stdout -/
def cutAtNl (cur : List Nat) : List Nat → List (List Nat)
  | [] => [cur.reverse]
  | b :: bs => if b = 10 then cur.reverse :: cutAtNl [] bs else cutAtNl (b :: cur) bs

def showItems (ws : List TermItem) : String :=
  ",".intercalate (ws.flatMap (fun w => match w with
    | .clear => ["C"]
    | .line bs => (cutAtNl [] bs).map Sexp.showBytes))

def showFollowAnswer : FollowAnswer → String
  | .rejected .definitions p => "rejected defs " ++ showParsed p
  | .rejected .query p => "rejected query " ++ showParsed p
  | .notCreateTable => "not-create-table"
  | .notAQuery => "not-a-query"
  | .ran none ws => "ok out=" ++ showItems ws
  | .ran (some k) ws => "err:" ++ k.name ++ " out=" ++ showItems ws
  | .joinNotSupported => "err:JoinNotSupported out="
  | .panic _ => "panic"
  | .skip w => "skip " ++ w

def handleFollow (args : List Sexp) : String :=
  match args with
  | [defs, query, fmt, head, initial, .list (.atom "acts" :: acts), cls, nums, rx, lines, f64, oracles, reals, lossy] =>
    match textOf defs, textOf query, Drivers.Print.format? fmt, head.nat?, initial.bytes?, acts.mapM actEntry?,
          factsOf cls nums rx lines f64 oracles reals (.list [.atom "fs"]),
          (Drivers.Extract.section? "lossy" lossy).bind (fun l => l.mapM lossyEntry?) with
    | some defs, some query, some fmt, some head, some initial, some acts, some F, some lossy =>
      showFollowAnswer (followDriven { F with lossy := lossy } defs query fmt (head != 0) initial acts)
    | _, _, _, _, _, _, _, _ => "bad-case"
  | _ => "bad-case"

end Sqlgrep.Drivers.Pipeline
